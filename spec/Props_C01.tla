------------------------------ MODULE Props_C01 -----------------------------
(***************************************************************************)
(* C01 - tags are transparent: one source evaluates to its plain-YAML       *)
(* content.  `Erase(doc)` is the declarative reading of the tag-free        *)
(* document (what yaml.load yields: same keys, element order, atoms with    *)
(* their types); the harness cross-checks it against PyYAML itself on the   *)
(* tag-erased text of every case.                                           *)
(***************************************************************************)
EXTENDS AyMerge, AyUniverse, SequencesExt

RECURSIVE C01_Vocabulary(_)
C01_Vocabulary(sd) ==
    /\ sd.k \in {"dict", "list", "scalar"}
    /\ sd.anew # "F"                                   \* !notnew is by design an error in a first document
    /\ \A i \in 1..Len(sd.ch) : C01_Vocabulary(sd.ch[i][2])

\* tree: the parsed (single-stage) tree; data: the evaluated config as plain data
C01_Holds(docs, outs, data) ==
    (Len(docs) = 1 /\ docs[1].k = "dict" /\ C01_Vocabulary(docs[1]) /\ Len(outs) = 1) =>
        /\ ~IsErr(outs[1]) /\ DataOf(outs[1]) = Erase(docs[1])
        /\ data.k # "none" => data = Erase(docs[1])

\* every container holds each YAML child exactly once, in order (the loader's deferred
\* construction must not fill a wrapped container twice): same keys in the same order
RECURSIVE C01_FilledOnce(_, _)
C01_FilledOnce(sd, n) ==
    /\ Len(n.ch) = Len(sd.ch)
    /\ \A i \in 1..Len(sd.ch) : n.ch[i][1] = sd.ch[i][1] /\ C01_FilledOnce(sd.ch[i][2], n.ch[i][2])

----------------------------------------------------------------------------
C01_KA == SKey("a")  C01_KB == SKey("b")  C01_KU == SKey("_u")
C01_Atoms == {Atom("i", "1"), Atom("s", "x"), Atom("f", "2.5"), Atom("b", "T"), Atom("n", ""), Atom("i", "0"), Atom("s", ""),
              Atom("s", "8080"), Atom("s", "808"), Atom("s", "true"), Atom("s", "null")}     \* strings that look like other types
C01_Md(sd) == [sd EXCEPT !.form = "md", !.md = {<<"m", Atom("i", "1")>>}]
C01_MdF(sd) == [sd EXCEPT !.form = "md", !.md = {<<"m", Atom("i", "1")>>}, !.pr = 1, !.del = "T"]   \* several flags at once
C01_Tags == {"none", "force", "weak", "del", "merge", "new", "unsafe"}
C01_TagAll(S) == TagAll(S, C01_Tags) \cup {C01_Md(x) : x \in S} \cup {C01_MdF(x) : x \in S}

\* flat: every key type (str, '_'-prefixed str, int, float) x every scalar type / empty and small containers x every tag
C01_Small == {SD("dict", NoVal, <<>>), SD("list", NoVal, <<>>),
              SD("list", NoVal, <<<<IKey(0), SD("scalar", Atom("i", "1"), <<>>)>>, <<IKey(1), SD("scalar", Atom("s", "x"), <<>>)>>>>),
              SD("dict", NoVal, <<<<C01_KU, SD("scalar", Atom("i", "1"), <<>>)>>>>)}
C01_V1 == C01_TagAll(Leaves(C01_Atoms) \cup C01_Small)
C01_Flat == UNION { {SD("dict", NoVal, <<<<k1, v>>>>) : v \in C01_V1} : k1 \in {C01_KA, C01_KU, IKey(0), FKey("1.5")} }
C01_FlatDocs == C01_Flat \cup {WithTag(d, t) : d \in C01_Flat, t \in {"force", "unsafe", "del"}} \cup {C01_Md(d) : d \in C01_Flat}

\* deep: a -> b -> c chains with a tag at any level, lists and mappings two / three levels below a tag
C01_L3 == {SD("scalar", Atom("i", "1"), <<>>),
           SD("list", NoVal, <<<<IKey(0), SD("scalar", Atom("i", "1"), <<>>)>>, <<IKey(1), SD("scalar", Atom("i", "2"), <<>>)>>>>),
           SD("dict", NoVal, <<<<C01_KA, SD("list", NoVal, <<<<IKey(0), SD("scalar", Atom("i", "1"), <<>>)>>>>)>>>>),
           SD("list", NoVal, <<<<IKey(0), SD("list", NoVal, <<<<IKey(0), SD("scalar", Atom("i", "1"), <<>>)>>>>)>>>>)}
C01_DTags == {"none", "force", "merge", "unsafe", "del"}
C01_L2 == TagAll(C01_L3, C01_DTags) \cup
          TagAll({SD("dict", NoVal, <<<<C01_KB, x>>>>) : x \in TagAll(C01_L3, {"none", "weak"})}, C01_DTags) \cup
          TagAll({SD("list", NoVal, <<<<IKey(0), x>>>>) : x \in C01_L3}, C01_DTags)
C01_L1 == TagAll({SD("dict", NoVal, <<<<C01_KA, x>>>>) : x \in C01_L2}, C01_DTags) \cup {C01_Md(SD("dict", NoVal, <<<<C01_KA, x>>>>)) : x \in C01_L2}
C01_DeepDocs == TagAll({SD("dict", NoVal, <<<<C01_KA, x>>>>) : x \in C01_L1}, {"none", "force", "unsafe"})

\* several NULL entries in one container (the renderer writes untagged nulls as empty entries `a:` / `-` in half of the
\* documents: the loader's node memo then sees the very same Python None more than once), the container or the document tagged
C01_N == SD("scalar", Atom("n", ""), <<>>)
C01_NullKids == {SD("dict", NoVal, <<<<C01_KA, C01_N>>, <<C01_KB, C01_N>>>>),
                 SD("dict", NoVal, <<<<C01_KA, C01_N>>, <<C01_KB, SD("scalar", Atom("i", "1"), <<>>)>>, <<C01_KU, C01_N>>>>),
                 SD("list", NoVal, <<<<IKey(0), C01_N>>, <<IKey(1), C01_N>>>>),
                 SD("list", NoVal, <<<<IKey(0), C01_N>>, <<IKey(1), SD("scalar", Atom("i", "1"), <<>>)>>, <<IKey(2), C01_N>>>>),
                 SD("dict", NoVal, <<<<C01_KA, C01_N>>, <<C01_KB, SD("list", NoVal, <<<<IKey(0), C01_N>>, <<IKey(1), C01_N>>>>)>>>>)}
C01_NullDocs == UNION { {SD("dict", NoVal, <<<<C01_KA, v>>>>), SD("dict", NoVal, <<<<C01_KA, v>>, <<C01_KB, C01_N>>, <<IKey(0), C01_N>>>>)}
                        : v \in C01_TagAll(C01_NullKids) }
                \cup C01_TagAll(C01_NullKids \ {x \in C01_NullKids : x.k = "list"})          \* the document itself tagged
                \cup {SD("dict", NoVal, <<<<C01_KA, WithTag(SD("dict", NoVal, <<<<C01_KB, v>>, <<C01_KA, C01_N>>>>), t)>>>>)
                        : v \in C01_NullKids, t \in {"force", "merge"}}                             \* two levels below a tag

C01_DocsQ == SetToSeq(C01_Flat \cup {d \in C01_DeepDocs : d.form = "none"} \cup C01_NullDocs)
C01_Docs  == SetToSeq(C01_FlatDocs \cup C01_DeepDocs \cup C01_NullDocs)

\* two keys at the top level (all pairs of key kinds) over a smaller value set
C01_V2 == TagAll(Leaves({Atom("i", "1"), Atom("n", "")}) \cup {SD("list", NoVal, <<<<IKey(0), SD("scalar", Atom("i", "1"), <<>>)>>>>)},
                 {"none", "force", "del", "unsafe"})
C01_Docs2 == SetToSeq(TagAll(MapsOverMax(<<C01_KA, C01_KU, IKey(0), FKey("1.5")>>, C01_V2, 2), {"none", "merge", "unsafe"}))     \* (all four keys at once: 85,683 documents, two hours of TLC)

=============================================================================
