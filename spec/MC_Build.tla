------------------------------- MODULE MC_Build -----------------------------
(***************************************************************************)
(* Model-checking root for the properties decided on the builder state      *)
(* machine: every property is an invariant over the history (documents      *)
(* added) and the accumulated tree after each stage.                        *)
(***************************************************************************)
EXTENDS AyBuild, Props_C02

HistDocs  == [i \in 1..Len(hist) |-> hist[i].sd]
HistSafes == [i \in 1..Len(hist) |-> hist[i].safe]

Inv_C02          == C02_Holds(HistDocs, accs)
Inv_C02_NoKeyLost == C02_NoKeyLost(HistDocs, accs)
Inv_C02_Frame    == C02_Frame(HistDocs, accs)

\* behaviours for replay: one JSON line per terminal state
CompactOut(r) == IF IsErr(r) THEN [e |-> r.err] ELSE Compact(DataOf(r))

Emit == Terminal => PrintT(ToJson([h |-> [i \in 1..Len(hist) |-> hist[i].i],
                                   s |-> HistSafes,
                                   x |-> [j \in 1..Len(accs) |-> CompactOut(accs[j])]]))

\* the universe, printed once at start-up (documents are referred to by index)
ASSUME PrintT(ToJson([universe |-> Docs]))

\* universe sizes, printed once (ASSUME is evaluated at start-up)
=============================================================================
