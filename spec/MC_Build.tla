------------------------------- MODULE MC_Build -----------------------------
(***************************************************************************)
(* Model-checking root for the properties decided on the builder state      *)
(* machine: every property is an invariant over the history (documents      *)
(* added) and the accumulated tree after each stage.                        *)
(***************************************************************************)
EXTENDS AyBuild, Props_C01, Props_C02, Props_C03, Props_C04, Props_C05, Props_C08, Props_C14, Props_C15, Props_C16

HistDocs  == [i \in 1..Len(hist) |-> hist[i].sd]
HistSafes == [i \in 1..Len(hist) |-> hist[i].safe]

CompactOut(r) == IF IsErr(r) THEN [e |-> r.err] ELSE CompactN(r)

\* an invariant that, when refuted, also prints the refuting history as JSON
\* (documents + outcome after each stage) so that the harness can show it as YAML
Check(name, ok) ==
    ok \/ (PrintT(ToJson([cex |-> name, docs |-> HistDocs,
                          x |-> [j \in 1..Len(accs) |-> CompactOut(accs[j])]])) /\ FALSE)

Inv_C01 == Check("Inv_C01", C01_Holds(HistDocs, accs, Plain("none", NoVal, <<>>))
                              /\ (Len(accs) = 1 /\ ~IsErr(accs[1]) /\ C01_Vocabulary(HistDocs[1]) => C01_FilledOnce(HistDocs[1], accs[1])))

Inv_C02          == Check("Inv_C02", C02_Holds(HistDocs, accs))
Inv_C02_NoKeyLost == Check("Inv_C02_NoKeyLost", C02_NoKeyLost(HistDocs, accs))
Inv_C02_Frame    == Check("Inv_C02_Frame", C02_Frame(HistDocs, accs))

Inv_C03 == Check("Inv_C03", C03_Holds(HistDocs, accs))
\* the antecedent is reachable: some 3-stage history inside the domain has
\* writers of three different priorities at one path (checked as ~Witness)
C03_Witness == /\ phase = "done" /\ Len(hist) >= 2 /\ C03_InDomain(HistDocs)
               /\ \E p \in C03_AllPaths(HistDocs, Len(hist)) :
                      Cardinality({C03_SPr(HistDocs[j], p, 0) : j \in C03_Writers(HistDocs, Len(hist), p)}) >= 2

Inv_C04 == Check("Inv_C04", C04_Holds(HistDocs, accs))
C04_Witness == phase = "done" /\ C04_Judged(HistDocs, accs)

Inv_C05_Wrap    == Check("Inv_C05_Wrap", Terminal => C05_ModelWrap(HistDocs, accs))
Inv_C05_Sibling == Check("Inv_C05_Sibling", Terminal => C05_ModelSibling(HistDocs, accs))
Inv_C05_Frame   == Check("Inv_C05_Frame", C05_Frame(HistDocs, accs))

Inv_C08 == Check("Inv_C08", C08_Holds(HistDocs, accs))
Inv_C08_Names == Check("Inv_C08_Names", C08_ModelNames(HistDocs, accs))

Inv_C14 == Check("Inv_C14", C14_Holds(accs, [status |-> built.status, paths |-> built.paths, calls |-> 0]))
Inv_C14_Survivors == Check("Inv_C14_Survivors", phase = "constructed" => C14_Survivors(HistDocs, acc))
C14_Witness == phase = "constructed" /\ Len(hist) >= 2 /\ built.status = "RequiredError" /\ Len(built.paths) >= 2

Inv_C15 == Check("Inv_C15", Terminal => C15_ModelLaws(HistDocs, acc))

Inv_C16 == Check("Inv_C16", C16_Holds(HistDocs, accs))
C16_Witness == phase = "constructed" /\ C16_Judged(HistDocs, accs)

\* behaviours for replay: one JSON line per terminal state
Emit == Terminal => PrintT(ToJson([h |-> [i \in 1..Len(hist) |-> hist[i].i],
                                   s |-> HistSafes,
                                   x |-> [j \in 1..Len(accs) |-> CompactOut(accs[j])],
                                   v |-> IF IsErr(acc) \/ acc.k = "nothing" THEN <<>> ELSE Compact(DataOf(acc)),
                                   c |-> [status |-> built.status,
                                          paths |-> [i \in 1..Len(built.paths) |-> [j \in 1..Len(built.paths[i]) |-> KeyStr(built.paths[i][j])]]]]))


\* universe sizes, printed once (ASSUME is evaluated at start-up)
=============================================================================
