------------------------------- MODULE MC_Build -----------------------------
(***************************************************************************)
(* Model-checking root for the properties decided on the builder state      *)
(* machine: every property is an invariant over the history (documents      *)
(* added) and the accumulated tree after each stage.                        *)
(***************************************************************************)
EXTENDS AyBuild, Props_C02, Props_C03

HistDocs  == [i \in 1..Len(hist) |-> hist[i].sd]
HistSafes == [i \in 1..Len(hist) |-> hist[i].safe]

Inv_C02          == C02_Holds(HistDocs, accs)
Inv_C02_NoKeyLost == C02_NoKeyLost(HistDocs, accs)
Inv_C02_Frame    == C02_Frame(HistDocs, accs)

Inv_C03 == C03_Holds(HistDocs, accs)
\* the antecedent is reachable: some 3-stage history inside the domain has
\* writers of three different priorities at one path (checked as ~Witness)
C03_Witness == /\ phase = "done" /\ Len(hist) >= 2 /\ C03_InDomain(HistDocs)
               /\ \E p \in C03_AllPaths(HistDocs, Len(hist)) :
                      Cardinality({C03_SPr(HistDocs[j], p, 0) : j \in C03_Writers(HistDocs, Len(hist), p)}) >= 2

\* behaviours for replay: one JSON line per terminal state
CompactOut(r) == IF IsErr(r) THEN [e |-> r.err] ELSE CompactN(r)

Emit == Terminal => PrintT(ToJson([h |-> [i \in 1..Len(hist) |-> hist[i].i],
                                   s |-> HistSafes,
                                   x |-> [j \in 1..Len(accs) |-> CompactOut(accs[j])]]))

\* the universe, printed once at start-up (documents are referred to by index)
ASSUME PrintT(ToJson([universe |-> Docs]))

\* universe sizes, printed once (ASSUME is evaluated at start-up)
=============================================================================
