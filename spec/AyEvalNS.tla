------------------------------ MODULE AyEvalNS ------------------------------
(***************************************************************************)
(* C12 - the name-resolution machine of !eval / f-string nodes.             *)
(*                                                                         *)
(* Shaped after awesomeyaml/nodes/eval.py (EvalNode.ayns.on_evaluate_impl, *)
(* GlobalsWrapper), nodes/fstr.py (an f-string node is an eval node with   *)
(* persistent_namespace = False) and eval_context.py (eval symbols).       *)
(*                                                                         *)
(* One PROCESS holds: the eval modules registered in sys.modules (keyed by *)
(* node path + md5 of the code, eval.py:90-91), the class-level default    *)
(* symbols (eval_context.py:71).  One BUILD (Config.build of one document  *)
(* with one !eval / f-string node under the key r) holds: the config, the  *)
(* symbols given to its EvalContext, the dict the code runs in (`gbls`).   *)
(*                                                                         *)
(* A PROGRAM is not interpreted here.  It is a descriptor derived from     *)
(* CPython by harness/evalns.py: `events` = the sequence of global-name    *)
(* operations the code performs when every name is defined                 *)
(*     [op |-> "def"/"defs", names]   the code binds names (STORE_NAME)    *)
(*     [op |-> "use", name, scope]    the code looks a name up             *)
(*     [op |-> "raise", name]         the code raises exception `name`     *)
(*     [op |-> "ayns", name]          the code reads ayns.cfg.<name>       *)
(* each with phase "exec" (all lines but the last, eval.py:112,120) or     *)
(* "eval" (the last line, eval.py:113,121); `cos` = per code object the    *)
(* facts the bytecode rewriter (eval.py:152-330) depends on.  What the     *)
(* skeleton computes from the resolved names is CPython's business: the    *)
(* harness executes it natively with the values this module resolves.      *)
(*                                                                         *)
(* Deviation switches (TRUE = what the pinned tree does on CPython 3.12):  *)
(*   ModuleCacheKeepsCtx  eval.py:94-96   a registered module's dict is    *)
(*                        reused: first build's symbols / ctx stay visible *)
(*   BytecodePatch312     eval.py:194,209,218,242-266,295  the rewriter    *)
(*                        assumes pre-3.11 encodings                       *)
(*   NoFilenameCompile    eval.py:116-117 compile(.., None, ..)            *)
(* Mutations (never the pinned behaviour; each must be refuted):           *)
(*   BuiltinBeforeCfg     builtins consulted before the config entries     *)
(*   SymbolsLeak          EvalContext.__init__ updates the class-level     *)
(*                        default symbol table instead of a copy           *)
(***************************************************************************)
EXTENDS Naturals, Sequences, FiniteSets, TLC

CONSTANTS ModuleCacheKeepsCtx, BytecodePatch312, NoFilenameCompile, BuiltinBeforeCfg, SymbolsLeak,
          Prog(_)      \* the program table: index -> descriptor (the state holds indices only)

VARIABLE st     \* the whole machine state as one record (so that it can be instantiated several times)

ToSetS(s) == {s[i] : i \in 1..Len(s)}

----------------------------------------------------------------------------
\* values: where a name's value comes from (the harness makes them concrete: "cfg1:va", "sym2:va", "own:va", <built-in max>)
Val(src, ver, name) == [src |-> src, ver |-> ver, name |-> name]
Undef          == Val("undef", 0, "")
OwnVal(n)      == Val("own", 0, n)
SymVal(n, v)   == Val("sym", v, n)
CfgVal(n, v)   == Val("cfg", v, n)
BuiltinVal(n)  == Val("builtin", 0, n)

\* a table (config entries / symbols) is a function name -> version; absent names are not in its domain
EmptyTable == [n \in {} |-> 0]
ValTable(t, mk(_, _)) == [n \in DOMAIN t |-> mk(n, t[n])]

IsBuiltin(p, n) == n \in ToSetS(p.builtins) \cup ToSetS(p.bn)

Outcome(kind, cause, arg, log) == [kind |-> kind, cause |-> cause, arg |-> arg, log |-> log]
NoOutcome   == Outcome("none", "", "", <<>>)
Unspecified == Outcome("unspecified", "", "", <<>>)     \* undefined behaviour: crash, wrong value, any error

NoBuild == [prog |-> 0, cfg |-> EmptyTable, syms |-> EmptyTable, file |-> TRUE, id |-> 0]

InitState ==
    [modcache   |-> [k \in {} |-> 0],   \* sys.modules: key -> [ns, ayns]
     defsyms    |-> EmptyTable,         \* EvalContext._default_eval_symbols
     poisoned   |-> FALSE,              \* an earlier build had undefined behaviour
     nb         |-> 0,                  \* builds started in this process
     cur        |-> NoBuild,
     ns         |-> [n \in {} |-> Undef],   \* gbls: name -> value (symbols, then the code's own definitions)
     ayns       |-> [id |-> 0, cfg |-> EmptyTable],   \* the ctx / ecfg the name `ayns` refers to
     fromModule |-> FALSE,
     pc         |-> "idle",
     evi        |-> 1,
     log        |-> <<>>,               \* resolutions of this build: [evi, name, val, scope, phase]
     outcome    |-> NoOutcome,
     fired      |-> {}]                 \* deviation switches that took their branch in this build

Init == st = InitState

----------------------------------------------------------------------------
\* BytecodePatch312: when is the rewritten code object what CPython >= 3.12 expects?  (facts per code object from dis)
\*  ldIdx : name indices of the LOAD_NAME / LOAD_GLOBAL instructions that are rewritten into
\*          LOAD wrapper; LOAD_ATTR idx  - eval.py:218 writes idx unshifted, 3.12 reads (idx >> 1, method bit)
\*  ext   : EXTENDED_ARG present - eval.py:194,209 read / write one operand byte
\*  nnames: the wrapper name is appended to co_names - its index must fit one byte (shifted for LOAD_GLOBAL)
\*  jmp   : a relative jump whose recomputed operand (eval.py:242-266, anchored at the jump itself instead of
\*          the instruction after it and its caches) does not land on the image of its target, or exceeds a byte
\*  exc   : co_exceptiontable is copied unchanged (eval.py:295) although an instruction before one of its
\*          boundaries grew
CoSafe(c) == Len(c.ldIdx) = 0 \/
             /\ \A i \in 1..Len(c.ldIdx) : c.ldIdx[i] = 0
             /\ ~c.ext /\ ~c.jmp /\ ~c.exc
             /\ c.nnames + 1 <= (IF c.glob THEN 127 ELSE 255)
PatchSafe(p) == \A i \in 1..Len(p.cos) : CoSafe(p.cos[i])

----------------------------------------------------------------------------
Key(pi) == pi           \* eval.py:90-91: path of the node (always r) + md5 of the code = identity of the program text
CurProg == Prog(st.cur.prog)

\* Config.build(document with config c and the program Prog(pi) under r, filename = f, eval_ctx = EvalContext(s))
\* up to the point where user code starts: eval_context.py:84-86, eval.py:89-119
Build(pi, c, s, f) ==
    /\ st.pc = "idle"
    /\ LET p    == Prog(pi)
           syms == s @@ st.defsyms                       \* copy of the defaults updated with the given symbols
           hit  == ModuleCacheKeepsCtx /\ p.persistent /\ Key(pi) \in DOMAIN st.modcache      \* eval.py:94
           id   == st.nb + 1
           base == [st EXCEPT !.nb = id,
                              !.defsyms = IF SymbolsLeak THEN syms ELSE @,
                              !.cur = [prog |-> pi, cfg |-> c, syms |-> s, file |-> f, id |-> id],
                              !.fromModule = hit,
                              !.ns = IF hit THEN st.modcache[Key(pi)].ns                     \* eval.py:95
                                     ELSE ValTable(syms, SymVal),                            \* eval.py:98-105
                              !.ayns = IF hit THEN st.modcache[Key(pi)].ayns ELSE [id |-> id, cfg |-> c],
                              !.evi = 1, !.log = <<>>, !.outcome = NoOutcome,
                              !.fired = IF hit THEN {"ModuleCacheKeepsCtx"} ELSE {}]
       IN IF st.poisoned
          THEN st' = [base EXCEPT !.pc = "done", !.outcome = Unspecified, !.fired = {"BytecodePatch312"}]
          ELSE IF NoFilenameCompile /\ ~f                                                    \* eval.py:116-117
          THEN st' = [base EXCEPT !.pc = "done", !.outcome = Outcome("EvalError", "TypeError", "compile", <<>>),
                                  !.fired = @ \cup {"NoFilenameCompile"}]
          ELSE IF BytecodePatch312 /\ ~PatchSafe(p)                                          \* eval.py:118-121
          THEN st' = [base EXCEPT !.pc = "done", !.outcome = Unspecified, !.poisoned = TRUE,
                                  !.fired = @ \cup {"BytecodePatch312"}]
          ELSE st' = [base EXCEPT !.pc = "exec"]

\* GlobalsWrapper.__getattr__, eval.py:36-46; the same for every scope the lookup is made from
Resolve(n) ==
    IF n \in DOMAIN st.ns THEN st.ns[n]                                          \* own definition or symbol (one dict)
    ELSE IF BuiltinBeforeCfg /\ IsBuiltin(CurProg, n) THEN BuiltinVal(n)
    ELSE IF n \in DOMAIN st.cur.cfg THEN CfgVal(n, st.cur.cfg[n])                \* evaluated top-level entry
    ELSE IF IsBuiltin(CurProg, n) THEN BuiltinVal(n)
    ELSE Undef                                                                   \* NameError

\* a registered module's dict IS gbls of every later build that hits it (eval.py:95): keep the alias up to date
Alias(mc) == IF st.fromModule THEN [mc EXCEPT ![Key(st.cur.prog)].ns = st.ns] ELSE mc

\* an exception leaves the user code: eval.py:129-131 (or 122-128) => EvalError(...) from e
RaiseUser(exc, arg) ==
    st' = [st EXCEPT !.pc = "done", !.outcome = Outcome("EvalError", exc, arg, st.log), !.modcache = Alias(@)]

DoEvent(e) ==
    CASE e.op \in {"def", "defs"} ->
            st' = [st EXCEPT !.ns = [n \in ToSetS(e.names) |-> OwnVal(n)] @@ @, !.evi = @ + 1]
      [] e.op = "use" ->
            LET v == Resolve(e.name)
            IN IF v = Undef THEN RaiseUser("NameError", e.name)
               ELSE st' = [st EXCEPT !.evi = @ + 1,
                                     !.log = Append(@, [evi |-> st.evi, name |-> e.name, val |-> v, scope |-> e.scope, phase |-> e.phase, via |-> "name"])]
      [] e.op = "ayns" ->                                              \* eval.py:99-102: gbls['ayns'].cfg is ctx.ecfg of the build that made gbls
            IF e.name \in DOMAIN st.ayns.cfg
            THEN st' = [st EXCEPT !.evi = @ + 1,
                                  !.log = Append(@, [evi |-> st.evi, name |-> e.name, val |-> CfgVal(e.name, st.ayns.cfg[e.name]),
                                                     scope |-> e.scope, phase |-> e.phase, via |-> "ayns"])]
            ELSE RaiseUser("KeyError", e.name)                         \* eval_context.py:41-44
      [] e.op = "raise" -> RaiseUser(e.name, "")

HasEvent(phase) == st.evi <= Len(CurProg.events) /\ CurProg.events[st.evi].phase = phase

\* exec(all lines but the last, gbls), eval.py:120 - one name operation per step
ExecLines ==
    /\ st.pc = "exec"
    /\ IF HasEvent("exec") THEN DoEvent(CurProg.events[st.evi]) ELSE st' = [st EXCEPT !.pc = "eval"]

\* eval(last line, gbls), eval.py:121
EvalLast ==
    /\ st.pc = "eval"
    /\ HasEvent("eval")
    /\ DoEvent(CurProg.events[st.evi])

\* eval.py:133-143: the value is returned; multi-line code registers its namespace as a module
Return ==
    /\ st.pc = "eval"
    /\ ~HasEvent("eval")
    /\ LET p == CurProg
       IN st' = [st EXCEPT !.pc = "done", !.outcome = Outcome("value", "", "", st.log),
                           !.modcache = IF p.multiline /\ p.persistent /\ ~st.fromModule                \* eval.py:135-138
                                        THEN (Key(st.cur.prog) :> [ns |-> st.ns, ayns |-> st.ayns]) @@ @
                                        ELSE Alias(@)]

\* the caller has seen the outcome
EndBuild == st.pc = "done" /\ st' = [st EXCEPT !.pc = "idle"]

Run == ExecLines \/ EvalLast \/ Return

----------------------------------------------------------------------------
\* The property, declaratively: what Python computes for build b = [prog, cfg, syms, ..] - a function of b ALONE.
\* A name resolves to: a definition made by the code itself, a symbol, the config entry, a builtin (in this order).
Chain(b, n, defd) ==
    IF n \in defd THEN OwnVal(n)
    ELSE IF n \in DOMAIN b.syms THEN SymVal(n, b.syms[n])
    ELSE IF n \in DOMAIN b.cfg THEN CfgVal(n, b.cfg[n])
    ELSE IF IsBuiltin(Prog(b.prog), n) THEN BuiltinVal(n)
    ELSE Undef

RECURSIVE WantFrom(_, _, _, _)
WantFrom(b, i, defd, lg) ==
    IF i > Len(Prog(b.prog).events) THEN Outcome("value", "", "", lg)
    ELSE LET e == Prog(b.prog).events[i]
         IN CASE e.op \in {"def", "defs"} -> WantFrom(b, i + 1, defd \cup ToSetS(e.names), lg)
              [] e.op = "use" ->
                    LET v == Chain(b, e.name, defd)
                    IN IF v = Undef THEN Outcome("EvalError", "NameError", e.name, lg)
                       ELSE WantFrom(b, i + 1, defd, Append(lg, [evi |-> i, name |-> e.name, val |-> v, scope |-> e.scope, phase |-> e.phase, via |-> "name"]))
              [] e.op = "ayns" ->          \* ayns.cfg is THIS build's (evaluated) config
                    IF e.name \in DOMAIN b.cfg
                    THEN WantFrom(b, i + 1, defd, Append(lg, [evi |-> i, name |-> e.name, val |-> CfgVal(e.name, b.cfg[e.name]),
                                                              scope |-> e.scope, phase |-> e.phase, via |-> "ayns"]))
                    ELSE Outcome("EvalError", "KeyError", e.name, lg)
              [] e.op = "raise" -> Outcome("EvalError", e.name, "", lg)
Want(b) == WantFrom(b, 1, {}, <<>>)

DefsBefore(p, i) == UNION {ToSetS(p.events[j].names) : j \in {k \in 1..(i - 1) : p.events[k].op \in {"def", "defs"}}}

\* every name the code has looked up so far got the first hit of the chain
ResolveOrder ==
    (st.pc # "idle" /\ st.outcome.kind # "unspecified") =>
        \A i \in 1..Len(st.log) :
            IF st.log[i].via = "name"
            THEN st.log[i].val = Chain(st.cur, st.log[i].name, DefsBefore(CurProg, st.log[i].evi))
            ELSE st.log[i].name \in DOMAIN st.cur.cfg /\ st.log[i].val = CfgVal(st.log[i].name, st.cur.cfg[st.log[i].name])

\* all but the last line are executed before the last line is evaluated
ExecEvalSplit ==
    /\ st.pc = "exec" => \A i \in 1..Len(st.log) : st.log[i].phase = "exec"
    /\ \A i, j \in 1..Len(st.log) : (i < j /\ st.log[i].phase = "eval") => st.log[j].phase = "eval"

\* an exception in user code - and nothing else - surfaces as EvalError carrying that exception
UserError ==
    st.pc = "done" =>
        LET w == Want(st.cur)
        IN /\ (st.outcome.kind = "EvalError") <=> (w.kind = "EvalError")
           /\ w.kind = "EvalError" => (st.outcome.cause = w.cause /\ st.outcome.arg = w.arg)

NoCrash == st.pc = "done" => st.outcome.kind \in {"value", "EvalError"}

\* the whole statement for one build: the outcome is what Python computes for (program, config, symbols)
ComputesPython == st.pc = "done" => st.outcome = Want(st.cur)

=============================================================================
