------------------------------- MODULE MC_Func ------------------------------
(***************************************************************************)
(* Model-checking root for the argument-passing half of C13.  The life of   *)
(* one function node:                                                       *)
(*    Write(kind, sig, form, keys)   the author writes `!call:f {..}` /     *)
(*                                   `!bind:f [..]` / `!call f` (yaml.py:   *)
(*                                   315-346 -> FunctionNode.__init__)      *)
(*    Resolve                        FunctionNode._resolve_args             *)
(*    Invoke                         _func( *p, **kw_p, **kw) or partial(..) *)
(* TLC enumerates every signature of Sigs x every subset of Keys (x the     *)
(* list / scalar / name-only forms) and checks the three properties in      *)
(* every state; every terminal state is printed for replay.                 *)
(***************************************************************************)
EXTENDS AyFunc, Json

VARIABLES phase, kind, sg, form, args, res, out
vars == <<phase, kind, sg, form, args, res, out>>

\* ---- the universe -------------------------------------------------------
Sigs == <<
    <<Par("a", "pos", FALSE), Par("b", "pos", FALSE)>>,                                            \* 1 f(a, b)
    <<Par("a", "pos", FALSE), Par("b", "pos", TRUE), Par("c", "pos", TRUE)>>,                      \* 2 f(a, b=D, c=D)
    <<Par("a", "pos", FALSE), Par("r", "var", FALSE)>>,                                            \* 3 f(a, *r)
    <<Par("a", "pos", FALSE), Par("b", "pos", TRUE), Par("r", "var", FALSE), Par("k", "kwo", TRUE)>>,   \* 4 f(a, b=D, *r, k=D)
    <<Par("a", "pos", TRUE), Par("k", "kwo", FALSE), Par("j", "kwo", TRUE)>>,                      \* 5 f(a=D, *, k, j=D)
    <<Par("a", "pos", TRUE), Par("kw", "vkw", FALSE)>>,                                            \* 6 f(a=D, **kw)
    <<Par("a", "pos", FALSE), Par("b", "pos", TRUE), Par("r", "var", FALSE), Par("k", "kwo", TRUE),
      Par("kw", "vkw", FALSE)>>,                                                                   \* 7 f(a, b=D, *r, k=D, **kw)
    <<>>,                                                                                          \* 8 f()
    <<Par("r", "var", FALSE), Par("kw", "vkw", FALSE)>>,                                           \* 9 f( *r, **kw)
    <<Par("a", "pos", TRUE), Par("b", "pos", TRUE), Par("k", "kwo", TRUE), Par("kw", "vkw", FALSE)>>   \* 10 f(a=D, b=D, *, k=D, **kw)
>>

\* argument keys: positions 0..3 and the names a b (positional), k (keyword-only), z (nobody's)
Keys == <<IK(0), IK(1), IK(2), IK(3), SK("a"), SK("b"), SK("k"), SK("z")>>

\* the value token of a key says where it came from, so a binding shows which key landed where
Tok(key) == IF IsInt(key) THEN "i" \o ToString(key.n) ELSE "s" \o key.s

SortedIdx(S) == [i \in 1..Cardinality(S) |-> CHOOSE x \in S : Cardinality({y \in S : y < x}) = i - 1]
WrittenOf(S) == LET idx == SortedIdx(S) IN [i \in 1..Cardinality(S) |-> Arg(Keys[idx[i]], Tok(Keys[idx[i]]))]

\* ---- the machine --------------------------------------------------------
NoRes == [err |-> FALSE, p |-> <<>>, kwp |-> {}, kw |-> {}]
NoOut == Failed("not evaluated")

Init == phase = "blank" /\ kind = "" /\ sg = 0 /\ form = "" /\ args = <<>> /\ res = NoRes /\ out = NoOut

Write(kd, s, fm, written) ==
    /\ phase = "blank"
    /\ kind' = kd /\ sg' = s /\ form' = fm
    /\ args' = NodeArgs(fm, written)
    /\ phase' = "written"
    /\ UNCHANGED <<res, out>>

Resolve ==
    /\ phase = "written"
    /\ res' = ResolveArgs(Sigs[sg], args)
    /\ phase' = "resolved"
    /\ UNCHANGED <<kind, sg, form, args, out>>

Invoke ==
    /\ phase = "resolved"
    /\ out' = IF kind = "call" THEN Received(Sigs[sg], args) ELSE BindResult(Sigs[sg], args)
    /\ phase' = "done"
    /\ UNCHANGED <<kind, sg, form, args, res>>

Next == \/ \E kd \in {"call", "bind"}, s \in 1..Len(Sigs) :
             \/ \E S \in SUBSET (1..Len(Keys)) : Write(kd, s, "map", WrittenOf(S))
             \/ \E n \in 0..4 : Write(kd, s, "list", [i \in 1..n |-> Arg(IK(i - 1), "i" \o ToString(i - 1))])
             \/ Write(kd, s, "scalar", <<Arg(IK(0), "i0")>>)
             \/ Write(kd, s, "name", <<>>)
        \/ Resolve \/ Invoke

Spec == Init /\ [][Next]_vars

\* ---- the properties (AyFunc), in every state that has a node -------------
HasNode == phase # "blank"
Inv_PassesAsPython   == HasNode => PassesAsPython(Sigs[sg], args)
Inv_BindIsPartial    == HasNode => BindIsPartial(Sigs[sg], args)
Inv_PartialCompletes == HasNode => PartialCompletes(Sigs[sg], args)
\* the machine's own result is what the operators say (ties the actions to the formulas)
Inv_Machine == phase = "done" =>
    /\ (kind = "call" => Same(out, Stated(Sigs[sg], args)))
    /\ (kind = "bind" => Same(out, StatedPartial(Sigs[sg], args)))
Inv_SigsWellFormed == \A i \in 1..Len(Sigs) : WellFormedSig(Sigs[i])

\* the antecedents are reachable (checked as ~Witness): a gap bound by name next to *args overflow
Witness == /\ phase = "done" /\ kind = "call" /\ ~out.err /\ res.kwp # {} /\ Len(res.p) >= 1
           /\ \E e \in out.b : Len(e.t) >= 1

NotWitness == ~Witness

\* ---- behaviours for replay: one JSON line per terminal state -------------
OutJ(o) == [err |-> o.err, b |-> o.b, pa |-> o.pa, pk |-> o.pk]
Emit == phase = "done" =>
    PrintT(ToJson([beh |-> "func", kind |-> kind, sig |-> sg, form |-> form, args |-> args,
                   want |-> OutJ(out),
                   intended |-> OutJ(IF kind = "call" THEN Stated(Sigs[sg], args) ELSE StatedPartial(Sigs[sg], args))]))

SigsJ == PrintT(ToJson([sigs |-> Sigs]))
ASSUME SigsJ
=============================================================================
