------------------------------ MODULE Props_C04 -----------------------------
(***************************************************************************)
(* C04 - !del / list replacement is exact; !merge makes it element-wise;    *)
(* a value-less !del removes the key; !clear empties.                       *)
(*                                                                          *)
(* The declarative reading is a two-operator oracle over one merge step     *)
(* (older tree `a` as observed, newer node `b` as parsed):                  *)
(*   Protect(a, b)  the older entries that survive a deleting newer node:   *)
(*                  exactly those whose priority is strictly higher than    *)
(*                  the newer node found by following their path inside b   *)
(*                  as far as it exists, at any depth;                      *)
(*   Spec(a, b)     containers combine key-wise / index-wise (after         *)
(*                  Protect when b deletes), anything else is won by the    *)
(*                  higher priority, the newer one among equals.            *)
(* It knows nothing of implicit/explicit flag levels, filter passes,        *)
(* removed-sets, object identity, promotion or pre-filtering.               *)
(***************************************************************************)
EXTENDS AyMerge, AyUniverse, SequencesExt

C04_Null == <<"n", "">>
C04_ValuelessDel(b) == b.k = "scalar" /\ b.v = C04_Null /\ b.del = "T"
C04_Outside == MkNode("OUTSIDE", NoVal, <<>>)
C04_Fail(kind) == MkNode(kind, NoVal, <<>>)      \* "MergeError" / "PremergeError"
C04_Special(n) == n.k \in {"OUTSIDE", "MergeError", "PremergeError"}

\* nn: the newer node found so far; lost: the path has already left the newer tree
RECURSIVE C04_Prot(_, _, _)
C04_Prot(o, nn, lost) ==
    LET kept == [i \in 1..Len(o.ch) |->
                   LET key  == o.ch[i][1]
                       c    == o.ch[i][2]
                       has  == ~lost /\ IsComposed(nn) /\ HasChild(nn, key)
                       n2   == IF has THEN Child(nn, key) ELSE nn
                       c1   == IF IsComposed(c) THEN C04_Prot(c, n2, ~has) ELSE c
                   IN <<EffPr(c) > EffPr(n2) \/ (IsComposed(c) /\ ~IsEmpty(c1)), key, c1>>]
        rest == SelectSeq(kept, LAMBDA e : e[1])
        ch   == [i \in 1..Len(rest) |-> <<rest[i][2], rest[i][3]>>]
    IN [o EXCEPT !.ch = IF IsList(o) THEN Renumber(ch) ELSE ch]
C04_Protect(o, nn) == C04_Prot(o, nn, FALSE)

RECURSIVE C04_Spec(_, _), C04_Keywise(_, _, _)

C04_Spec(a, b) ==
    IF IsFn(a) \/ IsFn(b) THEN C04_Outside                            \* function nodes as merge partners: C13
    ELSE IF ~(IsComposed(a) /\ IsComposed(b)) THEN (IF EffPr(a) > EffPr(b) THEN a ELSE b)
    ELSE IF IsList(a) /\ IsDict(b) /\ \E i \in 1..Len(b.ch) : ~ValidIndex(a, b.ch[i][1]) THEN C04_Fail("MergeError")
    ELSE IF IsList(a) /\ IsList(b) /\ EffDel(b) /\ EffPr(a) > EffPr(b) THEN a   \* an outranked list changes nothing
    ELSE LET a1 == IF EffDel(b) THEN C04_Protect(a, b) ELSE a
         IN IF EffDel(b) /\ IsEmpty(a1) /\ EffPr(b) >= EffPr(a) THEN C04_Keywise([b EXCEPT !.ch = <<>>], b, 1)
            ELSE IF IsDict(a) /\ IsList(b) THEN C04_Outside            \* protected mapping entries under a newer list
            ELSE C04_Keywise(a1, b, 1)

\* the children of b, in order, onto a
C04_Keywise(a, b, i) ==
    IF i > Len(b.ch) THEN a
    ELSE LET key == b.ch[i][1]
             v   == b.ch[i][2]
         IN IF HasChild(a, key)
            THEN LET c == Child(a, key)
                     r == C04_Spec(c, v)
                 IN IF C04_Special(r) THEN r
                    ELSE IF C04_ValuelessDel(v) /\ ~(EffPr(c) > EffPr(v))
                    THEN C04_Keywise(DelChildRaw(a, key), b, i + 1)            \* `key: !del` removes the key
                    ELSE C04_Keywise(SetChildRaw(a, key, r), b, i + 1)
            ELSE IF C04_ValuelessDel(v) THEN C04_Outside                       \* `key: !del` on a missing key
            ELSE IF IsList(a) /\ ~IsIntKey(key) THEN C04_Fail("MergeError")
            ELSE C04_Keywise(SetChildRaw(a, IF IsList(a) THEN IKey(Len(a.ch)) ELSE key, v), b, i + 1)

----------------------------------------------------------------------------
\* stated domain (DESIGN 5/C04)

RECURSIVE C04_AllNodes(_)
C04_AllNodes(n) == {n} \cup UNION {C04_AllNodes(n.ch[i][2]) : i \in 1..Len(n.ch)}

\* below a list every node has the list's priority
C04_ListsUniform(t) ==
    \A l \in C04_AllNodes(t) : IsList(l) => \A m \in C04_AllNodes(l) : EffPr(m) = EffPr(l)

\* an explicitly !del-tagged node whose own content is falsy is the
\* remove-this-key idiom; only the value-less form is in the statement
\* ... including a !del container all of whose entries remove themselves
RECURSIVE C04_Vanishing(_)
C04_Vanishing(m) ==
    \/ (m.del = "T" /\ ~IsComposed(m) /\ ~Truthy(m))
    \/ (m.del = "T" /\ IsComposed(m) /\ ~IsFn(m) /\ \A i \in 1..Len(m.ch) : C04_Vanishing(m.ch[i][2]))
C04_NoFalsyDelIdiom(t) ==
    \A m \in C04_AllNodes(t) : (m.k # "clear" /\ C04_Vanishing(m)) => C04_ValuelessDel(m)

C04_Vocabulary(t) ==
    \A m \in C04_AllNodes(t) : /\ m.k \in {"dict", "list", "scalar", "clear", "call", "bind"}
                               /\ m.anew = "N" /\ m.safe = "N"

\* a !clear written as (part of) a list element re-enters the list with the older
\* element's own priority: the same mixed-priority situation
C04_NoClearInLists(t) ==
    \A l \in C04_AllNodes(t) : IsList(l) => \A m \in C04_AllNodes(l) : m.k # "clear"

C04_InDomain(old, new) ==
    /\ C04_ListsUniform(old) /\ C04_ListsUniform(new) /\ C04_NoClearInLists(new)
    /\ C04_NoFalsyDelIdiom(new) /\ C04_NoFalsyDelIdiom(old)
    /\ C04_Vocabulary(new) /\ C04_Vocabulary(old)

\* docs: surface documents; outs: observed outcomes.  Stage j >= 2 is judged
\* from the OBSERVED older tree outs[j-1] and the newer document.
\* !clear acts before anything is merged (premerge): it needs an existing container
C04_ClearFails(old, new) ==
    \E p \in PathsOf(new) : At(new, p).k = "clear" /\ ~(HasPath(old, p) /\ IsComposed(At(old, p)))

\* ... and, where it succeeds, the container is emptied in place before merging:
\* the older tree with every cleared container emptied, the newer tree with
\* every !clear node standing for that emptied container
C04_ClearPathsSeq(new) == SetToSeq({p \in PathsOf(new) : At(new, p).k = "clear"})
C04_Cleared(old, new) ==
    LET ps == C04_ClearPathsSeq(new)
        F[i \in 0..Len(ps)] ==
            IF i = 0 THEN <<old, new>>
            ELSE LET e == [At(F[i-1][1], ps[i]) EXCEPT !.ch = <<>>]
                 IN <<SetAt(F[i-1][1], ps[i], e), SetAt(F[i-1][2], ps[i], e)>>
    IN F[Len(ps)]

C04_HoldsAt(old, sd, out) ==
    LET new  == Parse(sd, TRUE)
        want == IF C04_ClearFails(old, new) THEN C04_Fail("PremergeError")
                ELSE LET c == C04_Cleared(old, new) IN C04_Spec(c[1], c[2])
    IN C04_InDomain(old, new) =>
         CASE want.k = "OUTSIDE" -> TRUE
           [] want.k \in {"MergeError", "PremergeError"} -> IsErr(out) /\ out.err = want.k
           [] OTHER -> ~IsErr(out) /\ DataOf(out) = DataOf(want)

\* What protects an entry from a later deleting node is ITS OWN priority - the one its own document gave it (its tag, or the
\* tag of a container around it in that document), not one picked up from the container it was merged into.  Decidable when
\* the value identifies the document: a scalar whose atom is written in exactly one document of the history carries a
\* priority that document's parse gives to that atom.
RECURSIVE C04_ScalarNodes(_)
C04_ScalarNodes(n) == (IF n.k = "scalar" THEN {n} ELSE {}) \cup UNION {C04_ScalarNodes(n.ch[i][2]) : i \in 1..Len(n.ch)}
RECURSIVE C04_SDAtoms(_)
C04_SDAtoms(sd) == (IF sd.k = "scalar" THEN {sd.v} ELSE {}) \cup UNION {C04_SDAtoms(sd.ch[i][2]) : i \in 1..Len(sd.ch)}
C04_PrOwn(docs, outs) ==
    \A j \in 1..Len(outs) : ~IsErr(outs[j]) =>
        \A leaf \in C04_ScalarNodes(outs[j]) :
            LET owners == {i \in 1..j : leaf.v \in C04_SDAtoms(docs[i])}
            IN (Cardinality(owners) = 1 /\ leaf.v # C04_Null) =>
                   LET i == CHOOSE i \in owners : TRUE
                       p == Parse(docs[i], TRUE)
                   IN IsErr(p) \/ leaf.pr \in {n.pr : n \in {m \in C04_ScalarNodes(p) : m.v = leaf.v}}

C04_Holds(docs, outs) ==
    /\ \A j \in 2..Len(outs) : ~IsErr(outs[j-1]) => C04_HoldsAt(outs[j-1], docs[j], outs[j])
    /\ C04_PrOwn(docs, outs)

C04_Judged(docs, outs) ==    \* is some stage inside the domain and decided by the oracle?
    \E j \in 2..Len(outs) : ~IsErr(outs[j-1]) /\
        LET new == Parse(docs[j], TRUE) IN C04_InDomain(outs[j-1], new) /\
                (C04_ClearFails(outs[j-1], new) \/
                 LET c == C04_Cleared(outs[j-1], new) IN C04_Spec(c[1], c[2]).k # "OUTSIDE")

----------------------------------------------------------------------------
\* universes
C04_KA == SKey("a")  C04_KB == SKey("b")
C04_V1 == Atom("i", "1")  C04_V2 == Atom("i", "2")
C04_L(v) == SD("scalar", v, <<>>)
C04_ClearSD == [SD("clear", NoVal, <<>>) EXCEPT !.form = "tag"]
C04_DelKeySD == WithTag(C04_L(C04_Null), "del")
C04_CallSD == [SD("call", NoVal, <<<<C04_KA, C04_L(C04_V1)>>>>) EXCEPT !.fn = "m.f", !.form = "tag"]

\* older documents: values 1, tags none/force, depth <= 3 below one root key
RECURSIVE C04_Old(_)
C04_Old(d) ==
    TagAll({C04_L(C04_V1)}, {"none", "force"}) \cup
    (IF d = 1 THEN {C04_CallSD} ELSE {}) \cup
    (IF d = 0 THEN {}
     ELSE (MapsOver(<<C04_KA, C04_KB>>, C04_Old(d - 1)) \ {SD("dict", NoVal, <<>>)})
          \cup (ListsOver(1, {C04_L(C04_V1)}) \ {SD("list", NoVal, <<>>)}))
\* newer documents: values 2, tags none/del/merge/weak on containers, `!del` / `!clear` leaves
RECURSIVE C04_New(_)
C04_New(d) ==
    TagAll({C04_L(C04_V2)}, {"none", "weak"}) \cup {C04_ClearSD, C04_DelKeySD} \cup
    (IF d = 0 THEN {}
     ELSE TagAll((MapsOverMax(<<C04_KA, C04_KB>>, C04_New(d - 1), IF d = 1 THEN 2 ELSE 1) \ {SD("dict", NoVal, <<>>)}),
                 {"none", "del", "merge", "weak"})
          \cup TagAll(ListsOver(1, {C04_L(C04_V2)}), {"none", "merge"}))

C04_OldDocs == {SD("dict", NoVal, <<<<C04_KA, c>>>>) : c \in C04_Old(2)}
C04_NewDocs == {SD("dict", NoVal, <<<<C04_KA, c>>>>) : c \in C04_New(2)}
C04_Docs    == SetToSeq(C04_OldDocs) \o SetToSeq(C04_NewDocs)
C04_Range   == << <<1, Cardinality(C04_OldDocs)>>, <<Cardinality(C04_OldDocs) + 1, Cardinality(C04_OldDocs) + Cardinality(C04_NewDocs)>> >>

\* index-addressed lists: older lists of three distinct elements, newer mappings
\* over the indices 0 1 2 with values 2 / value-less !del, and newer lists
C04_V3 == Atom("i", "3")  C04_V4 == Atom("i", "4")
C04_OldL == {SD("dict", NoVal, <<<<C04_KA, SD("list", NoVal, <<<<IKey(0), C04_L(C04_V1)>>, <<IKey(1), C04_L(C04_V3)>>, <<IKey(2), e>>>>)>>>>)
             : e \in {C04_L(C04_V4), SD("dict", NoVal, <<<<C04_KA, C04_L(C04_V4)>>>>)} }
C04_NewL == {SD("dict", NoVal, <<<<C04_KA, c>>>>) :
                c \in TagAll(MapsOver(<<IKey(0), IKey(1), IKey(2)>>, {C04_L(C04_V2), C04_DelKeySD}), {"none", "merge", "del"})
                       \cup TagAll(ListsOver(2, {C04_L(C04_V2)}), {"none", "merge"}) }
C04_DocsL  == SetToSeq(C04_OldL) \o SetToSeq(C04_NewL)
C04_RangeL == << <<1, Cardinality(C04_OldL)>>, <<Cardinality(C04_OldL) + 1, Cardinality(C04_OldL) + Cardinality(C04_NewL)>> >>

\* 3-stage histories: a narrower older set, chain-shaped newer documents
C04_OldS == {SD("dict", NoVal, <<<<C04_KA, c>>>>) : c \in C04_Old(1)}
RECURSIVE C04_NewS(_)
C04_NewS(d) ==
    {C04_L(C04_V2), WithTag(C04_L(C04_V2), "weak"), C04_ClearSD, C04_DelKeySD} \cup
    (IF d = 0 THEN {}
     ELSE TagAll((MapsOverMax(<<C04_KA, C04_KB>>, C04_NewS(d - 1), 1) \ {SD("dict", NoVal, <<>>)}), {"none", "del", "merge"})
          \cup {SD("list", NoVal, <<<<IKey(0), C04_L(C04_V2)>>>>)})
C04_NewDocsS == {SD("dict", NoVal, <<<<C04_KA, c>>>>) : c \in C04_NewS(2)}
C04_Docs3    == SetToSeq(C04_OldS) \o SetToSeq(C04_NewDocsS)
C04_Range3   == << <<1, Cardinality(C04_OldS)>>, <<Cardinality(C04_OldS) + 1, Cardinality(C04_OldS) + Cardinality(C04_NewDocsS)>> >>

\* 3-stage histories with one atom per stage (1 / 3 / 4): a prioritised container, a later plain document adding entries to
\* it, then a deleting node - only what the first document tagged survives
C04_P1 == {SD("dict", NoVal, <<<<C04_KA, c>>>>) :
              c \in {WithTag(SD("dict", NoVal, <<<<SKey("x"), C04_L(C04_V1)>>>>), "force"),
                     WithTag(SD("dict", NoVal, <<<<SKey("x"), SD("dict", NoVal, <<<<SKey("y"), C04_L(C04_V1)>>>>)>>>>), "force"),
                     WithTag(SD("list", NoVal, <<<<IKey(0), C04_L(C04_V1)>>>>), "force"),
                     SD("dict", NoVal, <<<<SKey("x"), WithTag(C04_L(C04_V1), "force")>>>>),
                     WithTag(SD("dict", NoVal, <<<<SKey("x"), C04_L(C04_V1)>>>>), "weak"),
                     SD("dict", NoVal, <<<<SKey("x"), C04_L(C04_V1)>>>>)}}
C04_P2 == {SD("dict", NoVal, <<<<C04_KA, c>>>>) :
              c \in {SD("dict", NoVal, <<<<SKey("y"), C04_L(C04_V3)>>>>),
                     SD("dict", NoVal, <<<<SKey("x"), SD("dict", NoVal, <<<<SKey("z"), C04_L(C04_V3)>>>>)>>>>),
                     SD("dict", NoVal, <<<<SKey("x"), C04_L(C04_V3)>>>>),
                     WithTag(SD("dict", NoVal, <<<<SKey("y"), C04_L(C04_V3)>>>>), "force"),
                     WithTag(SD("list", NoVal, <<<<IKey(0), C04_L(C04_V1)>>, <<IKey(1), C04_L(C04_V3)>>>>), "merge")}}
C04_P3 == {SD("dict", NoVal, <<<<C04_KA, c>>>>) :
              c \in {WithTag(SD("dict", NoVal, <<>>), "del"),
                     WithTag(SD("dict", NoVal, <<<<SKey("w"), C04_L(C04_V4)>>>>), "del"),
                     WithTag(SD("dict", NoVal, <<<<SKey("x"), WithTag(SD("dict", NoVal, <<>>), "del")>>>>), "merge"),
                     SD("list", NoVal, <<<<IKey(0), C04_L(C04_V4)>>>>),
                     SD("dict", NoVal, <<<<SKey("w"), C04_L(C04_V4)>>>>)}}
               \cup {WithTag(SD("dict", NoVal, <<<<SKey("w"), C04_L(C04_V4)>>>>), "del")}
\* keys whose NAME looks like a path ('x.y', 'x[0]') next to the entries such a path would spell
C04_K1 == {SD("dict", NoVal, <<<<C04_KA, c>>>>) :
              c \in {SD("dict", NoVal, <<<<SKey("x.y"), C04_L(C04_V1)>>, <<SKey("x"), SD("dict", NoVal, <<<<SKey("y"), C04_L(C04_V1)>>>>)>>>>),
                     SD("dict", NoVal, <<<<SKey("x[0]"), C04_L(C04_V1)>>, <<SKey("x"), SD("list", NoVal, <<<<IKey(0), C04_L(C04_V1)>>>>)>>>>),
                     SD("dict", NoVal, <<<<SKey("x y"), C04_L(C04_V1)>>, <<SKey("x"), C04_L(C04_V1)>>>>)}}
C04_K2 == {SD("dict", NoVal, <<<<C04_KA, c>>>>) :
              c \in {WithTag(SD("dict", NoVal, <<<<SKey("x"), SD("dict", NoVal, <<<<SKey("y"), WithTag(C04_L(C04_V2), "weak")>>>>)>>>>), "del"),
                     WithTag(SD("dict", NoVal, <<<<SKey("x"), SD("dict", NoVal, <<<<SKey("y"), C04_L(C04_V2)>>>>)>>>>), "del"),
                     WithTag(SD("dict", NoVal, <<<<SKey("x"), WithTag(SD("list", NoVal, <<<<IKey(0), WithTag(C04_L(C04_V2), "weak")>>>>), "merge")>>>>), "del"),
                     WithTag(SD("dict", NoVal, <<<<SKey("x"), WithTag(C04_L(C04_V2), "weak")>>>>), "del"),
                     WithTag(SD("dict", NoVal, <<>>), "del"),
                     SD("dict", NoVal, <<<<SKey("x.y"), C04_L(C04_V2)>>>>)}}
C04_DocsK  == SetToSeq(C04_K1) \o SetToSeq(C04_K2)
C04_RangeK == << <<1, Cardinality(C04_K1)>>, <<Cardinality(C04_K1) + 1, Cardinality(C04_K1) + Cardinality(C04_K2)>> >>

C04_DocsP  == SetToSeq(C04_P1) \o SetToSeq(C04_P2) \o SetToSeq(C04_P3)
C04_RangeP == << <<1, Cardinality(C04_P1)>>, <<Cardinality(C04_P1) + 1, Cardinality(C04_P1) + Cardinality(C04_P2)>>,
                 <<Cardinality(C04_P1) + Cardinality(C04_P2) + 1, Cardinality(C04_P1) + Cardinality(C04_P2) + Cardinality(C04_P3)>> >>

\* C06 (a file named more than once in one build): a small set of documents with overlapping keys, ANY document at ANY
\* stage (WholeRange), so that sequences d, e, d occur
C06_KB == SKey("b")  C06_KC == SKey("c")
C06_M(items) == SD("dict", NoVal, items)
C06_DocsRepSet ==
    {C06_M(<<<<C04_KA, C04_L(C04_V1)>>, <<C06_KB, C04_L(C04_V1)>>>>),
     C06_M(<<<<C06_KB, C04_L(C04_V2)>>, <<C06_KC, C04_L(C04_V2)>>>>),
     C06_M(<<<<C04_KA, C06_M(<<<<SKey("x"), C04_L(C04_V1)>>, <<SKey("y"), C04_L(C04_V1)>>>>)>>>>),
     C06_M(<<<<C04_KA, C06_M(<<<<SKey("y"), C04_L(C04_V2)>>>>)>>, <<C06_KB, SD("list", NoVal, <<<<IKey(0), C04_L(C04_V1)>>, <<IKey(1), C04_L(C04_V3)>>>>)>>>>),
     C06_M(<<<<C06_KB, WithTag(SD("list", NoVal, <<<<IKey(0), C04_L(C04_V2)>>>>), "merge")>>>>),
     C06_M(<<<<C04_KA, WithTag(C06_M(<<<<SKey("z"), C04_L(C04_V4)>>>>), "del")>>>>),
     C06_M(<<<<C04_KA, WithTag(C04_L(C04_V4), "weak")>>, <<C06_KC, C04_L(C04_V4)>>>>),
     C06_M(<<<<C06_KB, SD("list", NoVal, <<<<IKey(0), C04_L(C04_V4)>>>>)>>>>)}
C06_DocsRep == SetToSeq(C06_DocsRepSet)

=============================================================================
