------------------------------ MODULE MC_AyCopy ------------------------------
(***************************************************************************)
(* Model-checking root for C19: the trees that are copied are chosen by     *)
(* actions from the document universe of the run (spec/Uni.tla, computed    *)
(* once by GenUni19) - parsed single documents (Mode = "parse": the tree a  *)
(* Builder stage holds) or the fold of a 1..n stage history (Mode = "fold": *)
(* what Builder.build() returns); then lists may be edited, the tree is     *)
(* copied with one of the protocols, step by step, and either side is       *)
(* mutated.  Histories reaching the same tree are one state (VIEW).         *)
(***************************************************************************)
EXTENDS AyCopy, Props_C19

CONSTANTS Mode, MinStages, MaxStages, SafeFlags, CtxOn

VARIABLE edits      \* ghost: the edits made before the copy <<[op, path, pos]>>
mvars == <<cvars, edits>>

StageDocs(n) == LET r == DocRange[IF n <= Len(DocRange) THEN n ELSE Len(DocRange)] IN r[1]..r[2]

MInit == Init /\ edits = <<>>

\* one more source document (only its index is kept)
Pick(i) ==
    /\ phase = "pick" /\ Len(hist) + 1 < MaxStages /\ i \in StageDocs(Len(hist) + 1)
    /\ hist' = Append(hist, [i |-> i, safe |-> TRUE])
    /\ UNCHANGED <<heap, oroot, croot, proto, stack, status, phase, nmut, nedit, last, otree, fired, edits>>

\* the last source document: the tree exists now
PickLoad(i, s) ==
    /\ phase = "pick" /\ Len(hist) + 1 >= MinStages /\ Len(hist) + 1 <= MaxStages /\ i \in StageDocs(Len(hist) + 1)
    /\ LET h == Append(hist, [i |-> i, safe |-> s])
           t == IF Mode = "parse" THEN Parse(Docs[i], s)
                ELSE FoldDocs([j \in 1..Len(h) |-> Parse(Docs[h[j].i], h[j].safe)])
       IN /\ ~IsErr(t)
          /\ LoadTree(t, h)
    /\ UNCHANGED edits

\* path of a cell below a root (child map first, then built-in-only entries)
RECURSIVE PathTo(_, _, _)
PathTo(h, root, id) ==          \* <<TRUE, path>> or <<FALSE, <<>>>>
    IF root = id THEN <<TRUE, <<>>>>
    ELSE LET es == h[root].kids \o SelectSeq(h[root].py, LAMBDA e : \A i \in 1..Len(h[root].kids) : h[root].kids[i][2] # e[2])
             F[i \in 0..Len(es)] ==
                IF i = 0 THEN <<FALSE, <<>>>>
                ELSE IF F[i-1][1] THEN F[i-1]
                ELSE LET r == PathTo(h, es[i][2], id) IN IF r[1] THEN <<TRUE, <<es[i][1]>> \o r[2]>> ELSE <<FALSE, <<>>>>
         IN F[Len(es)]

MEdit ==
    \E id \in DOMAIN heap :
        LET path == PathTo(heap, oroot, id)[2]      \* where the edited list is when it is edited
        IN \/ EditAppend(id) /\ edits' = Append(edits, [op |-> "append", path |-> path, pos |-> 0])
           \/ \E pos \in 0..2 : EditInsert(id, pos) /\ edits' = Append(edits, [op |-> "insert", path |-> path, pos |-> pos])
           \/ EditReverse(id) /\ edits' = Append(edits, [op |-> "reverse", path |-> path, pos |-> 0])

MNext ==
    \/ \E i \in 1..Len(Docs) : Pick(i)
    \/ \E i \in 1..Len(Docs), s \in SafeFlags : PickLoad(i, s)
    \/ MEdit
    \/ (\E p \in Protocols : StartCopy(p)) /\ UNCHANGED edits
    \/ Step /\ UNCHANGED edits
    \/ Mutate /\ UNCHANGED edits

MSpec == MInit /\ [][MNext]_mvars

\* histories are witnesses only: two histories producing the same tree are the same state
View == IF phase = "pick" THEN <<hist, phase>>
        ELSE <<heap, oroot, croot, proto, stack, status, phase, nmut, nedit, last, otree, fired>>

----------------------------------------------------------------------------
HistIdx == [j \in 1..Len(hist) |-> hist[j].i]
HistSafe == [j \in 1..Len(hist) |-> hist[j].safe]
EditsOut == edits

Check(name, ok) ==
    ok \/ (PrintT(ToJson([cex |-> name, h |-> HistIdx, s |-> HistSafe, p |-> proto, e |-> EditsOut, st |-> status,
                          o |-> otree, c |-> IF croot # 0 /\ phase = "copied" /\ status = "ok" THEN CopyT ELSE <<>>,
                          last |-> last])) /\ FALSE)

Inv_Completes       == Check("Completes", Completes)
Inv_Faithful        == Check("Faithful", Faithful)
Inv_ContentFaithful == Check("ContentFaithful", ContentFaithful)
Inv_CopyConsistent  == Check("CopyConsistent", CopyConsistent)
Inv_Disjoint        == Check("Disjoint", Disjoint)
Inv_OrigUntouched   == Check("OrigUntouched", (proto # "copy") => OrigUntouched)
Inv_Behaves         == Check("Behaves", CtxOn => BehavesOver(C19_Ctx))
\* observations about copy.copy (a shallow copy is not in the statement): its own attributes / child list are
\* those of the original and taking it leaves the original alone
Inv_ShallowFaithful  == Check("ShallowFaithful", (proto = "copy" /\ Copied /\ nmut = 0 /\ InDomain) => CopyT = otree)
Inv_ShallowUntouched == Check("ShallowUntouched", (proto = "copy" /\ ~(nmut > 0)) => OrigUntouched)
Prop_Isolated == Isolated

\* the antecedents are reachable: a copied tree in which some child's implicit flags are NOT what its parent
\* would hand to a newly attached child (only merging produces these)
RECURSIVE Mismatch(_)
Mismatch(t) ==
    \E i \in 1..Len(t.ch) :
        LET c == t.ch[i][2]  kw == ChildKw(t)
        IN \/ c.idel # kw.idel \/ c.ianew # kw.ianew \/ (c.isafe # kw.isafe /\ c.isafe # "F")
           \/ Mismatch(c)
C19_Witness == Copied /\ Mismatch(otree)
Inv_NoWitness == ~C19_Witness

\* behaviours for replay: one JSON line per finished copy (and per mutation / state after it)
Emit ==
    Done => PrintT(ToJson([h |-> HistIdx, s |-> HistSafe, p |-> proto, e |-> EditsOut, st |-> status,
                           o |-> otree,
                           c |-> IF status = "ok" THEN CopyT ELSE <<>>,
                           cd |-> IF status = "ok" THEN Compact(DataOf(PyTreeOf(heap, croot))) ELSE <<>>,
                           od |-> Compact(DataOf(PyTreeOf(heap, oroot))),
                           va |-> InDomain,
                           f |-> fired,
                           mm |-> Mismatch(otree),
                           m |-> IF nmut = 0 THEN [a |-> "none", side |-> "", path |-> <<>>]
                                 ELSE [a |-> last.a, side |-> last.side,
                                       path |-> PathTo(heap, IF last.side = "copy" THEN croot ELSE oroot, last.id)[2]],
                           o2 |-> IF nmut = 0 THEN <<>> ELSE OrigT,
                           c2 |-> IF nmut = 0 \/ status # "ok" THEN <<>> ELSE CopyT]))

=============================================================================
