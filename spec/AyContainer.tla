---------------------------- MODULE AyContainer ----------------------------
(***************************************************************************)
(* The dual-view container machine of awesomeyaml.                          *)
(*                                                                          *)
(* A ConfigList / ConfigDict is at once                                     *)
(*    py : the built-in list / dict storage (what list(node) / dict(node)   *)
(*         and node[i] read),                                               *)
(*    cm : `_children`, an insertion-ordered map name -> child node that    *)
(*         the tree API (named_children, nodes_with_paths, get_node,        *)
(*         evaluation) reads.                                               *)
(* Every mutator has to update both.  This module writes every public       *)
(* mutator named by property C17 AFTER THE CODE (file:line in comments):    *)
(* index normalisation, the order in which the two stores are touched, and  *)
(* what is left behind when an operation raises.                            *)
(*                                                                          *)
(* State = a heap of node records (node identity matters: "the node the     *)
(* walk reports is the one a lookup returns"):                              *)
(*    heap[id] = [k |-> "s",   v |-> payload]                 scalar node   *)
(*               [k |-> "raw", v |-> payload]                 NOT a node    *)
(*               [k |-> "l", py |-> Seq(id), cm |-> Seq(<<int, id>>)]       *)
(*               [k |-> "d", py |-> Seq(<<str, id>>), cm |-> Seq(<<str,id>>)]*)
(* (records are padded to the same four fields).  List names are integers,  *)
(* dict names are strings; the two are never compared with each other.      *)
(*                                                                          *)
(* Deviation switches (TRUE = what the code does today, FALSE = intended):  *)
(*   InsertKeepsMapOrder  list.py:109-113 insert() renumbers `_children`    *)
(*                        and then adds the new index LAST                  *)
(*   PopNotOverridden     ConfigList has no pop(): only the list shrinks    *)
(*   UnderscoreBypass     dict.py:57-67 d['_x'] = v / del d['_x'] go to the *)
(*                        built-in dict only (and store v unwrapped)        *)
(*   PopitemBroken        dict.py:95-100 popitem(k, d=None) cannot be called*)
(*                        as popitem() and would call dict.popitem(k, d=d)  *)
(*   RenameMapOnly        composed.py:44-53 rename_child renames in         *)
(*                        `_children` only (not overridden by list / dict)  *)
(* With all switches FALSE the machine satisfies the invariants below; with *)
(* one switch TRUE TLC must refute them (mutation cfgs).                    *)
(***************************************************************************)
EXTENDS Integers, Sequences, FiniteSets, TLC

CONSTANTS InsertKeepsMapOrder, PopNotOverridden, UnderscoreBypass, PopitemBroken, RenameMapOnly

P == INSTANCE AyPath WITH PathMutation <- "none"

Abs(x)     == IF x < 0 THEN 0 - x ELSE x
Min2(a, b) == IF a < b THEN a ELSE b
Max2(a, b) == IF a > b THEN a ELSE b

\* names that `name.startswith('_')` is true for / that `name in dir(type(self))` is true for
UnderscoreNames == {"_x", "_y"}
ShadowNames     == {"clear", "update", "pop"}

\* identities: a scalar created with payload n is node n, the container created
\* around payload n is node 1000+n, an unwrapped value is 2000+n
Cid(n) == 1000 + n
Rid(n) == 2000 + n
Iid(n) == 5000 + n        \* the plain int inside an unwrapped [n] / {'a': n}

ScalarRec(n)    == [k |-> "s",   v |-> n, py |-> <<>>, cm |-> <<>>]
\* an unwrapped value keeps its Python shape in py: <<"S">> = n, <<"L">> = [n], <<"D">> = {'a': n}
RawRec(n, t)    == [k |-> "raw", v |-> n, py |-> <<t>>, cm |-> <<>>]
ListRec(py, cm) == [k |-> "l",   v |-> 0, py |-> py,   cm |-> cm]
DictRec(py, cm) == [k |-> "d",   v |-> 0, py |-> py,   cm |-> cm]
MkList(ids)     == ListRec(ids, [p \in DOMAIN ids |-> <<p - 1, ids[p]>>])
MkDict(pairs)   == DictRec(pairs, pairs)
IsCont(h, id)   == h[id].k \in {"l", "d"}

\* ---- an insertion-ordered map as a sequence of <<name, id>> (Python dict) ----
MHas(m, key)     == \E p \in DOMAIN m : m[p][1] = key
MPos(m, key)     == CHOOSE p \in DOMAIN m : m[p][1] = key
MGet(m, key)     == IF MHas(m, key) THEN m[MPos(m, key)][2] ELSE 0
MSet(m, key, id) == IF MHas(m, key) THEN [m EXCEPT ![MPos(m, key)] = <<key, id>>] ELSE Append(m, <<key, id>>)
MPop(m, key)     == SelectSeq(m, LAMBDA e : e[1] # key)
MVals(m)         == [p \in DOMAIN m |-> m[p][2]]
InsertSeq(s, p, e) == SubSeq(s, 1, p - 1) \o <<e>> \o SubSeq(s, p, Len(s))
RemoveAt(s, p)     == SubSeq(s, 1, p - 1) \o SubSeq(s, p + 1, Len(s))

\* ---- values handed to an operation: [t |-> "S"|"L"|"D", n |-> payload, k |-> name] ----
\*   "S" = n      "L" = [n]      "D" = {'a': n}
\* ConfigNode(value) (node.py:56-128, composed.py:22-31): a container and its children are new nodes
Alloc(h, vs) ==
    CASE vs.t = "S" -> (vs.n :> ScalarRec(vs.n)) @@ h
      [] vs.t = "L" -> (vs.n :> ScalarRec(vs.n)) @@ (Cid(vs.n) :> MkList(<<vs.n>>)) @@ h
      [] vs.t = "D" -> (vs.n :> ScalarRec(vs.n)) @@ (Cid(vs.n) :> MkDict(<< <<"a", vs.n>> >>)) @@ h
NodeId(vs)      == IF vs.t = "S" THEN vs.n ELSE Cid(vs.n)
AllocRaw(h, vs) == (Rid(vs.n) :> RawRec(vs.n, vs.t)) @@ (Iid(vs.n) :> RawRec(vs.n, "S")) @@ h

\* result of an operation: the heap it leaves, the exception class ("" = returned), deviations that made a difference
Ok(h)      == [h |-> h, err |-> "", fired |-> {}]
Fail(h, e) == [h |-> h, err |-> e,  fired |-> {}]
\* a call site with a known defect: what the code does (asis) / what it should do (intended)
Pick(switch, name, asis, intended) ==
    IF switch THEN [asis EXCEPT !.fired = IF asis.h # intended.h \/ asis.err # intended.err THEN {name} ELSE {}]
    ELSE intended

(***************************************************************************)
(* ConfigList                                                               *)
(***************************************************************************)
\* list.py:29-37 _validate_index; len(self) is the length of the built-in list.  -1 = IndexError
VIdx(n, i, strict) ==
    IF strict /\ (Abs(i) > n \/ i = n) THEN 0 - 1
    ELSE LET j == IF i < 0 THEN n + i ELSE i IN Min2(n, Max2(0, j))

\* list.py:41-46 (after validation): child map first, then append / item assignment
LSetAt(nd, idx, id) ==
    [nd EXCEPT !.cm = MSet(nd.cm, idx, id),
               !.py = IF idx = Len(nd.py) THEN Append(nd.py, id) ELSE [nd.py EXCEPT ![idx + 1] = id]]

\* list.py:39-49 _set
LSet(h, t, i, vs, strict) ==
    LET idx == VIdx(Len(h[t].py), i, strict)
    IN IF idx < 0 THEN Fail(h, "IndexError")
       ELSE LET h1 == Alloc(h, vs) IN Ok([h1 EXCEPT ![t] = LSetAt(h[t], idx, NodeId(vs))])

\* list.py:53-54  for i in range(index+1, len(self)): self[i-1] = self[i]   (each one a _get and a _set)
RECURSIVE LShift(_, _, _)
LShift(nd, j, n) == IF j >= n THEN nd ELSE LShift(LSetAt(nd, j - 1, nd.py[j + 1]), j + 1, n)

\* list.py:51-58 _del
LDel(h, t, i) ==
    LET nd  == h[t]
        n   == Len(nd.py)
        idx == VIdx(n, i, TRUE)
    IN IF idx < 0 THEN Fail(h, "IndexError")
       ELSE LET s == LShift(nd, idx + 1, n)
            IN Ok([h EXCEPT ![t] = [s EXCEPT !.cm = MPop(s.cm, n - 1), !.py = SubSeq(s.py, 1, n - 1)]])

\* list.py:94-96 append
LAppendNd(nd, id) == [nd EXCEPT !.cm = MSet(nd.cm, Len(nd.py), id), !.py = Append(nd.py, id)]
LAppend(h, t, vs) == LET h1 == Alloc(h, vs) IN Ok([h1 EXCEPT ![t] = LAppendNd(h[t], NodeId(vs))])

\* list.py:105-107 extend = append each
RECURSIVE LExtendFrom(_, _, _, _)
LExtendFrom(h, t, vss, j) ==
    IF j > Len(vss) THEN h
    ELSE LExtendFrom([Alloc(h, vss[j]) EXCEPT ![t] = LAppendNd(h[t], NodeId(vss[j]))], t, vss, j + 1)
LExtend(h, t, vss) == Ok(LExtendFrom(h, t, vss, 1))

\* list.py:109-113 insert
LInsert(h, t, i, vs) ==
    LET nd   == h[t]
        idx  == VIdx(Len(nd.py), i, FALSE)
        id   == NodeId(vs)
        h1   == Alloc(h, vs)
        sh   == [p \in DOMAIN nd.cm |-> <<IF nd.cm[p][1] >= idx THEN nd.cm[p][1] + 1 ELSE nd.cm[p][1], nd.cm[p][2]>>]
        py2  == InsertSeq(nd.py, idx + 1, id)
        asis == MSet(sh, idx, id)                               \* set_child puts the new index LAST
        good == [p \in DOMAIN py2 |-> <<p - 1, py2[p]>>]          \* child map rebuilt in list order
    IN Pick(InsertKeepsMapOrder, "InsertKeepsMapOrder",
            Ok([h1 EXCEPT ![t] = [nd EXCEPT !.cm = asis, !.py = py2]]),
            Ok([h1 EXCEPT ![t] = [nd EXCEPT !.cm = good, !.py = py2]]))

\* value == element, as list.index sees it (int / list / dict equality on the built-in views)
Matches(h, id, vs) ==
    CASE vs.t = "S" -> h[id].k = "s" /\ h[id].v = vs.n
      [] vs.t = "L" -> h[id].k = "l" /\ Len(h[id].py) = 1 /\ h[h[id].py[1]].k = "s" /\ h[h[id].py[1]].v = vs.n
      [] vs.t = "D" -> h[id].k = "d" /\ Len(h[id].py) = 1 /\ h[id].py[1][1] = "a"
                       /\ h[h[id].py[1][2]].k = "s" /\ h[h[id].py[1][2]].v = vs.n

\* list.py:98-99 remove: self._del(self.index(value))
LRemove(h, t, vs) ==
    LET py   == h[t].py
        hits == {p \in DOMAIN py : Matches(h, py[p], vs)}
    IN IF hits = {} THEN Fail(h, "ValueError")
       ELSE LDel(h, t, (CHOOSE p \in hits : \A q \in hits : p <= q) - 1)

\* pop is inherited from list: the built-in list shrinks, `_children` is untouched.
\* Intended: the same index rule (IndexError outside -n..n-1, default -1), both views.
LPop(h, t, hasi, i) ==
    LET py == h[t].py
        n  == Len(py)
        ii == IF hasi THEN i ELSE 0 - 1
        j  == IF ii < 0 THEN ii + n ELSE ii
    IN IF n = 0 \/ j < 0 \/ j >= n THEN Fail(h, "IndexError")
       ELSE Pick(PopNotOverridden, "PopNotOverridden",
                 Ok([h EXCEPT ![t].py = RemoveAt(py, j + 1)]),
                 LDel(h, t, ii))

\* list.py:101-103 / dict.py:80-82 clear
Clear(h, t) == Ok([h EXCEPT ![t].py = <<>>, ![t].cm = <<>>])

(***************************************************************************)
(* ComposedNode.ayns.rename_child (composed.py:44-53), inherited by both    *)
(* container types.  Intended: a mapping renames the entry in both stores   *)
(* (the renamed entry becomes the last one, as in `_children`); a list      *)
(* refuses (its names are positions).                                       *)
(***************************************************************************)
Rename(h, t, old, new) ==
    LET nd == h[t]
    IN IF ~MHas(nd.cm, old) THEN Fail(h, "ValueError")
       ELSE IF MHas(nd.cm, new) THEN Fail(h, "ValueError")
       ELSE LET id  == MGet(nd.cm, old)
                cm2 == Append(MPop(nd.cm, old), <<new, id>>)
            IN Pick(RenameMapOnly, "RenameMapOnly",
                    Ok([h EXCEPT ![t].cm = cm2]),
                    IF nd.k = "l" \/ new \in ShadowNames THEN Fail(h, "ValueError")
                    ELSE Ok([h EXCEPT ![t].cm = cm2,
                                      ![t].py = IF MHas(nd.py, old)
                                                THEN Append(MPop(nd.py, old), <<new, MGet(nd.py, old)>>)
                                                ELSE nd.py]))

(***************************************************************************)
(* ConfigDict                                                               *)
(***************************************************************************)
\* dict.py:27-32 _set
DSet(h, t, name, vs) ==
    IF name \in ShadowNames THEN Fail(h, "ValueError")
    ELSE LET h1 == Alloc(h, vs)
             id == NodeId(vs)
         IN Ok([h1 EXCEPT ![t].cm = MSet(h[t].cm, name, id), ![t].py = MSet(h[t].py, name, id)])

\* dict.py:34-37 _del: `_children.pop(name, None)` first, then dict.__delitem__ (KeyError leaves the child map changed)
DDel(h, t, name) ==
    LET h1 == [h EXCEPT ![t].cm = MPop(h[t].cm, name)]
    IN IF ~MHas(h[t].py, name) THEN Fail(h1, "KeyError")
       ELSE Ok([h1 EXCEPT ![t].py = MPop(h[t].py, name)])

\* dict.py:57-61 __setitem__
DSetItem(h, t, name, vs) ==
    IF name \in UnderscoreNames
    THEN Pick(UnderscoreBypass, "UnderscoreBypass",
              Ok([AllocRaw(h, vs) EXCEPT ![t].py = MSet(h[t].py, name, Rid(vs.n))]),
              DSet(h, t, name, vs))
    ELSE DSet(h, t, name, vs)

\* dict.py:63-67 __delitem__
DDelItem(h, t, name) ==
    IF name \in UnderscoreNames
    THEN Pick(UnderscoreBypass, "UnderscoreBypass",
              IF MHas(h[t].py, name) THEN Ok([h EXCEPT ![t].py = MPop(h[t].py, name)]) ELSE Fail(h, "KeyError"),
              DDel(h, t, name))
    ELSE DDel(h, t, name)

\* dict.py:39-43 __setattr__: '_'-names are Python attributes of the object, not entries
DSetAttr(h, t, name, vs) == IF name \in UnderscoreNames THEN Ok(h) ELSE DSet(h, t, name, vs)
\* dict.py:51-55 __delattr__ ("?" = may or may not raise: depends on Python attributes, which are not modelled)
DDelAttr(h, t, name)     == IF name \in UnderscoreNames THEN Fail(h, "?") ELSE DDel(h, t, name)

\* dict.py:84-87 setdefault: `key not in self` asks the child map, `self[key]` the built-in dict
DSetDefault(h, t, name, vs) ==
    IF ~MHas(h[t].cm, name) THEN DSet(h, t, name, vs)
    ELSE IF MHas(h[t].py, name) THEN Ok(h) ELSE Fail(h, "KeyError")

\* dict.py:89-93 pop(k, *d): dict.pop first (KeyError before anything changed), then the child map
DPop(h, t, name, hasd) ==
    IF MHas(h[t].py, name) THEN Ok([h EXCEPT ![t].py = MPop(h[t].py, name), ![t].cm = MPop(h[t].cm, name)])
    ELSE IF hasd THEN Ok([h EXCEPT ![t].cm = MPop(h[t].cm, name)])
    ELSE Fail(h, "KeyError")

\* dict.py:95-100 popitem(): TypeError (missing argument k).  Intended: remove the last entry of both views.
DPopitem(h, t) ==
    Pick(PopitemBroken, "PopitemBroken",
         Fail(h, "TypeError"),
         IF Len(h[t].py) = 0 THEN Fail(h, "KeyError")
         ELSE LET name == h[t].py[Len(h[t].py)][1]
              IN Ok([h EXCEPT ![t].py = MPop(h[t].py, name), ![t].cm = MPop(h[t].cm, name)]))

\* dict.py:102-111 update: _set per item; an exception keeps what was set before it
RECURSIVE DUpdateFrom(_, _, _, _)
DUpdateFrom(h, t, vss, j) ==
    IF j > Len(vss) THEN Ok(h)
    ELSE LET r == DSet(h, t, vss[j].k, vss[j])
         IN IF r.err # "" THEN r ELSE DUpdateFrom(r.h, t, vss, j + 1)
DUpdate(h, t, vss) == DUpdateFrom(h, t, vss, 1)

(***************************************************************************)
(* Tree API: lookup and walk                                                *)
(***************************************************************************)
\* composed.py:55-61 has_child / get_child; list.py:60-68,87-89 get_child reads the built-in list
HasChild(h, id, key) == MHas(h[id].cm, key)
GetChild(h, id, key) ==
    IF h[id].k = "d" THEN MGet(h[id].cm, key)
    ELSE LET idx == VIdx(Len(h[id].py), key, TRUE) IN IF idx < 0 THEN 0 ELSE h[id].py[idx + 1]

\* A path is a sequence of names plus, in parallel, of which container type each name is ("l" = an index,
\* "d" = a mapping key): TLC cannot ask a value for its type, and `name in self._children` / `cfgobj[name]` with a
\* name of the other type is simply "not there" (or TypeError) in Python.
\* composed.py:63-96,111-139 get_node(path): 0 = not found (None / KeyError)
RECURSIVE Lookup(_, _, _, _)
Lookup(h, id, p, ks) ==
    IF Len(p) = 0 THEN id
    ELSE IF id = 0 THEN 0
    ELSE IF h[id].k # Head(ks) THEN 0                 \* not a container, or no child of that name
    ELSE IF ~HasChild(h, id, Head(p)) THEN 0
    ELSE Lookup(h, GetChild(h, id, Head(p)), Tail(p), Tail(ks))

\* composed.py:222-241 nodes_with_paths(recursive=True): a SEQUENCE of <<path, kinds, id>> in walk order
RECURSIVE WalkFrom(_, _, _, _)
RECURSIVE WalkKids(_, _, _, _, _)
WalkKids(h, id, prefix, pk, j) ==
    IF j > Len(h[id].cm) THEN <<>>
    ELSE LET c  == h[id].cm[j][2]
             cp == Append(prefix, h[id].cm[j][1])
             ck == Append(pk, h[id].k)
         IN << <<cp, ck, c>> >> \o (IF IsCont(h, c) THEN WalkFrom(h, c, cp, ck) ELSE <<>>) \o WalkKids(h, id, prefix, pk, j + 1)
WalkFrom(h, id, prefix, pk) == WalkKids(h, id, prefix, pk, 1)
Walk(h, root) == WalkFrom(h, root, <<>>, <<>>)

\* containers reachable through either view
RECURSIVE ReachFrom(_, _, _)
Kids(h, id) == IF h[id].k = "l" THEN {h[id].py[p] : p \in DOMAIN h[id].py} \cup {h[id].cm[p][2] : p \in DOMAIN h[id].cm}
               ELSE IF h[id].k = "d" THEN {h[id].py[p][2] : p \in DOMAIN h[id].py} \cup {h[id].cm[p][2] : p \in DOMAIN h[id].cm}
               ELSE {}
ReachFrom(h, todo, seen) ==
    IF todo = {} THEN seen
    ELSE LET x == CHOOSE y \in todo : TRUE
         IN ReachFrom(h, (todo \cup Kids(h, x)) \ (seen \cup {x}), seen \cup {x})
Reach(h, root) == ReachFrom(h, {root}, {})

(***************************************************************************)
(* Tree-level removal (composed.py:99-109,153-157 remove_node; 162-187      *)
(* filter_nodes, the routine merging uses to drop what a `!del` removes).   *)
(***************************************************************************)
\* one child removed by name, the way its container type does it (list.py:83-85 / dict.py:76-78)
RemoveChildOf(h, id, name) == IF h[id].k = "l" THEN LDel(h, id, name) ELSE DDel(h, id, name)

\* root.ayns.remove_node(*path_of_t, name): get_node(.., incomplete=None) asks has_child (the child map) and then
\* get_child per component; a missing node is not an error (returns None, nothing changes); a name the child map has
\* but get_child cannot deliver trips the assertion; otherwise parent.ayns.remove_child(name)
RemoveNode(h, t, name) ==
    IF ~HasChild(h, t, name) THEN Ok(h)
    ELSE IF GetChild(h, t, name) = 0 THEN Fail(h, "AssertionError")
    ELSE RemoveChildOf(h, t, name)

\* the conditions the harness hands to filter_nodes: a container never satisfies them (it stays iff something below it
\* stays), a scalar node with payload v does iff KeepS(c, v)
KeepS(c, v) == CASE c = 0 -> v % 2 = 0 [] c = 1 -> v % 2 = 1 [] c = 2 -> FALSE [] OTHER -> v >= 10

\* filter_nodes(condition): children in child-map order, containers filtered first (depth first), the names to delete
\* collected and removed afterwards in REVERSE order (so that list positions stay valid); an exception leaves the
\* heap as it is at that point
RECURSIVE Filter(_, _, _)
RECURSIVE FilterKids(_, _, _, _, _)
RECURSIVE RemoveAll(_, _, _, _)
FilterKids(h, id, c, j, todel) ==
    IF j > Len(h[id].cm) THEN [h |-> h, err |-> "", todel |-> todel]
    ELSE LET nm == h[id].cm[j][1]
             ch == h[id].cm[j][2]
         IN IF IsCont(h, ch)
            THEN LET r == Filter(h, ch, c)
                 IN IF r.err # "" THEN [h |-> r.h, err |-> r.err, todel |-> <<>>]
                    ELSE FilterKids(r.h, id, c, j + 1, IF Len(r.h[ch].cm) > 0 THEN todel ELSE Append(todel, nm))
            ELSE FilterKids(h, id, c, j + 1, IF h[ch].k = "s" /\ KeepS(c, h[ch].v) THEN todel ELSE Append(todel, nm))
RemoveAll(h, id, todel, j) ==
    IF j = 0 THEN Ok(h)
    ELSE LET r == RemoveChildOf(h, id, todel[j]) IN IF r.err # "" THEN r ELSE RemoveAll(r.h, id, todel, j - 1)
Filter(h, id, c) ==
    LET k == FilterKids(h, id, c, 1, <<>>)
    IN IF k.err # "" THEN Fail(k.h, k.err) ELSE RemoveAll(k.h, id, k.todel, Len(k.todel))

(***************************************************************************)
(* Evaluation order (dict.py:117-119, list.py:157-159, eval_context.py):    *)
(* children are evaluated in child-map order; the result is rendered as a   *)
(* token sequence (strings only).  For a node evaluated under a path of     *)
(* length >= 2 evaluate_node first walks the parents through                *)
(* PartialChild.get_or_set, i.e. through `cfgobj[key]` = the BUILT-IN view  *)
(* (eval_context.py:134-141,66-67): a name that only the child map has      *)
(* makes evaluation raise.                                                  *)
(***************************************************************************)
RECURSIVE Tok(_, _, _)
RECURSIVE TokKids(_, _, _, _, _)
\* view = "cm": what evaluation yields; view = "py": the native content of the built-in containers
TokKids(h, id, view, m, j) ==
    IF j > Len(m) THEN <<>>
    ELSE (IF h[id].k = "d" THEN <<m[j][1]>> \o Tok(h, m[j][2], view)
          ELSE Tok(h, IF view = "cm" THEN m[j][2] ELSE m[j], view)) \o TokKids(h, id, view, m, j + 1)
Tok(h, id, view) ==
    CASE h[id].k = "s"   -> <<ToString(h[id].v)>>
      [] h[id].k = "raw" -> <<"!", ToString(h[id].v)>>
      [] h[id].k = "l"   -> <<"[">> \o TokKids(h, id, view, IF view = "cm" THEN h[id].cm ELSE h[id].py, 1) \o <<"]">>
      [] h[id].k = "d"   -> <<"{">> \o TokKids(h, id, view, IF view = "cm" THEN h[id].cm ELSE h[id].py, 1) \o <<"}">>

\* cfgobj[key] on the built-in view: ConfigList.__getitem__ (strict index; TypeError for a name) /
\* dict.__getitem__; anything else is not subscriptable.  0 = raises
PyGet(h, id, key, kk) ==
    IF id = 0 THEN 0
    ELSE IF h[id].k = "raw"        \* a plain Python value: [n][0], [n][-1] and {'a': n}['a'] work, nothing else does
    THEN (IF h[id].py[1] = "L" /\ kk = "l" THEN (IF key = 0 \/ key = 0 - 1 THEN Iid(h[id].v) ELSE 0)
          ELSE IF h[id].py[1] = "D" /\ kk = "d" THEN (IF key = "a" THEN Iid(h[id].v) ELSE 0)
          ELSE 0)
    ELSE IF h[id].k # kk THEN 0
    ELSE IF kk = "l" THEN (LET idx == VIdx(Len(h[id].py), key, TRUE) IN IF idx < 0 THEN 0 ELSE h[id].py[idx + 1])
    ELSE MGet(h[id].py, key)
RECURSIVE PyChain(_, _, _, _)
PyChain(h, id, p, ks) == IF Len(p) = 0 THEN id ELSE IF id = 0 THEN 0
                         ELSE PyChain(h, PyGet(h, id, Head(p), Head(ks)), Tail(p), Tail(ks))

\* worklist of <<path, kinds, id>> in evaluation order; a node already evaluated is served from the id cache
\* (eval_context.py:131-132) before any parent is looked up
RECURSIVE EvalFails(_, _, _, _)
EvalFails(h, root, todo, seen) ==
    IF Len(todo) = 0 THEN FALSE
    ELSE LET p  == todo[1][1]
             ks == todo[1][2]
             id == todo[1][3]
         IN IF id \in seen THEN EvalFails(h, root, Tail(todo), seen)
            ELSE IF Len(p) >= 2 /\ PyChain(h, root, SubSeq(p, 1, Len(p) - 1), SubSeq(ks, 1, Len(p) - 1)) = 0 THEN TRUE
            ELSE LET kids == IF IsCont(h, id)
                             THEN [j \in DOMAIN h[id].cm |-> <<Append(p, h[id].cm[j][1]), Append(ks, h[id].k), h[id].cm[j][2]>>]
                             ELSE <<>>
                 IN EvalFails(h, root, kids \o Tail(todo), seen \cup {id})
EvalErr(h, root) == EvalFails(h, root, << <<<<>>, <<>>, root>> >>, {})
EvalTok(h, root) == IF EvalErr(h, root) THEN <<"err">> ELSE Tok(h, root, "cm")

(***************************************************************************)
(* The property                                                             *)
(***************************************************************************)
\* both views contain the same entries in the same order
ViewsAgreeAt(nd) == IF nd.k = "l" THEN MVals(nd.cm) = nd.py ELSE nd.cm = nd.py
ViewsAgreeR(h, R) == \A id \in R : IsCont(h, id) => ViewsAgreeAt(h[id])
\* every entry is a node
AllNodesR(h, R) == \A id \in R : h[id].k # "raw"
\* a list's children are numbered 0..n-1
NumberedR(h, R) == \A id \in R : h[id].k = "l" =>
                        {h[id].cm[p][1] : p \in DOMAIN h[id].cm} = 0..(Len(h[id].cm) - 1)
\* every node reported by the tree walk is the one returned by looking its path up again
WalkLookupW(h, root, w) == \A j \in DOMAIN w : Lookup(h, root, w[j][1], w[j][2]) = w[j][3]
\* evaluation sees the entries the built-in containers hold, in the same order
EvalAgree(h, root) == EvalTok(h, root) = Tok(h, root, "py")

\* a walked path converted to text and parsed back is unchanged (names over [a-zA-Z0-9_])
NameChars(s) == CASE s = "a" -> <<"a">> [] s = "b" -> <<"b">> [] s = "c" -> <<"c">> [] s = "z" -> <<"z">>
                  [] s = "_x" -> <<"_", "x">> [] s = "_y" -> <<"_", "y">>
                  [] s = "clear" -> <<"c", "l", "e", "a", "r">> [] s = "update" -> <<"u", "p", "d", "a", "t", "e">> [] s = "pop" -> <<"p", "o", "p">>
                  [] OTHER -> <<"z">>     \* (no other name is ever handed to a container by the harness)
CompsOf(p, ks) == [j \in DOMAIN p |-> IF ks[j] = "l" THEN P!IComp(p[j]) ELSE P!SComp(NameChars(p[j]))]
PathRoundTripW(w) == \A j \in DOMAIN w : P!RoundTrip(CompsOf(w[j][1], w[j][2]))

ViewsAgree(h, root)    == ViewsAgreeR(h, Reach(h, root))
AllNodes(h, root)      == AllNodesR(h, Reach(h, root))
Numbered(h, root)      == NumberedR(h, Reach(h, root))
WalkLookup(h, root)    == WalkLookupW(h, root, Walk(h, root))
PathRoundTrip(h, root) == PathRoundTripW(Walk(h, root))

Broken(h, root) ==
    LET R == Reach(h, root)
        w == Walk(h, root)
    IN (IF ViewsAgreeR(h, R) THEN {} ELSE {"ViewsAgree"}) \cup
       (IF AllNodesR(h, R) THEN {} ELSE {"AllNodes"}) \cup
       (IF NumberedR(h, R) THEN {} ELSE {"Numbered"}) \cup
       (IF WalkLookupW(h, root, w) THEN {} ELSE {"WalkLookup"}) \cup
       (IF EvalAgree(h, root) THEN {} ELSE {"EvalAgree"}) \cup
       (IF PathRoundTripW(w) THEN {} ELSE {"PathRoundTrip"})

(***************************************************************************)
(* One public operation.  op = [op, t (path of the target container), tk    *)
(* (its kinds), i, i2, key, key2, flag, vals].  The target is found the way *)
(* a caller finds it: root.ayns.get_node(path).                             *)
(***************************************************************************)
Apply(h, root, op) ==
    LET t == Lookup(h, root, op.t, op.tk)
    IN CASE op.op = "l.setitem"      -> LSet(h, t, op.i, op.vals[1], TRUE)
         [] op.op = "l.delitem"      -> LDel(h, t, op.i)
         [] op.op = "l.append"       -> LAppend(h, t, op.vals[1])
         [] op.op = "l.insert"       -> LInsert(h, t, op.i, op.vals[1])
         [] op.op = "l.extend"       -> LExtend(h, t, op.vals)
         [] op.op = "l.remove"       -> LRemove(h, t, op.vals[1])
         [] op.op = "l.pop"          -> LPop(h, t, op.flag, op.i)
         [] op.op = "l.clear"        -> Clear(h, t)
         [] op.op = "l.set_child"    -> LSet(h, t, op.i, op.vals[1], FALSE)     \* list.py:79-81
         [] op.op = "l.remove_child" -> LDel(h, t, op.i)                         \* list.py:83-85
         [] op.op = "l.rename_child" -> Rename(h, t, op.i, op.i2)
         [] op.op = "d.setitem"      -> DSetItem(h, t, op.key, op.vals[1])
         [] op.op = "d.setattr"      -> DSetAttr(h, t, op.key, op.vals[1])
         [] op.op = "d.delitem"      -> DDelItem(h, t, op.key)
         [] op.op = "d.delattr"      -> DDelAttr(h, t, op.key)
         [] op.op = "d.update"       -> DUpdate(h, t, op.vals)
         [] op.op = "d.setdefault"   -> DSetDefault(h, t, op.key, op.vals[1])
         [] op.op = "d.pop"          -> DPop(h, t, op.key, op.flag)
         [] op.op = "d.popitem"      -> DPopitem(h, t)
         [] op.op = "d.clear"        -> Clear(h, t)
         [] op.op = "d.set_child"    -> DSet(h, t, op.key, op.vals[1])           \* dict.py:72-74
         [] op.op = "d.remove_child" -> DDel(h, t, op.key)                       \* dict.py:76-78
         [] op.op = "d.rename_child" -> Rename(h, t, op.key, op.key2)
         [] op.op = "l.remove_node"  -> RemoveNode(h, t, op.i)                   \* composed.py:153-157 (through the root)
         [] op.op = "d.remove_node"  -> RemoveNode(h, t, op.key)
         [] op.op = "l.filter"       -> Filter(h, t, op.i)                       \* composed.py:162-187
         [] op.op = "d.filter"       -> Filter(h, t, op.i)

OpKind(op) == IF op.op \in {"l.setitem", "l.delitem", "l.append", "l.insert", "l.extend", "l.remove", "l.pop",
                            "l.clear", "l.set_child", "l.remove_child", "l.rename_child", "l.remove_node", "l.filter"} THEN "l" ELSE "d"
\* an operation is applicable when its target exists and is a container of the right type
Applicable(h, root, op) == LET t == Lookup(h, root, op.t, op.tk) IN t # 0 /\ h[t].k = OpKind(op)

\* the reachable part of the heap for JSON output: one <<id, kind, py, cm>> per container / unwrapped value
\* (a scalar node is its payload: id = v, so scalars are implied by the references to them)
RECURSIVE SetAsSeq(_)
SetAsSeq(S) == IF S = {} THEN <<>> ELSE LET x == CHOOSE y \in S : \A z \in S : y <= z IN <<x>> \o SetAsSeq(S \ {x})
HeapSeq(h, root) == LET ids == SetAsSeq({x \in Reach(h, root) : h[x].k # "s"})
                    IN [j \in DOMAIN ids |-> <<ids[j], h[ids[j]].k, h[ids[j]].py, h[ids[j]].cm>>]
=============================================================================
