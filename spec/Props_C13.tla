------------------------------ MODULE Props_C13 -----------------------------
(***************************************************************************)
(* C13, second half - merging onto / of function nodes follows the          *)
(* documented table (docstrings of nodes/call.py and nodes/bind.py,         *)
(* README "!bind:name { args }"):                                           *)
(*                                                                          *)
(*   Fn <- mapping      the arguments are updated key-wise, target kept     *)
(*   Fn <- list         new positional arguments: `[x, y]` is `{0: x, 1: y}`*)
(*                      and lists delete by default, so they REPLACE the    *)
(*                      arguments; `!merge [..]` updates index-wise         *)
(*   Fn <- "name"       a different name replaces the target and drops the  *)
(*                      arguments                                           *)
(*   Fn <- Fn'          different target: Fn' replaces Fn (target and       *)
(*                      arguments) unless Fn' is told to merge, then only   *)
(*                      the target changes and the arguments update key-wise*)
(*                      same target: `mapping <- Fn'`, and function nodes   *)
(*                      delete by default, so the arguments are REPLACED;   *)
(*                      key-wise with !merge                                *)
(*   mapping <- Fn      `mapping <- !del mapping`, the result is the        *)
(*                      function node;  None / scalar <- Fn : Fn            *)
(*   priorities         as everywhere (C03): a newer node of LOWER priority *)
(*                      does not replace a target, and an older entry of    *)
(*                      strictly higher priority survives a deleting node   *)
(*                                                                          *)
(* The table is stated as a declarative oracle over ONE merge step          *)
(* (older tree as observed, newer document as parsed).  What "a (deleting)  *)
(* mapping onto a mapping" means is C04's two-operator oracle (Protect /    *)
(* Spec), which knows nothing of flag levels, filter passes, promotion or   *)
(* object identity; this module only adds the function-node rows.           *)
(* The merge itself is specified in AyMerge.tla (Merge, the IsFn branches,  *)
(* Promote, FinishOtherObject) and is NOT restated here.                    *)
(***************************************************************************)
EXTENDS AyMerge, AyUniverse, Props_C04, SequencesExt

\* "lists delete by default", "function nodes are deleting by default" (an explicit !del / !merge on the node
\* or, failing that, on an ancestor decides otherwise)
C13_Deletes(n) == IF n.del # "N" THEN n.del = "T"
                  ELSE IF n.idel # "N" THEN n.idel = "T"
                  ELSE n.k \in {"list", "call", "bind"}
\* a function node / a list seen as the mapping of its arguments, deleting or not as the node itself is
C13_AsMap(n) == [n EXCEPT !.k = "dict", !.fn = "", !.del = Tri(C13_Deletes(n))]
\* ... and a mapping result given a target again
C13_Fn(kind, fn, r) == IF C04_Special(r) THEN r ELSE [r EXCEPT !.k = kind, !.fn = fn]

C13_IsName(b) == b.k = "scalar" /\ IsStrAtom(b.v)

\* one row of the table: older node a, newer node b, at least one of them a function node
C13_Table(a, b) ==
    IF IsFn(a) /\ C13_IsName(b)
    THEN IF b.del = "F" THEN C04_Outside               \* `!merge name`: docstring (always drop) and statement (unless told to merge) differ
         ELSE IF b.v[2] = a.fn THEN C04_Outside        \* the same name again: docstring "no effect", the code clears the arguments
         ELSE IF EffPr(b) >= EffPr(a) THEN [a EXCEPT !.fn = b.v[2], !.ch = <<>>]
         ELSE a
    ELSE IF IsFn(a) /\ ~IsComposed(b)
    THEN IF b.k # "scalar" \/ C04_ValuelessDel(b) THEN C04_Outside      \* `key: !del` is C04's; other node kinds are not in the table
         ELSE IF EffPr(a) > EffPr(b) THEN a ELSE b
    ELSE IF IsFn(a) /\ IsFn(b)
    THEN IF a.k # b.k THEN C04_Outside                 \* !call <- !bind and the reverse: not in the table
         ELSE IF a.fn # b.fn
         THEN IF EffPr(b) < EffPr(a) THEN a            \* the newer node loses as a whole
              ELSE IF C13_Deletes(b) THEN b            \* replaces target and arguments
              ELSE C13_Fn(a.k, b.fn, C04_Spec(C13_AsMap(a), C13_AsMap(b)))     \* told to merge
         ELSE C13_Fn(a.k, a.fn, C04_Spec(C13_AsMap(a), C13_AsMap(b)))
    ELSE IF IsFn(a) /\ b.k \in {"dict", "list"}
    THEN C13_Fn(a.k, a.fn, C04_Spec(C13_AsMap(a), C13_AsMap(b)))
    ELSE IF IsFn(a) THEN C04_Outside
    ELSE IF a.k = "dict" THEN C13_Fn(b.k, b.fn, C04_Spec(a, C13_AsMap(b)))
    ELSE IF a.k = "scalar" THEN (IF EffPr(a) > EffPr(b) THEN a ELSE b)
    ELSE C04_Outside                                   \* list <- Fn and other kinds: not in the table

\* the table applied where a function node meets something; plain untagged mappings above it combine
\* key-wise (C02), everything else without function nodes is C04's
RECURSIVE C13_Doc(_, _), C13_Keys(_, _, _)
C13_Doc(a, b) ==
    IF IsFn(a) \/ IsFn(b) THEN C13_Table(a, b)
    ELSE IF a.k = "dict" /\ b.k = "dict" /\ ~EffDel(b) /\ EffPr(a) = 0 /\ EffPr(b) = 0 THEN C13_Keys(a, b, 1)
    ELSE C04_Spec(a, b)
C13_Keys(a, b, i) ==
    IF i > Len(b.ch) THEN a
    ELSE LET key == b.ch[i][1]
             v   == b.ch[i][2]
         IN IF C04_ValuelessDel(v) THEN C04_Outside
            ELSE IF HasChild(a, key)
            THEN LET r == C13_Doc(Child(a, key), v)
                 IN IF C04_Special(r) THEN r ELSE C13_Keys(SetChildRaw(a, key, r), b, i + 1)
            ELSE C13_Keys(SetChildRaw(a, key, v), b, i + 1)

RECURSIVE C13_HasFn(_)
C13_HasFn(n) == IsFn(n) \/ \E i \in 1..Len(n.ch) : C13_HasFn(n.ch[i][2])

\* function nodes as VALUES of arguments (nested calls) are evaluated, not merged by table: they belong to the
\* argument-passing half; here every function node sits below plain mappings only
RECURSIVE C13_FnPlaced(_, _)
C13_FnPlaced(n, underFn) ==
    /\ (IsFn(n) => ~underFn)
    /\ \A i \in 1..Len(n.ch) : C13_FnPlaced(n.ch[i][2], underFn \/ IsFn(n))

C13_InDomain(old, new) ==
    /\ C04_InDomain(old, new)
    /\ C13_FnPlaced(old, FALSE) /\ C13_FnPlaced(new, FALSE)
    /\ \A m \in C04_AllNodes(new) : m.k # "clear"

C13_HoldsAt(old, sd, out) ==
    LET new  == Parse(sd, TRUE)
        want == C13_Doc(old, new)
    IN C13_InDomain(old, new) =>
         CASE want.k = "OUTSIDE" -> TRUE
           [] want.k \in {"MergeError", "PremergeError"} -> IsErr(out) /\ out.err = want.k
           [] OTHER -> ~IsErr(out) /\ DataOf(out) = DataOf(want)

\* the tag-free reading of a first document: `None <- Fn` is Fn
RECURSIVE C13_Erase(_)
C13_Erase(sd) ==
    Plain(IF sd.k \in {"dict", "list", "call", "bind"} THEN sd.k ELSE "scalar",
          IF sd.k \in FnKinds THEN Atom("s", sd.fn) ELSE sd.v,
          [i \in 1..Len(sd.ch) |-> <<sd.ch[i][1], C13_Erase(sd.ch[i][2])>>])
RECURSIVE C13_Vocabulary(_)
C13_Vocabulary(sd) ==
    /\ sd.k \in {"dict", "list", "scalar", "call", "bind"}
    /\ sd.anew = "N" /\ sd.safe = "N"
    /\ \A i \in 1..Len(sd.ch) : C13_Vocabulary(sd.ch[i][2])
RECURSIVE C13_NoValuelessDel(_)
C13_NoValuelessDel(sd) == ~(sd.k = "scalar" /\ sd.v = C04_Null /\ sd.del = "T")
                          /\ \A i \in 1..Len(sd.ch) : C13_NoValuelessDel(sd.ch[i][2])
C13_FirstHolds(sd, out) ==
    (C13_Vocabulary(sd) /\ C13_NoValuelessDel(sd)) => (~IsErr(out) /\ DataOf(out) = C13_Erase(sd))

\* docs: surface documents; outs: observed outcomes.  Stage j >= 2 is judged from the OBSERVED older
\* tree outs[j-1] and the newer document.
C13_Holds(docs, outs) ==
    /\ Len(outs) >= 1 => C13_FirstHolds(docs[1], outs[1])
    /\ \A j \in 2..Len(outs) : ~IsErr(outs[j-1]) => C13_HoldsAt(outs[j-1], docs[j], outs[j])

\* is some stage inside the domain, about a function node, and decided by the table?
C13_Judged(docs, outs) ==
    \E j \in 2..Len(outs) : ~IsErr(outs[j-1]) /\
        LET new == Parse(docs[j], TRUE)
        IN /\ C13_InDomain(outs[j-1], new)
           /\ (C13_HasFn(outs[j-1]) \/ C13_HasFn(new))
           /\ C13_Doc(outs[j-1], new).k # "OUTSIDE"

----------------------------------------------------------------------------
\* universes.  Older documents `v: <node>` (values 1), newer documents `v: <node>` (values 2).
C13_KV == SKey("v")  C13_KW == SKey("w")
C13_KA == SKey("a")  C13_KB == SKey("b")  C13_KC == SKey("c")
C13_L(v) == SD("scalar", Atom("i", v), <<>>)
C13_S(s) == SD("scalar", Atom("s", s), <<>>)
C13_NullSD == SD("scalar", C04_Null, <<>>)
C13_FnSD(kind, fn, ch) == [SD(kind, NoVal, ch) EXCEPT !.fn = fn, !.form = "tag"]

\* flags of a function node are written in the {{...}} form: !call:m.f{{'priority': 1, 'delete': False}}
C13_FnTag(sd, t) ==
    CASE t = "none"       -> sd
      [] t = "force"      -> [sd EXCEPT !.form = "md", !.pr = 1]
      [] t = "weak"       -> [sd EXCEPT !.form = "md", !.pr = -1]
      [] t = "merge"      -> [sd EXCEPT !.form = "md", !.del = "F"]
      [] t = "mergeweak"  -> [sd EXCEPT !.form = "md", !.del = "F", !.pr = -1]
      [] t = "mergeforce" -> [sd EXCEPT !.form = "md", !.del = "F", !.pr = 1]

C13_ArgSets(keyseq, val, maxKeys) == {d.ch : d \in MapsOverMax(keyseq, {val}, maxKeys)}
C13_Wrap(S) == {SD("dict", NoVal, <<<<C13_KV, c>>>>) : c \in S}

\* --- full universe (2-stage histories) -----------------------------------
C13_OldFns ==
    {C13_FnTag(C13_FnSD(k, "m.f", ch), t) :
        k \in {"call", "bind"}, ch \in C13_ArgSets(<<C13_KA, C13_KB, IKey(0)>>, C13_L("1"), 2), t \in {"none", "force", "weak"}}
    \cup {C13_FnSD("call", "m.f", <<<<C13_KA, WithTag(C13_L("1"), "force")>>, <<C13_KB, C13_L("1")>>>>),
          C13_FnSD("call", "m.f", <<<<C13_KA, SD("dict", NoVal, <<<<C13_KA, C13_L("1")>>>>)>>>>),
          C13_FnSD("bind", "m.f", <<<<IKey(0), C13_L("1")>>, <<IKey(1), C13_L("3")>>>>)}
C13_OldOthers ==
    {C13_L("1"), C13_NullSD, C13_S("m.f"), WithTag(C13_L("1"), "force"),
     SD("dict", NoVal, <<<<C13_KA, C13_L("1")>>>>),
     WithTag(SD("dict", NoVal, <<<<C13_KA, C13_L("1")>>>>), "force"),
     SD("dict", NoVal, <<<<C13_KA, WithTag(C13_L("1"), "force")>>, <<C13_KB, C13_L("1")>>>>),
     SD("dict", NoVal, <<>>)}
C13_OldDocs == C13_Wrap(C13_OldFns \cup C13_OldOthers) \cup {SD("dict", NoVal, <<<<C13_KW, C13_L("1")>>>>)}

C13_NewMaps  == TagAll(MapsOverMax(<<C13_KA, C13_KC, IKey(0)>>, {C13_L("2")}, 2), {"none", "del", "merge", "force", "weak"})
                \cup {SD("dict", NoVal, <<<<C13_KA, SD("dict", NoVal, <<<<C13_KC, C13_L("2")>>>>)>>>>)}
C13_NewLists == TagAll(ListsOver(2, {C13_L("2")}), {"none", "merge", "force", "weak"})
C13_NewNames == TagAll({C13_S("m.f"), C13_S("m.g")}, {"none", "force", "weak"})
C13_NewFns   ==
    {C13_FnTag(C13_FnSD(k, f, ch), t) :
        k \in {"call", "bind"}, f \in {"m.f", "m.g"}, ch \in C13_ArgSets(<<C13_KA, C13_KC, IKey(0)>>, C13_L("2"), 2),
        t \in {"none", "merge", "force", "weak", "mergeweak"}}
C13_NewLeaves == {C13_L("2"), C13_NullSD, WithTag(C13_L("2"), "weak")}
C13_NewDocs  == C13_Wrap(C13_NewMaps \cup C13_NewLists \cup C13_NewNames \cup C13_NewFns \cup C13_NewLeaves)

C13_Docs  == SetToSeq(C13_OldDocs) \o SetToSeq(C13_NewDocs)
C13_Range == << <<1, Cardinality(C13_OldDocs)>>,
                <<Cardinality(C13_OldDocs) + 1, Cardinality(C13_OldDocs) + Cardinality(C13_NewDocs)>> >>

\* --- narrower universe (3-stage histories, mutation cfgs) ------------------
C13_OldS ==
    C13_Wrap({C13_FnTag(C13_FnSD("call", "m.f", ch), t) :
                 ch \in {<<>>, <<<<C13_KA, C13_L("1")>>>>, <<<<C13_KA, C13_L("1")>>, <<IKey(0), C13_L("1")>>>>}, t \in {"none", "force"}}
             \cup {SD("dict", NoVal, <<<<C13_KA, C13_L("1")>>>>), C13_NullSD})
C13_NewS ==
    C13_Wrap({SD("dict", NoVal, <<<<C13_KC, C13_L("2")>>>>), SD("dict", NoVal, <<<<C13_KA, C13_L("2")>>>>),
              WithTag(SD("dict", NoVal, <<<<C13_KC, C13_L("2")>>>>), "del"),
              WithTag(SD("dict", NoVal, <<<<C13_KA, C13_L("2")>>>>), "weak"),
              SD("list", NoVal, <<<<IKey(0), C13_L("2")>>>>), WithTag(SD("list", NoVal, <<<<IKey(0), C13_L("2")>>>>), "merge"),
              C13_S("m.g"), WithTag(C13_S("m.g"), "weak")}
             \cup {C13_FnTag(C13_FnSD("call", f, ch), t) :
                      f \in {"m.f", "m.g"}, ch \in {<<>>, <<<<C13_KC, C13_L("2")>>>>, <<<<C13_KA, C13_L("2")>>>>},
                      t \in {"none", "merge", "weak"}})
C13_Docs3  == SetToSeq(C13_OldS) \o SetToSeq(C13_NewS)
C13_Range3 == << <<1, Cardinality(C13_OldS)>>,
                 <<Cardinality(C13_OldS) + 1, Cardinality(C13_OldS) + Cardinality(C13_NewS)>> >>

=============================================================================
