------------------------------ MODULE Props_C14 -----------------------------
(***************************************************************************)
(* C14 - constructing the config fails, before anything is evaluated,       *)
(* exactly when a !required placeholder survives merging, and the error     *)
(* lists the path of every such node.                                       *)
(***************************************************************************)
EXTENDS AyMerge, AyUniverse, Props_C02, SequencesExt

C14_ReqPaths(t) == {p \in PathsOf(t) : At(t, p).k = "required"}
C14_SeqSet(s) == {s[i] : i \in 1..Len(s)}

\* lbuilt: [status, paths, calls] as observed; t: the merged tree as observed
C14_BuiltOk(t, b) ==
    /\ (C14_ReqPaths(t) # {}) <=> (b.status = "RequiredError")     \* (evaluation errors are not this property's concern)
    /\ b.status = "RequiredError" => /\ C14_SeqSet(b.paths) = C14_ReqPaths(t)     \* every surviving placeholder is listed
                                     /\ b.calls = 0                                \* nothing was evaluated

C14_Holds(outs, b) ==
    (b.status # "none" /\ Len(outs) >= 1 /\ ~IsErr(outs[Len(outs)])) => C14_BuiltOk(outs[Len(outs)], b)

\* "a placeholder overwritten or deleted by any later stage does not count": for
\* documents whose only tag is !required the surviving placeholders are those of
\* the plain recursive-update fold (C02's oracle, !required being a leaf)
RECURSIVE C14_PlainReq(_, _)
C14_PlainReq(d, prefix) ==
    (IF d.k = "required" THEN {prefix} ELSE {}) \cup
    UNION {C14_PlainReq(d.ch[i][2], Append(prefix, d.ch[i][1])) : i \in 1..Len(d.ch)}

RECURSIVE C14_OnlyRequiredTags(_)
C14_OnlyRequiredTags(sd) ==
    /\ sd.k \in {"dict", "list", "scalar", "required"}
    /\ (sd.form # "none" => sd.k = "required")
    /\ \A i \in 1..Len(sd.ch) : C14_OnlyRequiredTags(sd.ch[i][2])

\* ... a document whose ROOT mapping is tagged !del (a profile that throws the previous tree away) starts the fold afresh
C14_RootDel(sd) == sd.k = "dict" /\ sd.form = "tag" /\ sd.del = "T" /\ sd.pr = 9 /\ sd.anew = "N" /\ sd.safe = "N"
C14_Untagged(sd) == [sd EXCEPT !.form = "none", !.del = "N"]
C14_DocOk(sd) == C14_OnlyRequiredTags(IF C14_RootDel(sd) THEN C14_Untagged(sd) ELSE sd)
C14_Survivors(docs, acc) ==
    ((\A j \in 1..Len(docs) : C14_DocOk(docs[j])) /\ ~IsErr(acc)) =>
        LET resets == {j \in 2..Len(docs) : C14_RootDel(docs[j])}
            from   == IF resets = {} THEN 1 ELSE CHOOSE j \in resets : \A x \in resets : x <= j
            want   == C02_Fold([i \in 1..(Len(docs) - from + 1) |->
                                 Erase(IF C14_RootDel(docs[from + i - 1]) THEN C14_Untagged(docs[from + i - 1]) ELSE docs[from + i - 1])])
        IN ~C02_IsError(want) /\ C14_ReqPaths(acc) = C14_PlainReq(want, <<>>)

----------------------------------------------------------------------------
\* universes
C14_KA == SKey("a")  C14_KB == SKey("b")
C14_L(v) == SD("scalar", Atom("i", v), <<>>)
C14_Req == [SD("required", NoVal, <<>>) EXCEPT !.form = "tag"]
C14_Call(args) == [SD("call", NoVal, args) EXCEPT !.fn = "vmod.rec", !.form = "tag"]
C14_Bind(args) == [SD("bind", NoVal, args) EXCEPT !.fn = "vmod.rec", !.form = "tag"]
C14_Leaves == {C14_L("1"), C14_Req}

\* first documents: a: <tree> where leaves are 1 or !required, inside mappings,
\* lists and the arguments of !call / !bind nodes
C14_T1 == C14_Leaves \cup (MapsOver(<<C14_KA, C14_KB>>, C14_Leaves) \ {SD("dict", NoVal, <<>>)})
          \cup ListsOver(2, C14_Leaves)
          \cup {C14_Call(<<<<C14_KA, x>>>>) : x \in C14_Leaves} \cup {C14_Bind(<<<<C14_KA, x>>>>) : x \in C14_Leaves}
C14_First == {SD("dict", NoVal, <<<<C14_KA, c>>>>) : c \in C14_T1} \cup
             {SD("dict", NoVal, <<<<C14_KA, SD("dict", NoVal, <<<<C14_KB, c>>>>)>>, <<C14_KB, x>>>>) : c \in C14_T1, x \in C14_Leaves}
\* later documents: override / delete any subset
C14_DelKey == WithTag(SD("scalar", Atom("n", ""), <<>>), "del")
C14_L2 == {C14_L("2"), C14_Req, C14_DelKey}
C14_T2 == C14_L2 \cup (MapsOver(<<C14_KA, C14_KB, IKey(0)>>, C14_L2) \ {SD("dict", NoVal, <<>>)})
          \cup {SD("list", NoVal, <<>>), SD("list", NoVal, <<<<IKey(0), C14_L("2")>>>>)}
C14_Later == {SD("dict", NoVal, <<<<C14_KA, c>>>>) : c \in C14_T2} \cup
             {SD("dict", NoVal, <<<<C14_KA, SD("dict", NoVal, <<<<C14_KB, c>>>>)>>>>) : c \in C14_T2} \cup
             {SD("dict", NoVal, <<<<C14_KB, x>>>>) : x \in C14_L2}
C14_Reset == {WithTag(d, "del") : d \in {SD("dict", NoVal, <<<<C14_KA, C14_Req>>>>), SD("dict", NoVal, <<<<C14_KB, C14_Req>>>>),
                                          SD("dict", NoVal, <<<<C14_KA, SD("dict", NoVal, <<<<C14_KB, C14_Req>>>>)>>>>),
                                          SD("dict", NoVal, <<<<C14_KA, C14_L("2")>>>>), SD("dict", NoVal, <<>>)}}
C14_Docs  == SetToSeq(C14_First) \o SetToSeq(C14_Later \cup C14_Reset)
C14_Range == << <<1, Cardinality(C14_First)>>, <<Cardinality(C14_First) + 1, Cardinality(C14_First) + Cardinality(C14_Later \cup C14_Reset)>> >>
\* 3 stages over a narrower set
C14_FirstS == {SD("dict", NoVal, <<<<C14_KA, c>>>>) : c \in C14_T1}
C14_LaterS == {SD("dict", NoVal, <<<<C14_KA, c>>>>) : c \in C14_L2 \cup (MapsOver(<<C14_KA, IKey(0)>>, C14_L2) \ {SD("dict", NoVal, <<>>)})}
C14_Docs3  == SetToSeq(C14_FirstS) \o SetToSeq(C14_LaterS \cup C14_Reset)
C14_Range3 == << <<1, Cardinality(C14_FirstS)>>, <<Cardinality(C14_FirstS) + 1, Cardinality(C14_FirstS) + Cardinality(C14_LaterS \cup C14_Reset)>> >>

=============================================================================
