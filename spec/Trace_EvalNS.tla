----------------------------- MODULE Trace_EvalNS ----------------------------
(***************************************************************************)
(* C12, direction code -> spec: histories of builds RECORDED from the real  *)
(* library (one process per history, harness/evalns.py) are validated       *)
(* against AyEvalNS.  One ndjson line per history:                          *)
(*   [tid, builds |-> << [prog (index into C12_PROGS), cfg, syms, file,     *)
(*                        obs |-> [kind, cause, arg, seen, modules,         *)
(*                                 defsyms]] .. >>]                         *)
(* obs.seen = the <<name, source, version>> triples readable off the value  *)
(* the library returned.  The machine (deviation switches as in the cfg =   *)
(* the pinned behaviour) takes its internal steps freely and is compared    *)
(* with the log whenever a build is done.  Verdicts are total: the first    *)
(* disagreement of a trace is classified (field) and ends the trace.  The   *)
(* PROPERTY (Want = what Python computes for this build alone) is           *)
(* evaluated on the logged outcome as well, and the resolved value of       *)
(* every name is printed for the native reference run.                      *)
(***************************************************************************)
EXTENDS Naturals, Sequences, FiniteSets, TLC, Json, IOUtils

CONSTANTS ModuleCacheKeepsCtx, BytecodePatch312, NoFilenameCompile, BuiltinBeforeCfg, SymbolsLeak

VARIABLES tid, l, stT, res, stop

Progs == JsonDeserialize(IOEnv.C12_PROGS).progs       \* descriptors of the recorded programs
Prog(i) == Progs[i]

T == INSTANCE AyEvalNS WITH st <- stT

Traces == ndJsonDeserialize(IOEnv.C12_TRACES)
Tr     == Traces[tid]
Bd     == Tr.builds[l]

Init == /\ tid \in 1..Len(Traces) /\ l = 1 /\ stT = T!InitState /\ res = <<>> /\ stop = FALSE

Triples(log) == {<<log[i].name, log[i].val.src, log[i].val.ver>> : i \in 1..Len(log)}

\* first field in which a (specified) outcome o disagrees with what was observed; "" = none
Mismatch(o, obs) ==
    IF o.kind = "unspecified" THEN ""
    ELSE IF o.kind # obs.kind THEN "kind"
    ELSE IF o.kind = "EvalError" /\ o.cause # obs.cause THEN "cause"
    ELSE IF o.kind = "EvalError" /\ o.cause = "NameError" /\ o.arg # obs.arg THEN "name"
    ELSE IF o.kind = "value" /\ ~(T!ToSetS(obs.seen) \subseteq Triples(o.log)) THEN "resolution"
    ELSE ""

Compact(o) == [kind |-> o.kind, cause |-> o.cause, arg |-> o.arg,
               res |-> [i \in 1..Len(o.log) |-> <<o.log[i].name, o.log[i].val.src, o.log[i].val.ver, o.log[i].via>>]]

Start == /\ ~stop /\ stT.pc = "idle" /\ l <= Len(Tr.builds)
         /\ T!Build(Bd.prog, Bd.cfg, Bd.syms, Bd.file)
         /\ UNCHANGED <<tid, l, res, stop>>

Step == /\ stT.pc \in {"exec", "eval"} /\ T!Run /\ UNCHANGED <<tid, l, res, stop>>

Done == /\ stT.pc = "done"
        /\ LET o == stT.outcome
               w == T!Want(stT.cur)
               m == Mismatch(o, Bd.obs)
           IN /\ res' = Append(res, [l |-> l, model |-> m, prop |-> Mismatch(w, Bd.obs),
                                     want |-> Compact(w), asis |-> Compact(o), fired |-> stT.fired,
                                     modules |-> Cardinality(DOMAIN stT.modcache) = Bd.obs.modules,
                                     defsyms |-> DOMAIN stT.defsyms = T!ToSetS(Bd.obs.defsyms)])
              /\ stop' = (m # "" \/ Bd.obs.kind \in {"Crash", "Hang"})
        /\ T!EndBuild
        /\ l' = l + 1
        /\ UNCHANGED tid

Next == Start \/ Step \/ Done
Spec == Init /\ [][Next]_<<tid, l, stT, res, stop>>

Finished == stT.pc = "idle" /\ (stop \/ l > Len(Tr.builds))
Verdict  == Finished => PrintT(ToJson([c12t |-> Tr.tid, res |-> res]))
=============================================================================
