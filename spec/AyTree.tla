------------------------------- MODULE AyTree -------------------------------
(***************************************************************************)
(* Node records, effective flags, paths and plain data of awesomeyaml       *)
(* config trees.  Shaped after nodes/node.py, nodes/composed.py,            *)
(* nodes/node_path.py.                                                      *)
(*                                                                          *)
(* A node is one record; children are an ordered sequence of <<key, node>>  *)
(* pairs because order is observable.  Keys are records [t, n, s] so that   *)
(* int and str keys live in one comparable sort (TLC cannot compare an int  *)
(* with a string).  Scalar values ("atoms") are pairs <<type, text>>:         *)
(* <<"i","1">> <<"s","a">> <<"f","2.5">> <<"b","T">> <<"n","">>.             *)
(***************************************************************************)
EXTENDS Integers, Sequences, FiniteSets, TLC

CONSTANTS
    \* Deviation switches.  FALSE = intended design (and the code as repaired
    \* by the fix: commits); TRUE reproduces one defect found in the pinned
    \* tree.  Mutation cfgs set one of them and expect a counterexample.
    DeepWrapRefills,      \* F1  yaml.py construct_object schedules a 2nd fill
    ShallowPriority,      \* F3  tagged container's priority reaches direct children only
    AbsLookup,            \* F4  prune looks the absolute path up inside the newer subtree
    FnTruthyWhenEmpty,    \* F5  emptied function node survives a delete
    StreamLeaksMerge,     \* F6  StreamNode hands implicit_delete=False to its stages
    ClearDropsDelTagged,  \* F12 !clear of a container tagged !del earlier removes the key
    NoCycleCheck,         \* F8  xref.py followed reference chains without any cycle check
    DefaultSafeOverwrite, \* F7  _replace_* overwrite _default_safe instead of and-ing
    \* One named design mutation ("none" in every real cfg).  Mutation cfgs set
    \* it and expect TLC to refute the property: the vacuity guard.
    Mutation

Mut(name) == Mutation = name

----------------------------------------------------------------------------
\* Keys

SKey(s) == [t |-> "s", n |-> 0, s |-> s]
IKey(i) == [t |-> "i", n |-> i, s |-> ""]
FKey(s) == [t |-> "f", n |-> 0, s |-> s]
IsIntKey(k) == k.t = "i"

----------------------------------------------------------------------------
\* Tri-state flags are "N" (None) "T" "F"; priority is 9 (None) -1 0 1.

PrNone == 9
Tri(b) == IF b THEN "T" ELSE "F"
NotNoneOr(a, b) == IF a # "N" THEN a ELSE b

ListKinds == {"list", "append", "extend", "path", "stream", "rec"}      \* ("rec": RecurseNode, a list of file names)
DictKinds == {"dict", "call", "bind"}
FnKinds   == {"call", "bind"}
ComposedKinds == ListKinds \cup DictKinds

IsComposed(n) == n.k \in ComposedKinds
IsList(n)     == n.k \in ListKinds
IsDict(n)     == n.k \in DictKinds
IsFn(n)       == n.k \in FnKinds
IsPlainComposed(n) == n.k \in {"dict", "list"}

\* class attribute _default_delete (list.py:22, function.py:20, stream.py:20)
TypeDefaultDelete(n) ==
    n.k \in ({"list", "append", "extend", "path", "rec", "call", "bind"}
             \ (IF Mut("ListsMergeByDefault") THEN {"list"} ELSE {}))

NoVal == <<"", "">>
Atom(t, s) == <<t, s>>
IsStrAtom(v) == v[1] = "s"

\* node_path.py join_path: the text of a path
RECURSIVE PathStr(_)
PathStr(p) ==
    IF p = <<>> THEN ""
    ELSE LET init == PathStr(SubSeq(p, 1, Len(p) - 1))
             k    == p[Len(p)]
         IN IF k.t = "i" THEN init \o "[" \o ToString(k.n) \o "]"
            ELSE init \o (IF init = "" THEN "" ELSE ".") \o k.s

MkNode(k, v, ch) ==
    [k |-> k, v |-> v, ch |-> ch, fn |-> "", ref |-> <<>>,
     pr |-> PrNone, del |-> "N", idel |-> "N", anew |-> "N", ianew |-> "N",
     safe |-> "N", isafe |-> "N", dsafe |-> "T", md |-> {}]

\* node.py:206-249
EffPr(n)   == IF n.pr = PrNone THEN 0 ELSE n.pr
EffDel(n)  == IF n.del # "N" THEN n.del = "T"
              ELSE IF n.idel # "N" THEN n.idel = "T"
              ELSE TypeDefaultDelete(n)
EffNew(n)  == IF n.ianew # "N" THEN n.ianew = "T" ELSE TRUE
EffSafe(n) == n.safe # "F" /\ n.isafe # "F" /\ n.dsafe = "T"
ExplicitDelete(n) == n.del = "T"

\* node.py:278-281
HasPriorityOver(a, b, ifEqual) ==
    IF EffPr(a) = EffPr(b) THEN (ifEqual \/ Mut("PriorityGE")) ELSE EffPr(a) > EffPr(b)

----------------------------------------------------------------------------
\* Children

NKeys(n)      == [i \in 1..Len(n.ch) |-> n.ch[i][1]]
KeySet(n)     == {n.ch[i][1] : i \in 1..Len(n.ch)}
HasKey(n, k)  == \E i \in 1..Len(n.ch) : n.ch[i][1] = k
KeyPos(n, k)  == CHOOSE i \in 1..Len(n.ch) : n.ch[i][1] = k
Child(n, k)   == n.ch[KeyPos(n, k)][2]

\* assignment to an existing key keeps its position; a new key goes last
SetChildRaw(n, k, c) ==
    IF HasKey(n, k)
    THEN [n EXCEPT !.ch = [i \in 1..Len(n.ch) |-> IF n.ch[i][1] = k THEN <<k, c>> ELSE n.ch[i]]]
    ELSE [n EXCEPT !.ch = Append(n.ch, <<k, c>>)]

SelectSeq2(s, Test(_)) == SelectSeq(s, Test)

\* list children are renumbered 0..n-1 after a removal (list.py _del)
Renumber(ch) == [i \in 1..Len(ch) |-> <<IKey(i - 1), ch[i][2]>>]

DelChildRaw(n, k) ==
    LET rest == SelectSeq(n.ch, LAMBDA e : e[1] # k)
    IN  [n EXCEPT !.ch = IF IsList(n) THEN Renumber(rest) ELSE rest]

\* what ayns.get_child returns (None = absent): a list answers only int keys
\* inside 0..len-1 (negative indices are outside the modelled domain)
HasChild(n, k) ==
    IF IsList(n) THEN IsIntKey(k) /\ k.n >= 0 /\ k.n < Len(n.ch) ELSE HasKey(n, k)

IsEmpty(n) == Len(n.ch) = 0

----------------------------------------------------------------------------
\* Python truthiness of a node as used by the merge (`not possibly_new_child`)

FalsyAtoms == {<<"n", "">>, <<"i", "0">>, <<"s", "">>, <<"b", "F">>, <<"f", "0.0">>}

Truthy(n) ==
    IF IsFn(n) THEN TRUE                     \* FunctionNode.__bool__ = bool(_func)
    ELSE IF IsComposed(n) THEN ~IsEmpty(n)
    ELSE IF n.k = "scalar" THEN n.v \notin FalsyAtoms
    ELSE TRUE                                \* other leaf classes: object truthiness

----------------------------------------------------------------------------
\* Paths (sequences of keys)

RECURSIVE At(_, _)
At(n, p) == IF p = <<>> THEN n ELSE At(Child(n, Head(p)), Tail(p))

RECURSIVE HasPath(_, _)
HasPath(n, p) ==
    IF p = <<>> THEN TRUE
    ELSE IsComposed(n) /\ HasChild(n, Head(p)) /\ HasPath(Child(n, Head(p)), Tail(p))

\* composed.py:141-151 get_first_not_missing_node: follow p as far as it exists
RECURSIVE FirstNotMissing(_, _)
FirstNotMissing(n, p) ==
    IF p = <<>> THEN n
    ELSE IF IsComposed(n) /\ HasChild(n, Head(p))
         THEN FirstNotMissing(Child(n, Head(p)), Tail(p))
         ELSE n

RECURSIVE PathsOf(_)
PathsOf(n) ==
    {<<>>} \cup
    (IF IsComposed(n)
     THEN UNION { {<<n.ch[i][1]>> \o q : q \in PathsOf(n.ch[i][2])} : i \in 1..Len(n.ch) }
     ELSE {})

\* leaf paths: paths of non-container nodes and of empty containers
LeafPaths(n) == {p \in PathsOf(n) : LET m == At(n, p) IN ~IsComposed(m) \/ IsEmpty(m)}

PathPrefix(p, q) == Len(p) <= Len(q) /\ SubSeq(q, 1, Len(p)) = p

RECURSIVE SetAt(_, _, _)
SetAt(n, p, m) ==
    IF p = <<>> THEN m
    ELSE SetChildRaw(n, Head(p), SetAt(Child(n, Head(p)), Tail(p), m))

----------------------------------------------------------------------------
\* Plain data: what evaluation of a *static* tree yields (dict.py:117-119,
\* list.py:157-159, scalar.py).  Same record shape without flags.

Plain(k, v, ch) == [k |-> k, v |-> v, ch |-> ch]

RECURSIVE DataOf(_)
DataOf(n) ==
    IF IsList(n) THEN Plain("list", NoVal, [i \in 1..Len(n.ch) |-> <<n.ch[i][1], DataOf(n.ch[i][2])>>])
    ELSE IF IsDict(n) THEN Plain(IF IsFn(n) THEN n.k ELSE "dict", IF IsFn(n) THEN Atom("s", n.fn) ELSE NoVal,
                                 [i \in 1..Len(n.ch) |-> <<n.ch[i][1], DataOf(n.ch[i][2])>>])
    ELSE Plain(n.k, n.v, <<>>)

\* the same data up to the order of mapping keys
RECURSIVE Unordered(_)
Unordered(d) ==
    IF d.k = "list"
    THEN [k |-> "list", v |-> NoVal, ch |-> [i \in 1..Len(d.ch) |-> <<d.ch[i][1], Unordered(d.ch[i][2])>>]]
    ELSE [k |-> d.k, v |-> d.v, ch |-> {<<d.ch[i][1], Unordered(d.ch[i][2])>> : i \in 1..Len(d.ch)}]

----------------------------------------------------------------------------
\* A compact JSON-friendly rendering of plain data, used when TLC prints the
\* expected outcome of a behaviour: scalar -> "t:text"; list -> array;
\* mapping -> [d |-> <<<<"t:key", value>>, ...>>] (order kept);
\* function node -> additionally [c |-> kind, f |-> target].
KeyStr(k) == k.t \o ":" \o (IF k.t = "i" THEN ToString(k.n) ELSE k.s)
AtomStr(a) == a[1] \o ":" \o a[2]

RECURSIVE Compact(_)
Compact(d) ==
    IF d.k = "list" THEN [i \in 1..Len(d.ch) |-> Compact(d.ch[i][2])]
    ELSE IF d.k = "dict" THEN [d |-> [i \in 1..Len(d.ch) |-> <<KeyStr(d.ch[i][1]), Compact(d.ch[i][2])>>]]
    ELSE IF d.k \in FnKinds THEN [c |-> d.k, f |-> d.v[2],
                                   d |-> [i \in 1..Len(d.ch) |-> <<KeyStr(d.ch[i][1]), Compact(d.ch[i][2])>>]]
    ELSE IF d.k = "scalar" THEN AtomStr(d.v)
    ELSE [n |-> d.k]

\* the same for a node tree, user metadata included where present:
\* [m |-> {<<name, "t:text">>..}, x |-> compact]
RECURSIVE CompactN(_)
CompactN(n) ==
    LET kids == [i \in 1..Len(n.ch) |-> <<KeyStr(n.ch[i][1]), CompactN(n.ch[i][2])>>]
        body == IF IsList(n) THEN [i \in 1..Len(n.ch) |-> CompactN(n.ch[i][2])]
                ELSE IF IsFn(n) THEN [c |-> n.k, f |-> n.fn, d |-> kids]
                ELSE IF IsDict(n) THEN [d |-> kids]
                ELSE IF n.k = "scalar" THEN AtomStr(n.v)
                ELSE [n |-> n.k]
    IN IF n.md = {} THEN body ELSE [m |-> {<<e[1], AtomStr(e[2])>> : e \in n.md}, x |-> body]

=============================================================================
