------------------------------ MODULE Props_C02 -----------------------------
(***************************************************************************)
(* C02 - merging plain (tag-free) documents is a right-biased recursive     *)
(* mapping update.                                                          *)
(***************************************************************************)
EXTENDS AyMerge, AyUniverse, SequencesExt

C02_Error == Plain("MergeError", NoVal, <<>>)
C02_IsError(d) == d.k = "MergeError"

C02_HasKey(d, k) == \E i \in 1..Len(d.ch) : d.ch[i][1] = k
C02_Get(d, k)    == d.ch[CHOOSE i \in 1..Len(d.ch) : d.ch[i][1] = k][2]

\* the declarative reading of the statement (7 cases)
RECURSIVE C02_RecUpdate(_, _)
C02_RecUpdate(a, b) ==
    IF a.k = "dict" /\ b.k = "dict"
    THEN LET upd == [i \in 1..Len(a.ch) |->
                        <<a.ch[i][1], IF C02_HasKey(b, a.ch[i][1])
                                      THEN C02_RecUpdate(a.ch[i][2], C02_Get(b, a.ch[i][1]))
                                      ELSE a.ch[i][2]>>]
             new == SelectSeq(b.ch, LAMBDA e : ~C02_HasKey(a, e[1]))
             ch  == upd \o new
         IN IF \E i \in 1..Len(ch) : C02_IsError(ch[i][2]) THEN C02_Error
            ELSE Plain("dict", NoVal, ch)
    ELSE IF a.k = "list" /\ b.k = "dict"
    THEN IF \E i \in 1..Len(b.ch) : ~(b.ch[i][1].t = "i" /\ b.ch[i][1].n >= 0 /\ b.ch[i][1].n < Len(a.ch))
         THEN C02_Error
         ELSE LET ch == [i \in 1..Len(a.ch) |->
                            <<a.ch[i][1], IF C02_HasKey(b, a.ch[i][1])
                                          THEN C02_RecUpdate(a.ch[i][2], C02_Get(b, a.ch[i][1]))
                                          ELSE a.ch[i][2]>>]
              IN IF \E i \in 1..Len(ch) : C02_IsError(ch[i][2]) THEN C02_Error
                 ELSE Plain("list", NoVal, ch)
    ELSE b

C02_Fold(plains) ==
    LET F[i \in 1..Len(plains)] ==
          IF i = 1 THEN plains[1]
          ELSE IF C02_IsError(F[i-1]) THEN C02_Error ELSE C02_RecUpdate(F[i-1], plains[i])
    IN F[Len(plains)]

\* docs: the surface documents added so far; outs: the outcome (tree or error)
\* observed after each stage, as far as merging got
C02_Holds(docs, outs) ==
    \A j \in 1..Len(outs) :
        LET want == C02_Fold([i \in 1..j |-> Erase(docs[i])])
        IN IF C02_IsError(want) THEN IsErr(outs[j]) /\ outs[j].err = "MergeError"
           ELSE ~IsErr(outs[j]) /\ DataOf(outs[j]) = want

\* consequences the statement spells out, checked separately (on the design)
\* no key is ever lost: every mapping path of the older result survives unless
\* a later document replaced one of its ancestors by a non-mapping
RECURSIVE C02_DictPaths(_)
C02_DictPaths(d) ==
    IF d.k # "dict" THEN {<<>>}
    ELSE {<<>>} \cup UNION { {<<d.ch[i][1]>> \o q : q \in C02_DictPaths(d.ch[i][2])} : i \in 1..Len(d.ch) }

RECURSIVE C02_At(_, _)
C02_At(d, p) == IF p = <<>> THEN d ELSE C02_At(C02_Get(d, Head(p)), Tail(p))
RECURSIVE C02_Has(_, _)
C02_Has(d, p) == IF p = <<>> THEN TRUE
                 ELSE d.k \in {"dict", "list"} /\ C02_HasKey(d, Head(p)) /\ C02_Has(C02_Get(d, Head(p)), Tail(p))

\* the newer document "mentions" p: p or a prefix of p is written by it
C02_Mentions(nw, p) == \E n \in 1..Len(p) : C02_Has(nw, SubSeq(p, 1, n)) 

C02_NoKeyLost(docs, outs) ==
    \A j \in 2..Len(outs) :
        (~IsErr(outs[j-1]) /\ ~IsErr(outs[j])) =>
            LET old == DataOf(outs[j-1])  new == DataOf(outs[j])  nw == Erase(docs[j])
            IN /\ \A p \in C02_DictPaths(old) :
                   C02_Has(new, p) \/ \E n \in 1..Len(p) :
                                          /\ C02_Has(nw, SubSeq(p, 1, n))
                                          /\ C02_At(nw, SubSeq(p, 1, n)).k # "dict"
               /\ \A p \in C02_DictPaths(nw) : C02_Has(new, p)   \* and every key of the newer side is there

\* frame: what the newer document does not mention is unchanged
C02_Frame(docs, outs) ==
    \A j \in 2..Len(outs) :
        (~IsErr(outs[j-1]) /\ ~IsErr(outs[j])) =>
            LET old == DataOf(outs[j-1])  new == DataOf(outs[j])  nw == Erase(docs[j])
            IN \A p \in C02_DictPaths(old) :
                   (p # <<>> /\ ~C02_Mentions(nw, p)) => (C02_Has(new, p) /\ C02_At(new, p) = C02_At(old, p))

----------------------------------------------------------------------------
\* universes
KA == SKey("a")  KB == SKey("b")
A1 == Atom("i", "1")  A2 == Atom("i", "2")

\* depth <= 2, keys a b and int keys 0 1, atoms 1 2, lists of <= 2 elements
C02_Sub1  == Trees(1, <<KA, IKey(0)>>, {A1, A2}, 2, {"none"})
C02_Docs2 == SetToSeq(MapsOver(<<KA, KB>>, Trees(1, <<KA, IKey(0), IKey(1)>>, {A1}, 2, {"none"}) \cup C02_Sub1))
\* quick tier: as Docs2 with a single top-level key
C02_Docs2q == SetToSeq(MapsOver(<<KA>>, Trees(1, <<KA, IKey(0), IKey(1)>>, {A1}, 2, {"none"}) \cup C02_Sub1))
\* 4-stage histories over the smallest interesting set
C02_Docs4 == SetToSeq(MapsOver(<<KA>>, Trees(1, <<IKey(0)>>, {A1, A2}, 1, {"none"})))
\* a narrower set for 3-stage histories
C02_Docs3 == SetToSeq(MapsOver(<<KA>>, Trees(1, <<KA, IKey(0)>>, {A1, A2}, 1, {"none"})))

=============================================================================
