------------------------------- MODULE AyCopy -------------------------------
(***************************************************************************)
(* C19 - copy.deepcopy / pickle of a node tree: the reconstruction protocol *)
(* as a step machine over a heap of node cells.                             *)
(*                                                                          *)
(* Shaped after                                                             *)
(*   composed.py:346-368  __getstate__ (the attribute dict WITHOUT          *)
(*                        _children), __setstate__, _recreate(cls) (a blank *)
(*                        container: cls.__new__ + an empty child map, NO   *)
(*                        attribute), __reduce__ -> (_recreate, (cls,),     *)
(*                        state, iter(self) | None, iter(self.items())|None)*)
(*   scalar.py:183-191    ConfigScalar.__reduce__ (value + attribute dict)  *)
(*   list.py:94-96        append  = ComposedNode.ayns.set_child(len(self))  *)
(*   dict.py:27-32,57-61  __setitem__ -> _set (shadow check) -> set_child;  *)
(*                        names starting with '_' go to the dict only       *)
(*   composed.py:34-38    set_child: ConfigNode(value, **_get_child_kwargs) *)
(*                        (node.py:74-92 adopt-existing-node branch), then  *)
(*                        value._propagate_implicit_values()                *)
(*   composed.py:370-405  _get_child_kwargs / _propagate_implicit_values    *)
(*                        return early while `self` has no `_delete` yet    *)
(* and after the two consumers of __reduce__:                               *)
(*   pickle   REDUCE ; (children, each complete) APPENDS / SETITEMS ; BUILD *)
(*            = Recreate, Attach*, RestoreState  (state comes LAST)         *)
(*   copy     copy._reconstruct: y = func(args..); y.__setstate__(deep state) *)
(*            ; y.append(deepcopy(item)) / y[deepcopy(k)] = deepcopy(v)     *)
(*            = Recreate, RestoreState, Attach*                             *)
(* Children are reconstructed completely (recursively) before they are      *)
(* attached, in both protocols.                                             *)
(*                                                                          *)
(* Node records, ChildKw, Adopt, Propagate are those of AyParse / AyMerge:  *)
(* the trees that are copied are the trees Parse and FoldDocs produce.      *)
(*                                                                          *)
(* A container has TWO views (C17): the child map `kids` (_children) and    *)
(* the built-in storage `py` (the list / the dict itself).  __reduce__      *)
(* iterates the BUILT-IN view; Attach fills both views of the copy.         *)
(***************************************************************************)
EXTENDS AyMerge, Uni

CONSTANTS
    \* Deviation switches of this module: TRUE = the library as it is today,
    \* FALSE = the intended design (which must satisfy every formula below).
    AttachRederivesFlags, \* Attach on a parent that HAS its attributes adopts the child: the child's implicit
                          \* flags are overwritten with what the parent derives (deepcopy order; composed.py:35)
    UnderscoreBypass,     \* F2: d['_x'] = v stores into the dict only, the child map of the copy lacks the entry
    ShadowKeyRaises,      \* d['items'] = v raises ValueError (dict.py:28-29): the copy cannot be made
    InsertKeepsMapOrder,  \* F10: list.insert puts the new index LAST in the child map (only used by EditInsert)
    StateCarriesChildren, \* the protocol of the proposed repair: __getstate__ keeps the child map and the built-in items,
                          \* __reduce__ hands out NO item iterators, __setstate__ puts both views back without any mutator
                          \* (FALSE = composed.py as it is: children re-attached through append / __setitem__)
    Protocols,            \* subset of {"pickle", "deepcopy", "copy"}
    MaxMut,               \* mutations after the copy (0 or 1)
    MaxEdits              \* list edits (insert / append) before the copy

VARIABLES
    heap,     \* id -> [n: node record without children, kids, py: Seq(<<key, id>>), attrs: has its attributes]
    oroot,    \* root id of the original (0 = nothing loaded)
    croot,    \* root id of the copy (0 = not yet created)
    proto,    \* "none" | "pickle" | "deepcopy" | "copy"
    stack,    \* reconstruction frames [src, dst, i, st, rdy]: dst is being rebuilt from src, i children attached so far,
              \* st = the state dict has been applied, rdy = complete children waiting to be attached
    status,   \* "ok" | "ValueError"
    phase,    \* "pick" | "ready" | "copying" | "copied"
    nmut, nedit,
    last,     \* the action taken last: [a, side, id] (what Isolated / OrigUntouched talk about)
    otree,    \* ghost: the original as a nested record when the copy started
    fired,    \* ghost: deviation switches that made a difference
    hist      \* ghost: which documents the tree came from (hidden from the fingerprint by the VIEW)

cvars == <<heap, oroot, croot, proto, stack, status, phase, nmut, nedit, last, otree, fired, hist>>

----------------------------------------------------------------------------
\* heap <-> nested records

Flat(t) == [t EXCEPT !.ch = <<>>]
Cell(n, kids, py, attrs) == [n |-> n, kids |-> kids, py |-> py, attrs |-> attrs]

RECURSIVE Size(_)
Size(t) == LET F[i \in 0..Len(t.ch)] == IF i = 0 THEN 1 ELSE F[i-1] + Size(t.ch[i][2]) IN F[Len(t.ch)]

\* the cells of tree t, numbered in pre-order from id
RECURSIVE LoadAt(_, _)
LoadAt(t, id) ==
    LET n == Len(t.ch)
        off[i \in 0..n] == IF i = 0 THEN id + 1 ELSE off[i-1] + Size(t.ch[i][2])
        kids == [i \in 1..n |-> <<t.ch[i][1], off[i-1]>>]
        sub[i \in 0..n] == IF i = 0 THEN (id :> Cell(Flat(t), kids, kids, TRUE))
                           ELSE sub[i-1] @@ LoadAt(t.ch[i][2], off[i-1])
    IN sub[n]

\* the tree seen through the child map / through the built-in view
RECURSIVE TreeOf(_, _)
TreeOf(h, id) == [h[id].n EXCEPT !.ch = [i \in 1..Len(h[id].kids) |-> <<h[id].kids[i][1], TreeOf(h, h[id].kids[i][2])>>]]
RECURSIVE PyTreeOf(_, _)
PyTreeOf(h, id) == [h[id].n EXCEPT !.ch = [i \in 1..Len(h[id].py) |-> <<h[id].py[i][1], PyTreeOf(h, h[id].py[i][2])>>]]

\* flags of the nested record t written back onto the cells below id (same shape as the child map)
RECURSIVE Store(_, _, _)
Store(h, id, t) ==
    LET kids == h[id].kids
        F[i \in 0..Len(kids)] == IF i = 0 THEN [h EXCEPT ![id].n = Flat(t)]
                                 ELSE Store(F[i-1], kids[i][2], t.ch[i][2])
    IN F[Len(kids)]

RECURSIVE Ids(_, _)
Ids(h, id) == {id} \cup UNION {Ids(h, h[id].kids[i][2]) : i \in 1..Len(h[id].kids)}
                   \cup UNION {Ids(h, h[id].py[i][2]) : i \in 1..Len(h[id].py)}

NextId(h) == (CHOOSE m \in DOMAIN h : \A x \in DOMAIN h : x <= m) + 1

\* C17's ViewsAgree on every container below id: both views hold the same entries in the same order
RECURSIVE ViewsAgree(_, _)
ViewsAgree(h, id) == h[id].kids = h[id].py /\ \A i \in 1..Len(h[id].kids) : ViewsAgree(h, h[id].kids[i][2])

----------------------------------------------------------------------------
\* names a mapping treats specially (dict.py:27-29, 57-61): TLC has no string
\* operations, the two classes are given by example names
UnderscoreNames == {"_x", "_y"}
ShadowNames     == {"items", "values", "keys", "clear", "update", "pop", "get", "copy"}
IsUnderscoreKey(k) == k.t = "s" /\ k.s \in UnderscoreNames
IsShadowKey(k)     == k.t = "s" /\ k.s \in ShadowNames

\* the attributes ConfigNode.__init__() gives a node built without arguments (node.py:173-195)
DefaultAttrs(kind) == MkNode(kind, NoVal, <<>>)
\* cls.__new__(cls) + `_children = {}`: no attribute at all; the record keeps the class only
Blank(kind, v) == Cell(MkNode(kind, v, <<>>), <<>>, <<>>, FALSE)

\* every child object of a container: the child map's, then those only the built-in view holds
AllKids(c) == c.kids \o SelectSeq(c.py, LAMBDA e : \A i \in 1..Len(c.kids) : c.kids[i][2] # e[2])
\* what __reduce__ hands out as list / dict-items iterator (repaired protocol: what the state dict holds, in its order)
Iter(c) == IF StateCarriesChildren THEN AllKids(c) ELSE IF Mut("IterChildMap") THEN c.kids ELSE c.py

----------------------------------------------------------------------------
Init ==
    /\ heap = <<>> /\ oroot = 0 /\ croot = 0 /\ proto = "none" /\ stack = <<>>
    /\ status = "ok" /\ phase = "pick" /\ nmut = 0 /\ nedit = 0
    /\ last = [a |-> "Init", side |-> "", id |-> 0]
    /\ otree = <<>> /\ fired = {} /\ hist = <<>>

\* a tree reachable through Parse / FoldDocs enters the heap
LoadTree(t, h) ==
    /\ phase = "pick"
    /\ heap' = LoadAt(t, 1) /\ oroot' = 1 /\ phase' = "ready" /\ hist' = h
    /\ last' = [a |-> "Load", side |-> "", id |-> 0]
    /\ UNCHANGED <<croot, proto, stack, status, nmut, nedit, otree, fired>>

----------------------------------------------------------------------------
\* edits of a list of the original before it is copied (list.py:94-96, 109-113)

\* a value wrapped outside any parse, in a thread that has parsed before: _default_safe is the restored default True (node.py:158-171,194)
FreshLeaf == MkNode("scalar", Atom("i", "7"), <<>>)

\* ayns.set_child of a NEW node below cell p under name k (adopted by p)
NewChildCell(p, v) ==
    LET kw == ChildKw(p.n) IN Cell([v EXCEPT !.idel = kw.idel, !.ianew = kw.ianew, !.isafe = kw.isafe], <<>>, <<>>, TRUE)

EditAppend(id) ==
    /\ phase = "ready" /\ nedit < MaxEdits /\ IsList(heap[id].n)
    /\ LET c == heap[id]  nid == NextId(heap)  e == <<IKey(Len(c.py)), nid>>
       IN heap' = [heap EXCEPT ![id].kids = Append(@, e), ![id].py = Append(@, e)] @@ (nid :> NewChildCell(c, FreshLeaf))
    /\ nedit' = nedit + 1 /\ last' = [a |-> "EditAppend", side |-> "orig", id |-> id]
    /\ UNCHANGED <<oroot, croot, proto, stack, status, phase, nmut, otree, fired, hist>>

ShiftKeys(kids, pos) == [i \in 1..Len(kids) |-> <<IF kids[i][1].n >= pos THEN IKey(kids[i][1].n + 1) ELSE kids[i][1], kids[i][2]>>]
C19InsertAt(s, pos, e) == SubSeq(s, 1, pos) \o <<e>> \o SubSeq(s, pos + 1, Len(s))     \* pos = number of entries before e

EditInsert(id, pos) ==
    /\ phase = "ready" /\ nedit < MaxEdits /\ IsList(heap[id].n) /\ pos < Len(heap[id].py)
    /\ LET c == heap[id]  nid == NextId(heap)
           shifted == ShiftKeys(c.kids, pos)
           py1 == C19InsertAt(c.py, pos, <<IKey(pos), nid>>)
           py2 == [i \in 1..Len(py1) |-> <<IKey(i - 1), py1[i][2]>>]
           \* list.py:109-115: since fix 0b7069a the child map is rebuilt from the list (dict(enumerate(list)))
           kids2 == IF InsertKeepsMapOrder THEN Append(shifted, <<IKey(pos), nid>>) ELSE py2
       IN heap' = [heap EXCEPT ![id].kids = kids2, ![id].py = py2] @@ (nid :> NewChildCell(c, FreshLeaf))
    /\ nedit' = nedit + 1 /\ last' = [a |-> "EditInsert", side |-> "orig", id |-> id]
    /\ UNCHANGED <<oroot, croot, proto, stack, status, phase, nmut, otree, fired, hist>>

\* list.reverse() is the inherited built-in: it bypasses the child map (not in C17's list of mutators; used here
\* only to obtain an original whose two views disagree)
C19Reverse(s) == [i \in 1..Len(s) |-> s[Len(s) + 1 - i]]
EditReverse(id) ==
    /\ phase = "ready" /\ nedit < MaxEdits /\ IsList(heap[id].n) /\ Len(heap[id].py) >= 2
    /\ LET r == C19Reverse(heap[id].py)
       IN heap' = [heap EXCEPT ![id].py = [i \in 1..Len(r) |-> <<IKey(i - 1), r[i][2]>>]]
    /\ nedit' = nedit + 1 /\ last' = [a |-> "EditReverse", side |-> "orig", id |-> id]
    /\ UNCHANGED <<oroot, croot, proto, stack, status, phase, nmut, otree, fired, hist>>

----------------------------------------------------------------------------
\* the reconstruction machine

Top == stack[Len(stack)]
SetTop(f) == [stack EXCEPT ![Len(stack)] = f]

\* the state dict is applied first (copy) or last (pickle)
StateFirst == proto \in {"deepcopy", "copy"}
\* copy.copy and the mutation ShallowChildren hand the ORIGINAL's children to the new container
Shares == proto = "copy" \/ Mut("ShallowChildren")
NKids(f) == Len(Iter(heap[f.src]))

\* the next child may be prepared: copy._reconstruct prepares and attaches one item at a time (after the state);
\* pickle saves ALL items of a container between MARK and APPENDS / SETITEMS: every child is complete before the
\* first one is attached
\* (repaired protocol: the children are part of the state, pickled / deep-copied before __setstate__ runs)
MayPrepare(f) == /\ f.i + Len(f.rdy) < NKids(f)
                 /\ (IF StateCarriesChildren THEN ~f.st ELSE (StateFirst => f.st /\ f.rdy = <<>>))
MayAttach(f)  == /\ ~StateCarriesChildren
                 /\ f.rdy # <<>>
                 /\ (~StateFirst => f.i + Len(f.rdy) = NKids(f))

StartCopy(p) ==
    /\ phase = "ready" /\ p \in Protocols
    /\ proto' = p /\ phase' = "copying" /\ otree' = TreeOf(heap, oroot)
    /\ last' = [a |-> "StartCopy", side |-> "", id |-> 0]
    /\ UNCHANGED <<heap, oroot, croot, stack, status, nmut, nedit, fired, hist>>

\* Recreate(cls): _recreate(type(self)) for a container, cls(value) for a scalar: a new object without the
\* original's attributes.  (Seeded mutant m1 = mutation StateBeforeGuard: _recreate runs ConfigNode.__init__,
\* the blank container HAS default attributes, so the hasattr guards no longer hold anything back.)
Recreate ==
    /\ phase = "copying" /\ status = "ok"
    /\ LET src == IF stack = <<>> THEN oroot ELSE Iter(heap[Top.src])[Top.i + Len(Top.rdy) + 1][2]
           nid == NextId(heap)
           k   == heap[src].n.k
           cell == IF Mut("StateBeforeGuard") /\ k \in ComposedKinds
                   THEN Cell(DefaultAttrs(k), <<>>, <<>>, TRUE) ELSE Blank(k, heap[src].n.v)
       IN /\ \/ stack = <<>> /\ croot = 0
             \/ stack # <<>> /\ MayPrepare(Top) /\ ~Shares
          /\ heap' = heap @@ (nid :> cell)
          /\ stack' = Append(stack, [src |-> src, dst |-> nid, i |-> 0, st |-> FALSE, rdy |-> <<>>])
          /\ croot' = IF stack = <<>> THEN nid ELSE croot
          /\ last' = [a |-> "Recreate", side |-> "copy", id |-> nid]
    /\ UNCHANGED <<oroot, proto, status, phase, nmut, nedit, otree, fired, hist>>

\* copy.copy: the child object itself is handed over
ShareChild ==
    /\ phase = "copying" /\ status = "ok" /\ Shares
    /\ stack # <<>> /\ MayPrepare(Top)
    /\ stack' = SetTop([Top EXCEPT !.rdy = Append(@, Iter(heap[Top.src])[Top.i + Len(Top.rdy) + 1][2])])
    /\ last' = [a |-> "ShareChild", side |-> "copy", id |-> Top.dst]
    /\ UNCHANGED <<heap, oroot, croot, proto, status, phase, nmut, nedit, otree, fired, hist>>

\* after an action that completes the top frame: pop it and hand its object to the frame below
Settle(h, stk) ==
    LET f == stk[Len(stk)]
        rest == SubSeq(stk, 1, Len(stk) - 1)
    IN IF f.st /\ (StateCarriesChildren \/ f.i = Len(Iter(h[f.src])))
       THEN (IF rest = <<>> THEN rest ELSE [rest EXCEPT ![Len(rest)].rdy = Append(@, f.dst)])
       ELSE stk

\* RestoreState: __setstate__(state) - every attribute (flags of all three levels, priority, metadata,
\* _func, ref_point, value, source file ...) except the child map
RestoreState ==
    /\ phase = "copying" /\ status = "ok" /\ stack # <<>> /\ ~Top.st
    /\ IF StateCarriesChildren THEN Len(Top.rdy) = NKids(Top)
       ELSE Top.rdy = <<>> /\ (StateFirst \/ Top.i = NKids(Top))
    /\ LET src == heap[Top.src]
           New(id) == Top.rdy[CHOOSE j \in 1..Len(AllKids(src)) : AllKids(src)[j][2] = id]
           h1 == [heap EXCEPT ![Top.dst].n = src.n, ![Top.dst].attrs = TRUE]
           h2 == IF StateCarriesChildren
                 THEN [h1 EXCEPT ![Top.dst].kids = [i \in 1..Len(src.kids) |-> <<src.kids[i][1], New(src.kids[i][2])>>],
                                 ![Top.dst].py   = [i \in 1..Len(src.py) |-> <<src.py[i][1], New(src.py[i][2])>>]]
                 ELSE h1
           s  == Settle(h2, SetTop([Top EXCEPT !.st = TRUE]))
       IN /\ heap' = h2 /\ stack' = s
          /\ phase' = IF s = <<>> THEN "copied" ELSE phase
    /\ last' = [a |-> "RestoreState", side |-> "copy", id |-> Top.dst]
    /\ UNCHANGED <<oroot, croot, proto, status, nmut, nedit, otree, fired, hist>>

\* Attach(i): y.append(child) / y[key] = child through the normal mutators
Attach ==
    /\ phase = "copying" /\ status = "ok" /\ stack # <<>> /\ MayAttach(Top)
    /\ LET f    == Top
           ret  == Head(f.rdy)
           p    == heap[f.dst]
           key0 == Iter(heap[f.src])[f.i + 1][1]
           key  == IF IsList(p.n) THEN IKey(Len(p.py)) ELSE key0          \* list.py:95 set_child(len(self))
           ct   == TreeOf(heap, ret)
           \* composed.py:35 + node.py:74-92: only when _get_child_kwargs gets past its hasattr guard
           adopted == IF p.attrs /\ AttachRederivesFlags THEN Adopt(ct, ChildKw(p.n), FALSE, PrNone) ELSE ct
           \* composed.py:37 value._propagate_implicit_values() (the child has its attributes in both protocols)
           ct2  == IF AttachRederivesFlags THEN Propagate(adopted) ELSE adopted
           f2   == [f EXCEPT !.i = f.i + 1, !.rdy = Tail(f.rdy)]
       IN IF IsDict(p.n) /\ IsShadowKey(key) /\ ShadowKeyRaises
          THEN /\ status' = "ValueError" /\ phase' = "copied"              \* dict.py:28-29
               /\ fired' = fired \cup {"ShadowKeyRaises"}
               /\ UNCHANGED <<heap, stack>>
          ELSE IF IsDict(p.n) /\ IsUnderscoreKey(key) /\ UnderscoreBypass
          THEN \* dict.py:57-59: dict.__setitem__ only
               LET h2 == [heap EXCEPT ![f.dst].py = Append(@, <<key, ret>>)]
                   s  == Settle(h2, SetTop(f2))
               IN /\ heap' = h2 /\ stack' = s
                  /\ phase' = IF s = <<>> THEN "copied" ELSE phase
                  /\ fired' = fired \cup {"UnderscoreBypass"} /\ status' = status
          ELSE LET h1 == Store(heap, ret, ct2)
                   h2 == [h1 EXCEPT ![f.dst].kids = Append(@, <<key, ret>>), ![f.dst].py = Append(@, <<key, ret>>)]
                   s  == Settle(h2, SetTop(f2))
               IN /\ heap' = h2 /\ stack' = s
                  /\ phase' = IF s = <<>> THEN "copied" ELSE phase
                  /\ fired' = IF ct2 # ct THEN fired \cup {"AttachRederivesFlags"} ELSE fired
                  /\ status' = status
    /\ last' = [a |-> "Attach", side |-> "copy", id |-> Top.dst]
    /\ UNCHANGED <<oroot, croot, proto, nmut, nedit, otree, hist>>

Step == Recreate \/ ShareChild \/ RestoreState \/ Attach

----------------------------------------------------------------------------
\* mutations of either tree once the copy exists

Done == phase = "copied"
Side(id) == IF id \in Ids(heap, oroot) THEN (IF croot # 0 /\ id \in Ids(heap, croot) THEN "both" ELSE "orig") ELSE "copy"
Mutable == IF status = "ok" /\ croot # 0 THEN Ids(heap, oroot) \cup Ids(heap, croot) ELSE Ids(heap, oroot)

MutCommon(id, what) ==
    /\ Done /\ nmut < MaxMut /\ id \in Mutable
    /\ nmut' = nmut + 1
    /\ last' = [a |-> what, side |-> Side(id), id |-> id]
    /\ UNCHANGED <<oroot, croot, proto, stack, status, phase, nedit, otree, fired, hist>>

\* node.ayns.metadata['zz'] = 9
MutMd(id) ==
    /\ MutCommon(id, "MutMd")
    /\ heap' = [heap EXCEPT ![id].n.md = MdMerge(@, {<<"zz", Atom("i", "9")>>})]
\* node._priority = FORCE (what a later merge does to a node in place)
MutPr(id) ==
    /\ MutCommon(id, "MutPr")
    /\ heap' = [heap EXCEPT ![id].n.pr = IF @ = 1 THEN -1 ELSE 1]
\* container.append(7) / container['zz'] = 7
MutSet(id) ==
    /\ MutCommon(id, "MutSet") /\ IsComposed(heap[id].n)
    /\ IsDict(heap[id].n) => \A i \in 1..Len(heap[id].py) : heap[id].py[i][1] # SKey("zz")
    /\ LET c == heap[id]  nid == NextId(heap)
           e == <<IF IsList(c.n) THEN IKey(Len(c.py)) ELSE SKey("zz"), nid>>
       IN heap' = [heap EXCEPT ![id].kids = Append(@, e), ![id].py = Append(@, e)] @@ (nid :> NewChildCell(c, FreshLeaf))
\* del container[first].  A list shifts the remaining elements down with self[i-1] = self[i] (list.py:51-58), i.e. through
\* set_child: every one of them is adopted again by the list
MutDel(id) ==
    /\ MutCommon(id, "MutDel") /\ IsComposed(heap[id].n) /\ Len(heap[id].kids) > 0 /\ heap[id].kids = heap[id].py
    /\ LET c    == heap[id]
           rest == Tail(c.kids)
           r2   == IF IsList(c.n) THEN [i \in 1..Len(rest) |-> <<IKey(i - 1), rest[i][2]>>] ELSE rest
           F[i \in 0..Len(rest)] ==
               IF i = 0 \/ ~IsList(c.n) THEN heap
               ELSE Store(F[i-1], rest[i][2], Adopt(TreeOf(F[i-1], rest[i][2]), ChildKw(c.n), FALSE, PrNone))
       IN heap' = [F[Len(rest)] EXCEPT ![id].kids = r2, ![id].py = r2]
\* container.clear()
MutClear(id) ==
    /\ MutCommon(id, "MutClear") /\ IsComposed(heap[id].n) /\ Len(heap[id].py) > 0
    /\ heap' = [heap EXCEPT ![id].kids = <<>>, ![id].py = <<>>]

MutEnabled(op, id) ==
    /\ Done /\ nmut < MaxMut /\ id \in Mutable
    /\ (op \in {"MutSet", "MutDel", "MutClear"} => IsComposed(heap[id].n))
    /\ (op = "MutSet" /\ IsDict(heap[id].n) => \A i \in 1..Len(heap[id].py) : heap[id].py[i][1] # SKey("zz"))
    /\ (op = "MutDel" => Len(heap[id].kids) > 0 /\ heap[id].kids = heap[id].py)
    /\ (op = "MutClear" => Len(heap[id].py) > 0)

Mutate == \E id \in DOMAIN heap : MutMd(id) \/ MutPr(id) \/ MutSet(id) \/ MutDel(id) \/ MutClear(id)
Edit == \E id \in DOMAIN heap : EditAppend(id) \/ EditReverse(id) \/ \E pos \in 0..2 : EditInsert(id, pos)

----------------------------------------------------------------------------
\* The property (DESIGN 5/C19)

Copied == Done /\ status = "ok"
OrigT == TreeOf(heap, oroot)
CopyT == TreeOf(heap, croot)

\* a copy can always be made
Completes == Done => status = "ok"

\* kinds, content, order, priority, the three levels of every flag, targets, reference points, metadata:
\* the records are equal.  Stated for originals whose two views agree (C17's invariant); the content read
\* through the built-in view must be equal for EVERY original.
InDomain == ViewsAgree(heap, oroot)
Faithful == (Copied /\ nmut = 0 /\ InDomain) => (CopyT = OrigT /\ PyTreeOf(heap, croot) = PyTreeOf(heap, oroot))
ContentFaithful == (Copied /\ nmut = 0) => DataOf(PyTreeOf(heap, croot)) = DataOf(PyTreeOf(heap, oroot))
\* the copy of a consistent tree is consistent (C17's ViewsAgree is not lost by copying)
CopyConsistent == (Copied /\ nmut = 0 /\ InDomain) => ViewsAgree(heap, croot)

\* the copy shares no node with the original
Disjoint == (Copied /\ proto # "copy") => Ids(heap, croot) \cap Ids(heap, oroot) = {}

\* copying does not change the original
OrigUntouched == (phase \in {"copying", "copied"} /\ nmut = 0) => OrigT = otree

\* mutating one never affects the other
Isolated ==
    [][ /\ (last'.a \in {"MutMd", "MutPr", "MutSet", "MutDel", "MutClear"} /\ last'.side = "orig" /\ proto # "copy")
            => TreeOf(heap', croot) = TreeOf(heap, croot)
        /\ (last'.a \in {"MutMd", "MutPr", "MutSet", "MutDel", "MutClear"} /\ last'.side = "copy" /\ proto # "copy")
            => TreeOf(heap', oroot) = TreeOf(heap, oroot)
        /\ (last'.a \in {"MutMd", "MutPr", "MutSet", "MutDel", "MutClear"} /\ proto # "copy") => last'.side # "both" ]_cvars

\* substituted into a merge history the copy gives what the original gives: as the older tree, as the newer
\* document, and evaluated (static trees: DataOf)
BehavesIn(ctx) ==
    /\ MergeDocs(CopyT, ctx) = MergeDocs(OrigT, ctx)
    /\ MergeDocs(ctx, CopyT) = MergeDocs(ctx, OrigT)
\* (MergeDocs is a function of its arguments: for an equal record tree nothing has to be computed)
BehavesOver(ctxs) ==
    (Copied /\ nmut = 0 /\ InDomain /\ proto # "copy") =>
        \/ CopyT = OrigT
        \/ /\ DataOf(CopyT) = DataOf(OrigT)
           /\ \A i \in 1..Len(ctxs) : BehavesIn(ctxs[i])

=============================================================================
