------------------------------ MODULE Trace_Stream ---------------------------
(***************************************************************************)
(* Trace validation for C06.  One JSON line per recorded build:             *)
(*  {"tid", "docs": [sd..], "pres": presentation | "key", "key": k,         *)
(*   "out": projected tree | {"err": class}, "plain": outcome of building   *)
(*   the same documents as n separate sources}                              *)
(***************************************************************************)
EXTENDS AyStream, Json, IOUtils, TLCExt

Traces == ndJsonDeserialize(IOEnv.TRACE_FILE)
VARIABLE tid
TInit == tid \in 1..Len(Traces)
TNext == UNCHANGED tid

RECURSIVE NodeOfJ(_)
NodeOfJ(j) == IF "err" \in DOMAIN j THEN j
              ELSE [j EXCEPT !.md = {<<j.md[x][1], j.md[x][2]>> : x \in DOMAIN j.md},
                             !.ch = [i \in 1..Len(j.ch) |-> <<j.ch[i][1], NodeOfJ(j.ch[i][2])>>]]
T == Traces[tid]
Unsafe == T.pres \in {"key_unsafe", "include_list_unsafe"}
LDocs == [i \in DOMAIN T.docs |-> Parse(SDofJ(T.docs[i]), ~Unsafe)]
LOut == NodeOfJ(T.out)
LPlain == NodeOfJ(T.plain)
Model == CASE T.pres \in {"key", "key_same"} -> BuildUnderKey(T.key, LDocs)
           [] T.pres = "key_unsafe" -> BuildUnderUnsafeKey(T.key, LDocs)
           [] T.pres = "include_list_unsafe" -> Build("include_list", LDocs)
           \* a file named more than once is the same document again (the harness writes ONE file per distinct document)
           [] T.pres = "include_list_same" -> Build("include_list", LDocs)
           [] T.pres = "includes_same" -> Build("includes", LDocs)
           [] T.pres = "nested_same" -> Build("nested", LDocs)
           [] OTHER -> Build(T.pres, LDocs)
ModelPlain == FoldDocs(LDocs)

Same(a, b) == IF IsErr(a) THEN IsErr(b) /\ a.err = b.err ELSE ~IsErr(b) /\ a = b
SameData(a, b) == IF IsErr(a) THEN IsErr(b) /\ a.err = b.err ELSE ~IsErr(b) /\ DataOf(a) = DataOf(b)

Compare == IF ~Same(ModelPlain, LPlain) THEN "plain"
           ELSE IF IsErr(Model) /\ T.pres \in {"key", "key_same", "key_unsafe"} /\ IsErr(LOut) THEN "ok"     \* (error classes under a key are wrapped)
           ELSE IF Same(Model, LOut) THEN "ok" ELSE IF SameData(Model, LOut) THEN "flags" ELSE "data"

\* the property on what the LIBRARY produced: the delivered form builds what the plain sources build
UnderKeyOk(out, plain) ==
    IF IsErr(plain) THEN IsErr(out)
    ELSE /\ ~IsErr(out) /\ DataOf(out) = DataOf(WrapUnderKey(T.key, plain))
         /\ (T.pres = "key_unsafe" => AllUnsafe(Child(out, T.key)))        \* what unsafe content includes is unsafe
PropVerdict ==
    IF T.pres = "key_unsafe" THEN (IF UnderKeyOk(LOut, LPlain) THEN "holds" ELSE "violated")
    ELSE IF T.pres = "key"
    THEN (IF IsErr(LPlain) THEN (IF IsErr(LOut) THEN "holds" ELSE "violated")
          ELSE IF ~IsErr(LOut) /\ DataOf(LOut) = DataOf(WrapUnderKey(T.key, LPlain)) THEN "holds" ELSE "violated")
    ELSE IF Same(LPlain, LOut) THEN "holds" ELSE "violated"
ModelVerdict ==
    IF T.pres = "key_unsafe" THEN (IF UnderKeyOk(Model, ModelPlain) THEN "holds" ELSE "violated")
    ELSE IF T.pres = "key"
    THEN (IF IsErr(ModelPlain) THEN (IF IsErr(Model) THEN "holds" ELSE "violated")
          ELSE IF ~IsErr(Model) /\ DataOf(Model) = DataOf(WrapUnderKey(T.key, ModelPlain)) THEN "holds" ELSE "violated")
    ELSE IF Same(ModelPlain, Model) THEN "holds" ELSE "violated"

Report == PrintT(<<"TRACE", T.tid, Compare, PropVerdict, ModelVerdict, "">>)
=============================================================================
