------------------------------ MODULE Props_C16 -----------------------------
(***************************************************************************)
(* C16 - !append / !extend / !prev move and grow existing content without   *)
(* loss.  Declarative reading: the operators of the newer document act, in  *)
(* document order, on the configuration built so far (taking a list or a    *)
(* subtree OUT of it); what they produce takes their place in the newer     *)
(* document, which is then merged by the plain recursive update of C02.     *)
(***************************************************************************)
EXTENDS AyMerge, AyUniverse, Props_C02, SequencesExt

C16_Err == Plain("PremergeError", NoVal, <<>>)
C16_IsErr(x) == x.k = "PremergeError"

RECURSIVE C16_PHas(_, _)
C16_PHas(d, p) ==
    IF p = <<>> THEN TRUE
    ELSE d.k \in {"dict", "list"} /\ C02_HasKey(d, Head(p)) /\ C16_PHas(C02_Get(d, Head(p)), Tail(p))
RECURSIVE C16_PAt(_, _)
C16_PAt(d, p) == IF p = <<>> THEN d ELSE C16_PAt(C02_Get(d, Head(p)), Tail(p))
C16_Renumber(ch) == [i \in 1..Len(ch) |-> <<IKey(i - 1), ch[i][2]>>]
RECURSIVE C16_PRemove(_, _)
C16_PRemove(d, p) ==
    IF Len(p) = 1
    THEN LET rest == SelectSeq(d.ch, LAMBDA e : e[1] # p[1])
         IN [d EXCEPT !.ch = IF d.k = "list" THEN C16_Renumber(rest) ELSE rest]
    ELSE [d EXCEPT !.ch = [i \in 1..Len(d.ch) |->
            IF d.ch[i][1] = Head(p) THEN <<d.ch[i][1], C16_PRemove(d.ch[i][2], Tail(p))>> ELSE d.ch[i]]]

C16_PlainList(sd) == Plain("list", NoVal, [i \in 1..Len(sd.ch) |-> <<IKey(i - 1), Erase(sd.ch[i][2])>>])
C16_Concat(l, sd) == Plain("list", NoVal, C16_Renumber(l.ch \o C16_PlainList(sd).ch))

\* walk the newer document in document order; cur: what is left of the older configuration
RECURSIVE C16_Walk(_, _, _, _)
C16_Walk(sd, path, cur, first) ==
    CASE sd.k = "append" ->
           IF first THEN [d |-> C16_PlainList(sd), cur |-> cur]
           ELSE IF path # <<>> /\ C16_PHas(cur, path) /\ C16_PAt(cur, path).k = "list"
           THEN [d |-> C16_Concat(C16_PAt(cur, path), sd), cur |-> C16_PRemove(cur, path)]
           ELSE [d |-> C16_Err, cur |-> cur]
      [] sd.k = "extend" ->
           IF ~first /\ path # <<>> /\ C16_PHas(cur, path) /\ C16_PAt(cur, path).k = "list"
           THEN [d |-> C16_Concat(C16_PAt(cur, path), sd), cur |-> C16_PRemove(cur, path)]
           ELSE [d |-> C16_PlainList(sd), cur |-> cur]
      [] sd.k = "prev" ->
           IF ~first /\ sd.ref # <<>> /\ C16_PHas(cur, sd.ref)
           THEN [d |-> C16_PAt(cur, sd.ref), cur |-> C16_PRemove(cur, sd.ref)]
           ELSE [d |-> C16_Err, cur |-> cur]
      [] sd.k \in {"dict", "list"} ->
           LET F[i \in 0..Len(sd.ch)] ==
                 IF i = 0 THEN [ch |-> <<>>, cur |-> cur, bad |-> FALSE]
                 ELSE IF F[i-1].bad THEN F[i-1]
                 ELSE LET r == C16_Walk(sd.ch[i][2], Append(path, sd.ch[i][1]), F[i-1].cur, first)
                      IN [ch |-> Append(F[i-1].ch, <<sd.ch[i][1], r.d>>), cur |-> r.cur, bad |-> C16_IsErr(r.d)]
               last == F[Len(sd.ch)]
           IN IF last.bad THEN [d |-> C16_Err, cur |-> cur]
              ELSE [d |-> Plain(sd.k, NoVal, last.ch), cur |-> last.cur]
      [] OTHER -> [d |-> Erase(sd), cur |-> cur]

\* expected plain data after merging sd onto old (old: plain data; first: sd is the first document)
C16_Spec(old, sd, first) ==
    LET w == C16_Walk(sd, <<>>, old, first)
    IN IF C16_IsErr(w.d) THEN C16_Err
       ELSE IF first THEN w.d ELSE C02_RecUpdate(w.cur, w.d)

RECURSIVE C16_Vocabulary(_)
C16_Vocabulary(sd) ==
    /\ sd.k \in {"dict", "list", "scalar", "append", "extend", "prev"}
    /\ (sd.form # "none" => sd.k \in {"append", "extend", "prev"})
    /\ sd.pr = PrNone /\ sd.del = "N" /\ sd.anew = "N" /\ sd.safe = "N"
    /\ (sd.k \in {"append", "extend"} => \A i \in 1..Len(sd.ch) : sd.ch[i][2].k = "scalar" /\ sd.ch[i][2].form = "none")
    /\ (sd.k \notin {"append", "extend"} => \A i \in 1..Len(sd.ch) : C16_Vocabulary(sd.ch[i][2]))

RECURSIVE C16_HasOp(_)
C16_HasOp(sd) == sd.k \in {"append", "extend", "prev"} \/ \E i \in 1..Len(sd.ch) : C16_HasOp(sd.ch[i][2])

\* every node of the older tree has standard priority (no tag influenced it)
C16_OldPlain(t) == \A p \in PathsOf(t) : EffPr(At(t, p)) = 0

C16_HoldsAt(first, old, sd, out) ==
    (C16_Vocabulary(sd) /\ (first \/ C16_OldPlain(old))) =>
        LET want == C16_Spec(IF first THEN Plain("dict", NoVal, <<>>) ELSE DataOf(old), sd, first)
        IN IF C16_IsErr(want) THEN IsErr(out) /\ out.err = "PremergeError"
           ELSE IF C02_IsError(want) THEN IsErr(out) /\ out.err = "MergeError"
           ELSE ~IsErr(out) /\ DataOf(out) = want

C16_Holds(docs, outs) ==
    \A j \in 1..Len(outs) : (j = 1 \/ ~IsErr(outs[j-1])) =>
        C16_HoldsAt(j = 1, IF j = 1 THEN outs[1] ELSE outs[j-1], docs[j], outs[j])

C16_Judged(docs, outs) ==
    \E j \in 1..Len(outs) : (j = 1 \/ ~IsErr(outs[j-1])) /\ C16_Vocabulary(docs[j]) /\ C16_HasOp(docs[j])
                            /\ (j = 1 \/ C16_OldPlain(outs[j-1]))

----------------------------------------------------------------------------
C16_KA == SKey("a")  C16_KB == SKey("b")
C16_L(v) == SD("scalar", Atom("i", v), <<>>)
C16_List(vs) == SD("list", NoVal, [i \in 1..Len(vs) |-> <<IKey(i - 1), C16_L(vs[i])>>])
C16_Op(k, vs) == [SD(k, NoVal, [i \in 1..Len(vs) |-> <<IKey(i - 1), C16_L(vs[i])>>]) EXCEPT !.form = "tag"]
C16_Prev(p) == [SD("prev", NoVal, <<>>) EXCEPT !.form = "tag", !.ref = p]

C16_BaseLeaves == {C16_L("1"), C16_List(<<"1">>), C16_List(<<"1", "3">>), C16_List(<<>>)}
C16_Base1 == C16_BaseLeaves \cup (MapsOver(<<C16_KA, C16_KB>>, C16_BaseLeaves) \ {SD("dict", NoVal, <<>>)})
C16_BaseDocs == MapsOver(<<C16_KA, C16_KB>>, C16_Base1) \ {SD("dict", NoVal, <<>>)}

C16_OpLeaves == {C16_L("2"), C16_Op("append", <<"7">>), C16_Op("append", <<>>), C16_Op("extend", <<"7", "8">>),
                 C16_Prev(<<C16_KA>>), C16_Prev(<<C16_KB>>), C16_Prev(<<C16_KA, C16_KA>>), C16_Prev(<<C16_KA, C16_KB>>),
                 C16_Prev(<<C16_KB, C16_KA>>)}
C16_New1 == C16_OpLeaves \cup (MapsOverMax(<<C16_KA, C16_KB>>, C16_OpLeaves, 1) \ {SD("dict", NoVal, <<>>)})
C16_NewDocs == MapsOver(<<C16_KA, C16_KB>>, C16_New1) \ {SD("dict", NoVal, <<>>)}

C16_BaseS == {SD("dict", NoVal, <<<<C16_KA, c>>, <<C16_KB, C16_List(<<"3">>)>>>>) : c \in C16_Base1}
C16_Docs  == SetToSeq(C16_BaseDocs) \o SetToSeq(C16_NewDocs)
C16_Range == << <<1, Cardinality(C16_BaseDocs)>>, <<Cardinality(C16_BaseDocs) + 1, Cardinality(C16_BaseDocs) + Cardinality(C16_NewDocs)>> >>
C16_DocsQ  == SetToSeq(C16_BaseS) \o SetToSeq(C16_NewDocs)
C16_RangeQ == << <<1, Cardinality(C16_BaseS)>>, <<Cardinality(C16_BaseS) + 1, Cardinality(C16_BaseS) + Cardinality(C16_NewDocs)>> >>
\* first-stage operators and 3-stage sequences on narrower sets
C16_NewS  == (MapsOver(<<C16_KA, C16_KB>>, C16_OpLeaves) \ {SD("dict", NoVal, <<>>)})
C16_Docs3  == SetToSeq(C16_BaseS \cup C16_NewS)
C16_Range3 == << <<1, Cardinality(C16_BaseS \cup C16_NewS)>> >>

\* key names that are not identifiers: a top-level key "a.b" next to a real nested a.b,
\* and a key with a dash (paths are key SEQUENCES; a key is never re-parsed as a path)
C16_KD == SKey("a.b")  C16_KH == SKey("x-y")
C16_BaseDot == {SD("dict", NoVal, <<<<C16_KA, SD("dict", NoVal, <<<<C16_KB, c>>>>)>>, <<C16_KD, d>>, <<C16_KH, C16_List(<<"5">>)>>>>)
                : c \in {C16_L("1"), C16_List(<<"1">>)}, d \in {C16_L("4"), C16_List(<<"4">>)}}
C16_DotLeaves == {C16_Op("append", <<"7">>), C16_Op("extend", <<"7">>), C16_Prev(<<C16_KA, C16_KB>>), C16_L("2")}
C16_NewDot == MapsOver(<<C16_KA, C16_KD, C16_KH>>, C16_DotLeaves) \ {SD("dict", NoVal, <<>>)}
C16_DocsDot  == SetToSeq(C16_BaseDot) \o SetToSeq(C16_NewDot)
C16_RangeDot == << <<1, Cardinality(C16_BaseDot)>>, <<Cardinality(C16_BaseDot) + 1, Cardinality(C16_BaseDot) + Cardinality(C16_NewDot)>> >>

\* targets that are ELEMENTS OF A LIST (`q: !prev a[1]`): the element is taken out, the elements behind it move up;
\* several operators in one document act one after the other on what is left (F25: the library handed on the LAST
\* element of the list instead of the removed one)
C16_KC == SKey("c")
C16_LL(xs) == SD("list", NoVal, [i \in 1..Len(xs) |-> <<IKey(i - 1), xs[i]>>])
C16_BaseLE == {SD("dict", NoVal, <<<<C16_KA, l>>, <<C16_KB, C16_List(<<"3">>)>>>>) :
                l \in {C16_LL(<<C16_List(<<"1">>), C16_List(<<"2">>), C16_List(<<"3">>)>>),
                       C16_LL(<<C16_L("1"), C16_List(<<"2">>), C16_L("3")>>),
                       C16_LL(<<C16_List(<<"1">>), C16_List(<<"2">>)>>),
                       C16_LL(<<C16_LL(<<C16_List(<<"1">>), C16_List(<<"2">>)>>), C16_List(<<"3">>)>>)}}
C16_LELeaves == {C16_L("2"), C16_Prev(<<C16_KA, IKey(0)>>), C16_Prev(<<C16_KA, IKey(1)>>), C16_Prev(<<C16_KA, IKey(2)>>),
                 C16_Prev(<<C16_KA, IKey(0), IKey(1)>>), C16_Prev(<<C16_KB, IKey(0)>>), C16_Prev(<<C16_KA>>)}
C16_NewLE == MapsOver(<<C16_KA, C16_KB, C16_KC>>, C16_LELeaves) \ {SD("dict", NoVal, <<>>)}
C16_DocsLE  == SetToSeq(C16_BaseLE) \o SetToSeq(C16_NewLE)
C16_RangeLE == << <<1, Cardinality(C16_BaseLE)>>, <<Cardinality(C16_BaseLE) + 1, Cardinality(C16_BaseLE) + Cardinality(C16_NewLE)>> >>

=============================================================================
