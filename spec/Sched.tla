-------------------------------- MODULE Sched --------------------------------
(***************************************************************************)
(* Generic preemption-bounded schedules (CHESS style) for C20's line-grain  *)
(* conformance runs.  Thread t consists of N[t] atomic steps (measured by   *)
(* the harness: traced lines of awesomeyaml/ in the sequential run of t's   *)
(* program).  A schedule is a sequence of blocks <<t, k>>: thread t runs k  *)
(* further steps and is then preempted (k = 0: it runs to its end, which is *)
(* not a preemption).  TLC enumerates every schedule with at most MaxPre    *)
(* preemptions; a thread may be preempted before any of its steps 2..N[t].  *)
(* env C20_SCHED names a JSON-lines file, one configuration per line:       *)
(*    {"n": [N1, N2, ..], "p": MaxPre}                                      *)
(* the configuration is picked by the initial state (variable c).          *)
(***************************************************************************)
EXTENDS Naturals, Sequences, TLC, Json, IOUtils

Cfgs == ndJsonDeserialize(IOEnv.C20_SCHED)

VARIABLES c, pos, last, pre, blocks
svars == <<c, pos, last, pre, blocks>>

N == Cfgs[c].n
MaxPre == Cfgs[c].p
T == DOMAIN N

SInit == /\ c \in DOMAIN Cfgs
         /\ pos = [t \in DOMAIN Cfgs[c].n |-> 0] /\ last = 0 /\ pre = 0 /\ blocks = <<>>

Left(t) == N[t] - pos[t]

RunToEnd(t) == /\ pos' = [pos EXCEPT ![t] = N[t]]
               /\ blocks' = Append(blocks, <<t, 0>>)
               /\ pre' = pre

Preempted(t) == /\ pre < MaxPre
                /\ \E u \in T \ {t} : Left(u) > 0
                /\ \E k \in 1..(Left(t) - 1) :
                      /\ pos' = [pos EXCEPT ![t] = pos[t] + k]
                      /\ blocks' = Append(blocks, <<t, k>>)
                /\ pre' = pre + 1

Block(t) == /\ t # last /\ Left(t) > 0
            /\ last' = t /\ c' = c
            /\ (RunToEnd(t) \/ Preempted(t))

SNext == \E t \in T : Block(t)
SSpec == SInit /\ [][SNext]_svars

Finished == \A t \in T : Left(t) = 0
SEmit == Finished => PrintT(ToJson([c |-> c, b |-> blocks, p |-> pre]))
Bounded == pre <= MaxPre
=============================================================================
