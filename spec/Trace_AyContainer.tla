------------------------- MODULE Trace_AyContainer -------------------------
(***************************************************************************)
(* Trace validation for the container machine (direction B: code -> spec).  *)
(* The harness drives real ConfigList / ConfigDict objects with seeded      *)
(* random operation sequences (longer, deeper and wider than the exhaustive *)
(* bounds) and records one JSON line per sequence:                          *)
(*   {"tid": n, "root": id, "start": HEAP,                                   *)
(*    "ev": [ {"op": OP, "s": HEAP, "e": exception class or "",             *)
(*             "ev": evaluation result as tokens, "rb": [names of the       *)
(*             invariants the harness saw broken on the real objects]} ..], *)
(*    "paths": [ {"c": components, "x": text as characters,                 *)
(*                "b": components parsed back from the text} .. ]}          *)
(* HEAP = [[id, kind, py, cm] ..] exactly as AyContainer!HeapSeq prints it. *)
(*                                                                          *)
(* Every event is one application of AyContainer!Apply (deviation switches  *)
(* as the cfg sets them: all TRUE = the code as it is today); the state it  *)
(* leaves, what it raised and the evaluation order are compared with the    *)
(* logged ones.  The property's formulas are evaluated on the LOGGED state. *)
(* The verdict is total:                                                    *)
(*   verdict  "ok" | "state" | "eval" | "err" | "target"  first disagreement*)
(*   vstep    the event at which it happened (0 = none)                     *)
(*   viol     first event whose logged state breaks the property and is NOT *)
(*            the state the specification (with its deviation switches)     *)
(*            predicts (0 = none): a violation no known finding explains    *)
(*   nexpl    events whose broken logged state IS the predicted one         *)
(*   expl     deviations that had made a difference when that happened      *)
(***************************************************************************)
EXTENDS AyContainer, Json, IOUtils

Traces == ndJsonDeserialize(IOEnv.TRACE_FILE)

VARIABLES tid, l, heap, live, verdict, vstep, viol, nexpl, expl, fired, diag
tvars == <<tid, l, heap, live, verdict, vstep, viol, nexpl, expl, fired, diag>>

Ev   == Traces[tid].ev
Root == Traces[tid].root
ToSet(s) == {s[j] : j \in DOMAIN s}

\* the heap function of a logged HEAP (scalars are implied: a referenced id that has no entry of its own)
EntryRefs(e) == IF e[2] = "l" THEN {e[3][p] : p \in DOMAIN e[3]} \cup {e[4][p][2] : p \in DOMAIN e[4]}
                ELSE IF e[2] = "d" THEN {e[3][p][2] : p \in DOMAIN e[3]} \cup {e[4][p][2] : p \in DOMAIN e[4]}
                ELSE {}
HeapOfSeq(s, rt) ==
    LET own  == {s[j][1] : j \in DOMAIN s}
        refs == UNION {EntryRefs(s[j]) : j \in DOMAIN s} \cup {rt}
        ent(id) == s[CHOOSE j \in DOMAIN s : s[j][1] = id]
        raws == {id \in own : ent(id)[2] = "raw"}
    IN [id \in own \cup refs \cup {Iid(r - 2000) : r \in raws} |->
            IF id \in own
            THEN (IF ent(id)[2] = "raw" THEN RawRec(id - 2000, ent(id)[3][1])
                  ELSE [k |-> ent(id)[2], v |-> 0, py |-> ent(id)[3], cm |-> ent(id)[4]])
            ELSE IF id >= 5000 THEN RawRec(id - 5000, "S")
            ELSE ScalarRec(id)]

\* One initial state; the trace is chosen by two actions (block, then trace within the block) so that the
\* workers share the work of setting the traces up (TLC computes initial states on one thread).
Block == 40
NBlocks == (Len(Traces) + Block - 1) \div Block
TInit == /\ tid = 0 /\ l = 0
         /\ heap = <<>>
         /\ live = TRUE /\ verdict = "ok" /\ vstep = 0 /\ viol = 0 /\ nexpl = 0 /\ expl = {} /\ fired = {}
         /\ diag = <<>>
TPickBlock == /\ tid = 0 /\ l = 0
              /\ \E b \in 1..NBlocks : l' = 0 - b
              /\ UNCHANGED <<tid, heap, live, verdict, vstep, viol, nexpl, expl, fired, diag>>
TPickTrace == /\ tid = 0 /\ l < 0
              /\ \E t \in (((0 - l) - 1) * Block + 1)..(IF (0 - l) * Block < Len(Traces) THEN (0 - l) * Block ELSE Len(Traces)) :
                    /\ tid' = t
                    /\ heap' = HeapOfSeq(Traces[t].start, Traces[t].root)
              /\ l' = 1
              /\ UNCHANGED <<live, verdict, vstep, viol, nexpl, expl, fired, diag>>

\* values bound through singleton sets (\E x \in {expr}) are evaluated once
TStep ==
    /\ tid > 0 /\ l <= Len(Ev)
    /\ l' = l + 1
    /\ \E e \in {Ev[l]} :
       IF live /\ Applicable(heap, Root, e.op)
       THEN \E r \in {Apply(heap, Root, e.op)} :
            \E ms \in {HeapSeq(r.h, Root)}, mv \in {EvalTok(r.h, Root)} :
            \E sm \in {ms = e.s}, vm \in {mv = e.ev}, em \in {r.err = "?" \/ r.err = e.e} :
            \* the property on the LOGGED state: the formulas on the logged heap (= the model heap when sm) and what the
            \* harness saw on the real objects
            \E lbad \in {Broken(IF sm THEN r.h ELSE HeapOfSeq(e.s, Root), Root) \cup ToSet(e.rb)} :
            \* explained = the logged heap is the predicted one and everything seen broken on the real objects is broken
            \* in the prediction too (an evaluation result that differs on an already inconsistent state is only drift)
            \E explained \in {sm /\ ToSet(e.rb) \subseteq Broken(r.h, Root)} :
               /\ heap' = r.h
               /\ fired' = fired \cup r.fired
               /\ live' = sm
               /\ verdict' = IF verdict # "ok" THEN verdict
                             ELSE IF ~sm THEN "state" ELSE IF ~vm THEN "eval" ELSE IF ~em THEN "err" ELSE "ok"
               /\ vstep' = IF verdict = "ok" /\ ~(sm /\ vm /\ em) THEN l ELSE vstep
               /\ diag' = IF verdict = "ok" /\ ~(sm /\ vm /\ em) THEN <<ms, r.err, mv>> ELSE diag
               /\ viol' = IF viol = 0 /\ lbad # {} /\ ~explained THEN l ELSE viol
               /\ nexpl' = IF lbad # {} /\ explained THEN nexpl + 1 ELSE nexpl
               /\ expl' = IF lbad # {} /\ explained THEN expl \cup fired \cup r.fired ELSE expl
       ELSE \* the specification lost the implementation at an earlier event (or cannot find the target):
            \* the remaining events are consumed, nothing after a disagreement is judged
            /\ verdict' = IF verdict = "ok" THEN "target" ELSE verdict
            /\ vstep' = IF verdict = "ok" THEN l ELSE vstep
            /\ live' = FALSE
            /\ UNCHANGED <<heap, fired, viol, nexpl, expl, diag>>
    /\ UNCHANGED tid

TNext == TPickBlock \/ TPickTrace \/ TStep
TSpec == TInit /\ [][TNext]_tvars

\* NodePath text form on the recorded paths: join gives the recorded text, split gives the recorded components back
PathBad ==
    LET ps == Traces[tid].paths
    IN {j \in DOMAIN ps : ~(/\ P!Join(ps[j].c) = ps[j].x
                            /\ P!Split(ps[j].x) = [ok |-> TRUE, p |-> ps[j].b]
                            /\ ps[j].b = ps[j].c)}

\* one line per trace, at the state where the whole trace is consumed
Report ==
    (tid > 0 /\ l = Len(Ev) + 1) =>
        PrintT(ToJson([trace |-> Traces[tid].tid, verdict |-> verdict, vstep |-> vstep, viol |-> viol, nexpl |-> nexpl,
                       expl |-> expl, fired |-> fired, pathbad |-> Cardinality(PathBad), diag |-> diag]))
=============================================================================
