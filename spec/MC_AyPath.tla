------------------------------ MODULE MC_AyPath ------------------------------
(***************************************************************************)
(* Model-checking root for the NodePath part of C17: every path of at most  *)
(* MaxComps components over a component universe (round trip), and every    *)
(* text of at most MaxText characters over a character universe (what       *)
(* split_path accepts and yields).  One state per path / text; Emit prints  *)
(* it for the replay against NodePath.join_path / NodePath.split_path.      *)
(***************************************************************************)
EXTENDS AyPath, Json

CONSTANTS MaxComps, MaxText

VARIABLE cur
Idle == [kind |-> "idle", p |-> <<>>, x |-> <<>>]

CompU == {IComp(i) : i \in {0 - 12, 0 - 1, 0, 1, 7, 10, 123}}
         \cup {SComp(w) : w \in {<<"a">>, <<"_", "x">>, <<"0">>, <<"b", "1">>, <<"1", "a">>, <<"_">>}}
CharU == {"a", "_", "0", "1", ".", "[", "]", "-"}

Init == cur = Idle
PickPath == \E n \in 0..MaxComps : \E f \in [1..n -> CompU] : cur' = [kind |-> "path", p |-> f, x |-> Join(f)]
PickText == \E n \in 0..MaxText : \E f \in [1..n -> CharU] : cur' = [kind |-> "text", p |-> <<>>, x |-> f]
Next == cur = Idle /\ (PickPath \/ PickText)
Spec == Init /\ [][Next]_cur

\* a path converted to text and parsed back is unchanged
Inv_RoundTrip == cur.kind = "path" => RoundTrip(cur.p)
\* whatever split_path accepts is a path of words and indices, and is stable under join / split
Inv_SplitStable == cur.kind = "text" =>
    LET r == Split(cur.x)
    IN r.ok => /\ \A j \in DOMAIN r.p : r.p[j].t = "s" => WordOk(r.p[j].s)
               /\ RoundTrip(r.p)

CompJ(c) == IF c.t = "i" THEN <<"i", c.i>> ELSE <<"s", c.s>>
PathJ(p) == [j \in DOMAIN p |-> CompJ(p[j])]
Emit == cur.kind # "idle" =>
    LET r == Split(cur.x)
    IN PrintT(ToJson([kind |-> cur.kind, p |-> PathJ(cur.p), x |-> cur.x, ok |-> r.ok, r |-> PathJ(r.p)]))
=============================================================================
