-------------------------------- MODULE Uni ---------------------------------
(***************************************************************************)
(* The document universe of a model-checking run.  Universes are DEFINED in *)
(* the Props_* modules (TLA+ set expressions over AyUniverse) but EVALUATED *)
(* once per run by a separate TLC invocation (spec/GenUni.tla) and handed   *)
(* to the exploring run as a JSON file: TLC re-evaluates a constant that a  *)
(* cfg overrides (`Docs <- Expr`) at every reference, and its UNION is      *)
(* quadratic, which made a 986-document universe cost 2 ms per state.       *)
(* A plain zero-arity definition such as Docs below is evaluated once.      *)
(***************************************************************************)
EXTENDS AyParse, Json, IOUtils

RECURSIVE SDofJ(_)
SDofJ(j) == [j EXCEPT !.md = {<<j.md[x][1], j.md[x][2]>> : x \in DOMAIN j.md},
                      !.ch = [i \in 1..Len(j.ch) |-> <<j.ch[i][1], SDofJ(j.ch[i][2])>>]]

UniRaw == IF "UNIVERSE_FILE" \in DOMAIN IOEnv
          THEN JsonDeserialize(IOEnv.UNIVERSE_FILE)
          ELSE [docs |-> <<>>, range |-> << <<1, 0>> >>]

\* the universe of surface documents a source may hold (a sequence) and, per
\* stage, <<lo, hi>>: which of them stage n may be (the last entry repeats)
Docs     == [i \in 1..Len(UniRaw.docs) |-> SDofJ(UniRaw.docs[i])]
DocRange == UniRaw.range

=============================================================================
