---------------------------- MODULE Trace_AyCopy ----------------------------
(***************************************************************************)
(* Trace validation for the copy machine (direction B: code -> spec).       *)
(* The harness builds seeded random merged trees in the real library        *)
(* (larger than the exhaustive bounds: function nodes, !xref, !required,    *)
(* !path, unprocessed !include, lists edited with insert / append, '_' and  *)
(* shadowing keys), copies them with copy.deepcopy / pickle while the       *)
(* reconstruction hooks (_recreate, __setstate__, append, __setitem__) are  *)
(* instrumented, mutates either side, and records one JSON line per copy:   *)
(*   {"tid": n, "proto": "pickle" | "deepcopy",                             *)
(*    "orig": D, "ev": [{"e": "Recreate" | "RestoreState" | "Attach",       *)
(*                       "path": path of the ORIGINAL node concerned}, ..], *)
(*    "st": "ok" | exception class, "copy": D, "origafter": D,              *)
(*    "shared": number of node objects the copy shares with the original,   *)
(*    "xsame": class-specific attributes (source file, reference point,     *)
(*             include names ...) equal node by node,                       *)
(*    "muts": [{"op", "side", "path", "o": D, "c": D} ..]}                  *)
(* D = a node with both views: the fields of the AyTree record, "ch" the    *)
(* child map [[key, D] ..], "py" the built-in view [[key, i] ..] (i indexes *)
(* ch, or xo when i > Len(ch)), "xo" nodes only the built-in view holds.    *)
(*                                                                          *)
(* Every reconstruction step of the machine is taken in order; the steps    *)
(* that concern a container must be the next logged event (kind + node).    *)
(* The finished copy, the original after the copy and both trees after      *)
(* every mutation are compared with the logged ones.  Verdicts are total:   *)
(*   verdict  "ok" | "order" | "status" | "flags" | "data" | "orig" | "mut" *)
(*            first disagreement between machine and library                *)
(*   lbad     formulas of the property the LOGGED state breaks              *)
(*   mbad     formulas the machine's own state breaks (deviation switches   *)
(*            as the cfg sets them), fired = deviations that mattered       *)
(***************************************************************************)
EXTENDS AyCopy

Traces == ndJsonDeserialize(IOEnv.TRACE_FILE)

VARIABLES tid, l, mi, verdict, vstep, lbad, mbad, mcopy
tvars == <<cvars, tid, l, mi, verdict, vstep, lbad, mbad, mcopy>>

T == Traces[tid]

----------------------------------------------------------------------------
\* logged nodes -> [n, ch, py, xo]
FlatJ(j) == [k |-> j.k, v |-> <<j.v[1], j.v[2]>>, ch |-> <<>>, fn |-> j.fn, ref |-> [i \in 1..Len(j.ref) |-> j.ref[i]],
             pr |-> j.pr, del |-> j.del, idel |-> j.idel, anew |-> j.anew, ianew |-> j.ianew,
             safe |-> j.safe, isafe |-> j.isafe, dsafe |-> j.dsafe,
             md |-> {<<j.md[x][1], <<j.md[x][2][1], j.md[x][2][2]>>>> : x \in DOMAIN j.md}]
RECURSIVE DualJ(_)
DualJ(j) == [n  |-> FlatJ(j),
             ch |-> [i \in 1..Len(j.ch) |-> <<j.ch[i][1], DualJ(j.ch[i][2])>>],
             py |-> [i \in 1..Len(j.py) |-> <<j.py[i][1], j.py[i][2]>>],
             xo |-> [i \in 1..Len(j.xo) |-> DualJ(j.xo[i])]]

\* the same shape read off the heap
RECURSIVE Dual(_, _)
Dual(h, id) ==
    LET c == h[id]
        InKids(e) == \E i \in 1..Len(c.kids) : c.kids[i][2] = e[2]
        extra == SelectSeq(c.py, LAMBDA e : ~InKids(e))
        Idx(e) == IF InKids(e) THEN CHOOSE i \in 1..Len(c.kids) : c.kids[i][2] = e[2]
                  ELSE Len(c.kids) + (CHOOSE i \in 1..Len(extra) : extra[i][2] = e[2])
    IN [n  |-> c.n,
        ch |-> [i \in 1..Len(c.kids) |-> <<c.kids[i][1], Dual(h, c.kids[i][2])>>],
        py |-> [i \in 1..Len(c.py) |-> <<c.py[i][1], Idx(c.py[i])>>],
        xo |-> [i \in 1..Len(extra) |-> Dual(h, extra[i][2])]]

RECURSIVE DSize(_)
DSize(d) == LET F[i \in 0..Len(d.ch)] == IF i = 0 THEN 1 ELSE F[i-1] + DSize(d.ch[i][2])
                G[i \in 0..Len(d.xo)] == IF i = 0 THEN F[Len(d.ch)] ELSE G[i-1] + DSize(d.xo[i])
            IN G[Len(d.xo)]

RECURSIVE LoadD(_, _)
LoadD(d, id) ==
    LET nc == Len(d.ch)  nx == Len(d.xo)
        Sub(i) == IF i <= nc THEN d.ch[i][2] ELSE d.xo[i - nc]
        off[i \in 0..(nc + nx)] == IF i = 0 THEN id + 1 ELSE off[i-1] + DSize(Sub(i))      \* off[i-1] = id of sub-node i
        kids == [i \in 1..nc |-> <<d.ch[i][1], off[i-1]>>]
        py   == [i \in 1..Len(d.py) |-> <<d.py[i][1], off[d.py[i][2] - 1]>>]
        sub[i \in 0..(nc + nx)] == IF i = 0 THEN (id :> Cell(d.n, kids, py, TRUE))
                                   ELSE sub[i-1] @@ LoadD(Sub(i), off[i-1])
    IN sub[nc + nx]

\* trees of a [n, ch, py, xo] node through either view
RECURSIVE DTree(_), DPyTree(_)
DTree(d) == [d.n EXCEPT !.ch = [i \in 1..Len(d.ch) |-> <<d.ch[i][1], DTree(d.ch[i][2])>>]]
DPyTree(d) == [d.n EXCEPT !.ch = [i \in 1..Len(d.py) |->
                 <<d.py[i][1], DPyTree(IF d.py[i][2] <= Len(d.ch) THEN d.ch[d.py[i][2]][2] ELSE d.xo[d.py[i][2] - Len(d.ch)])>>]]
RECURSIVE DViewsAgree(_)
DViewsAgree(d) == /\ d.xo = <<>> /\ Len(d.py) = Len(d.ch)
                  /\ \A i \in 1..Len(d.ch) : d.py[i] = <<d.ch[i][1], i>> /\ DViewsAgree(d.ch[i][2])

\* the cell a logged path leads to (child map first, then built-in-only entries); 0 = not there
RECURSIVE CellAt(_, _, _)
CellAt(h, id, p) ==
    IF p = <<>> THEN id
    ELSE LET c == h[id]
             ks == {i \in 1..Len(c.kids) : c.kids[i][1] = Head(p)}
             ps == {i \in 1..Len(c.py) : c.py[i][1] = Head(p)}
         IN IF ks # {} THEN CellAt(h, c.kids[CHOOSE i \in ks : TRUE][2], Tail(p))
            ELSE IF ps # {} THEN CellAt(h, c.py[CHOOSE i \in ps : TRUE][2], Tail(p))
            ELSE 0

RECURSIVE PathOf(_, _, _)
PathOf(h, root, id) ==          \* <<TRUE, path>> or <<FALSE, <<>>>>
    IF root = id THEN <<TRUE, <<>>>>
    ELSE LET es == h[root].kids \o SelectSeq(h[root].py, LAMBDA e : \A i \in 1..Len(h[root].kids) : h[root].kids[i][2] # e[2])
             F[i \in 0..Len(es)] ==
                IF i = 0 THEN <<FALSE, <<>>>>
                ELSE IF F[i-1][1] THEN F[i-1]
                ELSE LET r == PathOf(h, es[i][2], id) IN IF r[1] THEN <<TRUE, <<es[i][1]>> \o r[2]>> ELSE <<FALSE, <<>>>>
         IN F[Len(es)]

\* the path the copy's hooks can report: names as the BUILT-IN view of the original numbers / names them
RECURSIVE PyPathOf(_, _, _)
PyPathOf(h, root, id) ==
    IF root = id THEN <<TRUE, <<>>>>
    ELSE LET es == h[root].py \o SelectSeq(h[root].kids, LAMBDA e : \A i \in 1..Len(h[root].py) : h[root].py[i][2] # e[2])
             F[i \in 0..Len(es)] ==
                IF i = 0 THEN <<FALSE, <<>>>>
                ELSE IF F[i-1][1] THEN F[i-1]
                ELSE LET r == PyPathOf(h, es[i][2], id) IN IF r[1] THEN <<TRUE, <<es[i][1]>> \o r[2]>> ELSE <<FALSE, <<>>>>
         IN F[Len(es)]

----------------------------------------------------------------------------
Block == 25
NBlocks == (Len(Traces) + Block - 1) \div Block

TInit == /\ Init /\ tid = 0 /\ l = 0 /\ mi = 0 /\ verdict = "ok" /\ vstep = 0 /\ lbad = {} /\ mbad = {} /\ mcopy = <<>>

TPickBlock == /\ tid = 0 /\ l = 0
              /\ \E b \in 1..NBlocks : l' = 0 - b
              /\ UNCHANGED <<cvars, tid, mi, verdict, vstep, lbad, mbad, mcopy>>

TPickTrace ==
    /\ tid = 0 /\ l < 0
    /\ \E t \in (((0 - l) - 1) * Block + 1)..(IF (0 - l) * Block < Len(Traces) THEN (0 - l) * Block ELSE Len(Traces)) :
          /\ tid' = t
          /\ heap' = LoadD(DualJ(Traces[t].orig), 1)
    /\ oroot' = 1 /\ phase' = "ready" /\ l' = 1
    /\ last' = [a |-> "Load", side |-> "", id |-> 0]
    /\ UNCHANGED <<croot, proto, stack, status, nmut, nedit, otree, fired, hist, mi, verdict, vstep, lbad, mbad, mcopy>>

TStart == /\ tid > 0 /\ StartCopy(T.proto)
          /\ UNCHANGED <<tid, l, mi, verdict, vstep, lbad, mbad, mcopy>>

\* one reconstruction step; a step that concerns a container is the next logged event
TStep ==
    /\ tid > 0 /\ phase = "copying"
    /\ Step
    /\ LET a    == last'.a
           src  == IF a = "Recreate" THEN stack'[Len(stack')].src ELSE Top.src
           cont == IsComposed(heap[src].n)
           p    == PyPathOf(heap, oroot, src)[2]
       IN IF cont /\ a \in {"Recreate", "RestoreState", "Attach"}
          THEN \* (a copy that raises leaves its partial objects unreachable: their paths cannot be logged, the order is not compared)
               LET match == T.st # "ok" \/ (l <= Len(T.ev) /\ T.ev[l].e = a /\ [i \in 1..Len(T.ev[l].path) |-> T.ev[l].path[i]] = p)
               IN /\ l' = l + 1
                  /\ verdict' = IF verdict = "ok" /\ ~match THEN "order" ELSE verdict
                  /\ vstep' = IF verdict = "ok" /\ ~match THEN l ELSE vstep
          ELSE UNCHANGED <<l, verdict, vstep>>
    /\ UNCHANGED <<tid, mi, lbad, mbad, mcopy>>

MutNames == {"MutMd", "MutPr", "MutSet", "MutDel", "MutClear"}

\* the property on a (orig, copy) pair of [n, ch, py, xo] nodes as logged right after the copy
PairBad(o, c, oafter, st, shared, xsame) ==
    (IF st # "ok" THEN {"Completes"} ELSE
       (IF DViewsAgree(o) /\ ~(c = o /\ xsame) THEN {"Faithful"} ELSE {})
       \cup (IF DataOf(DPyTree(c)) # DataOf(DPyTree(o)) THEN {"ContentFaithful"} ELSE {})
       \cup (IF shared # 0 THEN {"Disjoint"} ELSE {}))
    \cup (IF oafter # o THEN {"OrigUntouched"} ELSE {})

\* the copy is finished (or has failed): compare it with the logged one, evaluate the property on both
TCopied ==
    /\ tid > 0 /\ phase = "copied" /\ mi = 0
    /\ LET lo == DualJ(T.orig)
           lc == DualJ(T.copy)
           la == DualJ(T.origafter)
           mo == Dual(heap, oroot)
           mc == IF status = "ok" THEN Dual(heap, croot) ELSE mo
           sm == (status = "ok") <=> (T.st = "ok")
           first == IF l # Len(T.ev) + 1 /\ sm /\ status = "ok" THEN "order"
                    ELSE IF ~sm THEN "status"
                    ELSE IF status # "ok" THEN "ok"
                    ELSE IF mc = lc THEN (IF mo = la THEN "ok" ELSE "orig")
                    ELSE IF DataOf(DPyTree(mc)) = DataOf(DPyTree(lc)) /\ DataOf(DTree(mc)) = DataOf(DTree(lc)) THEN "flags" ELSE "data"
       IN /\ verdict' = IF verdict = "ok" THEN first ELSE verdict
          /\ vstep' = IF verdict = "ok" /\ first # "ok" THEN l ELSE vstep
          /\ lbad' = PairBad(lo, lc, la, T.st, T.shared, T.xsame)
          /\ mbad' = PairBad(lo, mc, mo, status, IF status = "ok" THEN Cardinality(Ids(heap, croot) \cap Ids(heap, oroot)) ELSE 0, TRUE)
          /\ mcopy' = IF verdict = "ok" /\ first \in {"flags", "data", "orig"} THEN <<mc, mo>> ELSE mcopy
    /\ mi' = 1
    /\ UNCHANGED <<cvars, tid, l>>

\* one logged mutation of either side
MutAct(op, id) ==
    CASE op = "MutMd" -> MutMd(id) [] op = "MutPr" -> MutPr(id) [] op = "MutSet" -> MutSet(id)
      [] op = "MutDel" -> MutDel(id) [] op = "MutClear" -> MutClear(id) [] OTHER -> FALSE

TMut ==
    /\ tid > 0 /\ phase = "copied" /\ mi >= 1 /\ mi <= Len(T.muts)
    /\ mi' = mi + 1
    /\ LET e   == T.muts[mi]
           rt  == IF e.side = "orig" THEN oroot ELSE croot
           id  == IF status = "ok" \/ e.side = "orig" THEN CellAt(heap, rt, [i \in 1..Len(e.path) |-> e.path[i]]) ELSE 0
           lo  == DualJ(e.o)  lc == DualJ(e.c)
           \* the logged state before this mutation
           po  == IF mi = 1 THEN DualJ(T.origafter) ELSE DualJ(T.muts[mi - 1].o)
           pc  == IF mi = 1 THEN DualJ(T.copy) ELSE DualJ(T.muts[mi - 1].c)
           iso == IF T.st # "ok" THEN {}
                  ELSE IF e.side = "orig" /\ lc # pc THEN {"Isolated"}
                  ELSE IF e.side = "copy" /\ lo # po THEN {"Isolated"} ELSE {}
           can == id # 0 /\ verdict = "ok" /\ MutEnabled(e.op, id)
       IN /\ lbad' = lbad \cup iso
          /\ \/ /\ can
                /\ MutAct(e.op, id)
                /\ LET mo == Dual(heap', oroot)
                       mc == IF status = "ok" THEN Dual(heap', croot) ELSE lc
                       agree == mo = lo /\ mc = lc
                   IN /\ verdict' = IF agree THEN verdict ELSE "mut"
                      /\ vstep' = IF agree THEN vstep ELSE mi
                      /\ mbad' = mbad \cup (IF status = "ok" /\ e.side = "orig" /\ Dual(heap', croot) # Dual(heap, croot) THEN {"Isolated"} ELSE {})
                                      \cup (IF status = "ok" /\ e.side = "copy" /\ Dual(heap', oroot) # Dual(heap, oroot) THEN {"Isolated"} ELSE {})
                      /\ mcopy' = IF agree THEN mcopy ELSE <<mc, mo>>
             \/ \* the machine has lost the library earlier, or cannot take this step: consume the event
                /\ ~can
                /\ verdict' = IF verdict = "ok" THEN "mut" ELSE verdict
                /\ vstep' = IF verdict = "ok" THEN mi ELSE vstep
                /\ UNCHANGED <<cvars, mbad, mcopy>>
    /\ UNCHANGED <<tid, l>>

TNext == TPickBlock \/ TPickTrace \/ TStart \/ TStep \/ TCopied \/ TMut
TSpec == TInit /\ [][TNext]_tvars

\* one line per trace, at the state where the whole trace is consumed
Report ==
    (tid > 0 /\ phase = "copied" /\ mi = Len(T.muts) + 1) =>
        PrintT(ToJson([trace |-> T.tid, verdict |-> verdict, vstep |-> vstep, lbad |-> lbad, mbad |-> mbad, fired |-> fired,
                       model |-> IF verdict \in {"flags", "data", "orig", "mut"} /\ mcopy # <<>> THEN [c |-> DTree(mcopy[1]), o |-> DTree(mcopy[2])] ELSE [c |-> <<>>, o |-> <<>>]]))
=============================================================================
