------------------------------ MODULE Props_C03 -----------------------------
(***************************************************************************)
(* C03 - priorities: the highest-priority writer wins, the latest among     *)
(* equals; a priority tag on a container applies to everything below it;    *)
(* user metadata is combined under the same rule without losing keys.       *)
(*                                                                          *)
(* Everything is stated over the SURFACE documents (what the author wrote)  *)
(* and the observed outcome, not over internal flags.                       *)
(***************************************************************************)
EXTENDS AyMerge, AyUniverse, SequencesExt

\* surface helpers ---------------------------------------------------------
C03_SHas(sd, k) == \E i \in 1..Len(sd.ch) : sd.ch[i][1] = k
C03_SGet(sd, k) == sd.ch[CHOOSE i \in 1..Len(sd.ch) : sd.ch[i][1] = k][2]

\* lists are atomic values for this property: a "leaf" is a scalar or a list
C03_IsMap(sd) == sd.k = "dict"

RECURSIVE C03_SHasPath(_, _)
C03_SHasPath(sd, p) ==
    IF p = <<>> THEN TRUE
    ELSE C03_IsMap(sd) /\ C03_SHas(sd, Head(p)) /\ C03_SHasPath(C03_SGet(sd, Head(p)), Tail(p))
RECURSIVE C03_SAt(_, _)
C03_SAt(sd, p) == IF p = <<>> THEN sd ELSE C03_SAt(C03_SGet(sd, Head(p)), Tail(p))

RECURSIVE C03_SPaths(_)
C03_SPaths(sd) ==
    {<<>>} \cup (IF C03_IsMap(sd)
                 THEN UNION { {<<sd.ch[i][1]>> \o q : q \in C03_SPaths(sd.ch[i][2])} : i \in 1..Len(sd.ch) }
                 ELSE {})

\* the priority the author gave the node at p: that of the nearest enclosing
\* tagged node (itself included), else standard
RECURSIVE C03_SPr(_, _, _)
C03_SPr(sd, p, inherited) ==
    LET mine == IF sd.pr # PrNone THEN sd.pr ELSE inherited
    IN IF p = <<>> THEN mine ELSE C03_SPr(C03_SGet(sd, Head(p)), Tail(p), mine)

\* number of priority-tagged nodes on the way from the root to every node
RECURSIVE C03_MaxPrTags(_)
C03_MaxPrTags(sd) ==
    (IF sd.pr # PrNone THEN 1 ELSE 0) +
    (IF Len(sd.ch) = 0 THEN 0
     ELSE LET S == {C03_MaxPrTags(sd.ch[i][2]) : i \in 1..Len(sd.ch)}
          IN CHOOSE m \in S : \A x \in S : x <= m)

RECURSIVE C03_OnlyPrAndMd(_)
C03_OnlyPrAndMd(sd) ==
    /\ sd.del = "N" /\ sd.anew = "N" /\ sd.safe = "N"
    /\ sd.k \in {"dict", "list", "scalar"}
    /\ (sd.k = "list" => \A i \in 1..Len(sd.ch) : sd.ch[i][2].form = "none" /\ sd.ch[i][2].k = "scalar")
    /\ \A i \in 1..Len(sd.ch) : C03_OnlyPrAndMd(sd.ch[i][2])

\* Stated domain (DESIGN 5/C03): mapping documents; only !force/!weak and
\* user metadata; lists are atomic, uniformly tagged values; at most one
\* priority tag on any root-to-leaf path; a path is never a mapping in one
\* stage and a leaf in another.
C03_InDomain(docs) ==
    /\ \A j \in 1..Len(docs) : /\ C03_IsMap(docs[j]) /\ C03_OnlyPrAndMd(docs[j])
                                /\ C03_MaxPrTags(docs[j]) <= 1
    /\ \A i, j \in 1..Len(docs) : \A p \in C03_SPaths(docs[i]) :
           C03_SHasPath(docs[j], p) => (C03_IsMap(C03_SAt(docs[i], p)) <=> C03_IsMap(C03_SAt(docs[j], p)))

\* writers and the winner ---------------------------------------------------
C03_Writers(docs, n, p) == {j \in 1..n : C03_SHasPath(docs[j], p)}

C03_Beats(docs, i, j, p) ==     \* stage i beats stage j at p
    LET pi == C03_SPr(docs[i], p, 0)  pj == C03_SPr(docs[j], p, 0)
    IN pi > pj \/ (pi = pj /\ i >= j)

C03_Winner(docs, n, p) ==
    CHOOSE i \in C03_Writers(docs, n, p) : \A j \in C03_Writers(docs, n, p) : C03_Beats(docs, i, j, p)

C03_AllPaths(docs, n) == UNION {C03_SPaths(docs[j]) : j \in 1..n}

MdKeys(md) == {e[1] : e \in md}
MdVal(md, k) == (CHOOSE e \in md : e[1] = k)[2]

\* what must be observed after stage n (out: a node tree)
C03_HoldsAt(docs, n, out) ==
    /\ ~IsErr(out)
    /\ \A p \in C03_AllPaths(docs, n) :
         /\ HasPath(out, p)
         /\ LET w  == C03_Winner(docs, n, p)
                sw == C03_SAt(docs[w], p)
                o  == At(out, p)
                carriers(k) == {j \in C03_Writers(docs, n, p) : k \in MdKeys(C03_SAt(docs[j], p).md)}
            IN /\ (~C03_IsMap(sw)) => DataOf(o) = Erase(sw)                       \* the winner's value
               /\ C03_IsMap(sw) => IsDict(o)
               \* metadata: no key lost, none invented
               /\ MdKeys(o.md) = UNION {MdKeys(C03_SAt(docs[j], p).md) : j \in C03_Writers(docs, n, p)}
               \* the winner's own metadata values survive
               /\ \A k \in MdKeys(sw.md) : MdVal(o.md, k) = MdVal(sw.md, k)
               \* a key carried by exactly one writer keeps its value
               /\ \A k \in MdKeys(o.md) :
                      Cardinality(carriers(k)) = 1 =>
                          MdVal(o.md, k) = MdVal(C03_SAt(docs[CHOOSE j \in carriers(k) : TRUE], p).md, k)
    \* nothing else appears
    /\ \A p \in PathsOf(out) : (\E q \in C03_AllPaths(docs, n) : PathPrefix(q, p) /\ (q = p \/ ~C03_IsMap(
                                   C03_SAt(docs[C03_Winner(docs, n, q)], q))))

C03_Holds(docs, outs) ==
    C03_InDomain(docs) => \A n \in 1..Len(outs) : C03_HoldsAt(docs, n, outs[n])

----------------------------------------------------------------------------
\* universes: chain-shaped documents, at most one priority tag per path
C03_KA == SKey("a")  C03_KB == SKey("b")
C03_V1 == Atom("i", "1")  C03_V2 == Atom("i", "2")

C03_L(v) == SD("scalar", v, <<>>)
C03_Lst(v) == SD("list", NoVal, <<<<IKey(0), C03_L(v)>>>>)
C03_Lst2(v) == SD("list", NoVal, <<<<IKey(0), C03_L(v)>>, <<IKey(1), C03_L(v)>>>>)
C03_PrTags == {"none", "force", "weak"}

\* untagged subtrees of depth <= d over one key a (plus leaf kinds)
RECURSIVE C03_Plain(_, _)
C03_Plain(d, vals) ==
    {C03_L(v) : v \in vals} \cup {C03_Lst(v) : v \in vals} \cup
    (IF d = 0 THEN {} ELSE MapsOverMax(<<C03_KA, C03_KB>>, C03_Plain(d - 1, vals), 1) \ {SD("dict", NoVal, <<>>)})

\* trees in which at most one node per path is tagged
RECURSIVE C03_T(_, _)
C03_T(d, vals) ==
    TagAll(C03_Plain(d, vals), C03_PrTags) \cup
    (IF d = 0 THEN {} ELSE MapsOverMax(<<C03_KA, C03_KB>>, C03_T(d - 1, vals), 1) \ {SD("dict", NoVal, <<>>)})

\* documents: a root mapping with one key a, depth 3 below
C03_DocsOf(vals) == (TagAll(MapsOverMax(<<C03_KA>>, C03_Plain(2, vals), 1), C03_PrTags)
                     \cup MapsOverMax(<<C03_KA>>, C03_T(2, vals), 1)) \ TagAll({SD("dict", NoVal, <<>>)}, C03_PrTags)
C03_Docs  == SetToSeq(C03_DocsOf({C03_V1}))
C03_Docs2 == SetToSeq(C03_DocsOf({C03_V1, C03_V2}))
\* 3-stage histories: depth 2 below the root key, leaves only
RECURSIVE C03_PlainS(_)
C03_PlainS(d) == {C03_L(C03_V1), C03_Lst(C03_V1)} \cup
                 (IF d = 0 THEN {} ELSE {SD("dict", NoVal, <<<<C03_KA, c>>>>) : c \in C03_PlainS(d - 1)})
RECURSIVE C03_TS(_)
C03_TS(d) == TagAll(C03_PlainS(d), C03_PrTags) \cup
             (IF d = 0 THEN {} ELSE {SD("dict", NoVal, <<<<C03_KA, c>>>>) : c \in C03_TS(d - 1)})
C03_Docs3 == SetToSeq({SD("dict", NoVal, <<<<C03_KA, c>>>>) : c \in C03_TS(2)})

\* metadata universe: a.b leaf / a map with md keys m, n on either level, priority on either
C03_Md(sd, k, v) == [sd EXCEPT !.form = "md", !.md = {<<k, v>>}]
C03_MdLeaves == UNION { {C03_L(v), C03_Md(C03_L(v), "m", v), C03_Md(C03_L(v), "n", v),
                         [C03_Md(C03_L(v), "m", v) EXCEPT !.pr = 1], [C03_Md(C03_L(v), "m", v) EXCEPT !.pr = -1],
                         WithTag(C03_L(v), "force"), WithTag(C03_L(v), "weak")} : v \in {C03_V1, C03_V2} }
C03_MdMaps == UNION { LET m == SD("dict", NoVal, <<<<C03_KB, lf>>>>)
                      IN {m} \cup (IF lf.pr = PrNone
                                   THEN {C03_Md(m, "m", C03_V1), [C03_Md(m, "n", C03_V2) EXCEPT !.pr = 1],
                                         [C03_Md(m, "m", C03_V2) EXCEPT !.pr = -1]}
                                   ELSE {C03_Md(m, "m", C03_V1)})
                    : lf \in C03_MdLeaves }
C03_DocsMd == SetToSeq({SD("dict", NoVal, <<<<C03_KA, m>>>>) : m \in C03_MdMaps})

\* 3-stage metadata histories: one container a (metadata m / n / none x force / weak / none) over a leaf
C03_MdS == UNION { LET m == SD("dict", NoVal, <<<<C03_KB, C03_L(v)>>>>)
                       withMd == {m, C03_Md(m, "m", v), C03_Md(m, "n", v)}
                   IN UNION { {x, [x EXCEPT !.form = IF x.form = "none" THEN "tag" ELSE @, !.pr = 1],
                                  [x EXCEPT !.form = IF x.form = "none" THEN "tag" ELSE @, !.pr = -1]} : x \in withMd }
                 : v \in {C03_V1, C03_V2} }
C03_DocsMdS == SetToSeq({SD("dict", NoVal, <<<<C03_KA, m>>>>) : m \in C03_MdS})

\* several NULL entries in one tagged mapping (written as empty entries by the renderer in half of the documents), merged with
\* entries carrying metadata: each entry is a node of its own (F23: the loader made them one shared node)
C03_N == SD("scalar", Atom("n", ""), <<>>)
C03_KC == SKey("c")
C03_NullDocs == {SD("dict", NoVal, <<<<C03_KA, C03_Md(C03_L(C03_V1), "m", C03_V1)>>>>),
                 SD("dict", NoVal, <<<<C03_KA, C03_L(C03_V1)>>, <<C03_KC, C03_Md(C03_L(C03_V2), "n", C03_V2)>>>>)}
                \cup TagAll({SD("dict", NoVal, <<<<C03_KC, C03_N>>, <<C03_KA, C03_N>>>>),
                            SD("dict", NoVal, <<<<C03_KA, C03_N>>, <<C03_KB, C03_N>>, <<C03_KC, C03_N>>>>)}, C03_PrTags)
                \cup {SD("dict", NoVal, <<<<C03_KA, WithTag(SD("dict", NoVal, <<<<C03_KB, C03_N>>, <<C03_KC, C03_N>>>>), "force")>>>>),
                     SD("dict", NoVal, <<<<C03_KA, SD("dict", NoVal, <<<<C03_KB, C03_Md(C03_L(C03_V1), "m", C03_V1)>>>>)>>>>)}
C03_DocsNull == SetToSeq(C03_NullDocs)

=============================================================================
