------------------------------- MODULE MC_Stream -----------------------------
(* Model-checking root for C06: histories of documents x presentations, file layouts, !path reference points *)
EXTENDS AyStream, Props_C04, Json

CONSTANTS MaxDocs

VARIABLES ds, phase
svars == <<ds, phase>>

SInit == ds = <<>> /\ phase = "adding"
AddDoc(i) == phase = "adding" /\ Len(ds) < MaxDocs /\ ds' = Append(ds, i) /\ UNCHANGED phase
Done == phase = "adding" /\ Len(ds) >= 1 /\ phase' = "built" /\ UNCHANGED ds
StageDocs(n) == LET r == DocRange[IF n <= Len(DocRange) THEN n ELSE Len(DocRange)] IN r[1]..r[2]
SNext == (\E i \in StageDocs(Len(ds) + 1) : AddDoc(i)) \/ Done

Parsed == [i \in 1..Len(ds) |-> Parse(Docs[ds[i]], TRUE)]
Plainly == FoldDocs(Parsed)

SameOutcome(a, b) == IF IsErr(a) THEN IsErr(b) /\ a.err = b.err ELSE ~IsErr(b) /\ a = b     \* the whole tree, flags included

SCheck(name, ok) == ok \/ (PrintT(ToJson([cex |-> name, docs |-> [i \in 1..Len(ds) |-> Docs[ds[i]]]])) /\ FALSE)

\* the same documents build the same config however they are delivered
Inv_Presentation == SCheck("Inv_Presentation",
    phase = "built" => \A pres \in Presentations : SameOutcome(Plainly, Build(pres, Parsed)))
\* `key: !include [..]` = the merged content of those files placed under key
Inv_NestedInclude == SCheck("Inv_NestedInclude",
    phase = "built" => \A key \in {SKey("k"), SKey("a")} :
        LET a == BuildUnderKey(key, Parsed)
        IN IF IsErr(Plainly) THEN IsErr(a)
           ELSE ~IsErr(a) /\ DataOf(a) = DataOf(WrapUnderKey(key, Plainly)))

\* content included by unsafe content is unsafe, and is the same content
ParsedUnsafe == [i \in 1..Len(ds) |-> Parse(Docs[ds[i]], FALSE)]
Inv_UnsafeInclude == SCheck("Inv_UnsafeInclude",
    phase = "built" =>
        /\ SameOutcome(FoldDocs(ParsedUnsafe), Build("include_list", ParsedUnsafe))        \* an unsafe source that includes
        /\ LET a == BuildUnderUnsafeKey(SKey("k"), ParsedUnsafe)
           IN IF IsErr(Plainly) THEN IsErr(a)
              ELSE /\ ~IsErr(a) /\ DataOf(a) = DataOf(WrapUnderKey(SKey("k"), Plainly))
                   /\ AllUnsafe(Child(a, SKey("k"))))

CompactOut(r) == IF IsErr(r) THEN [e |-> r.err] ELSE CompactN(r)
Emit == phase = "built" => PrintT(ToJson([h |-> ds, x |-> CompactOut(Plainly)]))

\* ---- lookup and !path are finite tables: checked as assumptions over every case ----
Wheres == SUBSET {"filedir", "cwd"}
ASSUME \A w \in Wheres : Resolve(w) = (IF "filedir" \in w THEN "filedir" ELSE IF "cwd" \in w THEN "cwd" ELSE "missing") \/ Mutation # "none"
LookupTable == [w1 \in Wheres |-> [w2 \in Wheres |->
                  IncludeOutcome(<<"f1", "f2">>, [n \in {"f1", "f2"} |-> IF n = "f1" THEN w1 ELSE w2])]]
\* a missing file fails the build and is named; otherwise the including file's directory wins over the working directory
Inv_Lookup == SCheck("Inv_Lookup",
    \A w1, w2 \in Wheres :
        LET o == LookupTable[w1][w2]
        IN IF w1 = {} \/ w2 = {}
           THEN /\ "err" \in DOMAIN o /\ o.err = "PreprocessError"
                /\ \A i \in 1..Len(o.missing) : (o.missing[i] = "f1" => w1 = {}) /\ (o.missing[i] = "f2" => w2 = {})
                /\ (w1 = {} => \E i \in 1..Len(o.missing) : o.missing[i] = "f1")
                /\ (w2 = {} => \E i \in 1..Len(o.missing) : o.missing[i] = "f2")
           ELSE /\ "read" \in DOMAIN o
                /\ o.read[1][2] = (IF "filedir" \in w1 THEN "filedir" ELSE "cwd")
                /\ o.read[2][2] = (IF "filedir" \in w2 THEN "filedir" ELSE "cwd"))
EmitLookup == PrintT(ToJson([lookup |-> [w1 \in {"none", "filedir", "cwd", "both"} |-> [w2 \in {"none", "filedir", "cwd", "both"} |->
                  LET S(x) == CASE x = "none" -> {} [] x = "filedir" -> {"filedir"} [] x = "cwd" -> {"cwd"} [] OTHER -> {"filedir", "cwd"}
                  IN LookupTable[S(w1)][S(w2)]]]]))
ASSUME EmitLookup

=============================================================================
