------------------------------ MODULE Trace_Func ----------------------------
(***************************************************************************)
(* Trace validation for the argument-passing half of C13 (direction B:      *)
(* code -> spec).  The harness drives the real library on seeded random     *)
(* signatures and argument sets (larger than the exhaustive bounds) and     *)
(* records one JSON line per function node:                                 *)
(*   {"tid": n, "sig": [{n,k,d}..],                                         *)
(*    "ev": [{"e":"Write",  "kind":.., "form":.., "written":[{k,v}..]},     *)
(*           {"e":"Resolve","seen":bool, "p":[..], "k":[[name,val]..]},     *)
(*           {"e":"Invoke", "out":{"err":bool,"b":[{p,v,t,d}..],            *)
(*                                 "pa":[..],"pk":[[name,val]..]}}]}        *)
(* "Resolve" carries the positional / keyword split the target (or the      *)
(* partial) actually got, when the library got that far.  Every event is    *)
(* one action of the node machine (MC_Func: Write / Resolve / Invoke).      *)
(* Verdicts are total: the first disagreement is classified ("split": the   *)
(* positional/keyword split differs, "err": error vs success differs,       *)
(* "out": the binding differs) and printed with the trace id, together with *)
(* the property's formula evaluated on the LOGGED outcome.                  *)
(***************************************************************************)
EXTENDS AyFunc, Json, IOUtils, TLCExt

Traces == ndJsonDeserialize(IOEnv.TRACE_FILE)

VARIABLES tid, l, phase, kind, sig, args, res, out, lout, verdict
tvars == <<tid, l, phase, kind, sig, args, res, out, lout, verdict>>

Ev == Traces[tid].ev
Pairs(s) == {<<s[i][1], s[i][2]>> : i \in DOMAIN s}
OutOfJ(j) == [err |-> j.err, why |-> "",
              b |-> {[p |-> j.b[i].p, v |-> j.b[i].v, t |-> j.b[i].t, d |-> Pairs(j.b[i].d)] : i \in DOMAIN j.b},
              pa |-> j.pa, pk |-> Pairs(j.pk)]

NoRes == [err |-> FALSE, p |-> <<>>, kwp |-> {}, kw |-> {}]

TInit == /\ tid \in 1..Len(Traces) /\ l = 1 /\ phase = "blank" /\ kind = "" /\ sig = <<>> /\ args = <<>>
         /\ res = NoRes /\ out = Failed("not evaluated") /\ lout = Failed("not evaluated") /\ verdict = "ok"

IsEvent(e) == l <= Len(Ev) /\ Ev[l].e = e /\ l' = l + 1

TWrite == /\ IsEvent("Write") /\ phase = "blank"
          /\ kind' = Ev[l].kind /\ sig' = Traces[tid].sig
          /\ args' = NodeArgs(Ev[l].form, Ev[l].written)
          /\ phase' = "written"
          /\ UNCHANGED <<tid, res, out, lout, verdict>>

TResolve == /\ IsEvent("Resolve") /\ phase = "written"
            /\ res' = ResolveArgs(sig, args)
            /\ phase' = "resolved"
            /\ verdict' = IF verdict # "ok" \/ ~Ev[l].seen THEN verdict
                          ELSE IF res'.err \/ Clash(res') THEN "err"       \* the library got to the call, the model does not
                          ELSE IF res'.p = Ev[l].p /\ AllKw(res') = Pairs(Ev[l].k) THEN "ok" ELSE "split"
            /\ UNCHANGED <<tid, kind, sig, args, out, lout>>

TInvoke == /\ IsEvent("Invoke") /\ phase = "resolved"
           /\ out' = IF kind = "call" THEN Received(sig, args) ELSE BindResult(sig, args)
           /\ lout' = OutOfJ(Ev[l].out)
           /\ phase' = "done"
           /\ verdict' = IF verdict # "ok" THEN verdict
                         ELSE IF out'.err # lout'.err THEN "err"
                         ELSE IF Same(out', lout') THEN "ok" ELSE "out"
           /\ UNCHANGED <<tid, kind, sig, args, res>>

TNext == TWrite \/ TResolve \/ TInvoke
TSpec == TInit /\ [][TNext]_tvars

\* the property's declarative reading evaluated on what the LIBRARY did ...
Want == IF kind = "call" THEN Stated(sig, args) ELSE StatedPartial(sig, args)
PropVerdict == IF ~WellFormedSig(sig) THEN "outside"
               ELSE IF Same(lout, Want)
                       /\ (kind = "bind" /\ ~lout.err => Same(PyBind(sig, lout.pa, lout.pk), Stated(sig, args)))
                    THEN "holds" ELSE "violated"
\* ... and on what the SPECIFICATION computes for the same node
ModelVerdict == IF PassesAsPython(sig, args) /\ BindIsPartial(sig, args) /\ PartialCompletes(sig, args)
                THEN "holds" ELSE "violated"

\* one line per trace, printed where the whole trace is consumed (a trace without a line was rejected)
Report == (l = Len(Ev) + 1) =>
    PrintT(<<"TRACE", Traces[tid].tid, verdict, PropVerdict, ModelVerdict,
             IF verdict = "ok" /\ PropVerdict # "violated" THEN ""
             ELSE ToJson([model |-> [err |-> out.err, b |-> out.b, pa |-> out.pa, pk |-> out.pk],
                          stated |-> [err |-> Want.err, why |-> Want.why, b |-> Want.b, pa |-> Want.pa, pk |-> Want.pk]])>>)
=============================================================================
