------------------------------ MODULE Props_C07 -----------------------------
(***************************************************************************)
(* C07 - unsafe content never reaches executed code, whatever is merged     *)
(* around it.                                                               *)
(*                                                                          *)
(* Provenance is OBSERVABLE by construction of the universes: every dynamic *)
(* node of a history carries its own target name and every scalar that may  *)
(* reach a call its own atom, so that what ran / what was passed can be     *)
(* traced back to the surface node it came from without any ghost state.    *)
(* A surface node is TAINTED when its source was added with safe = FALSE or *)
(* it is (below) a node marked !unsafe.                                     *)
(***************************************************************************)
EXTENDS AyMerge, AyUniverse, AyFiles, Props_Eval, SequencesExt

C07_DynKinds == {"call", "bind", "import", "eval", "fstr"}

\* all surface nodes of a document with their taint: set of [k, fn, v, t]
\* (what a !rec node includes at evaluation time is tainted when the NAME node is: the file is read as an unsafe source)
RECURSIVE C07_SNodes(_, _)
C07_SNodes(sd, inh) ==
    LET t == inh \/ sd.safe = "F"
    IN {[k |-> sd.k, fn |-> sd.fn, v |-> sd.v, t |-> t]} \cup UNION {C07_SNodes(sd.ch[i][2], t) : i \in 1..Len(sd.ch)}
       \cup (IF sd.k = "rec"
            THEN UNION {LET c == sd.ch[i][2] IN
                        IF c.k = "scalar" /\ c.v[1] = "s" /\ HasFile(c.v[2]) THEN C07_SNodes(FileDoc(c.v[2]), t \/ c.safe = "F") ELSE {}
                        : i \in 1..Len(sd.ch)}
            ELSE {})
C07_AllSNodes(docs, safes) == UNION {C07_SNodes(docs[j], ~safes[j]) : j \in 1..Len(docs)}

\* the name a dynamic surface node would run / import (function nodes: fn; !import: its text)
C07_NameOf(n) == IF n.k \in {"call", "bind"} THEN n.fn ELSE n.v[2]

C07_TaintedNames(docs, safes) ==
    {C07_NameOf(n) : n \in {m \in C07_AllSNodes(docs, safes) : m.k \in C07_DynKinds /\ m.t}}
    \cup {n.v[2] : n \in {m \in C07_AllSNodes(docs, safes) : m.k = "scalar" /\ m.v[1] = "s" /\ m.t}}   \* a string may become a target name
C07_CleanNames(docs, safes) ==
    {C07_NameOf(n) : n \in {m \in C07_AllSNodes(docs, safes) : m.k \in C07_DynKinds /\ ~m.t}}
    \cup {n.v[2] : n \in {m \in C07_AllSNodes(docs, safes) : m.k = "scalar" /\ m.v[1] = "s" /\ ~m.t}}
C07_TaintedAtoms(docs, safes) == {n.v : n \in {m \in C07_AllSNodes(docs, safes) : m.k = "scalar" /\ m.t}}
C07_CleanAtoms(docs, safes)   == {n.v : n \in {m \in C07_AllSNodes(docs, safes) : m.k = "scalar" /\ ~m.t}}

\* provenance must be decidable: no name / atom is used by tainted and by clean content at once
C07_InDomain(docs, safes) ==
    /\ C07_TaintedNames(docs, safes) \cap C07_CleanNames(docs, safes) = {}
    /\ C07_TaintedAtoms(docs, safes) \cap C07_CleanAtoms(docs, safes) = {}

\* ---- on a merged tree ----------------------------------------------------------
C07_NodeName(n) == IF n.k \in {"call", "bind"} THEN n.fn ELSE IF n.k \in {"import", "eval", "fstr"} THEN n.v[2] ELSE ""
C07_TaintedDyn(t, docs, safes) ==
    {p \in PathsOf(t) : At(t, p).k \in C07_DynKinds /\ C07_NodeName(At(t, p)) \in C07_TaintedNames(docs, safes)}
C07_TaintedScalars(t, docs, safes) ==
    {p \in PathsOf(t) : At(t, p).k = "scalar" /\ At(t, p).v \in C07_TaintedAtoms(docs, safes)}

\* flags never launder taint: whatever originates from unsafe content is not "safe" in the merged tree
C07_TaintSound(t, docs, safes) ==
    \A p \in C07_TaintedDyn(t, docs, safes) \cup C07_TaintedScalars(t, docs, safes) : ~EffSafe(At(t, p))

\* ---- on an evaluation -----------------------------------------------------------
\* calls: sequence of [p, fn, args] with args a sequence of <<key, plain data>>
RECURSIVE C07_AtomsOf(_)
C07_AtomsOf(d) == (IF d.k = "scalar" THEN {d.v} ELSE {}) \cup UNION {C07_AtomsOf(d.ch[i][2]) : i \in 1..Len(d.ch)}

C07_NoUnsafeExec(calls, docs, safes) ==
    \A i \in 1..Len(calls) :
        /\ calls[i].fn \notin C07_TaintedNames(docs, safes)                         \* nothing ran on behalf of unsafe content
        /\ \A a \in 1..Len(calls[i].args) :
               C07_AtomsOf(calls[i].args[a][2]) \cap C07_TaintedAtoms(docs, safes) = {}   \* nothing unsafe was passed

\* a tainted dynamic node that survived merging makes the build fail with UnsafeError
\* every target name in the tree is one the documents wrote as a name (a reference or other text merged onto a
\* function node becomes its "target" and fails to import: that error may come first)
C07_NamesKnown(t, docs, safes) ==
    /\ \A p \in PathsOf(t) : At(t, p).k \in C07_DynKinds =>
           C07_NodeName(At(t, p)) \in C07_TaintedNames(docs, safes) \cup C07_CleanNames(docs, safes)
    /\ \A p \in PathsOf(t) : IsFn(At(t, p)) => At(t, p).ref = <<>>          \* (no NoImport marker)
\* (another error - a dangling reference evaluated earlier - may legitimately come first)
\* (... or a !rec node that names a file which does not exist)
C07_RecFilesExist(t) ==
    \A p \in PathsOf(t) : At(t, p).k = "rec" =>
        \A i \in 1..Len(At(t, p).ch) : LET c == At(t, p).ch[i][2] IN c.k = "scalar" /\ c.v[1] = "s" /\ HasFile(c.v[2])
C07_FailsUnsafe(t, status, docs, safes) ==
    (C07_TaintedDyn(t, docs, safes) # {} /\ status \in {"done", "EvalError", "UnsafeError"}) =>
        /\ status # "done"
        /\ (~BadRefs(t) /\ C07_NamesKnown(t, docs, safes) /\ C07_RecFilesExist(t)) => status = "UnsafeError"

\* a name resolved by evaluated code (an !eval node whose code is one bare name, see AyEval) never yields unsafe content
RECURSIVE C07_AtomsAt(_, _)
C07_AtomsAt(d, p) ==
    IF p = <<>> THEN C07_AtomsOf(d)
    ELSE IF \E i \in 1..Len(d.ch) : d.ch[i][1] = p[1]
         THEN C07_AtomsAt(d.ch[CHOOSE i \in 1..Len(d.ch) : d.ch[i][1] = p[1]][2], Tail(p))
         ELSE {}
C07_NoUnsafeResolved(t, status, data, docs, safes) ==
    status = "done" =>
        \A p \in PathsOf(t) : (At(t, p).k \in {"eval", "fstr"} /\ At(t, p).ref # <<>>) =>
            C07_AtomsAt(data, p) \cap C07_TaintedAtoms(docs, safes) = {}

C07_EvalHolds(t, status, calls, data, docs, safes) ==
    C07_InDomain(docs, safes) =>
        /\ C07_NoUnsafeExec(calls, docs, safes)
        /\ C07_NoUnsafeResolved(t, status, data, docs, safes)
        /\ C07_FailsUnsafe(t, status, docs, safes)
C07_TreesHold(outs, docs, safes) ==
    C07_InDomain(docs, safes) => \A j \in 1..Len(outs) : IsErr(outs[j]) \/ C07_TaintSound(outs[j], docs, safes)

----------------------------------------------------------------------------
\* universes: stage j uses names vmod.r<j>.. and atoms v<j>.. of its own
C07_KF == SKey("f")  C07_KD == SKey("d")  C07_KA == SKey("a")
C07_S(v) == SD("scalar", Atom("s", v), <<>>)
C07_Call(fn, args) == [SD("call", NoVal, args) EXCEPT !.fn = fn, !.form = "tag"]
C07_Bind(fn, args) == [SD("bind", NoVal, args) EXCEPT !.fn = fn, !.form = "tag"]
C07_Import(name) == [SD("import", Atom("s", name), <<>>) EXCEPT !.form = "tag"]
C07_XRef(p) == [SD("xref", NoVal, <<>>) EXCEPT !.form = "tag", !.ref = p]
C07_Req == [SD("required", NoVal, <<>>) EXCEPT !.form = "tag"]
C07_Rec(names) == [SD("rec", NoVal, [i \in 1..Len(names) |-> <<IKey(i - 1), names[i]>>]) EXCEPT !.form = "tag"]     \* !rec [names]
C07_EvalN(key) == [SD("eval", Atom("s", key), <<>>) EXCEPT !.form = "tag", !.ref = <<SKey(key)>>]     \* !eval <key>
C07_FStrN(key) == [SD("fstr", Atom("s", "f'{" \o key \o "}'"), <<>>) EXCEPT !.form = "tag", !.ref = <<SKey(key)>>]     \* !fstr "{key}"
C07_Unsafe(sd) == IF sd.form = "none" THEN WithTag(sd, "unsafe") ELSE [sd EXCEPT !.safe = "F", !.form = "md"]

\* what stage 1 may put at f (and data at d that f's argument may refer to)
C07_F1 == {C07_Call("vmod.r1a", <<<<C07_KA, C07_S("vmod.r1v")>>>>),
           C07_Call("vmod.r1a", <<<<C07_KA, C07_XRef(<<C07_KD>>)>>>>),
           C07_Call("vmod.r1a", <<<<C07_KA, C07_Call("vmod.r1b", <<>>)>>>>),
           C07_Call("vmod.r1a", <<<<C07_KA, C07_Unsafe(C07_S("vmod.r1w"))>>>>),               \* an argument marked !unsafe
           C07_Call("vmod.r1a", <<<<C07_KA, C07_Unsafe(C07_Call("vmod.r1b", <<>>))>>>>),
           \* a nested dynamic argument evaluated BEFORE a reference to data / an argument that may be unsafe
           C07_Call("vmod.r1a", <<<<C07_KA, C07_Call("vmod.r1b", <<>>)>>, <<SKey("b"), C07_XRef(<<C07_KD>>)>>>>),
           C07_Call("vmod.r1a", <<<<C07_KA, C07_Call("vmod.r1b", <<>>)>>, <<SKey("b"), C07_Unsafe(C07_S("vmod.r1w"))>>>>),
           C07_Bind("vmod.r1a", <<<<C07_KA, C07_Call("vmod.r1b", <<>>)>>, <<SKey("b"), C07_XRef(<<C07_KD>>)>>>>),
           C07_Bind("vmod.r1a", <<<<C07_KA, C07_S("vmod.r1v")>>>>),
           C07_Call("vmod.r1a", <<<<C07_KA, SD("list", NoVal, <<<<IKey(0), C07_S("vmod.r1v")>>>>)>>>>),      \* a list argument (may be !extend-ed)
           C07_Import("vmod.r1a"),
           C07_EvalN("d"), C07_Call("vmod.r1a", <<<<C07_KA, C07_EvalN("d")>>>>),       \* data reached through a name in evaluated code
           C07_Req, C07_S("vmod.r1v"), SD("dict", NoVal, <<>>)}
C07_D1 == {C07_S("vmod.r1x"), C07_Unsafe(C07_S("vmod.r1y")), SD("list", NoVal, <<<<IKey(0), C07_S("vmod.r1x")>>>>),
           SD("list", NoVal, <<<<IKey(0), C07_Unsafe(C07_S("vmod.r1y"))>>>>)}          \* a safe container holding an unsafe item
\* the referenced data comes BEFORE its consumer: d has been evaluated (outside any safety requirement) and is cached
\* when the argument of f refers to it - directly, or through a reference g that was evaluated before as well
C07_FRef == {C07_Call("vmod.r1a", <<<<C07_KA, C07_XRef(<<C07_KD>>)>>>>),
             C07_Call("vmod.r1a", <<<<C07_KA, C07_Call("vmod.r1b", <<>>)>>, <<SKey("b"), C07_XRef(<<C07_KD>>)>>>>),
             C07_Bind("vmod.r1a", <<<<C07_KA, C07_Call("vmod.r1b", <<>>)>>, <<SKey("b"), C07_XRef(<<C07_KD>>)>>>>),
             C07_EvalN("d"), C07_Call("vmod.r1a", <<<<C07_KA, C07_EvalN("d")>>>>)}
\* ... and d only PARTLY evaluated when the name d is looked up (g made its first item evaluate; ecfg holds a placeholder for d)
C07_Stage1C == { SD("dict", NoVal, <<<<SKey("g"), C07_XRef(<<C07_KD, IKey(0)>>)>>, <<C07_KF, f>>, <<C07_KD, d>>>>)
                 : f \in {C07_EvalN("d"), C07_Call("vmod.r1a", <<<<C07_KA, C07_EvalN("d")>>>>)},
                   d \in {SD("list", NoVal, <<<<IKey(0), C07_S("vmod.r1x")>>>>), SD("list", NoVal, <<<<IKey(0), C07_Unsafe(C07_S("vmod.r1y"))>>>>)} }
C07_Stage1B == UNION { {SD("dict", NoVal, <<<<C07_KD, d>>, <<C07_KF, f>>>>),
                        SD("dict", NoVal, <<<<C07_KD, d>>, <<C07_KF, C07_Unsafe(f)>>>>),
                        C07_Unsafe(SD("dict", NoVal, <<<<C07_KD, d>>, <<C07_KF, f>>>>)),
                        SD("dict", NoVal, <<<<C07_KD, d>>, <<SKey("g"), C07_XRef(<<C07_KD>>)>>,
                                            <<C07_KF, C07_Call("vmod.r1a", <<<<C07_KA, C07_XRef(<<SKey("g")>>)>>>>)>>>>),
                        SD("dict", NoVal, <<<<C07_KD, d>>, <<SKey("g"), SD("dict", NoVal, <<<<SKey("h"), C07_XRef(<<C07_KD>>)>>>>)>>,
                                            <<C07_KF, C07_Call("vmod.r1a", <<<<C07_KA, C07_XRef(<<SKey("g")>>)>>>>)>>>>)}
                     : f \in C07_FRef, d \in C07_D1 }
\* files included at EVALUATION time: r: !rec [..] (the files are those of harness/registry.py C07 "rec_files": rfcall.yaml holds a
\* call, rfdata.yaml a string, rfuns.yaml a string marked !unsafe), the name / the document safe or unsafe, consumed by f or not
C07_KR == SKey("r")
C07_RecNodes == {C07_Rec(<<C07_S("rfcall.yaml")>>), C07_Rec(<<C07_Unsafe(C07_S("rfcall.yaml"))>>),
                 C07_Rec(<<C07_S("rfdata.yaml")>>), C07_Rec(<<C07_Unsafe(C07_S("rfdata.yaml"))>>),
                 C07_Rec(<<C07_S("rfuns.yaml")>>), C07_Rec(<<C07_S("rfdata.yaml"), C07_S("rfcall.yaml")>>),
                 C07_Rec(<<C07_S("nofile.yaml")>>)}
C07_RecUse == {C07_S("vmod.r1v"), C07_Call("vmod.r1a", <<<<C07_KA, C07_XRef(<<C07_KR>>)>>>>), C07_XRef(<<C07_KR>>),
               C07_Call("vmod.r1a", <<<<C07_KA, C07_XRef(<<C07_KR, SKey("x")>>)>>>>)}
C07_Stage1R == UNION { {SD("dict", NoVal, <<<<C07_KR, r>>, <<C07_KF, f>>>>), SD("dict", NoVal, <<<<C07_KF, f>>, <<C07_KR, r>>>>),
                        C07_Unsafe(SD("dict", NoVal, <<<<C07_KR, r>>, <<C07_KF, f>>>>))}
                      : r \in C07_RecNodes, f \in C07_RecUse }
\* f-strings `{d}` over scalar data (the text of a container is not modelled), d before and after its consumer
C07_Stage1F == UNION { {SD("dict", NoVal, <<<<C07_KD, d>>, <<C07_KF, f>>>>), SD("dict", NoVal, <<<<C07_KF, f>>, <<C07_KD, d>>>>),
                        SD("dict", NoVal, <<<<C07_KD, d>>, <<C07_KF, IF f.k = "fstr" THEN f ELSE C07_Unsafe(f)>>>>),     \* (!fstr takes no metadata)
                        C07_Unsafe(SD("dict", NoVal, <<<<C07_KD, d>>, <<C07_KF, f>>>>))}
                      : f \in {C07_FStrN("d"), C07_Call("vmod.r1a", <<<<C07_KA, C07_FStrN("d")>>>>)},
                        d \in {C07_S("vmod.r1x"), C07_Unsafe(C07_S("vmod.r1y"))} }
C07_Stage1 == C07_Stage1B \cup C07_Stage1C \cup C07_Stage1R \cup C07_Stage1F \cup UNION { {SD("dict", NoVal, <<<<C07_KF, f>>, <<C07_KD, d>>>>),
                       SD("dict", NoVal, <<<<C07_KF, IF f.k = "import" THEN f ELSE C07_Unsafe(f)>>, <<C07_KD, d>>>>),
                       C07_Unsafe(SD("dict", NoVal, <<<<C07_KF, f>>, <<C07_KD, d>>>>))}
                    : f \in C07_F1, d \in C07_D1 }
\* what a later stage j may do to f / d
C07_FLater(j) ==
    LET r == "vmod.r" \o j  v == "vmod.r" \o j \o "v"     \* (every string is an importable name: it may become a target)
    IN {C07_Call(r \o "a", <<<<C07_KA, C07_S(v)>>>>), C07_Call(r \o "a", <<>>),          \* another function node
        SD("dict", NoVal, <<<<C07_KA, C07_S(v)>>>>), SD("dict", NoVal, <<>>),             \* argument override by a mapping
        SD("dict", NoVal, <<<<IKey(0), C07_S(v)>>>>),
        SD("list", NoVal, <<<<IKey(0), C07_S(v)>>>>),                                       \* ... by a list
        C07_S(r \o "s"),                                                                    \* target-name override by a string
        C07_Import(r \o "i"), C07_EvalN("d"),
        \* items moved into an existing (safe) list argument by an !extend that is itself marked unsafe
        SD("dict", NoVal, <<<<C07_KA, [SD("extend", NoVal, <<<<IKey(0), C07_Call(r \o "e", <<>>)>>>>) EXCEPT !.form = "md", !.safe = "F"]>>>>),
        SD("dict", NoVal, <<<<C07_KA, [SD("extend", NoVal, <<<<IKey(0), C07_S(v)>>>>) EXCEPT !.form = "tag"]>>>>),
        C07_Req, WithTag(SD("scalar", Atom("n", ""), <<>>), "del")}
C07_Later(j) ==
    UNION { {SD("dict", NoVal, <<<<C07_KF, f>>>>), SD("dict", NoVal, <<<<C07_KF, C07_Unsafe(f)>>>>),
             SD("dict", NoVal, <<<<C07_KF, WithTag(f, "weak")>>>>), SD("dict", NoVal, <<<<C07_KF, WithTag(f, "force")>>>>)}
          : f \in {x \in C07_FLater(j) : (x.form = "none" \/ x.k # "scalar") /\ x.k # "import"} }    \* (!import takes no metadata)
    \cup { SD("dict", NoVal, <<<<C07_KF, f>>>>) : f \in C07_FLater(j) }
    \cup { SD("dict", NoVal, <<<<C07_KD, C07_S("vmod.r" \o j \o "x")>>>>), SD("dict", NoVal, <<<<C07_KD, C07_Unsafe(C07_S("vmod.r" \o j \o "y"))>>>>) }
C07_Later2 == {d \in C07_Later("2") : \A i \in 1..Len(d.ch) : d.ch[i][2].form \in {"none", "tag", "md"}}

C07_Docs  == SetToSeq(C07_Stage1) \o SetToSeq(C07_Later("2")) \o SetToSeq(C07_Later("3"))
C07_Range == << <<1, Cardinality(C07_Stage1)>>,
                <<Cardinality(C07_Stage1) + 1, Cardinality(C07_Stage1) + Cardinality(C07_Later("2"))>>,
                <<Cardinality(C07_Stage1) + Cardinality(C07_Later("2")) + 1,
                  Cardinality(C07_Stage1) + Cardinality(C07_Later("2")) + Cardinality(C07_Later("3"))>> >>

\* 3-stage histories on a narrower first stage
C07_Stage1S == {SD("dict", NoVal, <<<<C07_KF, f>>, <<C07_KD, C07_S("vmod.r1x")>>>>) :
                   f \in {C07_Call("vmod.r1a", <<<<C07_KA, C07_XRef(<<C07_KD>>)>>>>), C07_Req, C07_Bind("vmod.r1a", <<<<C07_KA, C07_S("vmod.r1v")>>>>)}}
C07_Docs3  == SetToSeq(C07_Stage1S) \o SetToSeq(C07_Later("2")) \o SetToSeq(C07_Later("3"))
C07_Range3 == << <<1, Cardinality(C07_Stage1S)>>,
                 <<Cardinality(C07_Stage1S) + 1, Cardinality(C07_Stage1S) + Cardinality(C07_Later("2"))>>,
                 <<Cardinality(C07_Stage1S) + Cardinality(C07_Later("2")) + 1,
                   Cardinality(C07_Stage1S) + Cardinality(C07_Later("2")) + Cardinality(C07_Later("3"))>> >>

=============================================================================
