---------------------------- MODULE Props_EvalUni ---------------------------
(* Universes for the evaluation properties: configs with cross-references and *)
(* side-effecting calls.                                                      *)
EXTENDS AyParse, AyUniverse, SequencesExt

EU_KA == SKey("a")  EU_KB == SKey("b")  EU_KC == SKey("c")
EU_L(v) == SD("scalar", Atom("i", v), <<>>)
EU_XRef(p) == [SD("xref", NoVal, <<>>) EXCEPT !.form = "tag", !.ref = p]
EU_Call(args) == [SD("call", NoVal, args) EXCEPT !.fn = "vmod.rec", !.form = "tag"]
EU_Bind(args) == [SD("bind", NoVal, args) EXCEPT !.fn = "vmod.rec", !.form = "tag"]

\* every path expression of the universe (existing or not, depending on the config)
EU_Targets == {<<EU_KA>>, <<EU_KB>>, <<EU_KC>>, <<EU_KA, EU_KA>>, <<EU_KA, EU_KB>>, <<EU_KA, IKey(0)>>,
               <<EU_KB, EU_KA>>, <<EU_KB, IKey(0)>>, <<SKey("zz")>>}
EU_XRefs == {EU_XRef(p) : p \in EU_Targets}

\* C09: top-level a b c; a and b may be containers holding a value or a reference
EU_Leaf9 == {EU_L("1"), SD("list", NoVal, <<>>)} \cup EU_XRefs
EU_Val9 == EU_Leaf9
           \cup {SD("dict", NoVal, <<<<EU_KA, x>>>>) : x \in EU_Leaf9}
           \cup {SD("dict", NoVal, <<<<EU_KA, EU_L("1")>>, <<EU_KB, x>>>>) : x \in EU_XRefs}
           \cup {SD("list", NoVal, <<<<IKey(0), x>>>>) : x \in EU_Leaf9}
           \cup {EU_Call(<<<<EU_KA, x>>>>) : x \in EU_Leaf9}
\* a container holding containers (its grandchildren are evaluated under the target's own path)
EU_Deep == {SD("dict", NoVal, <<<<EU_KA, SD("dict", NoVal, <<<<EU_KA, EU_L("1")>>>>)>>, <<EU_KB, SD("list", NoVal, <<<<IKey(0), EU_L("1")>>>>)>>>>),
            SD("list", NoVal, <<<<IKey(0), SD("list", NoVal, <<<<IKey(0), EU_L("1")>>>>)>>>>)}
EU_C09_Docs == SetToSeq({SD("dict", NoVal, <<<<EU_KA, x>>, <<EU_KB, y>>, <<EU_KC, z>>>>)
                         : x \in EU_Val9, y \in EU_Val9, z \in EU_Leaf9 \cup EU_Deep})
\* forward chains of one to three hops onto such a container (quick tier)
EU_C09_DocsC == SetToSeq({SD("dict", NoVal, <<<<EU_KA, x>>, <<EU_KB, y>>, <<EU_KC, z>>>>)
                          : x \in EU_XRefs \cup {SD("list", NoVal, <<<<IKey(0), EU_XRef(<<EU_KB>>)>>>>)}, y \in EU_XRefs, z \in EU_Deep})
\* a smaller set (two top-level keys) for quick runs and liveness
EU_C09_DocsS == SetToSeq({SD("dict", NoVal, <<<<EU_KA, x>>, <<EU_KB, y>>>>) : x \in EU_Val9, y \in EU_Val9})

\* C10: one to three side-effecting calls consumed by references, call arguments, list / mapping elements
EU_CallF(fn) == [SD("call", NoVal, <<>>) EXCEPT !.fn = fn, !.form = "tag"]
EU_Use == {EU_L("1"), EU_Call(<<>>), EU_CallF("vmod.recnone"), EU_CallF("vmod.reclist"), EU_XRef(<<EU_KA>>), EU_XRef(<<EU_KB>>), EU_XRef(<<EU_KC>>), EU_XRef(<<EU_KA, EU_KA>>)}
EU_Val10 == EU_Use
            \cup {EU_Call(<<<<EU_KA, x>>>>) : x \in EU_Use}
            \cup {SD("dict", NoVal, <<<<EU_KA, x>>>>) : x \in EU_Use}
            \cup {SD("dict", NoVal, <<<<IKey(0), EU_L("1")>>, <<IKey(1), EU_XRef(<<EU_KA>>)>>>>)}      \* int keys
            \cup {SD("list", NoVal, <<<<IKey(0), x>>, <<IKey(1), y>>>>) : x \in {EU_Call(<<>>), EU_XRef(<<EU_KA>>)}, y \in {EU_L("1"), EU_XRef(<<EU_KB>>)}}
            \cup {EU_Bind(<<<<EU_KA, x>>>>) : x \in {EU_Call(<<>>), EU_XRef(<<EU_KA>>)}}
\* (a mapping with a FLOAT key cannot take part in a deleting merge: the prune's path lookup rejects it with a
\*  MergeError - finding F13, outside every property's stated domain; float keys appear in single-stage configs only)
EU_Val10F == EU_Val10 \cup {SD("dict", NoVal, <<<<IKey(0), EU_L("1")>>, <<FKey("2.5"), EU_XRef(<<EU_KA>>)>>>>)}
EU_C10_Docs == SetToSeq({SD("dict", NoVal, <<<<EU_KA, x>>, <<EU_KB, y>>, <<EU_KC, z>>>>)
                         : x \in EU_Val10, y \in EU_Val10, z \in EU_Use})
EU_C10_DocsS == SetToSeq({SD("dict", NoVal, <<<<EU_KA, x>>, <<EU_KB, y>>>>) : x \in EU_Val10F, y \in EU_Val10F})
EU_C10_DocsH == SetToSeq({SD("dict", NoVal, <<<<EU_KA, x>>, <<EU_KB, y>>>>) : x \in EU_Val10, y \in EU_Val10})
\* consumers that are EVALUATED EXPRESSIONS: `!eval <name>` (ref = the top-level key of that name, see AyEval), in every
\* order of the three keys: the name may be evaluated already, not at all, or only partly (something below it was
\* referenced before: ecfg holds an unfinished placeholder), or be the node's own ancestor
EU_EvalN(key) == [SD("eval", Atom("s", key), <<>>) EXCEPT !.form = "tag", !.ref = <<SKey(key)>>]
EU_EX == {EU_XRef(<<EU_KC, EU_KA>>), EU_XRef(<<EU_KB>>), EU_L("1")}
EU_EY == {EU_EvalN("c"), EU_EvalN("a"), EU_Call(<<<<EU_KA, EU_EvalN("c")>>>>), SD("dict", NoVal, <<<<EU_KA, EU_EvalN("c")>>>>), EU_XRef(<<EU_KC>>)}
EU_EZ == {SD("dict", NoVal, <<<<EU_KA, EU_Call(<<>>)>>>>), SD("dict", NoVal, <<<<EU_KA, EU_L("1")>>, <<EU_KB, EU_Call(<<>>)>>>>),
          EU_Call(<<>>), EU_L("1"), EU_EvalN("a"), EU_EvalN("b"),
          SD("dict", NoVal, <<<<EU_KA, EU_L("1")>>, <<EU_KB, EU_EvalN("c")>>>>)}
EU_Perm3 == {<<1, 2, 3>>, <<1, 3, 2>>, <<2, 1, 3>>, <<2, 3, 1>>, <<3, 1, 2>>, <<3, 2, 1>>}
EU_C10_DocsE == SetToSeq({ LET e == <<<<EU_KA, x>>, <<EU_KB, y>>, <<EU_KC, z>>>>
                           IN SD("dict", NoVal, <<e[pi[1]], e[pi[2]], e[pi[3]]>>)
                           : x \in EU_EX, y \in EU_EY, z \in EU_EZ, pi \in EU_Perm3 })

\* f-strings `{name}` as consumers of scalars (also of what a call returned: None), in every key order
EU_FStrN(key) == [SD("fstr", Atom("s", "f'{" \o key \o "}'"), <<>>) EXCEPT !.form = "tag", !.ref = <<SKey(key)>>]
\* (the text of an object / container is not modelled: no f-string over b when b is a call)
EU_FTriples == {t \in {EU_L("1"), EU_CallF("vmod.recnone"), SD("scalar", Atom("s", "x"), <<>>), SD("scalar", Atom("b", "T"), <<>>)}
                       \X {EU_FStrN("a"), EU_Call(<<<<EU_KA, EU_FStrN("a")>>>>), EU_FStrN("zz")}
                       \X {EU_FStrN("a"), EU_XRef(<<EU_KB>>), EU_FStrN("b")}
                : ~(t[2].k = "call" /\ t[3] = EU_FStrN("b"))}
EU_C10_DocsF == SetToSeq({ LET e == <<<<EU_KA, t[1]>>, <<EU_KB, t[2]>>, <<EU_KC, t[3]>>>>
                           IN SD("dict", NoVal, <<e[pi[1]], e[pi[2]], e[pi[3]]>>)
                           : t \in EU_FTriples, pi \in EU_Perm3 })

\* two !rec nodes, each reading a file with calls at evaluation time (files: harness/registry.py C10 "rec_files"), consumers before /
\* after them, every key order: every call of every file runs exactly once, consumers get the very objects
EU_Rec(name) == [SD("rec", NoVal, <<<<IKey(0), SD("scalar", Atom("s", name), <<>>)>>>>) EXCEPT !.form = "tag"]
EU_C10_DocsR == SetToSeq({ LET e == <<<<EU_KA, EU_Rec("rc1.yaml")>>, <<EU_KB, y>>, <<EU_KC, z>>>>
                           IN SD("dict", NoVal, <<e[pi[1]], e[pi[2]], e[pi[3]]>>)
                           : y \in {EU_Rec("rc2.yaml"), EU_Rec("rc1.yaml")},
                             z \in {EU_L("1"), EU_XRef(<<EU_KA>>), EU_Call(<<<<EU_KA, EU_XRef(<<EU_KB>>)>>>>), EU_Call(<<>>)}, pi \in EU_Perm3 })

\* a call whose target builds an independent config of its own while this one is being evaluated (vmod.recbuild), between a
\* producer and its later consumers, in every key order
EU_NX == {EU_XRef(<<EU_KA>>), EU_Call(<<<<EU_KA, EU_XRef(<<EU_KA>>)>>>>),
          SD("list", NoVal, <<<<IKey(0), EU_XRef(<<EU_KA>>)>>, <<IKey(1), EU_XRef(<<EU_KB>>)>>>>), EU_EvalN("a")}
EU_C10_DocsN == SetToSeq({ LET e == <<<<EU_KA, x>>, <<EU_KB, EU_CallF("vmod.recbuild")>>, <<EU_KC, z>>>>
                           IN SD("dict", NoVal, <<e[pi[1]], e[pi[2]], e[pi[3]]>>)
                           : x \in {EU_Call(<<>>), EU_CallF("vmod.reclist")}, z \in EU_NX, pi \in EU_Perm3 })

\* later stages overwriting / deleting any subset of the dynamic nodes
EU_DelKey == WithTag(SD("scalar", Atom("n", ""), <<>>), "del")
EU_Over == {EU_L("2"), EU_DelKey, EU_Call(<<>>), SD("dict", NoVal, <<<<EU_KA, EU_L("2")>>>>), SD("list", NoVal, <<>>)}
EU_C10_Later == {SD("dict", NoVal, <<<<EU_KA, x>>>>) : x \in EU_Over} \cup {SD("dict", NoVal, <<<<EU_KB, x>>>>) : x \in EU_Over}
                \cup {SD("dict", NoVal, <<<<EU_KA, x>>, <<EU_KB, y>>>>) : x \in EU_Over, y \in EU_Over}
EU_C10_Hist  == EU_C10_DocsH \o SetToSeq(EU_C10_Later)
EU_C10_HistRange == << <<1, Len(EU_C10_DocsH)>>, <<Len(EU_C10_DocsH) + 1, Len(EU_C10_DocsH) + Cardinality(EU_C10_Later)>> >>

=============================================================================
