------------------------------- MODULE AyStream ------------------------------
(***************************************************************************)
(* Streams of documents: sources, multi-document files, !include at the top *)
(* level and below a key, nested includes, file lookup, !path.              *)
(* Shaped after builder.py (add_source: one stage per document; preprocess: *)
(* a stage that IS an include is spliced into the stage list, an include    *)
(* below a key becomes a StreamNode; SubBuilder), include.py (lookup order: *)
(* directory of the including file, then the working directory; every file  *)
(* found nowhere is reported), stream.py (a StreamNode is built around the  *)
(* sub-builder's stages and is replaced, at premerge, by their fold),       *)
(* path.py (reference points).                                              *)
(***************************************************************************)
EXTENDS AyMerge, Uni, SequencesExt

\* ---- how a sequence of documents ds = <<d1..dn>> can be delivered ------------------
Presentations == {"sources",        \* n sources, one document each
                  "multidoc",       \* one source holding n documents
                  "include_list",   \* one source:  --- !include [f1..fn]
                  "includes",       \* one source:  --- !include f1  ---  !include f2 ...
                  "multidoc_inc",   \* one source:  --- !include [all]   where all holds n documents
                  "nested",         \* one source:  --- !include [mid],  mid:  --- !include [f1..fn]
                  "mixed",          \* one source:  d1  ---  !include [f2..fn]
                  "inc_then_doc"}   \* one source:  --- !include [f1..fn-1]  ---  dn

\* stream.py:23-25 + composed.py:22-31: the StreamNode constructor ADOPTS the stages it is built around.
\* Intended: a stream only groups stages and pushes nothing onto them.  F6: being a list with delete=False it
\* handed implicit_delete=False (and its other child kwargs) to every stage, and from there to every node below.
StreamKw == [idel |-> "F", ianew |-> "N", isafe |-> "N"]
ThroughStream(stage) == IF StreamLeaksMerge THEN Adopt(stage, StreamKw, FALSE, PrNone) ELSE stage
\* nested includes wrap once more
Times(stage, n) == IF n = 0 THEN stage ELSE IF n = 1 THEN ThroughStream(stage) ELSE ThroughStream(ThroughStream(stage))

\* the builder's stage list after preprocessing, for a presentation of parsed documents
Stages(pres, ds) ==
    CASE pres \in {"sources", "multidoc"} -> ds
      [] pres \in {"include_list", "includes", "multidoc_inc"} -> [i \in 1..Len(ds) |-> Times(ds[i], 1)]
      [] pres = "nested" -> [i \in 1..Len(ds) |-> Times(ds[i], 2)]
      [] pres = "mixed"  -> [i \in 1..Len(ds) |-> IF i = 1 THEN ds[i] ELSE Times(ds[i], 1)]
      [] pres = "inc_then_doc" -> [i \in 1..Len(ds) |-> IF i = Len(ds) THEN ds[i] ELSE Times(ds[i], 1)]

Build(pres, ds) == FoldDocs(Stages(pres, ds))

\* `key: !include [f1..fn]`: the include below a key becomes a StreamNode at preprocess and, at premerge
\* (stream.py:31-35), the fold of its stages (flattened by the sub-builder, which also applies the
\* first-document !notnew check), attached under the key like any other child
BuildUnderKey(key, ds) ==
    LET sub == FoldDocs([i \in 1..Len(ds) |-> Times(ds[i], 1)])
    IN IF IsErr(sub) THEN sub
       ELSE FoldDocs(<<AdoptChildren([MkNode("dict", NoVal, <<<<key, sub>>>>) EXCEPT !.dsafe = "T"], FALSE)>>)
\* the same below a mapping marked !unsafe: the include node inherits the marker, hands safe=False to the
\* sub-builder (include.py:110), so every included node records an unsafe source; the merged content is then
\* attached under the key of the unsafe mapping (and inherits its marker like any child)
UnsafeRoot(key, sub) == AdoptChildren([MkNode("dict", NoVal, <<<<key, sub>>>>) EXCEPT !.dsafe = "T", !.safe = "F"], FALSE)
BuildUnderUnsafeKey(key, dsUnsafe) ==      \* dsUnsafe: the documents parsed as an unsafe source
    LET sub == FoldDocs([i \in 1..Len(dsUnsafe) |-> Times(dsUnsafe[i], 1)])
    IN IF IsErr(sub) THEN sub ELSE FoldDocs(<<UnsafeRoot(key, sub)>>)
RECURSIVE AllUnsafe(_)
AllUnsafe(n) == ~EffSafe(n) /\ \A i \in 1..Len(n.ch) : AllUnsafe(n.ch[i][2])

WrapUnderKey(key, t) == AdoptChildren([MkNode("dict", NoVal, <<<<key, t>>>>) EXCEPT !.dsafe = "T"], FALSE)

\* ---- file lookup (include.py:100-123, builder.py:310-322) ---------------------------
\* where: the set of places in which a file of that name exists; the including file's directory is tried first
LookupOrder == <<"filedir", "cwd">>
Resolve(where) ==
    IF Mut("CwdFirst")
    THEN (IF "cwd" \in where THEN "cwd" ELSE IF "filedir" \in where THEN "filedir" ELSE "missing")
    ELSE (IF "filedir" \in where THEN "filedir" ELSE IF "cwd" \in where THEN "cwd" ELSE "missing")

\* names: the included names in order; whereOf[name]: where each exists.  Outcome: which copy of each is read,
\* or the PreprocessError naming every missing one
IncludeOutcome(names, whereOf) ==
    LET missing == SelectSeq(names, LAMBDA n : Resolve(whereOf[n]) = "missing")
    IN IF missing # <<>> /\ ~Mut("SwallowMissing") THEN [err |-> "PreprocessError", missing |-> missing]
       ELSE [read |-> [i \in 1..Len(names) |-> <<names[i], Resolve(whereOf[names[i]])>>]]

\* ---- !path (path.py:109-137) ---------------------------------------------------------
\* the directory a reference point denotes, for a node written in a file living in directory fileDir
\* (directories are sequences of components; the file itself is fileDir \o <<fileName>>)
PathBase(ref, n, fileDir, fileName, cwd, absDir) ==
    CASE ref = "file"   -> fileDir \o <<fileName>>
      [] ref = "parent" -> IF n < Len(fileDir) + 1 THEN SubSeq(fileDir, 1, Len(fileDir) - n)
                           ELSE <<>>       \* (beyond the root: the harness does not drive this case)
      [] ref = "cwd"    -> cwd
      [] ref = "abs"    -> absDir
      [] OTHER          -> cwd             \* no reference point: relative to the working directory at use
PathDenotes(ref, n, parts, fileDir, fileName, cwd, absDir) == PathBase(ref, n, fileDir, fileName, cwd, absDir) \o parts

=============================================================================
