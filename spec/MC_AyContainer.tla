--------------------------- MODULE MC_AyContainer ---------------------------
(***************************************************************************)
(* Model-checking root for property C17: every sequence of at most MaxLen   *)
(* public container operations, from each start tree, over the alphabet the *)
(* cfg selects.  One action per public mutator.  The history of operations  *)
(* is part of the state, so every behaviour is one state and is printed     *)
(* (Emit) as one JSON line: the harness replays it into the real library.   *)
(***************************************************************************)
EXTENDS AyContainer, Json

CONSTANTS Idx,        \* indices handed to list operations
          Keys,       \* names handed to dict operations
          NewKeys,    \* names rename_child may rename to (dict)
          RenPairs,   \* <<old, new>> positions handed to rename_child on a list
          ValKinds,   \* kinds of values that are stored: "S" scalar, "L" [scalar], "D" {a: scalar}
          OpsOn,      \* the operations in the alphabet
          StartIds,   \* which start trees
          Tgt,        \* "root": operate on the root, "kids": on its container children, "both"
          MaxLen,     \* length of the operation sequences
          UpdShapes,  \* argument shapes of update(): sequences of <<name, kind>>
          Sim         \* TRUE: every action draws its arguments at random (for -simulate: TLC generates all successors
                      \* of a state before it picks one, which costs one Apply per operation of the alphabet)

VARIABLES heap, root, hist, nxt, err, fired, st
vars == <<heap, root, hist, nxt, err, fired, st>>

IdxFull   == (0 - 4)..4
IdxSmall  == (0 - 2)..2
IdxEdge   == {0 - 4, 0 - 1, 0, 1, 4}
RenFull   == {<<i, j>> : i \in 0..4, j \in 0..4}
RenEdge   == {<<0, 1>>, <<0, 4>>, <<2, 3>>, <<4, 0>>}
IdxEdge4  == {0 - 3, 0 - 1, 0, 2}
RenEdge2  == {<<0, 1>>, <<1, 2>>}
UpdFull   == << <<>>, << <<"a", "S">> >>, << <<"b", "L">>, <<"a", "S">> >>, << <<"_x", "S">>, <<"c", "D">> >> >>
UpdOne    == << << <<"c", "S">>, <<"a", "D">> >> >>
UpdShadow == << << <<"c", "S">>, <<"clear", "S">>, <<"b", "S">> >> >>
\* "l.pop()" / "l.extend[]" / "d.pop(d)" switch the argument variants pop() without index, extend([]) and
\* pop(k, default) on; they are not operation names of their own
ListOps   == {"l.setitem", "l.delitem", "l.append", "l.insert", "l.extend", "l.remove", "l.pop", "l.clear",
              "l.set_child", "l.remove_child", "l.rename_child", "l.pop()", "l.extend[]", "l.remove_node", "l.filter"}
DictOps   == {"d.setitem", "d.setattr", "d.delitem", "d.delattr", "d.update", "d.setdefault", "d.pop", "d.popitem",
              "d.clear", "d.set_child", "d.remove_child", "d.rename_child", "d.pop(d)", "d.remove_node", "d.filter"}
AllOps    == ListOps \cup DictOps
\* narrower alphabets for the longest sequences: remove_child(i) is _del(i), the same code path as del xs[i];
\* pop() is pop(-1); d.set_child / d.remove_child / del d.k are _set / _del, the code path of d[k] = v / del d[k]
ListOpsCore == ListOps \ {"l.remove_child", "l.pop()", "l.extend[]"}
DictOpsCore == DictOps \ {"d.remove_child", "d.set_child", "d.delattr"}
ListOpsL4 == ListOpsCore \ {"l.set_child", "l.rename_child"}
DictOpsL4 == DictOpsCore \ {"d.setattr", "d.popitem"}
IdxNest   == {0 - 1, 0, 1}
RenTwo    == {<<0, 1>>, <<0, 4>>}
RenNine   == {<<i, j>> : i \in {0, 2, 4}, j \in {0, 2, 4}}

S(n) == n :> ScalarRec(n)
Starts == <<
  \* 1: [1, [2], {a: 3}]
  [root |-> 3000, h |-> S(1) @@ S(2) @@ S(3) @@ (3001 :> MkList(<<2>>)) @@ (3002 :> MkDict(<< <<"a", 3>> >>))
                        @@ (3000 :> MkList(<<1, 3001, 3002>>))],
  \* 2: []
  [root |-> 3000, h |-> (3000 :> MkList(<<>>))],
  \* 3: {a: 1, b: [2], _x: {a: 3}}
  [root |-> 3000, h |-> S(1) @@ S(2) @@ S(3) @@ (3001 :> MkList(<<2>>)) @@ (3002 :> MkDict(<< <<"a", 3>> >>))
                        @@ (3000 :> MkDict(<< <<"a", 1>>, <<"b", 3001>>, <<"_x", 3002>> >>))],
  \* 4: {}
  [root |-> 3000, h |-> (3000 :> MkDict(<<>>))],
  \* 5: [[1, 2], {a: 3, b: 4}]
  [root |-> 3000, h |-> S(1) @@ S(2) @@ S(3) @@ S(4) @@ (3001 :> MkList(<<1, 2>>))
                        @@ (3002 :> MkDict(<< <<"a", 3>>, <<"b", 4>> >>)) @@ (3000 :> MkList(<<3001, 3002>>))],
  \* 6: {a: [1, 2], b: {a: 3, b: 4}}
  [root |-> 3000, h |-> S(1) @@ S(2) @@ S(3) @@ S(4) @@ (3001 :> MkList(<<1, 2>>))
                        @@ (3002 :> MkDict(<< <<"a", 3>>, <<"b", 4>> >>))
                        @@ (3000 :> MkDict(<< <<"a", 3001>>, <<"b", 3002>> >>))],
  \* 7: [1, 2]
  [root |-> 3000, h |-> S(1) @@ S(2) @@ (3000 :> MkList(<<1, 2>>))],
  \* 8: {a: 1, b: 2}
  [root |-> 3000, h |-> S(1) @@ S(2) @@ (3000 :> MkDict(<< <<"a", 1>>, <<"b", 2>> >>))]
>>

R(X) == IF Sim /\ X # {} THEN {RandomElement(X)} ELSE X
V(t, n, k) == [t |-> t, n |-> n, k |-> k]
Op(name, t, i, i2, key, key2, flag, vals) ==
    [op |-> name, t |-> t, tk |-> [j \in DOMAIN t |-> heap[root].k], i |-> i, i2 |-> i2, key |-> key, key2 |-> key2,
     flag |-> flag, vals |-> vals]
LOp(name, t, i, i2, flag, vals) == Op(name, t, i, i2, "", "", flag, vals)
DOp(name, t, key, key2, flag, vals) == Op(name, t, 0, 0, key, key2, flag, vals)

\* target paths: the root, or a child container of the root (found through get_node)
TargetPaths ==
    IF st = 0 THEN {} ELSE
    (IF Tgt \in {"root", "both"} THEN {<<>>} ELSE {}) \cup
    (IF Tgt \in {"kids", "both"}
     THEN {<<heap[root].cm[j][1]>> : j \in {x \in DOMAIN heap[root].cm :
                LET c == Lookup(heap, root, <<heap[root].cm[x][1]>>, <<heap[root].k>>) IN c # 0 /\ IsCont(heap, c)}}
     ELSE {})
TKind(tp) == heap[Lookup(heap, root, tp, [j \in DOMAIN tp |-> heap[root].k])].k
LT == {tp \in TargetPaths : TKind(tp) = "l"}
DT == {tp \in TargetPaths : TKind(tp) = "d"}

Init == heap = <<>> /\ root = 0 /\ hist = <<>> /\ nxt = 10 /\ err = "" /\ fired = {} /\ st = 0

Start == /\ st = 0
         /\ \E i \in StartIds : st' = i /\ heap' = Starts[i].h /\ root' = Starts[i].root
         /\ UNCHANGED <<hist, nxt, err, fired>>

Do(op) ==
    /\ st # 0 /\ Len(hist) < MaxLen /\ op.op \in OpsOn
    /\ Applicable(heap, root, op)
    /\ \E r \in {Apply(heap, root, op)} :      \* (bound through a singleton set: evaluated once)
           heap' = r.h /\ err' = r.err /\ fired' = fired \cup r.fired
    /\ hist' = Append(hist, op)
    /\ nxt' = nxt + Len(op.vals)
    /\ UNCHANGED <<root, st>>

\* values that compare equal to some element of the list (for remove), plus one that is absent
RemovableSpecs(tp) ==
    LET t == Lookup(heap, root, tp, [j \in DOMAIN tp |-> heap[root].k])
    IN {vs \in {V(k, n, "") : k \in {"S", "L", "D"}, n \in 1..(nxt - 1)} :
            \E p \in DOMAIN heap[t].py : Matches(heap, heap[t].py[p], vs)} \cup {V("S", 0, "")}

\* ------------------------- one action per public mutator -------------------------
LSetItem     == \E tp \in R(LT), i \in R(Idx), k \in R(ValKinds) : Do(LOp("l.setitem", tp, i, 0, FALSE, <<V(k, nxt, "")>>))
LDelItem     == \E tp \in R(LT), i \in R(Idx) : Do(LOp("l.delitem", tp, i, 0, FALSE, <<>>))
LAppendA     == \E tp \in R(LT), k \in R(ValKinds) : Do(LOp("l.append", tp, 0, 0, FALSE, <<V(k, nxt, "")>>))
LInsertA     == \E tp \in R(LT), i \in R(Idx), k \in R(ValKinds) : Do(LOp("l.insert", tp, i, 0, FALSE, <<V(k, nxt, "")>>))
LExtendA     == \E tp \in R(LT) : \/ "l.extend[]" \in OpsOn /\ Do(LOp("l.extend", tp, 0, 0, FALSE, <<>>))
                               \/ Do(LOp("l.extend", tp, 0, 0, FALSE, <<V("S", nxt, ""), V("L", nxt + 1, "")>>))
LRemoveA     == \E tp \in R(LT) : \E vs \in R(RemovableSpecs(tp)) : Do(LOp("l.remove", tp, 0, 0, FALSE, <<vs>>))
LPopA        == \E tp \in R(LT) : \/ "l.pop()" \in OpsOn /\ Do(LOp("l.pop", tp, 0, 0, FALSE, <<>>))
                               \/ \E i \in R(Idx) : Do(LOp("l.pop", tp, i, 0, TRUE, <<>>))
LClearA      == \E tp \in R(LT) : Do(LOp("l.clear", tp, 0, 0, FALSE, <<>>))
LSetChild    == \E tp \in R(LT), i \in R(Idx), k \in R(ValKinds) : Do(LOp("l.set_child", tp, i, 0, FALSE, <<V(k, nxt, "")>>))
LRemoveChild == \E tp \in R(LT), i \in R(Idx) : Do(LOp("l.remove_child", tp, i, 0, FALSE, <<>>))
LRenameChild == \E tp \in R(LT), r \in R(RenPairs) : Do(LOp("l.rename_child", tp, r[1], r[2], FALSE, <<>>))

DSetItemA    == \E tp \in R(DT), key \in R(Keys), k \in R(ValKinds) : Do(DOp("d.setitem", tp, key, "", FALSE, <<V(k, nxt, "")>>))
DSetAttrA    == \E tp \in R(DT), key \in R(Keys), k \in R(ValKinds) : Do(DOp("d.setattr", tp, key, "", FALSE, <<V(k, nxt, "")>>))
DDelItemA    == \E tp \in R(DT), key \in R(Keys) : Do(DOp("d.delitem", tp, key, "", FALSE, <<>>))
DDelAttrA    == \E tp \in R(DT), key \in R(Keys) : Do(DOp("d.delattr", tp, key, "", FALSE, <<>>))
DUpdateA     == \E tp \in R(DT), u \in R(DOMAIN UpdShapes) :
                    Do(DOp("d.update", tp, "", "", FALSE,
                           [j \in DOMAIN UpdShapes[u] |-> V(UpdShapes[u][j][2], nxt + j - 1, UpdShapes[u][j][1])]))
DSetDefaultA == \E tp \in R(DT), key \in R(Keys), k \in R(ValKinds) : Do(DOp("d.setdefault", tp, key, "", FALSE, <<V(k, nxt, "")>>))
DPopA        == \E tp \in R(DT), key \in R(Keys), d \in R(BOOLEAN) : (d => "d.pop(d)" \in OpsOn) /\ Do(DOp("d.pop", tp, key, "", d, <<>>))
DPopitemA    == \E tp \in R(DT) : Do(DOp("d.popitem", tp, "", "", FALSE, <<>>))
DClearA      == \E tp \in R(DT) : Do(DOp("d.clear", tp, "", "", FALSE, <<>>))
DSetChild    == \E tp \in R(DT), key \in R(Keys), k \in R(ValKinds) : Do(DOp("d.set_child", tp, key, "", FALSE, <<V(k, nxt, "")>>))
DRemoveChild == \E tp \in R(DT), key \in R(Keys) : Do(DOp("d.remove_child", tp, key, "", FALSE, <<>>))
\* tree-level removal: root.ayns.remove_node(path of the container + one name), container.ayns.filter_nodes(condition)
FiltCodes    == 0..3
LRemoveNode  == \E tp \in R(LT), i \in R(Idx) : Do(LOp("l.remove_node", tp, i, 0, FALSE, <<>>))
DRemoveNode  == \E tp \in R(DT), key \in R(Keys) : Do(DOp("d.remove_node", tp, key, "", FALSE, <<>>))
LFilterA     == \E tp \in R(LT), c \in R(FiltCodes) : Do(LOp("l.filter", tp, c, 0, FALSE, <<>>))
DFilterA     == \E tp \in R(DT), c \in R(FiltCodes) : Do(Op("d.filter", tp, c, 0, "", "", FALSE, <<>>))
DRenameChild == \E tp \in R(DT), key \in R(Keys), k2 \in R(NewKeys) : Do(DOp("d.rename_child", tp, key, k2, FALSE, <<>>))

Next == \/ Start
        \/ LSetItem \/ LDelItem \/ LAppendA \/ LInsertA \/ LExtendA \/ LRemoveA \/ LPopA \/ LClearA
        \/ LSetChild \/ LRemoveChild \/ LRenameChild
        \/ DSetItemA \/ DSetAttrA \/ DDelItemA \/ DDelAttrA \/ DUpdateA \/ DSetDefaultA \/ DPopA \/ DPopitemA
        \/ DClearA \/ DSetChild \/ DRemoveChild \/ DRenameChild
        \/ LRemoveNode \/ DRemoveNode \/ LFilterA \/ DFilterA

Spec == Init /\ [][Next]_vars

\* ------------------------------- the property -------------------------------
Started == st # 0
Inv_ViewsAgree    == Started => ViewsAgree(heap, root)
Inv_AllNodes      == Started => AllNodes(heap, root)
Inv_Numbered      == Started => Numbered(heap, root)
Inv_WalkLookup    == Started => WalkLookup(heap, root)
Inv_EvalAgree     == Started => EvalAgree(heap, root)
Inv_PathRoundTrip == Started => PathRoundTrip(heap, root)
\* all of them at once (the heap is walked once per state)
Inv_Property      == Started => Broken(heap, root) = {}
\* no deviation makes a difference when all switches are off
Inv_NoDeviation   == fired = {}
\* auxiliary contract (not part of C17, refutes the PopitemBroken switch): popitem() on a non-empty mapping returns
Inv_PopitemWorks  == (Len(hist) > 0 /\ hist[Len(hist)].op = "d.popitem" /\ Len(heap[Lookup(heap, root, hist[Len(hist)].t, hist[Len(hist)].tk)].py) > 0)
                        => err # "TypeError"
\* witness of non-vacuity: some behaviour reaches a list of >= 4 entries and a nested container that was operated on
Witness == Started /\ Len(hist) = MaxLen /\ err = "" /\ Len(heap[root].py) >= 3

\* every behaviour, one JSON line: history, the state the operations leave, what the last one raised,
\* whether evaluation raises, the invariants the state breaks and the deviations that made a difference
OpJ(o) == <<o.op, o.t, o.i, o.i2, o.key, o.key2, o.flag, [j \in DOMAIN o.vals |-> <<o.vals[j].t, o.vals[j].n, o.vals[j].k>>], o.tk>>
Emit == Started => PrintT(ToJson([st |-> st, ops |-> [j \in DOMAIN hist |-> OpJ(hist[j])], s |-> HeapSeq(heap, root),
                                  e |-> err, ee |-> EvalErr(heap, root), bad |-> Broken(heap, root), f |-> fired]))
=============================================================================
