------------------------------- MODULE GenUni18 -----------------------------
(* Evaluates one C18 universe expression (a set of surface documents) once    *)
(* and prints it as JSON; harness/c18.py packs targets + context documents    *)
(* into the file read through Uni.tla.                                        *)
EXTENDS Props_C18, Json

CONSTANTS UDocs
VARIABLE x
Init == x = 0
Next == UNCHANGED x
ASSUME PrintT(ToJson([docs |-> SetToSeq(UDocs)]))
ASSUME PrintT(<<"SIZE", Cardinality(UDocs)>>)
=============================================================================
