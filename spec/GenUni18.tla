------------------------------- MODULE GenUni18 -----------------------------
(* Evaluates one C18 universe expression once and prints it (targets, context *)
(* documents and the ranges of Uni.tla) as JSON; see harness/c18.py.          *)
EXTENDS Props_C18, Json

CONSTANTS UDocs
VARIABLE x
Init == x = 0
Next == UNCHANGED x
ASSUME PrintT(ToJson(U_Pack(UDocs)))
ASSUME PrintT(<<"SIZE", Cardinality(UDocs)>>)
=============================================================================
