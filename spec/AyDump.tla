------------------------------- MODULE AyDump -------------------------------
(***************************************************************************)
(* C18 - writing a parsed node tree back as a YAML document.                *)
(*                                                                          *)
(* Shaped after awesomeyaml/yaml.py:524-637 (_node_representer):            *)
(*   526      tag, metadata, data = node.ayns.represent()                    *)
(*            (node.py:351-364 get_node_info_to_save: user metadata plus the *)
(*             four EXPLICIT flags priority/delete/allow_new/safe;           *)
(*             function.py:82-84, path.py:139-155, include.py value)         *)
(*   527-529  data is None  =>  tag '!null'                                  *)
(*   531-532  parent_metadata = top of the dumper's stack; type defaults     *)
(*            (node.py:382-388: class _default_delete, instance _default_safe)*)
(*   556-567  per flag: None => drop; == parent or == type default => drop   *)
(*   577-585  no kind tag and exactly ONE entry left and it is a flag        *)
(*            => plain tag (!force !weak !del !merge !new !notnew !unsafe    *)
(*            and '!safe', which has no constructor), entry removed          *)
(*   587-591  anything left => '!metadata:<enc>' / '<kindtag>:<enc>'         *)
(*   593-596  containers push {**parent_metadata, **metadata-left}           *)
(*   598-634  emission; 621-624: None is written as a bare '!null'           *)
(*                                                                          *)
(* The result of Dump is a SURFACE document (the SD records of AyParse), so *)
(* Parse(Dump(t)) is defined inside the specification.                      *)
(*                                                                          *)
(* Deviations are NAMES; every operator takes the set `dev` of deviations   *)
(* in force, so that one TLC run can evaluate the intended design (dev = {})*)
(* and the code as it is (dev = AsIs) side by side:                         *)
(*   ElideDelDefault  explicit delete equal to the TYPE default is dropped  *)
(*                    (`!del []`, `!merge {..}`, `!del {x: !merge {..}}`)    *)
(*   ElideDelParent   explicit delete equal to the enclosing entry dropped   *)
(*                    (differs once `!prev` moves the node elsewhere)        *)
(*   ElideNewDefault  explicit allow_new = True dropped (`!notnew{x: !new}`)*)
(*   ElideNewParent   explicit allow_new equal to the enclosing entry dropped*)
(*                    (`!extend{{'allow_new': False}} [ !notnew {..} ]`: the *)
(*                    enclosing node is replaced by a plain list at premerge)*)
(*   ElideSafeDefault explicit safe equal to the source's default dropped   *)
(*   ElideSafeParent  explicit safe equal to the enclosing entry dropped    *)
(*   PlainTagNotPushed a flag written as a plain tag is not pushed: the      *)
(*                    children are compared with an OUTER container's entry *)
(*   SafeTagTrue      a lone safe=True is written as `!safe` (unparsable)   *)
(*   NullDropsFlags   None is written as bare `!null`: flags + metadata lost*)
(*   ClearNoValue     dumping a !clear node raises AttributeError           *)
(*   PathNoRefWraps   `!path` without reference point: the dumped mapping   *)
(*                    {values, ref_point} is re-read as ONE path component; *)
(*                    with metadata the encoded part is taken for the       *)
(*                    reference point and then overwritten: metadata lost   *)
(*   ReprQuoting      a tagged string is written through Python repr() and  *)
(*                    re-read by YAML quoting rules (backslash doubles)     *)
(***************************************************************************)
EXTENDS AyMerge

AllDeviations == {"ElideDelDefault", "ElideDelParent", "ElideNewDefault", "ElideNewParent", "ElideSafeDefault", "ElideSafeParent",
                  "PlainTagNotPushed", "SafeTagTrue", "NullDropsFlags", "ClearNoValue", "PathNoRefWraps", "ReprQuoting"}

NullAtom == <<"n", "">>
IsNullNode(n) == n.k = "scalar" /\ n.v = NullAtom
BasicKinds == {"dict", "list", "scalar"}
\* yaml.py:526-529: the node class has a tag of its own, or the value is None
HasKindTag(n) == n.k \notin BasicKinds \/ IsNullNode(n)

\* the dumper's stack entry: the flags the enclosing containers have written
\* (as the code is: only those written in ENCODED form, see `push` below);
\* absent = None = "N" / PrNone
Stack0 == [pr |-> PrNone, del |-> "N", anew |-> "N", safe |-> "N"]

----------------------------------------------------------------------------
\* yaml.py:556-567, one operator per flag: the value that stays in `metadata`

\* priority: dropped when equal to the enclosing entry or to STANDARD.  Sound:
\* a tagged container's priority is pushed onto every descendant at parse
\* time, and None and 0 are the same priority.
KeepPr(n, st) == IF n.pr = PrNone \/ n.pr = st.pr \/ n.pr = 0 THEN PrNone ELSE n.pr

\* delete.  Intended: an explicit delete is always written: explicit_delete of
\* an empty `!del []` is the remove-this-key idiom (composed.py:315-323); a
\* value equal to the node's own type default still differs from what the
\* node would INHERIT; and a value equal to what it inherits here stops being
\* so once `!prev` moves the node under another parent.  The one exception is
\* a function node's True, which FunctionNode.__init__ restores (function.py:44).
KeepDel(n, st, dev) ==
    IF n.del = "N" THEN "N"
    ELSE IF IsFn(n) /\ n.del = "T" THEN "N"
    ELSE IF "ElideDelDefault" \in dev /\ n.del = Tri(TypeDefaultDelete(n)) THEN "N"
    ELSE IF "ElideDelParent" \in dev /\ n.del = st.del THEN "N"
    ELSE n.del

\* allow_new.  Intended: always written: the default True overrides an
\* inherited False, and a value equal to the enclosing entry is only inherited
\* while that node stays the parent (`!append` / `!extend` hand their elements
\* to a fresh plain list at premerge, `!prev` moves nodes).
KeepNew(n, st, dev) ==
    IF n.anew = "N" THEN "N"
    ELSE IF "ElideNewParent" \in dev /\ n.anew = st.anew THEN "N"
    ELSE IF "ElideNewDefault" \in dev /\ n.anew = "T" THEN "N"
    ELSE n.anew

\* safe.  Intended: always written.  (An explicit safe stops the propagation
\* of inherited safety at this node, composed.py:396-401, and is and-ed into
\* whatever later replaces the node, node.py:440-441,463-464: an explicit
\* False is not the same as an inherited False.)  The type default is the
\* INSTANCE attribute _default_safe (node.py:387).
KeepSafe(n, st, dev) ==
    IF n.safe = "N" THEN "N"
    ELSE IF "ElideSafeParent" \in dev /\ n.safe = st.safe THEN "N"
    ELSE IF "ElideSafeDefault" \in dev /\ n.safe = n.dsafe THEN "N"
    ELSE n.safe

NFlags(r) == (IF r.pr # PrNone THEN 1 ELSE 0) + (IF r.del # "N" THEN 1 ELSE 0)
             + (IF r.anew # "N" THEN 1 ELSE 0) + (IF r.safe # "N" THEN 1 ELSE 0)

\* {**parent_metadata, **metadata}
Overlay(st, r) == [pr   |-> IF r.pr # PrNone THEN r.pr ELSE st.pr,
                   del  |-> IF r.del # "N" THEN r.del ELSE st.del,
                   anew |-> IF r.anew # "N" THEN r.anew ELSE st.anew,
                   safe |-> IF r.safe # "N" THEN r.safe ELSE st.safe]

\* yaml.py:626-628: repr() of a string re-read by YAML's single-quoted rules.
\* Strings are opaque to TLC; the universes hold ONE string with a backslash.
ReprText(s) == IF s = "a\\b" THEN "a\\\\b"
               ELSE IF s = "a\\\\b" THEN "a\\\\\\\\b"
               ELSE s
ReprKinds == {"scalar", "eval", "fstr", "import"}
\* kinds whose tag has no multi-constructor (yaml.py:486-521): they cannot be
\* given flags in YAML; the only flag they ever hold is a priority pushed down
\* by a tagged container, which a correct stack lets them omit
NoMdKinds == {"append", "prev", "include", "import"}
\* FStrNode has no tag of its own: it is written as the !eval of its f-string
\* (fstr.py:19-49; the same evaluation for one-line code).  Class identity of
\* the two is not an observable of the property.
KindClass(k) == IF k = "fstr" THEN "eval" ELSE k

SDRec(k, v, ch, fn, ref, form, r, md) ==
    [k |-> k, v |-> v, ch |-> ch, fn |-> fn, ref |-> ref, form |-> form,
     pr |-> r.pr, del |-> r.del, anew |-> r.anew, safe |-> r.safe, md |-> md]

DumpErrSD == SDRec("DUMPERR", NoVal, <<>>, "", <<>>, "tag", Stack0, {})

RECURSIVE DumpNode(_, _, _)
DumpNode(n, st, dev) ==
    LET r0    == [pr |-> KeepPr(n, st), del |-> KeepDel(n, st, dev),
                  anew |-> KeepNew(n, st, dev), safe |-> KeepSafe(n, st, dev)]
        md0   == IF Mut("DropMdWithFlag") /\ NFlags(r0) > 0 THEN {} ELSE n.md
        cnt   == NFlags(r0) + Cardinality(md0)
        \* yaml.py:577-585
        plain == /\ ~HasKindTag(n) /\ cnt = 1 /\ NFlags(r0) = 1
                 /\ (r0.safe = "T" => "SafeTagTrue" \in dev)
        \* yaml.py:593-596.  Intended: what this node has written, in either form,
        \* is what its children may leave out.  As the code is, a flag turned
        \* into a plain tag has left `metadata` before the push: the children
        \* are compared with whatever an outer container pushed.
        push  == IF plain /\ "PlainTagNotPushed" \in dev THEN st ELSE Overlay(st, r0)
        kids  == [i \in 1..Len(n.ch) |-> <<n.ch[i][1], DumpNode(n.ch[i][2], push, dev)>>]
        drop  == IsNullNode(n) /\ "NullDropsFlags" \in dev          \* yaml.py:621-624
        r     == IF drop THEN Stack0 ELSE r0
        md    == IF drop THEN {} ELSE md0
        form  == IF drop THEN "tag"
                 ELSE IF cnt = 0 THEN (IF HasKindTag(n) THEN "tag" ELSE "none")
                 ELSE IF plain THEN "tag" ELSE "md"
        v     == IF form # "none" /\ n.k \in ReprKinds /\ n.v[1] = "s" /\ "ReprQuoting" \in dev
                 THEN <<"s", ReprText(n.v[2])>> ELSE n.v
        \* path.py:145-155: the mapping {values, ref_point} read back by
        \* _simple_path_constructor (dict_is_data left True) as one component
        wrap  == << <<IKey(0),
                      SDRec("dict", NoVal,
                            << <<SKey("values"), SDRec("list", NoVal, kids, "", <<>>, "none", Stack0, {})>>,
                               <<SKey("ref_point"), SDRec("scalar", <<"s", "">>, <<>>, "", <<>>, "none", Stack0, {})>> >>,
                            "", <<>>, "none", Stack0, {})>> >>
    IN IF n.k = "clear" /\ "ClearNoValue" \in dev THEN DumpErrSD    \* clear.py has no value
       ELSE IF n.k \in NoMdKinds /\ form = "md"      \* `!append:<enc>` ...: no such constructor (yaml.py:486-521)
       THEN SDRec(n.k, v, kids, n.fn, n.ref, "noctor", r, md)
       ELSE IF n.k = "path" /\ n.fn = "" /\ "PathNoRefWraps" \in dev
       THEN (IF form = "md"        \* yaml.py:416-423: `!path:<enc>` = reference point <enc>, then data's ref_point '' wins
             THEN SDRec(n.k, v, kids, n.fn, n.ref, "tag", Stack0, {})
             ELSE SDRec(n.k, v, wrap, n.fn, n.ref, form, r, md))
       ELSE SDRec(KindClass(n.k), v, kids, n.fn, n.ref, form, r, md)

Dump(t, dev) == DumpNode(t, Stack0, dev)

\* the deviations that act on t: taking one away changes what is written, or
\* adding it alone to the intended design does
Fired(t, asis) == {d \in asis : Dump(t, asis \ {d}) # Dump(t, asis) \/ Dump(t, {d}) # Dump(t, {})}

RECURSIVE DumpFails(_), Unparsable(_)
DumpFails(sd)  == sd.k = "DUMPERR" \/ \E i \in 1..Len(sd.ch) : DumpFails(sd.ch[i][2])
\* `!safe` has no constructor (yaml.py:486-521)
Unparsable(sd) == sd.form = "noctor" \/ (sd.form = "tag" /\ sd.safe = "T") \/ \E i \in 1..Len(sd.ch) : Unparsable(sd.ch[i][2])

\* the dumped document read back as a source of the same safety
ParseD(sd, srcSafe) ==
    IF DumpFails(sd) THEN Err("DumpError", <<>>, <<>>)
    ELSE IF Unparsable(sd) THEN Err("ParsingError", <<>>, <<>>)
    ELSE Parse(sd, srcSafe)

RoundTrip(t, dev) == ParseD(Dump(t, dev), t.dsafe = "T")

----------------------------------------------------------------------------
\* What a merged configuration lets one observe: its data, user metadata, the
\* effective priority of every node (every later contest consults it) and -
\* because Config evaluates a deep COPY of the merged tree, whose attach steps
\* re-derive every inherited flag from the parent's current attributes
\* (composed.py:346-378, set_child) - the safety, in that copy, of the nodes
\* that execute code and of what containers hand to children added later.
\* delete / allow_new of a result are consulted only while the node is the
\* NEWER side of a merge: those show as data in the contexts.
SafeKinds == {"call", "bind", "eval", "fstr", "import", "include"}

\* copy.deepcopy: children are rebuilt first, then attached through set_child
RECURSIVE CopyT(_)
CopyT(n) == [n EXCEPT !.ch = [i \in 1..Len(n.ch) |->
                <<n.ch[i][1], Adopt(CopyT(n.ch[i][2]), ChildKw(n), FALSE, PrNone)>>]]

RECURSIVE MergeObsEq(_, _), SafeObsEq(_, _, _)
MergeObsEq(a, b) ==
    \/ a = b
    \/ /\ KindClass(a.k) = KindClass(b.k) /\ a.v = b.v /\ a.fn = b.fn /\ a.ref = b.ref /\ a.md = b.md
       /\ EffPr(a) = EffPr(b) /\ Len(a.ch) = Len(b.ch)
       /\ \A i \in 1..Len(a.ch) : a.ch[i][1] = b.ch[i][1] /\ MergeObsEq(a.ch[i][2], b.ch[i][2])
\* on two copies of equal shape; `under`: below a function node, whose arguments are
\* evaluated with require_all_safe (call.py:60, bind.py:84, eval_context.py:132)
SafeObsEq(a, b, under) ==
    \/ a = b
    \/ /\ ((under \/ a.k \in SafeKinds) => EffSafe(a) = EffSafe(b))
       /\ (IsComposed(a) => (ChildKw(a).isafe # "F") = (ChildKw(b).isafe # "F"))
       /\ \A i \in 1..Len(a.ch) : SafeObsEq(a.ch[i][2], b.ch[i][2], under \/ IsFn(a))

ObsEq(a, b) == a = b \/ (MergeObsEq(a, b) /\ SafeObsEq(CopyT(a), CopyT(b), FALSE))
ObsREq(x, y) == IF IsErr(x) \/ IsErr(y) THEN IsErr(x) /\ IsErr(y) /\ x.err = y.err ELSE ObsEq(x, y)

RECURSIVE DataD(_), MdTree(_)
DataD(n) == [k |-> KindClass(n.k), v |-> n.v, fn |-> n.fn, ref |-> n.ref,
             ch |-> [i \in 1..Len(n.ch) |-> <<n.ch[i][1], DataD(n.ch[i][2])>>]]
MdTree(n) == [md |-> n.md, ch |-> [i \in 1..Len(n.ch) |-> <<n.ch[i][1], MdTree(n.ch[i][2])>>]]

\* a context: a merge history with a hole; here as the sequence of parsed
\* documents with the candidate put into the hole
SameIn(hist_t, hist_u) == ObsREq(FoldDocs(hist_t), FoldDocs(hist_u))

SameValue(t, u) == ~IsErr(u) /\ DataD(u) = DataD(t)
SameMd(t, u)    == ~IsErr(u) /\ MdTree(u) = MdTree(t)
DumpStable(t, u, dev) == ~IsErr(u) /\ Dump(u, dev) = Dump(t, dev)

\* first path (pre-order) and field where two node trees differ; <<>> "" if equal
Fields == <<"k", "v", "fn", "ref", "pr", "del", "idel", "anew", "ianew", "safe", "isafe", "dsafe", "md">>
FieldDiff(a, b) ==
    LET bad == SelectSeq(Fields, LAMBDA f : a[f] # b[f])
    IN IF bad # <<>> THEN bad[1]
       ELSE IF NKeys(a) # NKeys(b) THEN "keys" ELSE ""
RECURSIVE FirstDiff(_, _, _)
FirstDiff(a, b, p) ==
    LET f == FieldDiff(a, b)
    IN IF f # "" THEN <<p, f>>
       ELSE LET G[i \in 0..Len(a.ch)] ==
                  IF i = 0 THEN <<>>
                  ELSE IF G[i-1] # <<>> THEN G[i-1]
                  ELSE IF a.ch[i][2] = b.ch[i][2] THEN <<>>
                  ELSE FirstDiff(a.ch[i][2], b.ch[i][2], Append(p, a.ch[i][1]))
            IN G[Len(a.ch)]

----------------------------------------------------------------------------
(***************************************************************************)
(* SOURCE FILES of `!path` nodes.                                           *)
(*                                                                          *)
(* Every node of a text parsed under a file name knows that name            *)
(* (yaml.py:242 `kwargs.setdefault('source_file', current file)`,           *)
(* node.py:199).  It is STATE of a `!path` node: reference points `file`,   *)
(* `parent`, `parent(n)` evaluate relative to it (path.py:118-128; without  *)
(* one they raise ValueError), and it is the one piece of `source_file`     *)
(* that a dump writes: PathNode.ayns.value (path.py:145-155) is the mapping *)
(* {values, ref_point [, source_file]} - the key is there iff the node      *)
(* knows a file.  `!path:<ref>` reads a mapping back as KEYWORD ARGUMENTS   *)
(* (yaml.py:416-423 dict_is_data=False; 244-246 `kwargs.update(data)`): the *)
(* mapping's `source_file` wins over the name of the text being re-read, so *)
(* a dump that is saved elsewhere (or parsed from a string) still evaluates *)
(* to the paths of the original.                                            *)
(*                                                                          *)
(* The node records of AyTree carry no file, so the source files are a      *)
(* LAYER next to a node tree: a tree of the same shape, [sf, ch].  A file   *)
(* name is the sequence of its components below an abstract root (the       *)
(* harness puts the root into a scratch directory); NoFile = parsed from a  *)
(* string.                                                                  *)
(*                                                                          *)
(* The source file of every OTHER node is not written (node.py:354, by      *)
(* design) and the merge of AyMerge does not carry files.  One way it can   *)
(* still reach a `!path` node is promotion: a plain list that replaces a    *)
(* `!path` node hands it all its attributes, the file included (node.py:    *)
(* 501-518, 524-532 _take_over); merge histories in which a list OF THE     *)
(* DOCUMENT does so are outside the domain (harness: PathAdoptions).        *)
(*                                                                          *)
(* Design mutations (each must be refuted):                                 *)
(*   ReparseOverridesSourceFile  the name of the text being re-read wins    *)
(*                    over the mapping's key (`{**data, **kwargs}`)         *)
(*   DumpOmitsSourceFile         the key is never written                   *)
(***************************************************************************)
NoFile == <<>>

\* the layer of a text parsed under `name`
RECURSIVE OrgParse(_, _)
OrgParse(n, name) == [sf |-> name, ch |-> [i \in 1..Len(n.ch) |-> OrgParse(n.ch[i][2], name)]]

\* path.py:151-155: what the dump of n writes under `source_file:` (NoFile = no such key)
RECURSIVE SfDump(_, _)
SfDump(n, o) == [w  |-> IF n.k = "path" /\ ~Mut("DumpOmitsSourceFile") THEN o.sf ELSE NoFile,
                 ch |-> [i \in 1..Len(n.ch) |-> SfDump(n.ch[i][2], o.ch[i])]]

\* the layer is defined where the re-parsed tree has the shape of the dumped one
\* (not under PathNoRefWraps, which re-reads the whole mapping as a component)
RECURSIVE SfFits(_, _)
SfFits(u, w) == Len(u.ch) = Len(w.ch) /\ \A i \in 1..Len(u.ch) : SfFits(u.ch[i][2], w.ch[i])

\* yaml.py:242-246: the layer of the dumped text re-read under `name`
RECURSIVE SfReparse(_, _, _)
SfReparse(u, w, name) ==
    [sf |-> IF u.k = "path" /\ w.w # NoFile /\ ~Mut("ReparseOverridesSourceFile") THEN w.w ELSE name,
     ch |-> [i \in 1..Len(u.ch) |-> SfReparse(u.ch[i][2], w.ch[i], name)]]

\* path.py:118-128: the directory (or file) a reference point stands for.  `parent(n)` goes up n + 1 names textually.
Ups(fn) == CASE fn = "parent" -> 1 [] fn = "parent(0)" -> 1 [] fn = "parent(1)" -> 2 [] fn = "parent(2)" -> 3 [] OTHER -> 0
UsesFile(fn) == fn = "file" \/ Ups(fn) > 0
RefBase(fn, sf) == IF ~UsesFile(fn) THEN <<"@", fn>>                      \* '.', cwd, abs(..): whatever the file
                   ELSE IF sf = NoFile THEN <<"!", "ValueError">>
                   ELSE <<"/">> \o SubSeq(sf, 1, IF Len(sf) > Ups(fn) THEN Len(sf) - Ups(fn) ELSE 0)

\* the !path nodes of a tree in pre-order: reference point, source file, what the reference point evaluates to
RECURSIVE SfList(_, _)
SfList(n, o) ==
    LET G[i \in 0..Len(n.ch)] == IF i = 0 THEN <<>> ELSE G[i-1] \o SfList(n.ch[i][2], o.ch[i])
    IN (IF n.k = "path" THEN << [fn |-> n.fn, sf |-> o.sf, base |-> RefBase(n.fn, o.sf)] >> ELSE <<>>) \o G[Len(n.ch)]
Bases(l) == [i \in 1..Len(l) |-> l[i].base]

RECURSIVE HasPathNode(_)
HasPathNode(n) == n.k = "path" \/ \E i \in 1..Len(n.ch) : HasPathNode(n.ch[i][2])

\* original parsed under f, its dump re-read under g
SfOrig(t, f)       == SfList(t, OrgParse(t, f))
SfAgain(t, u, f, g) == SfList(u, SfReparse(u, SfDump(t, OrgParse(t, f)), g))
\* every !path node evaluates relative to the same place ...
SamePaths(t, u, f, g) == SfFits(u, SfDump(t, OrgParse(t, f))) => Bases(SfAgain(t, u, f, g)) = Bases(SfOrig(t, f))
\* ... and a second dump writes the same `source_file:` keys
SfStable(t, u, f, g)  == LET w == SfDump(t, OrgParse(t, f))
                         IN SfFits(u, w) => SfDump(u, SfReparse(u, w, g)) = w

\* <<name of the original, name the dump is re-read under>>: from a string and back (what the rest of this module is about);
\* from a file and back (a) as a string, (b) as a file in another directory at another depth, (c) under the same name.
\* (A document that never had a file name, re-read under one, is outside: `!path:parent` raises before and evaluates after.)
FileA == <<"A", "cfg", "exp", "doc.yaml">>
FileB == <<"B", "dumps", "re.yaml">>
FilePairs == << <<NoFile, NoFile>>, <<FileA, NoFile>>, <<FileA, FileB>>, <<FileA, FileA>> >>
SamePathsAll(t, u) == \A q \in 1..Len(FilePairs) : SamePaths(t, u, FilePairs[q][1], FilePairs[q][2])
SfStableAll(t, u)  == \A q \in 1..Len(FilePairs) : SfStable(t, u, FilePairs[q][1], FilePairs[q][2])

=============================================================================
