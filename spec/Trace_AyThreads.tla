--------------------------- MODULE Trace_AyThreads ---------------------------
(***************************************************************************)
(* Direction B of C20: marker event streams recorded from REAL concurrent   *)
(* runs of the library (real threads, seeded random preemption at traced    *)
(* lines) are validated against AyThreads.                                  *)
(*                                                                          *)
(* One JSON line per run:                                                   *)
(*   {"tid": k, "jobs": [job record per thread],                            *)
(*    "ev":  [[t, step, kind, file view, safe view, api view, #nodes,       *)
(*             node file, node default-safe], ...]   in global order,       *)
(*    "fin": [[file view, safe view, api view, error kind, wraps,           *)
(*             [[node file, node default-safe], ...]] per thread]}          *)
(* An event is logged when a thread completes a marker-grain step (see      *)
(* MC_AyThreads); the views are the ones the thread itself read from the    *)
(* library's slots at that moment.                                          *)
(*                                                                          *)
(* The threads of the specification take the line-grain steps of AyThreads; *)
(* a step that completes a group must be the next event of the log (same    *)
(* thread, same step name, same api kind) and must leave the thread with    *)
(* the logged views, node count and node (Soft = FALSE), so a trace is      *)
(* accepted iff an interleaving of the specification explains it.  The      *)
(* steps inside a group are taken when the group's event is the next one    *)
(* of the log (a partial-order reduction: with thread-local slots, which is *)
(* the only configuration traces are validated against, the inner steps of  *)
(* one thread commute with every step of the others).                       *)
(* With Soft = TRUE (second pass over rejected traces) differing views do   *)
(* not block: the first disagreement is recorded in verdict instead, and    *)
(* the position reached is printed, so that verdicts are total.             *)
(* The property is evaluated on the LOGGED data as well (pv): every logged  *)
(* node against the thread's own files (ghost stack of the specification),  *)
(* the logged final views, error reports and node lists against Restored,   *)
(* ErrorsLocal and SequentialResult.                                        *)
(***************************************************************************)
EXTENDS AyThreads, Json, IOUtils

CONSTANT Soft

Traces == ndJsonDeserialize(IOEnv.TRACE_FILE)
\* JobAssignments is bound to this set (membership test only: the job is fixed by the trace before Init is evaluated)
AnyAssignment == [Threads -> [name : STRING, n : Nat, fail : BOOLEAN, inc : STRING, incn : Nat, safe : BOOLEAN, build : BOOLEAN]]

VARIABLES tid, l, tga, tgl, tgk, verdict, pv
tvars == <<tid, l, tga, tgl, tgk, verdict, pv>>
allvars == <<vars, tvars>>

Ev == Traces[tid].ev
Fin == Traces[tid].fin

TInit == /\ tid \in DOMAIN Traces
         /\ job = Traces[tid].jobs
         /\ Init
         /\ l = 1
         /\ tga = [t \in Threads |-> "none"]
         /\ tgl = [t \in Threads |-> FALSE]
         /\ tgk = [t \in Threads |-> "none"]
         /\ verdict = "ok"
         /\ pv = "holds"

ViewsAgree(t, e) == /\ ViewFile(t)' = e[4] /\ ViewSafe(t)' = e[5] /\ ViewApi(t)' = e[6]
                    /\ Len(made'[t]) = e[7]
                    /\ e[2] = "NewNode" => /\ made'[t][Len(made'[t])].src = e[8]
                                           /\ made'[t][Len(made'[t])].dsafe = e[9]

\* the property on the logged node: it records the file / safety of the thread's own sources
LoggedNodeOk(t, e) == e[2] = "NewNode" => (e[8] = OwnFileNow(t) /\ e[9] = OwnSafeNow(t))

TStep(t) ==
    /\ l <= Len(Ev) /\ Ev[l][1] = t
    /\ StepOf(t)
    /\ LET lbl == pc[t]
           a2 == IF tga[t] = "none" /\ lbl \in SlotLabels THEN lbl ELSE tga[t]
           l2 == tgl[t] \/ lbl = "LeaveApi"
           k2 == IF tga[t] = "none" /\ lbl = "CheckApi" THEN kind[t] ELSE tgk[t]
       IN IF GroupGoesOn(t, a2, l2)
          THEN /\ tga' = [tga EXCEPT ![t] = a2]
               /\ tgl' = [tgl EXCEPT ![t] = l2]
               /\ tgk' = [tgk EXCEPT ![t] = k2]
               /\ UNCHANGED <<tid, l, verdict, pv>>
          ELSE /\ tga' = [tga EXCEPT ![t] = "none"]
               /\ tgl' = [tgl EXCEPT ![t] = FALSE]
               /\ tgk' = [tgk EXCEPT ![t] = "none"]
               /\ Ev[l][2] = StepName(a2, l2) /\ Ev[l][3] = k2
               /\ Soft \/ ViewsAgree(t, Ev[l])
               /\ l' = l + 1
               /\ verdict' = IF verdict = "ok" /\ ~ViewsAgree(t, Ev[l]) THEN "views" ELSE verdict
               /\ pv' = IF pv = "holds" /\ ~LoggedNodeOk(t, Ev[l])
                        THEN (IF Ev[l][8] # OwnFileNow(t) THEN "OwnFile" ELSE "OwnSafety") ELSE pv
               /\ UNCHANGED tid

TNext == \E t \in Threads : TStep(t)
TSpec == TInit /\ [][TNext]_allvars

\* the logged end of the run against the declarative statements of the property
LoggedResult(t) == [nodes |-> Fin[t][6], exc |-> Fin[t][4], wraps |-> Fin[t][5]]
FinalPV ==
    IF pv # "holds" THEN pv
    ELSE IF \E t \in Threads : LoggedResult(t).nodes # SequentialResult(t).nodes THEN "SeqEquivalent-nodes"
    ELSE IF \E t \in Threads : LoggedResult(t).exc # SequentialResult(t).exc THEN "SeqEquivalent-error"
    ELSE IF \E t \in Threads : LoggedResult(t).wraps # SequentialResult(t).wraps THEN "ErrorsLocal"
    ELSE IF \E t \in Threads : <<Fin[t][1], Fin[t][2], Fin[t][3]>> # <<NoFile, TRUE, FALSE>> THEN "Restored"
    ELSE "holds"
\* the specification's own end state against the logged one
FinalVerdict ==
    IF verdict # "ok" THEN verdict
    ELSE IF \E t \in Threads : Result(t) # LoggedResult(t) THEN "result" ELSE "ok"

Accepted == l = Len(Ev) + 1 /\ AllDone
TEmit == Accepted => PrintT(<<"VERDICT", tid, FinalVerdict, FinalPV>>)
\* second pass: how far the specification can follow the log
TProgress == Soft => PrintT(<<"AT", tid, l>>)
=============================================================================
