------------------------------ MODULE GenUni19 ------------------------------
(* Evaluates one universe expression of C19's runs once and prints it as JSON *)
(* (the same device as GenUni.tla, over the modules C19 draws trees from).   *)
EXTENDS Props_C03, Props_C04, Props_C08, Props_C19, Json

CONSTANTS UDocs, URange
VARIABLE x
Init == x = 0
Next == UNCHANGED x
WholeRange == << <<1, Len(UDocs)>> >>
ASSUME PrintT(ToJson([universe |-> UDocs, range |-> URange]))
=============================================================================
