------------------------------- MODULE EvalTrace -----------------------------
(***************************************************************************)
(* Trace validation for evaluation (direction B).  One JSON line per        *)
(* recorded evaluation:                                                     *)
(*   {"tid": n, "tree": <projection of the merged tree that was evaluated>, *)
(*    "status": .., "data": <plain data of the result>, "ids": [[path, id]],*)
(*    "classes": [[path..]..], "calls": [[path, fn]..], "ev": [path..]}     *)
(* The specification is run on the logged tree (AyEval is deterministic);   *)
(* at the end its outcome is compared with what the library produced, and   *)
(* the properties' formulas are evaluated on the LOGGED outcome.            *)
(***************************************************************************)
EXTENDS AyEval, Props_C07, Json, IOUtils, TLCExt

CONSTANT Prop

Traces == ndJsonDeserialize(IOEnv.TRACE_FILE)

VARIABLE tid
tvars == <<evars, tid>>

RECURSIVE NodeOfJ(_)
NodeOfJ(j) == [j EXCEPT !.md = {<<j.md[x][1], j.md[x][2]>> : x \in DOMAIN j.md},
                        !.ch = [i \in 1..Len(j.ch) |-> <<j.ch[i][1], NodeOfJ(j.ch[i][2])>>]]
RECURSIVE PlainOfJ(_)
PlainOfJ(j) == Plain(j.k, j.v, [i \in 1..Len(j.ch) |-> <<j.ch[i][1], PlainOfJ(j.ch[i][2])>>])

T == Traces[tid]
\* the tree the library evaluated: the deep copy Config makes of the merged tree (both are logged)
LSource == NodeOfJ(T.tree)
LTree == NodeOfJ(T.copytree)
RECURSIVE SDofJ(_)
SDofJ(j) == [j EXCEPT !.md = {<<j.md[x][1], j.md[x][2]>> : x \in DOMAIN j.md},
                      !.ch = [i \in 1..Len(j.ch) |-> <<j.ch[i][1], SDofJ(j.ch[i][2])>>]]
HasDocs == "docs" \in DOMAIN T
LDocs    == IF HasDocs THEN [i \in DOMAIN T.docs |-> SDofJ(T.docs[i])] ELSE <<>>
LSafes   == IF HasDocs THEN [i \in DOMAIN T.safes |-> T.safes[i]] ELSE <<>>
\* where the documents were logged the specification starts from ITS OWN merged tree (so that its verdict is about
\* the specification), otherwise from the library's merged tree
MSource == IF HasDocs THEN FoldDocs([i \in 1..Len(LDocs) |-> Parse(LDocs[i], LSafes[i])]) ELSE LSource
MTree == IF IsErr(MSource) THEN LTree ELSE DeepCopy(MSource)

TInit == EInit /\ tid \in 1..Len(Traces)
\* config.py:38: the !required check comes before anything is evaluated
HasRequired(t) == \E p \in PathsOf(t) : At(t, p).k = "required"
TRequired == /\ status = "idle" /\ HasRequired(LSource) /\ status' = "RequiredError"
             /\ UNCHANGED <<work, stack, cache, heap, calls, evlog, reqsafe, taint, over, tid>>
TStart == status = "idle" /\ ~HasRequired(LSource) /\ StartOn(MTree) /\ UNCHANGED tid
TStep == EStep /\ UNCHANGED tid
TNext == TRequired \/ TStart \/ TStep

\* the library's outcome, as logged
LStatus  == T.status
LIds     == {<<T.ids[i][1], T.ids[i][2]>> : i \in DOMAIN T.ids}
LData    == PlainOfJ(T.data)
LCalls   == [i \in DOMAIN T.calls |-> [p |-> T.calls[i][1], fn |-> T.calls[i][2],
                                       args |-> [a \in DOMAIN T.calls[i][3] |-> <<T.calls[i][3][a][1], PlainOfJ(T.calls[i][3][a][2])>>]]]
LStages  == [i \in DOMAIN T.stages |-> NodeOfJ(T.stages[i])]
MCallsData == [i \in 1..Len(calls) |-> [p |-> calls[i].p, fn |-> calls[i].fn,
                                         args |-> [a \in 1..Len(calls[i].args) |-> <<calls[i].args[a][1], ValData(heap, calls[i].args[a][2])>>]]]
LClasses == {{T.classes[i][j] : j \in DOMAIN T.classes[i]} : i \in DOMAIN T.classes}
LEv      == [i \in DOMAIN T.ev |-> T.ev[i]]

\* the specification's outcome
MIds == {<<p, cache[p]>> : p \in DOMAIN cache}
MData == IF status = "done" THEN ValData(heap, RootId) ELSE Plain("none", NoVal, <<>>)
MClasses == IF status # "done" THEN {}
            ELSE LET ri == ResultIds(heap, RootId, <<>>)
                     objs == {e \in ri : heap[e[2]].k # "atom"}
                 IN {{e[1] : e \in {x \in objs : x[2] = id}} : id \in {e[2] : e \in objs}}
MCallPaths == [i \in 1..Len(calls) |-> calls[i].p]

\* first clause on which library and specification disagree ("ok" if none)
Compare ==
    IF ~IsErr(MSource) /\ MSource # LSource THEN "tree"     \* the merged source trees differ (flags included)
    ELSE IF DeepCopy(LSource) # LTree THEN "copy"          \* the specification's deepcopy vs. copy.deepcopy (flags included)
    ELSE IF status # LStatus THEN "status"
    ELSE IF status # "done" THEN "ok"
    ELSE IF MData # LData THEN "data"
    ELSE IF MClasses # LClasses THEN "identity"
    ELSE IF MCallPaths # [i \in DOMAIN LCalls |-> LCalls[i].p] THEN "calls"
    ELSE IF evlog # LEv THEN "order"
    ELSE "ok"

PropVerdict ==
    CASE Prop = "C09" -> IF LStatus \notin {"done", "EvalError"} THEN "outside"
                         ELSE IF C09_Holds(LTree, LStatus, LIds) THEN "holds" ELSE "violated"
      [] Prop = "C10" -> IF LStatus \notin {"done", "EvalError", "UnsafeError"} THEN "outside"
                         ELSE IF /\ C10_AtMostOnce(LCalls) /\ C10_OnlyExisting(ExpandRec(LTree), LCalls)
                                 /\ C10_ExactlyOnce(ExpandRec(LTree), LStatus, LCalls)
                                 /\ C10_OrderFree(ExpandRec(LTree), LStatus, LData)
                                 /\ C10_SameObject(ExpandRec(LTree), LStatus, LIds) THEN "holds" ELSE "violated"
      [] Prop = "C11" -> IF LStatus # "done" THEN "outside"
                         ELSE IF C11_Mirror(LTree, LStatus, LData) /\ T.lifecycle = "ok" THEN "holds" ELSE "violated"
      [] Prop = "C07" -> IF ~C07_InDomain(LDocs, LSafes) THEN "outside"
                         ELSE IF /\ C07_TaintSound(LTree, LDocs, LSafes)
                                 /\ (LStatus \in {"done", "EvalError", "UnsafeError"} => C07_EvalHolds(LTree, LStatus, LCalls, LData, LDocs, LSafes))
                              THEN "holds" ELSE "violated"
      [] OTHER -> "none"

ModelVerdict ==
    CASE Prop = "C09" -> IF C09_Holds(work, status, MIds) THEN "holds" ELSE "violated"
      [] Prop = "C10" -> IF /\ C10_AtMostOnce(calls) /\ C10_OnlyExisting(ExpandRec(work), calls) /\ C10_ExactlyOnce(ExpandRec(work), status, calls)
                            /\ C10_OrderFree(ExpandRec(work), status, MData) /\ C10_SameObject(ExpandRec(work), status, MIds) THEN "holds" ELSE "violated"
      [] Prop = "C11" -> IF C11_Mirror(work, status, MData) THEN "holds" ELSE "violated"
      [] Prop = "C07" -> IF (C07_InDomain(LDocs, LSafes) => C07_TaintSound(work, LDocs, LSafes))
                            /\ C07_EvalHolds(work, status, MCallsData, MData, LDocs, LSafes) THEN "holds" ELSE "violated"
      [] OTHER -> "none"

Report == (ETerminal \/ status = "RequiredError") => PrintT(<<"TRACE", T.tid, Compare, PropVerdict, ModelVerdict, "">>)

\* the specification must itself terminate on every logged tree (checked as a deadlock-free,
\* finite exploration: a trace with no TRACE line was not consumed)
=============================================================================
