------------------------------- MODULE AyMerge ------------------------------
(***************************************************************************)
(* Merging `self <- other` of two node trees, written after the code:       *)
(*   node.py:315-333    ConfigNode.ayns.merge / on_merge_impl (leaf rule)   *)
(*   node.py:428-505    _replace_self / _replace_other / _maybe_promote     *)
(*   composed.py:162-187 filter_nodes, 284-343 on_merge_impl,               *)
(*                       _require_all_new                                   *)
(*   list.py:131-155    ConfigList.on_merge_impl (index validation,         *)
(*                       pre-filter of the newer list)                      *)
(*   function.py:50-76  FunctionNode.on_merge_impl                          *)
(*   append.py extend.py prev.py clear.py  premerge operators               *)
(* Results are nodes or typed errors [err, path, what].                     *)
(***************************************************************************)
EXTENDS AyParse

Err(kind, path, what) == [err |-> kind, path |-> path, what |-> what]
IsErr(x) == "err" \in DOMAIN x

AndTri(a, b) == IF a = "T" /\ b = "T" THEN "T" ELSE "F"

\* {**a, **b}: b wins
MdMerge(a, b) == {e \in a : ~\E f \in b : f[1] = e[1]} \cup b

----------------------------------------------------------------------------
\* node.py:448-466: `res` stays the result, `oth` loses
\* (_combine_safety: unsafety inherited by `oth` counts as well - not so before the fix, mutation MergeLaundersUnsafe)
ReplaceOtherFlags(res, oth) ==
    [res EXCEPT !.safe  = IF oth.safe # "N" THEN AndTri(NotNoneOr(res.safe, "T"), oth.safe) ELSE @,
                !.isafe = IF oth.isafe = "F" /\ ~Mut("MergeLaundersUnsafe") THEN "F" ELSE @,
                !.dsafe = IF DefaultSafeOverwrite THEN oth.dsafe ELSE AndTri(res.dsafe, oth.dsafe),
                !.md    = IF Mut("MdSpreadSwapped") THEN MdMerge(res.md, oth.md) ELSE MdMerge(oth.md, res.md)]

\* node.py:428-446: `res` stays the result object but takes `oth`'s look
ReplaceSelfFlags(res, oth) ==
    [res EXCEPT !.pr    = oth.pr,
                !.del   = oth.del,
                !.safe  = IF oth.safe # "N" THEN AndTri(NotNoneOr(res.safe, "T"), oth.safe) ELSE @,
                !.isafe = IF oth.isafe = "F" /\ ~Mut("MergeLaundersUnsafe") THEN "F" ELSE @,
                !.dsafe = IF DefaultSafeOverwrite THEN oth.dsafe ELSE AndTri(res.dsafe, oth.dsafe),
                !.md    = MdMerge(res.md, oth.md)]

\* _replace_other ends with `ret._propagate_implicit_values()` since the fix
PropagateO(n) == IF Mut("MergeLaundersUnsafe") THEN n ELSE Propagate(n)

\* node.py:468-505 _maybe_promote: `res` is about to replace `oth`; when `oth`
\* has the more specific class, `oth`'s object survives with `res`'s content
\* and attributes.  Returns <<node, promoted?>>.
Promotes(res, oth) ==
    /\ res.k # oth.k
    /\ IsComposed(res) /\ IsComposed(oth)
    /\ \/ (res.k = "dict" /\ IsFn(oth))                 \* plain dict replaces !call/!bind
       \/ (res.k = "list" /\ oth.k \in {"path", "rec"})  \* plain list replaces !path / !rec
       \/ (res.k = "list" /\ IsFn(oth))                 \* plain list replaces !call/!bind
Promote(res, oth) ==
    LET kw   == ChildKw([oth EXCEPT !.ch = <<>>])
        keys == IF res.k = "list" /\ IsFn(oth) THEN [i \in 1..Len(res.ch) |-> IKey(i - 1)] ELSE NKeys(res)
        chs  == [i \in 1..Len(res.ch) |-> <<keys[i], Adopt(res.ch[i][2], kw, FALSE, PrNone)>>]
    \* node.py _take_over: the promoted object takes over the attributes of `res`, but stays unsafe if it inherited unsafety
    \* (mutation MergeLaundersUnsafe: the code before that fix, `other.__dict__.update(self.__dict__)` and nothing else, which
    \* let a safe list merged onto an unsafe !call / !bind make it safe)
    IN [res EXCEPT !.k = oth.k, !.fn = oth.fn, !.ref = IF IsFn(oth) THEN oth.ref ELSE @, !.ch = chs,
                   !.isafe = IF oth.isafe = "F" /\ ~Mut("MergeLaundersUnsafe") THEN "F" ELSE @]

\* a merge result: the node and which of the two objects it is ("self"/"other")
R(n, id) == [n |-> n, id |-> id]

\* `self._replace_self(other, allow_promotions=True)` / `self._replace_other(...)`
\* from the point of view of Merge(self, other): who is the result object
FinishSelfWins(self, other) ==          \* self._replace_other(other, promote)
    LET s == ReplaceOtherFlags(self, other)
    IN IF Promotes(s, other) THEN R(PropagateO(Promote(s, other)), "other") ELSE R(PropagateO(s), "self")
FinishOtherLook(self, other) ==         \* self._replace_self(other, promote)
    LET s == ReplaceSelfFlags(self, other)
    IN IF Promotes(s, other) THEN R(Propagate(Promote(s, other)), "other") ELSE R(Propagate(s), "self")
FinishOtherObject(self, other) ==       \* other._replace_other(self, promote)  (self was emptied)
    LET o == ReplaceOtherFlags(other, self)
    IN IF Promotes(o, self) THEN R(PropagateO(Promote(o, self)), "self") ELSE R(PropagateO(o), "other")

\* node.py:328-333 the leaf rule
LeafRule(self, other) ==
    IF HasPriorityOver(self, other, FALSE)
    THEN R(PropagateO(ReplaceOtherFlags(self, other)), "self")
    ELSE R(PropagateO(ReplaceOtherFlags(other, self)), "other")

----------------------------------------------------------------------------
\* composed.py:339-343 / node.py:394-398 _require_all_new: first offending path
\* in pre-order, or <<"ok">>

RECURSIVE Preorder(_, _)
Preorder(n, prefix) ==
    <<prefix>> \o
    (IF IsComposed(n) /\ Len(n.ch) > 0
     THEN LET F[i \in 0..Len(n.ch)] ==
                IF i = 0 THEN <<>> ELSE F[i-1] \o Preorder(n.ch[i][2], Append(prefix, n.ch[i][1]))
          IN F[Len(n.ch)]
     ELSE <<>>)

NotNewOffenders(n, prefix, exceptions, includeSelf) ==
    SelectSeq(IF Mut("NotNewShallow") THEN <<prefix>> ELSE Preorder(n, prefix),
              LAMBDA p : /\ (includeSelf \/ p # prefix)
                         /\ ~EffNew(At(n, SubSeq(p, Len(prefix) + 1, Len(p))))
                         /\ p \notin exceptions)

----------------------------------------------------------------------------
\* composed.py:162-187 filter_nodes as used by the delete rule (composed.py:288-294):
\* an older entry survives iff it strictly outranks the newer node found by
\* following its path - relative to the merge point - as far as it exists.

StillThere(n) == IF IsFn(n) /\ FnTruthyWhenEmpty THEN TRUE ELSE ~IsEmpty(n)

RECURSIVE Prune(_, _, _, _)
Prune(self, rel, other, abs) ==
    LET kept == [i \in 1..Len(self.ch) |->
                   LET key   == self.ch[i][1]
                       c     == self.ch[i][2]
                       cp    == Append(rel, key)
                       look  == IF AbsLookup THEN abs \o cp ELSE cp
                       keep0 == HasPriorityOver(c, FirstNotMissing(other, look), Mut("PruneEqualPriority"))
                       c1    == IF IsComposed(c) THEN Prune(c, cp, other, abs) ELSE c
                       keep  == keep0 \/ (IsComposed(c) /\ StillThere(c1))
                   IN <<keep, key, c1>>]
        rest == SelectSeq(kept, LAMBDA e : e[1])
        ch   == [i \in 1..Len(rest) |-> <<rest[i][2], rest[i][3]>>]
    IN [self EXCEPT !.ch = IF IsList(self) THEN Renumber(ch) ELSE ch]

\* the paths filter_nodes reports as removed (absolute)
RECURSIVE PrunedPaths(_, _, _, _)
PrunedPaths(self, rel, other, abs) ==
    UNION { LET key   == self.ch[i][1]
                c     == self.ch[i][2]
                cp    == Append(rel, key)
                look  == IF AbsLookup THEN abs \o cp ELSE cp
                keep0 == HasPriorityOver(c, FirstNotMissing(other, look), FALSE)
                c1    == IF IsComposed(c) THEN Prune(c, cp, other, abs) ELSE c
                keep  == keep0 \/ (IsComposed(c) /\ StillThere(c1))
            IN (IF IsComposed(c) THEN PrunedPaths(c, cp, other, abs) ELSE {})
               \cup (IF keep THEN {} ELSE {abs \o cp})
          : i \in 1..Len(self.ch) }

\* list.py:145-152 keep_if_exists: deleting entries of the newer list that are
\* outranked by what is already there are dropped before merging
RECURSIVE PreFilter(_, _, _)
PreFilter(other, rel, self) ==
    LET kept == [i \in 1..Len(other.ch) |->
                   LET key   == other.ch[i][1]
                       c     == other.ch[i][2]
                       cp    == Append(rel, key)
                       keep0 == ~EffDel(c) \/ HasPriorityOver(c, FirstNotMissing(self, cp), TRUE)
                       c1    == IF IsComposed(c) THEN PreFilter(c, cp, self) ELSE c
                       keep  == keep0 \/ (IsComposed(c) /\ StillThere(c1))
                   IN <<keep, key, c1>>]
        rest == SelectSeq(kept, LAMBDA e : e[1])
        ch   == [i \in 1..Len(rest) |-> <<rest[i][2], rest[i][3]>>]
    IN [other EXCEPT !.ch = IF IsList(other) THEN Renumber(ch) ELSE ch]

----------------------------------------------------------------------------
ValidIndex(l, k) == IsIntKey(k) /\ k.n >= 0 /\ k.n < Len(l.ch)

StrLike(n) == (n.k = "scalar" /\ IsStrAtom(n.v)) \/ n.k \in {"xref", "prev", "import", "eval", "fstr"}
StrOf(n) == IF n.k \in {"xref", "prev"} THEN PathStr(n.ref) ELSE n.v[2]
\* A function node whose target name cannot be imported carries the marker NoImport in its (otherwise unused) ref field;
\* the projection of the library's trees sets it by trying the import.  By convention of the universes every name written
\* after !call: / !bind: / !import and every string scalar is importable, a path expression or evaluated code is not.
NoImport == <<SKey("?")>>
\* (the string scalars of the universes / generators that are plain data rather than names; strings are opaque to TLC)
PlainStrings == {"x", "y", "z", "v", "", "1", "12", "2.5", "yes", "8080", "808", "true", "null", "a\\b", "x{1}", "1+1"}
ImportMark(n) == IF n.k \in {"xref", "prev", "eval", "fstr"} \/ (n.k = "scalar" /\ n.v[2] \in PlainStrings) THEN NoImport ELSE <<>>

RECURSIVE Merge(_, _, _), MergeKids(_, _, _, _)

\* on_merge dispatch by the class of `self`
Merge(self, other, path) ==
    IF ~IsComposed(self) THEN LeafRule(self, other)
    ELSE IF IsFn(self) /\ StrLike(other)
    THEN \* function.py:52-60 a string names a new target (`isinstance(other, str)`: every node class derived
         \* from ConfigScalar(str) counts - plain strings, but also !xref, !prev, !import, !eval and f-string nodes)
         IF HasPriorityOver(other, self, TRUE)
         THEN R(Propagate(ReplaceSelfFlags([self EXCEPT !.fn = StrOf(other), !.ref = ImportMark(other), !.ch = <<>>], other)), "self")
         ELSE R(PropagateO(ReplaceOtherFlags(self, other)), "self")
    ELSE IF IsFn(self) /\ IsFn(other) /\ self.fn # other.fn /\ ~HasPriorityOver(other, self, TRUE)
    THEN R(PropagateO(ReplaceOtherFlags(self, other)), "self")     \* function.py:67-70
    ELSE
    LET self0 == IF IsFn(self) /\ IsFn(other) /\ self.fn # other.fn
                 THEN [self EXCEPT !.fn = other.fn, !.ref = other.ref, !.ch = IF EffDel(other) THEN <<>> ELSE @]
                 ELSE self
        badKeys == IsList(self0) /\ IsDict(other) /\ \E i \in 1..Len(other.ch) : ~ValidIndex(self0, other.ch[i][1])
        other1 == IF IsList(self0) /\ IsComposed(other) THEN PreFilter(other, <<>>, self0) ELSE other
    IN
    IF badKeys THEN Err("MergeError", path, <<>>)                   \* list.py:133-143 (names keys, not a node)
    ELSE IF ~IsComposed(other1) THEN LeafRule(self0, other1)         \* composed.py:285-286
    ELSE
    LET del     == EffDel(other1) \/ Mut("PruneAlways")
        self1   == IF del THEN Prune(self0, <<>>, other1, path) ELSE self0
        removed == IF del THEN PrunedPaths(self0, <<>>, other1, path) ELSE {}
    IN
    IF del /\ IsEmpty(self1) /\ HasPriorityOver(other1, self1, TRUE)
    THEN LET off == NotNewOffenders(other1, path, removed \cup {path}, TRUE)
         IN IF off # <<>> THEN Err("MergeError", path, off[1])
            ELSE FinishOtherObject(self1, other1)
    ELSE
    LET s2 == MergeKids(self1, other1, path, 1)
    IN IF IsErr(s2) THEN s2
       ELSE IF HasPriorityOver(other1, s2, TRUE) THEN FinishOtherLook(s2, other1)
       ELSE FinishSelfWins(s2, other1)

\* composed.py:305-325: the children of `other`, in order, into `self`
MergeKids(self, other, path, i) ==
    IF i > Len(other.ch) THEN self
    ELSE
    LET key   == other.ch[i][1]
        value == other.ch[i][2]
        kp    == Append(path, key)
    IN
    IF HasChild(self, key) /\ value = Child(self, key) /\ IsComposed(value) /\ IsEmpty(value)
    THEN \* clear.py hands the emptied older node itself to the newer document, so the
         \* merge meets ONE object on both sides: nothing is merged.  (F12, before the
         \* fix: an explicit !del carried by that node removed the key, composed.py:315.)
         \* Two distinct but equal empty containers merge to the same data.
         MergeKids(IF ClearDropsDelTagged /\ ExplicitDelete(value) /\ ~Truthy(value)
                   THEN DelChildRaw(self, key) ELSE self, other, path, i + 1)
    ELSE IF ~HasChild(self, key) /\ Mut("DropNewKeys") THEN MergeKids(self, other, path, i + 1)
    ELSE IF ~HasChild(self, key)
    THEN LET off == NotNewOffenders(value, kp, {}, TRUE)
         IN IF off # <<>> THEN Err("MergeError", path, off[1])
            ELSE IF IsList(self) /\ ~IsIntKey(key) THEN Err("MergeError", path, <<>>)
            ELSE MergeKids(SetChild(self, IF IsList(self) THEN IKey(Len(self.ch)) ELSE key, value), other, path, i + 1)
    ELSE
    LET child == Child(self, key)
        r     == Merge(child, value, kp)
    IN
    IF IsErr(r) THEN r
    ELSE IF IsComposed(child)
    THEN IF ~Truthy(r.n) /\ ~HasPriorityOver(r.n, value, FALSE) /\ ExplicitDelete(value)
         THEN MergeKids(DelChildRaw(self, key), other, path, i + 1)
         ELSE IF r.id # "self" THEN MergeKids(SetChild(self, key, r.n), other, path, i + 1)
         ELSE MergeKids(SetChildRaw(self, key, r.n), other, path, i + 1)
    ELSE IF r.id # "self"
    THEN LET off == NotNewOffenders(r.n, kp, {}, FALSE)
         IN IF off # <<>> THEN Err("MergeError", path, off[1])
            ELSE IF ~Truthy(r.n) /\ ExplicitDelete(r.n)
            THEN MergeKids(DelChildRaw(self, key), other, path, i + 1)
            ELSE MergeKids(SetChild(self, key, r.n), other, path, i + 1)
    ELSE MergeKids(SetChildRaw(self, key, r.n), other, path, i + 1)

----------------------------------------------------------------------------
\* Premerge (node.py:304-312, composed.py:281-282): the newer document is
\* walked in document order; !append/!extend/!prev/!clear act on `into`.
\* State threaded through: <<other', into'>> or an error.

PlainListOf(n, dsafe) ==      \* ConfigList(self): a fresh plain list around the same elements
    AdoptChildren([MkNode("list", NoVal, n.ch) EXCEPT !.dsafe = dsafe], FALSE)

\* list.extend: each element appended through set_child
ExtendList(l, elems) ==
    LET F[i \in 0..Len(elems)] ==
          IF i = 0 THEN l ELSE SetChild(F[i-1], IKey(Len(F[i-1].ch)), elems[i][2])
    IN F[Len(elems)]

RECURSIVE RemovePathAt(_, _)
RemovePathAt(n, p) ==
    IF Len(p) = 1 THEN DelChildRaw(n, p[1])
    ELSE SetChildRaw(n, Head(p), RemovePathAt(Child(n, Head(p)), Tail(p)))

RECURSIVE PremergeNode(_, _, _, _), PremergeKids(_, _, _, _)

\* returns [o |-> node', into |-> into'] or an error; intoNone = first stage
PremergeNode(n, path, into, intoNone) ==
    CASE n.k = "append" ->
           IF intoNone THEN [o |-> PlainListOf(n, "T"), into |-> into]
           ELSE IF ~HasPath(into, path) \/ path = <<>> THEN Err("PremergeError", path, path)
           ELSE LET t == At(into, path)
                IN IF ~IsList(t) THEN Err("PremergeError", path, path)
                   ELSE IF Mut("AppendPrepends")
                   THEN [o |-> ExtendList([t EXCEPT !.ch = <<>>], n.ch \o t.ch), into |-> RemovePathAt(into, path)]
                   ELSE [o |-> ExtendList(t, n.ch), into |-> RemovePathAt(into, path)]
      [] n.k = "extend" ->
           IF intoNone \/ ~HasPath(into, path) \/ path = <<>> THEN [o |-> PlainListOf(n, "T"), into |-> into]
           ELSE LET t == At(into, path)
                IN IF ~IsList(t) THEN [o |-> PlainListOf(n, "T"), into |-> into]
                   ELSE [o |-> ExtendList(t, n.ch), into |-> RemovePathAt(into, path)]
      [] n.k = "prev" ->
           IF intoNone \/ n.ref = <<>> \/ ~HasPath(into, n.ref) THEN Err("PremergeError", path, n.ref)
           ELSE [o |-> At(into, n.ref), into |-> IF Mut("PrevCopies") THEN into ELSE RemovePathAt(into, n.ref)]
      [] n.k = "clear" ->
           IF intoNone \/ ~HasPath(into, path) THEN Err("PremergeError", path, path)
           ELSE LET t == At(into, path)
                IN IF ~IsComposed(t) THEN Err("PremergeError", path, path)
                   ELSE IF Mut("ClearKeepsContent") THEN [o |-> t, into |-> into]
                   ELSE [o |-> [t EXCEPT !.ch = <<>>], into |-> SetAt(into, path, [t EXCEPT !.ch = <<>>])]
      [] IsComposed(n) -> PremergeKids(n, path, into, intoNone)
      [] OTHER -> [o |-> n, into |-> into]

PremergeKids(n, path, into, intoNone) ==
    LET F[i \in 0..Len(n.ch)] ==
          IF i = 0 THEN [o |-> n, into |-> into, sets |-> <<>>]
          ELSE LET prev == F[i-1]
               IN IF IsErr(prev) THEN prev
                  ELSE LET key == n.ch[i][1]
                           c   == n.ch[i][2]
                           r   == PremergeNode(c, Append(path, key), prev.into, intoNone)
                       IN IF IsErr(r) THEN r
                          ELSE [o |-> prev.o, into |-> r.into,
                                sets |-> IF r.o = c /\ c.k \notin {"append","extend","prev","clear"}
                                         THEN prev.sets ELSE Append(prev.sets, <<key, r.o, c.k>>)]
        last == F[Len(n.ch)]
    IN IF IsErr(last) THEN last
       ELSE \* composed.py:213-214: replaced children are re-set (set_child: adopted by
            \* their new parent) after the walk.  A composed child that was walked in
            \* place returns itself, but its content may have changed: it is carried
            \* over without re-adoption.  The node a !clear returns is the older tree's
            \* own node: its re-adoption is visible in `into` as well.
            LET G[j \in 0..Len(last.sets)] ==
                  IF j = 0 THEN [o |-> n, into |-> last.into]
                  ELSE LET e  == last.sets[j]
                           g  == G[j-1]
                       IN IF e[3] \in {"append", "extend", "prev"}
                          THEN [o |-> SetChild(g.o, e[1], e[2]), into |-> g.into]
                          ELSE IF e[3] = "clear"
                          THEN LET o2 == SetChild(g.o, e[1], e[2])
                               IN [o |-> o2, into |-> SetAt(g.into, Append(path, e[1]), Child(o2, e[1]))]
                          ELSE [o |-> SetChildRaw(g.o, e[1], e[2]), into |-> g.into]
            IN G[Len(last.sets)]

----------------------------------------------------------------------------
\* node.py:315-322 `self.ayns.merge(other)` for two top-level documents
MergeDocs(self, other) ==
    LET pm == PremergeKids(other, <<>>, self, FALSE)
    IN IF IsErr(pm) THEN pm
       ELSE LET r == Merge(pm.into, pm.o, <<>>)
            IN IF IsErr(r) THEN r ELSE r.n

\* builder.py flatten, first stage: premerge(None) then _require_all_new
FirstDoc(d) ==
    LET pm == PremergeKids(d, <<>>, d, TRUE)
    IN IF IsErr(pm) THEN pm
       ELSE LET off == NotNewOffenders(pm.o, <<>>, {}, TRUE)
            IN IF off # <<>> /\ ~Mut("NotNewSkipsFirst") THEN Err("MergeError", <<>>, off[1]) ELSE pm.o

\* the left fold of builder.py:flatten over parsed documents
FoldDocs(ds) ==
    LET F[i \in 1..Len(ds)] ==
          IF i = 1 THEN FirstDoc(ds[1])
          ELSE IF IsErr(F[i-1]) THEN F[i-1] ELSE MergeDocs(F[i-1], ds[i])
    IN F[Len(ds)]

=============================================================================
