-------------------------------- MODULE MC_Eval ------------------------------
(***************************************************************************)
(* Build, construct, evaluate: AyBuild followed by AyEval, plus the Config  *)
(* life cycle of C11 (evaluate the kept source again, mutate a result).     *)
(***************************************************************************)
EXTENDS AyBuild, AyEval, Props_EvalUni, Props_C07

CONSTANT MaxEvals      \* how many times the kept source is evaluated (C11)

VARIABLES results      \* earlier evaluations of the same source: [root, data snapshot, ids]

allvars == <<vars, evars, results>>

MInit == Init /\ EInit /\ results = <<>>

BuildStep == Next /\ UNCHANGED <<evars, results>>

\* config.py:41-47: deep copy of the merged tree, then EvalContext.evaluate
StartEval ==
    /\ phase = "constructed" /\ built.status = "ok" /\ status = "idle"
    /\ Start(acc) /\ UNCHANGED <<vars, results>>

EvalStep == EStep /\ UNCHANGED <<vars, results>>

ReachIds(h, id) == {e[2] : e \in ResultIds(h, id, <<>>)}

\* Config(cfg.ayns.source): the source is evaluated once more; the heap goes on growing
Again ==
    /\ status = "done" /\ Len(results) + 1 < MaxEvals
    /\ results' = Append(results, [root |-> RootId, data |-> ValData(heap, RootId), ids |-> ReachIds(heap, RootId)])
    /\ status' = "running" /\ stack' = <<Frame(<<>>, work)>> /\ calls' = <<>> /\ evlog' = <<>>
    /\ cache' = IF Mut("EvalSharesHeap") THEN cache ELSE <<>>     \* (mutation: the evaluation cache survives the evaluation)
    /\ taint' = {} /\ over' = <<>>
    /\ UNCHANGED <<work, heap, reqsafe, vars>>

\* the user mutates EVERY container of an earlier result (appends an element / sets a new key)
Mutated(h, id) == Len(h[id].ch) > 0 /\ h[id].ch[Len(h[id].ch)][1] = SKey("mutated")
Mutate ==
    /\ status = "done" /\ results # <<>>
    /\ \E r \in 1..Len(results) :
          LET tgt == {id \in results[r].ids : heap[id].k \in {"list", "bunch"} /\ ~Mutated(heap, id)}
              new == Len(heap) + 1
          IN /\ tgt # {}
             /\ heap' = Append([id \in 1..Len(heap) |-> IF id \in tgt THEN [heap[id] EXCEPT !.ch = Append(@, <<SKey("mutated"), new>>)]
                                                        ELSE heap[id]], VAtom(Atom("i", "99")))
    /\ UNCHANGED <<work, stack, cache, calls, evlog, reqsafe, taint, over, status, vars, results>>

MNext == BuildStep \/ StartEval \/ EvalStep \/ Again \/ Mutate
MSpec == MInit /\ [][MNext]_allvars /\ WF_allvars(EvalStep)

MTerminal == \/ phase = "failed"
             \/ (phase = "constructed" /\ built.status # "ok")
             \/ (ETerminal /\ (status # "done" \/ Len(results) + 1 >= MaxEvals))

HistDocs  == [i \in 1..Len(hist) |-> hist[i].sd]
HistSafes == [i \in 1..Len(hist) |-> hist[i].safe]
Ids == {<<p, cache[p]>> : p \in DOMAIN cache}
Data == IF status = "done" THEN ValData(heap, RootId) ELSE Plain("none", NoVal, <<>>)

\* ---- invariants -------------------------------------------------------------
CompactP(p) == [j \in 1..Len(p) |-> KeyStr(p[j])]
ECheck(name, ok) ==
    ok \/ (PrintT(ToJson([cex |-> name, docs |-> HistDocs, status |-> status,
                          calls |-> [i \in 1..Len(calls) |-> CompactP(calls[i].p)]])) /\ FALSE)

Inv_C09 == ECheck("Inv_C09", ETerminal => C09_Holds(work, status, Ids))
\* evaluation never runs away: the number of evaluate_node calls is bounded by the square of the tree size
StepBound == ECheck("StepBound", status # "idle" => Len(evlog) <= 2 * Cardinality(PathsOf(work)) * Cardinality(PathsOf(work)) + 2)
Terminates == (status = "running") ~> ETerminal

Inv_C10 == ECheck("Inv_C10", status # "idle" =>
               /\ C10_AtMostOnce(calls) /\ C10_OnlyExisting(ExpandRec(work), calls)
               /\ C10_ExactlyOnce(ExpandRec(work), status, calls)
               /\ C10_OrderFree(ExpandRec(work), status, Data)
               /\ C10_SameObject(ExpandRec(work), status, Ids))

Inv_C11 == ECheck("Inv_C11", status = "done" =>
               /\ C11_Mirror(work, status, Data)
               /\ \A r \in 1..Len(results) :
                      /\ ValData(heap, RootId) = results[r].data        \* re-evaluation gives an equal result
                      /\ ReachIds(heap, RootId) \cap {id \in results[r].ids : heap[id].k # "atom"} = {})   \* sharing nothing mutable
\* C07: the call log with the DATA every call received
CallsData == [i \in 1..Len(calls) |-> [p |-> calls[i].p, fn |-> calls[i].fn,
                                        args |-> [a \in 1..Len(calls[i].args) |-> <<calls[i].args[a][1], ValData(heap, calls[i].args[a][2])>>]]]
Inv_C07_Trees == ECheck("Inv_C07_Trees", (status # "idle" /\ C07_InDomain(HistDocs, HistSafes)) =>
                         /\ C07_TaintSound(work, HistDocs, HistSafes)
                         /\ \A i \in 1..Len(over) : C07_TaintSound(over[i][2], HistDocs, HistSafes))     \* ... and in what !rec nodes built
Inv_C07_Eval  == ECheck("Inv_C07_Eval", status # "idle" => C07_EvalHolds(work, status, CallsData, Data, HistDocs, HistSafes))
C07_Witness   == ETerminal /\ C07_InDomain(HistDocs, HistSafes) /\ C07_TaintedDyn(work, HistDocs, HistSafes) # {}

SourceStable == [][status # "idle" => work' = work]_allvars

\* ---- behaviours for replay ----------------------------------------------------
Classes == LET ri == ResultIds(heap, RootId, <<>>)
               objs == {e \in ri : heap[e[2]].k # "atom"}
           IN {{CompactP(e[1]) : e \in {x \in objs : x[2] = id}} : id \in {e[2] : e \in objs}}

Outcome == [status |-> IF phase = "failed" THEN acc.err
                       ELSE IF phase = "constructed" /\ built.status # "ok" THEN built.status ELSE status,
            data |-> IF status = "done" THEN Compact(Data) ELSE <<>>,
            classes |-> IF status = "done" THEN Classes ELSE {},
            calls |-> [i \in 1..Len(calls) |-> [p |-> CompactP(calls[i].p), fn |-> calls[i].fn]],
            ev |-> [i \in 1..Len(evlog) |-> CompactP(evlog[i])]]

FirstOutcome == \/ phase = "failed" \/ (phase = "constructed" /\ built.status # "ok") \/ ETerminal
Emit == (FirstOutcome /\ results = <<>>) =>
            PrintT(ToJson([h |-> [i \in 1..Len(hist) |-> hist[i].i], s |-> HistSafes, o |-> Outcome]))

=============================================================================
