----------------------------- MODULE AyBuildTrace ---------------------------
(***************************************************************************)
(* Trace validation for the builder state machine (direction B: code ->     *)
(* spec).  The harness records, for many merge histories driven through    *)
(* the real library, one JSON line                                          *)
(*    {"tid": n, "ev": [ {"e": "AddSource", "sd": .., "safe": ..},          *)
(*                       {"e": "FlattenFirst", "acc": ..},                  *)
(*                       {"e": "MergeStage", "acc": ..}, .., {"e":"Finish"}]}*)
(* Every event is one action of AyBuild; the logged projection of the       *)
(* library's state after the step is compared with the specification's      *)
(* state.  Verdicts are total: the first disagreement is classified         *)
(* ("data": evaluated content differs, "flags": only merge flags differ,    *)
(* "err": error class / success differs) and printed with the trace id.     *)
(***************************************************************************)
EXTENDS AyBuild, IOUtils, TLCExt

Traces == ndJsonDeserialize(IOEnv.TRACE_FILE)

VARIABLES tid, l, verdict

tvars == <<vars, tid, l, verdict>>

RECURSIVE SDofJ(_)
SDofJ(j) == [j EXCEPT !.md = {<<j.md[x][1], j.md[x][2]>> : x \in DOMAIN j.md},
                      !.ch = [i \in 1..Len(j.ch) |-> <<j.ch[i][1], SDofJ(j.ch[i][2])>>]]
  
RECURSIVE NodeOfJ(_)
NodeOfJ(j) == IF "err" \in DOMAIN j THEN j
              ELSE [j EXCEPT !.md = {<<j.md[x][1], j.md[x][2]>> : x \in DOMAIN j.md},
                             !.ch = [i \in 1..Len(j.ch) |-> <<j.ch[i][1], NodeOfJ(j.ch[i][2])>>]]

Ev == Traces[tid].ev

TInit == /\ Init
         /\ tid \in 1..Len(Traces)
         /\ l = 1
         /\ verdict = "ok"

IsEvent(e) == l <= Len(Ev) /\ Ev[l].e = e /\ l' = l + 1

\* how the library's logged state relates to the specification's state
Compare(model, logged) ==
    IF IsErr(model) /\ IsErr(logged)
    THEN (IF model.err = logged.err THEN "ok" ELSE "err")
    ELSE IF IsErr(model) \/ IsErr(logged) THEN "err"
    ELSE IF model = logged THEN "ok"
    ELSE IF DataOf(model) = DataOf(logged) THEN "flags"
    ELSE "data"

Judge(model, logged) ==
    verdict' = IF verdict # "ok" THEN verdict
               ELSE LET c == Compare(model, logged)
                    IN IF c = "ok" THEN "ok" ELSE c

TAddSource == /\ IsEvent("AddSource")
              /\ AddSource(SDofJ(Ev[l].sd), Ev[l].safe)
              /\ UNCHANGED <<tid, verdict>>
TFlattenFirst == /\ IsEvent("FlattenFirst") /\ FlattenFirst
                 /\ Judge(acc', NodeOfJ(Ev[l].acc))
                 /\ UNCHANGED tid
TMergeStage == /\ IsEvent("MergeStage") /\ MergeStage
               /\ Judge(acc', NodeOfJ(Ev[l].acc))
               /\ UNCHANGED tid
TFinish == /\ IsEvent("Finish") /\ Finish /\ UNCHANGED <<tid, verdict>>

TNext == TAddSource \/ TFlattenFirst \/ TMergeStage \/ TFinish

TSpec == TInit /\ [][TNext]_tvars

\* one line per trace, printed at the state where the whole trace is consumed
\* (or where the specification can take no step that matches the next event)
Report ==
    (l = Len(Ev) + 1) =>
        PrintT(<<"TRACE", Traces[tid].tid, verdict,
                 IF verdict = "ok" THEN "" ELSE ToJson([model |-> accs, k |-> k])>>)

\* every trace must be consumed to its end: checked by the harness from the
\* TRACE lines (a trace with no line was rejected by the specification)
=============================================================================
