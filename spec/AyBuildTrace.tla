----------------------------- MODULE AyBuildTrace ---------------------------
(***************************************************************************)
(* Trace validation for the builder state machine (direction B: code ->     *)
(* spec).  The harness records, for many merge histories driven through    *)
(* the real library, one JSON line                                          *)
(*    {"tid": n, "ev": [ {"e": "AddSource", "sd": .., "safe": ..},          *)
(*                       {"e": "FlattenFirst", "acc": ..},                  *)
(*                       {"e": "MergeStage", "acc": ..}, .., {"e":"Finish"}]}*)
(* Every event is one action of AyBuild; the logged projection of the       *)
(* library's state after the step is compared with the specification's      *)
(* state.  Verdicts are total: the first disagreement is classified         *)
(* ("data": evaluated content differs, "flags": only merge flags differ,    *)
(* "err": error class / success differs) and printed with the trace id.     *)
(***************************************************************************)
EXTENDS AyBuild, Props_C01, Props_C02, Props_C03, Props_C04, Props_C05, Props_C08, Props_C14, Props_C15, Props_C16, IOUtils, TLCExt

CONSTANT Prop   \* which property's declarative formula is evaluated on the logged outcomes

Traces == ndJsonDeserialize(IOEnv.TRACE_FILE)

VARIABLES tid, l, verdict,
          louts,  \* the outcomes the library produced, as logged, stage by stage
          lbuilt  \* the outcome of Config construction, as logged

tvars == <<vars, tid, l, verdict, louts, lbuilt>>

RECURSIVE PlainOfJ(_)
PlainOfJ(j) == Plain(j.k, j.v, [i \in 1..Len(j.ch) |-> <<j.ch[i][1], PlainOfJ(j.ch[i][2])>>])
RECURSIVE NodeOfJ(_)
NodeOfJ(j) == IF "err" \in DOMAIN j THEN j
              ELSE [j EXCEPT !.md = {<<j.md[x][1], j.md[x][2]>> : x \in DOMAIN j.md},
                             !.ch = [i \in 1..Len(j.ch) |-> <<j.ch[i][1], NodeOfJ(j.ch[i][2])>>]]

Ev == Traces[tid].ev

TInit == /\ Init
         /\ tid \in 1..Len(Traces)
         /\ l = 1
         /\ verdict = "ok"
         /\ louts = <<>>
         /\ lbuilt = [status |-> "none", paths |-> <<>>, calls |-> 0, data |-> Plain("none", NoVal, <<>>)]

IsEvent(e) == l <= Len(Ev) /\ Ev[l].e = e /\ l' = l + 1

\* how the library's logged state relates to the specification's state
Compare(model, logged) ==
    IF IsErr(model) /\ IsErr(logged)
    THEN (IF model.err = logged.err THEN "ok" ELSE "err")
    ELSE IF IsErr(model) \/ IsErr(logged) THEN "err"
    ELSE IF model = logged THEN "ok"
    ELSE IF DataOf(model) = DataOf(logged) THEN "flags"
    ELSE "data"

Judge(model, logged) ==
    verdict' = IF verdict # "ok" THEN verdict
               ELSE LET c == Compare(model, logged)
                    IN IF c = "ok" THEN "ok" ELSE c

TAddSource == /\ IsEvent("AddSource")
              /\ AddSource(0, SDofJ(Ev[l].sd), Ev[l].safe)
              /\ UNCHANGED <<tid, verdict, louts, lbuilt>>
TFlattenFirst == /\ IsEvent("FlattenFirst") /\ FlattenFirst
                 /\ Judge(acc', NodeOfJ(Ev[l].acc))
                 /\ louts' = Append(louts, NodeOfJ(Ev[l].acc))
                 /\ UNCHANGED <<tid, lbuilt>>
TMergeStage == /\ IsEvent("MergeStage") /\ MergeStage
               /\ Judge(acc', NodeOfJ(Ev[l].acc))
               /\ louts' = Append(louts, NodeOfJ(Ev[l].acc))
               /\ UNCHANGED <<tid, lbuilt>>
TFinish == /\ IsEvent("Finish") /\ Finish /\ UNCHANGED <<tid, verdict, louts, lbuilt>>

\* The specification has already failed (a stage raised an error in the model)
\* but the library went on: the remaining events are consumed without a model
\* step so that the verdict stays total; the disagreement is an "err" verdict.
TBeyondFailure ==
    /\ phase = "failed" /\ l <= Len(Ev) /\ l' = l + 1
    /\ verdict' = IF verdict = "ok" THEN "err" ELSE verdict
    /\ louts' = IF "acc" \in DOMAIN Ev[l] THEN Append(louts, NodeOfJ(Ev[l].acc)) ELSE louts
    /\ UNCHANGED <<vars, tid, lbuilt>>

\* the library constructed the Config: status and reported paths are logged
TConstruct == /\ IsEvent("Construct") /\ Construct
              /\ lbuilt' = [status |-> Ev[l].status, paths |-> Ev[l].paths, calls |-> Ev[l].calls,
                            data |-> IF "data" \in DOMAIN Ev[l] THEN PlainOfJ(Ev[l].data) ELSE Plain("none", NoVal, <<>>)]
              /\ verdict' = IF verdict # "ok" THEN verdict
                            ELSE IF (built'.status = "RequiredError") <=> (Ev[l].status = "RequiredError") THEN "ok" ELSE "err"
              /\ UNCHANGED <<tid, louts>>

TNext == TConstruct \/ TAddSource \/ TFlattenFirst \/ TMergeStage \/ TFinish \/ TBeyondFailure

TSpec == TInit /\ [][TNext]_tvars

HistDocs  == [i \in 1..Len(hist) |-> hist[i].sd]
HistSafes == [i \in 1..Len(hist) |-> hist[i].safe]

\* Related histories (relational properties C05, C15): the harness drove the
\* library along transformed copies of the same history and logged their outcomes
Rel == IF "rel" \in DOMAIN Traces[tid] THEN Traces[tid].rel ELSE <<>>
RelOuts(r) == [j \in 1..Len(r.outs) |-> NodeOfJ(r.outs[j])]
RelDocs(r) == [j \in 1..Len(r.docs) |-> SDofJ(r.docs[j])]
\* what the specification computes for a related history (as far as the first error)
UpToError(s) == IF \E j \in 1..Len(s) : IsErr(s[j])
                THEN SubSeq(s, 1, CHOOSE j \in 1..Len(s) : IsErr(s[j]) /\ \A i \in 1..(j-1) : ~IsErr(s[i]))
                ELSE s
ModelRelOuts(r) == LET ds == RelDocs(r)
                   IN UpToError([n \in 1..Len(ds) |-> FoldDocs([i \in 1..n |-> Parse(ds[i], TRUE)])])

LastOf(s) == s[Len(s)]

C05_RelOk(r, base, RO(_)) ==
    CASE r.name = "wrap"    -> C05_WrapHolds(r.keys, base, RO(r))
      [] r.name = "sibling" -> C05_SiblingDomain(HistDocs) => C05_SiblingHolds(r.path, r.keys[1], base, RO(r))
      [] OTHER -> TRUE
C05_TraceHolds(base, RO(_)) ==
    /\ \A x \in DOMAIN Rel : C05_RelOk(Rel[x], base, RO)
    /\ C05_Frame(HistDocs, base)

C15_RelOk(r, base, RO(_)) ==
        LET ro == RO(r)
        IN /\ Len(ro) >= 1 /\ Len(base) >= 1
           /\ CASE r.name \in {"repeat", "perm"} -> C15_SameUpToKeyOrder(LastOf(base), LastOf(ro))
                 [] r.name \in {"empty", "mark"}  -> C15_SameOut(LastOf(base), LastOf(ro))
                 [] r.name = "same" -> Len(ro) = Len(base) /\ \A j \in 1..Len(base) : C15_SameOut(base[j], ro[j])
                 [] OTHER -> TRUE
C15_TraceHolds(base, RO(_)) == \A x \in DOMAIN Rel : C15_RelOk(Rel[x], base, RO)

\* which related histories fail (diagnostics)
FailingRels(base, RO(_)) ==
    {x \in DOMAIN Rel : CASE Prop = "C05" -> ~C05_RelOk(Rel[x], base, RO)
                           [] Prop = "C15" -> ~C15_RelOk(Rel[x], base, RO)
                           [] OTHER -> FALSE}

\* the property's declarative formula evaluated on what the LIBRARY produced
\* ("holds" / "violated"), or "outside" when the history is not in the
\* property's stated domain
PropVerdict ==
    CASE Prop = "C02" -> IF C02_Holds(HistDocs, louts) THEN "holds" ELSE "violated"
      [] Prop = "C01" -> IF ~(Len(HistDocs) = 1 /\ C01_Vocabulary(HistDocs[1])) THEN "outside"
                         ELSE IF C01_Holds(HistDocs, louts, lbuilt.data) THEN "holds" ELSE "violated"
      [] Prop = "C03" -> IF ~C03_InDomain(HistDocs) THEN "outside"
                         ELSE IF C03_Holds(HistDocs, louts) THEN "holds" ELSE "violated"
      [] Prop = "C04" -> IF ~C04_Judged(HistDocs, louts) THEN "outside"
                         ELSE IF C04_Holds(HistDocs, louts) THEN "holds" ELSE "violated"
      [] Prop = "C05" -> IF C05_TraceHolds(louts, RelOuts) THEN "holds" ELSE "violated"
      [] Prop = "C08" -> IF ~C08_Judged(HistDocs, louts) THEN "outside"
                         ELSE IF C08_Holds(HistDocs, louts) THEN "holds" ELSE "violated"
      [] Prop = "C14" -> IF lbuilt.status = "none" THEN "outside"
                         ELSE IF C14_Holds(louts, lbuilt) /\ (Len(louts) >= 1 => C14_Survivors(HistDocs, louts[Len(louts)]))
                              THEN "holds" ELSE "violated"
      [] Prop = "C16" -> IF ~C16_Judged(HistDocs, louts) THEN "outside"
                         ELSE IF C16_Holds(HistDocs, louts) THEN "holds" ELSE "violated"
      [] Prop = "C15" -> IF ~C15_InDomain(HistDocs) THEN "outside"
                         ELSE IF C15_TraceHolds(louts, RelOuts) THEN "holds" ELSE "violated"
      [] OTHER -> "none"

\* ... and on what the SPECIFICATION computed for the same history
ModelVerdict ==
    CASE Prop = "C02" -> IF C02_Holds(HistDocs, accs) THEN "holds" ELSE "violated"
      [] Prop = "C01" -> IF C01_Holds(HistDocs, accs, Plain("none", NoVal, <<>>)) THEN "holds" ELSE "violated"
      [] Prop = "C03" -> IF C03_Holds(HistDocs, accs) THEN "holds" ELSE "violated"
      [] Prop = "C04" -> IF C04_Holds(HistDocs, accs) THEN "holds" ELSE "violated"
      [] Prop = "C05" -> IF C05_TraceHolds(accs, ModelRelOuts) THEN "holds" ELSE "violated"
      [] Prop = "C08" -> IF C08_Holds(HistDocs, accs) /\ C08_ModelNames(HistDocs, accs) THEN "holds" ELSE "violated"
      [] Prop = "C14" -> IF C14_Holds(accs, [status |-> built.status, paths |-> built.paths, calls |-> 0])
                            /\ (phase = "constructed" => C14_Survivors(HistDocs, acc)) THEN "holds" ELSE "violated"
      [] Prop = "C16" -> IF C16_Holds(HistDocs, accs) THEN "holds" ELSE "violated"
      [] Prop = "C15" -> IF ~C15_InDomain(HistDocs) \/ C15_TraceHolds(accs, ModelRelOuts) THEN "holds" ELSE "violated"
      [] OTHER -> "none"

\* one line per trace, printed at the state where the whole trace is consumed.
\* A trace for which no line appears was rejected: the specification could
\* take no step matching the next logged event.
Report ==
    (l = Len(Ev) + 1) =>
        PrintT(<<"TRACE", Traces[tid].tid, verdict, PropVerdict, ModelVerdict,
                 IF verdict = "ok" /\ PropVerdict # "violated" /\ ModelVerdict # "violated" THEN ""
                 ELSE ToJson([model |-> accs, k |-> k,
                              failing_on_library |-> FailingRels(louts, RelOuts),
                              failing_on_model |-> FailingRels(accs, ModelRelOuts)])>>)

=============================================================================
