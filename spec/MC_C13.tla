------------------------------- MODULE MC_C13 -------------------------------
(***************************************************************************)
(* Model-checking root for the merge-table half of C13: the builder state   *)
(* machine of MC_Build (AddSource / FlattenFirst / MergeStage / Finish /    *)
(* Construct over AyParse + AyMerge) with one more invariant - the          *)
(* documented function-node table, as the declarative oracle of             *)
(* Props_C13, evaluated on the history and the accumulated tree after       *)
(* every stage.                                                             *)
(***************************************************************************)
EXTENDS MC_Build, Props_C13

Inv_C13 == Check("Inv_C13", C13_Holds(HistDocs, accs))

\* the antecedent is reachable (checked as ~Witness): a function node met something inside the domain
C13_Witness == phase = "done" /\ C13_Judged(HistDocs, accs)
NotWitness13 == ~C13_Witness

----------------------------------------------------------------------------
\* A design mutation of function.py:67-70 that AyMerge does not carry (AyMerge is shared and left
\* untouched): the seeded code mutant "a LOWER-priority function node with a different target falls
\* through to the generic merge".  Falling through without `self._func = other._func` is exactly a
\* same-target merge, so the mutation is expressed on the newer document: every function node that loses
\* against an older function node of another target is given that older target before MergeDocs runs.
RECURSIVE RetargetLosers(_, _)
RetargetLosers(old, new) ==
    IF IsFn(old) /\ IsFn(new) /\ old.fn # new.fn /\ ~HasPriorityOver(new, old, TRUE)
    THEN [new EXCEPT !.fn = old.fn]
    ELSE IF IsDict(old) /\ IsDict(new)
    THEN [new EXCEPT !.ch = [i \in 1..Len(new.ch) |->
            IF HasChild(old, new.ch[i][1])
            THEN <<new.ch[i][1], RetargetLosers(Child(old, new.ch[i][1]), new.ch[i][2])>>
            ELSE new.ch[i]]]
    ELSE new

MergeStage13 ==
    /\ phase = "merging" /\ k <= Len(stages)
    /\ LET other == IF Mut("LoserFnMerges") THEN RetargetLosers(acc, stages[k]) ELSE stages[k]
           r     == MergeDocs(acc, other)
       IN /\ acc' = r /\ accs' = Append(accs, r)
          /\ phase' = IF IsErr(r) THEN "failed" ELSE "merging"
    /\ k' = k + 1
    /\ UNCHANGED <<stages, hist, built>>

Next13 == \/ \E i \in StageDocs(Len(stages) + 1), s \in SafeFlags : AddSource(i, Docs[i], s)
          \/ FlattenFirst \/ MergeStage13 \/ Finish \/ Construct
=============================================================================
