------------------------------- MODULE MC_Dump ------------------------------
(***************************************************************************)
(* Model-checking root of C18.  One state per target document of the        *)
(* universe (chosen by an action, never by Init) and source safety; the     *)
(* invariants judge the design `Dev` (the intended design is Dev = {});      *)
(* Emit prints, for the code as it is (AsIs), what the harness replays:      *)
(* the parsed tree, the tree after dump + parse, the verdict of every        *)
(* formula, the deviations that fire and the contexts that tell the two      *)
(* documents apart.                                                          *)
(* Source files (AyDump, "SOURCE FILES"): SameValue / DumpStable also range  *)
(* over FilePairs - the document read from a named file, its dump re-read as *)
(* a string, from another directory, under the same name; Emit prints the    *)
(* source file and reference directory of every `!path` node per way (pf).   *)
(* Mutations ReparseOverridesSourceFile / DumpOmitsSourceFile are refuted.   *)
(***************************************************************************)
EXTENDS AyDump, Uni

CONSTANTS Dev,        \* deviations of the design under check ({} = intended)
          AsIs,       \* deviations that reproduce the code as it is
          SrcSafes,   \* safe= values of the source holding the target
          Stages3     \* TRUE: three-stage histories as well

VARIABLES b, i, s
vars == <<b, i, s>>

\* TLC expands ONE state on one worker: a first step picks a bucket so that the
\* documents are spread over the workers
Buckets == 256

TargetIdx  == DocRange[1][1]..DocRange[1][2]
CtxIdx     == DocRange[2][1]..DocRange[2][2]
SmallIdx   == DocRange[3][1]..DocRange[3][2]

Init == b = -1 /\ i = 0 /\ s = TRUE
Next == \/ b = -1 /\ \E k \in 0..(Buckets - 1) : b' = k /\ UNCHANGED <<i, s>>
        \/ b >= 0 /\ i = 0 /\ \E j \in {x \in TargetIdx : x % Buckets = b}, f \in SrcSafes : i' = j /\ s' = f /\ UNCHANGED b
Spec == Init /\ [][Next]_vars

\* context documents are sources of their own (added with safe = True)
CtxParsed == [j \in CtxIdx |-> Parse(Docs[j], TRUE)]

\* a context = a history with a hole (0); 1, 2 and 3 stages, hole anywhere
Ctxs == {<<0>>}
        \cup {<<j, 0>> : j \in CtxIdx} \cup {<<0, j>> : j \in CtxIdx}
        \cup (IF Stages3
              THEN {<<j, k, 0>> : j \in SmallIdx, k \in SmallIdx}
                   \cup {<<j, 0, k>> : j \in SmallIdx, k \in SmallIdx}
                   \cup {<<0, j, k>> : j \in SmallIdx, k \in SmallIdx}
              ELSE {})

\* FoldDocs of the history c with x in the hole.  The part of the fold that
\* does not depend on x is a constant (evaluated once).
CtxFirst  == [j \in CtxIdx |-> FirstDoc(CtxParsed[j])]
CtxFirst2 == [j \in SmallIdx |-> [k \in SmallIdx |-> IF IsErr(CtxFirst[j]) THEN CtxFirst[j] ELSE MergeDocs(CtxFirst[j], CtxParsed[k])]]
Then(acc, d) == IF IsErr(acc) THEN acc ELSE MergeDocs(acc, d)
FoldIn(c, x, fx) ==
    IF Len(c) = 1 THEN fx
    ELSE IF Len(c) = 2 THEN (IF c[1] = 0 THEN Then(fx, CtxParsed[c[2]]) ELSE Then(CtxFirst[c[1]], x))
    ELSE IF c[1] = 0 THEN Then(Then(fx, CtxParsed[c[2]]), CtxParsed[c[3]])
    ELSE IF c[2] = 0 THEN Then(Then(CtxFirst[c[1]], x), CtxParsed[c[3]])
    ELSE Then(CtxFirst2[c[1]][c[2]], x)
T == Parse(Docs[i], s)

Fill(c, x) == [p \in 1..Len(c) |-> IF c[p] = 0 THEN x ELSE CtxParsed[c[p]]]
\* FoldIn is FoldDocs of the filled history (checked as an invariant on a sample)
Inv_FoldIn == i > 0 => \A c \in {x \in Ctxs : (x[1] + Len(x)) % 7 = i % 7} : FoldIn(c, T, FirstDoc(T)) = FoldDocs(Fill(c, T))

SameOut(x, y) == ObsREq(x, y)

Differ(t, u) == LET ft == FirstDoc(t)
                    fu == FirstDoc(u)
                IN {c \in Ctxs : ~SameOut(FoldIn(c, t, ft), FoldIn(c, u, fu))}
Interchangeable(t, u) == ~IsErr(u) /\ (u = t \/ Differ(t, u) = {})

----------------------------------------------------------------------------
\* the design under check
Inv_DumpOk          == i > 0 => ~IsErr(RoundTrip(T, Dev))
Inv_Interchangeable == i > 0 => LET u == RoundTrip(T, Dev) IN IsErr(u) \/ Interchangeable(T, u)
\* ... including what every `!path` node evaluates relative to, for each way of FilePairs (AyDump: source files)
Inv_SameValue       == i > 0 => LET u == RoundTrip(T, Dev) IN IsErr(u) \/ (SameValue(T, u) /\ SamePathsAll(T, u))
Inv_SameMd          == i > 0 => LET u == RoundTrip(T, Dev) IN IsErr(u) \/ SameMd(T, u)
\* ... including the `source_file:` keys of the `!path` mappings
Inv_DumpStable      == i > 0 => LET u == RoundTrip(T, Dev) IN IsErr(u) \/ (DumpStable(T, u, Dev) /\ SfStableAll(T, u))

\* the antecedents are reachable: some document needs a tag, some needs the
\* encoded form, some child omits a flag because of the enclosing entry
RECURSIVE AnyForm(_, _)
AnyForm(sd, f) == sd.form = f \/ \E j \in 1..Len(sd.ch) : AnyForm(sd.ch[j][2], f)
RECURSIVE Omits(_, _)
Omits(n, sd) == \/ (n.pr # PrNone /\ sd.pr = PrNone) \/ (n.del # "N" /\ sd.del = "N")
                \/ (n.anew # "N" /\ sd.anew = "N") \/ (n.safe # "N" /\ sd.safe = "N")
                \/ \E j \in 1..Len(n.ch) : Omits(n.ch[j][2], sd.ch[j][2])
Witness == i > 0 /\ AnyForm(Dump(T, Dev), "md") /\ AnyForm(Dump(T, Dev), "tag")
           /\ Omits(T, Dump(T, Dev)) /\ Interchangeable(T, RoundTrip(T, Dev))
NotWitness == ~Witness

----------------------------------------------------------------------------
\* the code as it is: what the harness compares the library with
Emit == i > 0 =>
    LET t  == T
        u  == RoundTrip(t, AsIs)
        ok == ~IsErr(u)
        dx == IF ok /\ u # t THEN Differ(t, u) ELSE {}
        \* source files of the !path nodes, per way of FilePairs: original, re-parse, the two formulas
        pf == IF ok /\ HasPathNode(t) /\ SfFits(u, SfDump(t, OrgParse(t, NoFile)))
              THEN [q \in 1..Len(FilePairs) |->
                      LET f == FilePairs[q][1]
                          g == FilePairs[q][2]
                      IN [f |-> f, g |-> g, l0 |-> SfOrig(t, f), l1 |-> SfAgain(t, u, f, g),
                          pv |-> SamePaths(t, u, f, g), st |-> SfStable(t, u, f, g)]]
              ELSE <<>>
    IN PrintT(ToJson([i |-> i, s |-> s, t |-> t, u |-> u,
                      same  |-> ok /\ u = t,
                      sv    |-> SameValue(t, u) /\ (ok => SamePathsAll(t, u)),
                      smd   |-> SameMd(t, u),
                      st    |-> DumpStable(t, u, AsIs) /\ (ok => SfStableAll(t, u)),
                      pf    |-> pf,
                      dx    |-> dx,
                      fired |-> Fired(t, AsIs),
                      ideal |-> RoundTrip(t, {}) = t]))

=============================================================================
