------------------------------- MODULE AyFiles ------------------------------
(***************************************************************************)
(* The files a `!rec` node may name (recurse.py reads them at EVALUATION    *)
(* time).  The harness writes the same documents to real files in the       *)
(* directory the library runs in and hands them to TLC as JSON (environment *)
(* variable REC_FILES): a sequence of [name, doc] with doc a surface        *)
(* document.  Without the variable there are no files.                      *)
(***************************************************************************)
EXTENDS AyParse, Json, IOUtils

RECURSIVE FSDofJ(_)
FSDofJ(j) == [j EXCEPT !.md = {<<j.md[x][1], j.md[x][2]>> : x \in DOMAIN j.md},
                       !.ch = [i \in 1..Len(j.ch) |-> <<j.ch[i][1], FSDofJ(j.ch[i][2])>>]]

RecFilesRaw == IF "REC_FILES" \in DOMAIN IOEnv THEN JsonDeserialize(IOEnv.REC_FILES) ELSE <<>>
RecFiles == [i \in 1..Len(RecFilesRaw) |-> [name |-> RecFilesRaw[i].name, doc |-> FSDofJ(RecFilesRaw[i].doc)]]
HasFile(name) == \E i \in 1..Len(RecFiles) : RecFiles[i].name = name
FileDoc(name) == RecFiles[CHOOSE i \in 1..Len(RecFiles) : RecFiles[i].name = name].doc

=============================================================================
