------------------------------ MODULE AyCmdline -----------------------------
(***************************************************************************)
(* config.py:68-141 process_cmdline: an inline option `a.b[i].c=value`      *)
(* becomes the document  !notnew { a: { b: { i: { c: value }}}}             *)
(***************************************************************************)
EXTENDS AyParse

\* path: a non-empty sequence of keys (SKey for names, IKey for [i]); value: a surface node
RECURSIVE OverrideChain(_, _)
OverrideChain(path, value) ==
    IF path = <<>> THEN value
    ELSE SD("dict", NoVal, <<<<Head(path), OverrideChain(Tail(path), value)>>>>)

OverrideDoc(path, value) == WithTag(OverrideChain(path, value), "notnew")

\* the shape process_cmdline produces: !notnew root, one key per level, down to a value
RECURSIVE IsPlainSD(_)
IsPlainSD(sd) == sd.form = "none" /\ sd.k \in {"dict", "list", "scalar"} /\ \A i \in 1..Len(sd.ch) : IsPlainSD(sd.ch[i][2])
RECURSIVE IsChain(_)
IsChain(sd) == IF sd.k = "dict" /\ Len(sd.ch) = 1 THEN sd.form = "none" /\ IsChain(sd.ch[1][2])
               ELSE IsPlainSD(sd) /\ sd.k # "dict"
IsOverrideDoc(sd) ==
    /\ sd.k = "dict" /\ sd.form = "tag" /\ sd.anew = "F" /\ sd.pr = PrNone /\ sd.del = "N" /\ sd.safe = "N"
    /\ Len(sd.ch) = 1 /\ sd.ch[1][1].t = "s" /\ IsChain(sd.ch[1][2])

RECURSIVE OverridePath(_)
OverridePath(sd) == IF sd.k = "dict" /\ Len(sd.ch) = 1 THEN <<sd.ch[1][1]>> \o OverridePath(sd.ch[1][2]) ELSE <<>>
RECURSIVE OverrideValue(_)
OverrideValue(sd) == IF sd.k = "dict" /\ Len(sd.ch) = 1 THEN OverrideValue(sd.ch[1][2]) ELSE sd

=============================================================================
