----------------------------- MODULE GenUni_C13 -----------------------------
(* Evaluates one universe expression of Props_C13 once and prints it as JSON *)
(* (GenUni.tla does this for the Props_* modules it extends and is shared).  *)
EXTENDS Props_C13, Json

CONSTANTS UDocs, URange
VARIABLE x
Init == x = 0
Next == UNCHANGED x
WholeRange == << <<1, Len(UDocs)>> >>
ASSUME PrintT(ToJson([universe |-> UDocs, range |-> URange]))
=============================================================================
