------------------------------ MODULE Props_C05 -----------------------------
(***************************************************************************)
(* C05 - merging is local.  Relational: the same history is folded again    *)
(* after a transformation (wrapping every document under a key chain,       *)
(* adding a sibling subtree) and the two outcomes are related.              *)
(***************************************************************************)
EXTENDS AyMerge, AyUniverse, SequencesExt

RECURSIVE C05_WrapSD(_, _)
C05_WrapSD(ks, sd) ==
    IF ks = <<>> THEN sd ELSE SD("dict", NoVal, <<<<Head(ks), C05_WrapSD(Tail(ks), sd)>>>>)

RECURSIVE C05_WrapData(_, _)
C05_WrapData(ks, d) ==
    IF ks = <<>> THEN d ELSE Plain("dict", NoVal, <<<<Head(ks), C05_WrapData(Tail(ks), d)>>>>)

\* outcome of the wrapped history vs outcome of the plain one
C05_OutEq(ks, wout, bout) ==
    IF IsErr(bout) THEN IsErr(wout) /\ wout.err = bout.err
    ELSE ~IsErr(wout) /\ DataOf(wout) = C05_WrapData(ks, DataOf(bout))

C05_WrapHolds(ks, bouts, wouts) ==
    /\ Len(wouts) = Len(bouts)
    /\ \A j \in 1..Len(bouts) : C05_OutEq(ks, wouts[j], bouts[j])

\* the specification's own outcome for the wrapped history
C05_ModelOuts(ks, docs, n) ==
    [j \in 1..n |-> FoldDocs([i \in 1..j |-> Parse(C05_WrapSD(ks, docs[i]), TRUE)])]

C05_Prefixes == {<<SKey("a")>>, <<SKey("b")>>, <<SKey("a"), SKey("a")>>, <<SKey("a"), SKey("b")>>}

C05_ModelWrap(docs, accs) ==
    \A ks \in C05_Prefixes : C05_WrapHolds(ks, accs, C05_ModelOuts(ks, docs, Len(accs)))

\* sibling independence: a subtree added under a fresh key z - at the root, or
\* as the FIRST entry of the mapping under root key q - in stage j changes nothing
\* else.  (A !force sibling may keep its own parent mapping alive when the rest
\* of it is deleted: an emptied parent that the base result does not have is
\* not counted as a difference.)
C05_AddSiblingAt(sd, q, z, S) ==
    IF q = <<>> THEN [sd EXCEPT !.ch = Append(@, <<z, S>>)]
    ELSE [sd EXCEPT !.ch = [i \in 1..Len(sd.ch) |->
            IF sd.ch[i][1] = q[1] THEN <<q[1], [sd.ch[i][2] EXCEPT !.ch = <<<<z, S>>>> \o @]>> ELSE sd.ch[i]]]
C05_CanAddAt(sd, q) ==
    sd.k = "dict" /\ (q = <<>> \/ \E i \in 1..Len(sd.ch) : sd.ch[i][1] = q[1] /\ sd.ch[i][2].k = "dict")

C05_DropKey(d, z) == IF d.k = "dict" THEN [d EXCEPT !.ch = SelectSeq(@, LAMBDA e : e[1] # z)] ELSE d
C05_PHas(d, k) == d.k = "dict" /\ \E i \in 1..Len(d.ch) : d.ch[i][1] = k
C05_PGet(d, k) == d.ch[CHOOSE i \in 1..Len(d.ch) : d.ch[i][1] = k][2]

C05_ModSibling(rel, base, q, z) ==       \* rel and base are plain data
    IF q = <<>> THEN Unordered(C05_DropKey(rel, z)) = Unordered(base)
    ELSE IF ~C05_PHas(rel, q[1]) THEN Unordered(rel) = Unordered(base)
    ELSE IF C05_PHas(base, q[1]) /\ C05_PGet(base, q[1]).k # "dict" THEN TRUE   \* the mapping was replaced by a non-mapping:
                                                                                  \* what a protected sibling then does is not stated
    ELSE LET c  == C05_DropKey(C05_PGet(rel, q[1]), z)
             r2 == IF c.k = "dict" /\ c.ch = <<>> /\ ~C05_PHas(base, q[1]) /\ c # C05_PGet(rel, q[1])
                   THEN C05_DropKey(rel, q[1])
                   ELSE [rel EXCEPT !.ch = [i \in 1..Len(rel.ch) |-> IF rel.ch[i][1] = q[1] THEN <<q[1], c>> ELSE rel.ch[i]]]
         IN Unordered(r2) = Unordered(base)      \* a protected sibling may change the ORDER of keys around it

\* a mapping that carries the sibling and is merged onto an older LIST addresses
\* an invalid index: that error is the sibling's own, not an influence on others
C05_SiblingExcused(q, bouts, souts, j) ==
    /\ q # <<>> /\ j > 1 /\ j <= Len(souts) /\ IsErr(souts[j]) /\ ~IsErr(bouts[j]) /\ ~IsErr(bouts[j-1])
    /\ C05_PHas(DataOf(bouts[j-1]), q[1]) /\ C05_PGet(DataOf(bouts[j-1]), q[1]).k = "list"

C05_SiblingStageOk(q, z, b, s) ==
    IF IsErr(b) THEN IsErr(s) /\ s.err = b.err
    ELSE ~IsErr(s) /\ C05_ModSibling(DataOf(s), DataOf(b), q, z)

C05_SiblingHolds(q, z, bouts, souts) ==
    \/ /\ Len(souts) = Len(bouts)
       /\ \A j \in 1..Len(bouts) : C05_SiblingStageOk(q, z, bouts[j], souts[j])
    \/ \E n \in 1..Len(bouts) :
          /\ Len(souts) = n /\ C05_SiblingExcused(q, bouts, souts, n)
          /\ \A j \in 1..(n-1) : C05_SiblingStageOk(q, z, bouts[j], souts[j])
    \* the mapping that holds the sibling is replaced by a LIST at stage n: a protected sibling then keeps the older mapping
    \* alive under the newer list (protected mapping entries under a newer list are outside C04's domain as well) - whatever
    \* comes from stage n on is not judged
    \/ \E n \in 2..Len(bouts) :
          /\ q # <<>> /\ ~IsErr(bouts[n]) /\ ~IsErr(bouts[n-1])
          /\ C05_PHas(DataOf(bouts[n-1]), q[1]) /\ C05_PGet(DataOf(bouts[n-1]), q[1]).k = "dict"
          /\ C05_PHas(DataOf(bouts[n]), q[1]) /\ C05_PGet(DataOf(bouts[n]), q[1]).k = "list"
          /\ Len(souts) >= n - 1
          /\ \A j \in 1..(n-1) : C05_SiblingStageOk(q, z, bouts[j], souts[j])

C05_L7 == SD("scalar", Atom("i", "7"), <<>>)
C05_Siblings == {C05_L7, WithTag(C05_L7, "force"),
                 SD("dict", NoVal, <<<<SKey("a"), C05_L7>>>>),
                 WithTag(SD("dict", NoVal, <<<<SKey("a"), C05_L7>>>>), "del"),
                 SD("list", NoVal, <<<<IKey(0), C05_L7>>>>)}
C05_Z == SKey("z")
C05_SibPaths == {<<>>, <<SKey("a")>>}

\* the remove-this-key idiom (`key: !del`) removes a key when it exists and CREATES `key: None` when it does
\* not (statement silent, see C04): whether a protected sibling kept the key's mapping alive then shows.
\* Histories using the idiom are outside the sibling relation.
RECURSIVE C05_UsesRemoveIdiom(_)
C05_UsesRemoveIdiom(sd) == (sd.del = "T" /\ sd.k = "scalar") \/ \E i \in 1..Len(sd.ch) : C05_UsesRemoveIdiom(sd.ch[i][2])
C05_SiblingDomain(docs) == \A j \in 1..Len(docs) : ~C05_UsesRemoveIdiom(docs[j])

C05_ModelSibling(docs, accs) ==
    C05_SiblingDomain(docs) =>
    \A j \in 1..Len(docs), S \in C05_Siblings, q \in C05_SibPaths :
        C05_CanAddAt(docs[j], q) =>
        LET ds == [i \in 1..Len(docs) |-> IF i = j THEN C05_AddSiblingAt(docs[i], q, C05_Z, S) ELSE docs[i]]
            so0 == [n \in 1..Len(accs) |-> FoldDocs([i \in 1..n |-> Parse(ds[i], TRUE)])]
            so == IF \E n \in 1..Len(so0) : IsErr(so0[n])
                  THEN SubSeq(so0, 1, CHOOSE n \in 1..Len(so0) : IsErr(so0[n]) /\ \A i \in 1..(n-1) : ~IsErr(so0[i]))
                  ELSE so0
        IN C05_SiblingHolds(q, C05_Z, accs, so)

\* frame: a mapping path the newer document does not reach - neither written
\* nor below one of its deleting nodes - keeps its content
RECURSIVE C05_Reached(_, _)
C05_Reached(new, p) ==      \* following p inside the newer tree
    IF p = <<>> THEN TRUE
    ELSE IF ~IsComposed(new) \/ EffDel(new) THEN TRUE
    ELSE IF HasChild(new, Head(p)) THEN C05_Reached(Child(new, Head(p)), Tail(p))
    ELSE FALSE

C05_StrPath(p) == \A i \in 1..Len(p) : p[i].t = "s"

C05_Frame(docs, outs) ==
    \A j \in 2..Len(outs) :
        (~IsErr(outs[j-1]) /\ ~IsErr(outs[j])) =>
            LET new == Parse(docs[j], TRUE)
            IN (\A m \in PathsOf(new) : At(new, m).k \in {"dict", "list", "scalar", "call", "bind"}) =>
               \A p \in PathsOf(outs[j-1]) :
                   (C05_StrPath(p) /\ ~C05_Reached(new, p)) =>
                       HasPath(outs[j], p) /\ DataOf(At(outs[j], p)) = DataOf(At(outs[j-1], p))

=============================================================================
