------------------------------ MODULE Props_C15 -----------------------------
(***************************************************************************)
(* C15 - merge laws: deterministic, idempotent in the last document, empty  *)
(* documents are neutral, key order and !unsafe / !new markers do not       *)
(* change the merged data.  Relational, like C05.                           *)
(***************************************************************************)
EXTENDS AyMerge, AyUniverse, SequencesExt

C15_Empty == SD("dict", NoVal, <<>>)

C15_SameOut(a, b) == IF IsErr(a) THEN IsErr(b) /\ a.err = b.err ELSE ~IsErr(b) /\ DataOf(a) = DataOf(b)
C15_SameUpToKeyOrder(a, b) ==
    IF IsErr(a) THEN IsErr(b) /\ a.err = b.err ELSE ~IsErr(b) /\ Unordered(DataOf(a)) = Unordered(DataOf(b))

C15_Fold(docs) == FoldDocs([i \in 1..Len(docs) |-> Parse(docs[i], TRUE)])

\* the derived histories ----------------------------------------------------
C15_RepeatLast(docs) == Append(docs, docs[Len(docs)])
C15_InsertEmpty(docs, i) == SubSeq(docs, 1, i - 1) \o <<C15_Empty>> \o SubSeq(docs, i, Len(docs))   \* i in 1..Len+1

\* reverse the key order of every mapping (one representative permutation in the
\* exhaustive runs; the harness also drives random permutations)
RECURSIVE C15_Reverse(_)
C15_Reverse(sd) ==
    LET ch == [i \in 1..Len(sd.ch) |-> <<sd.ch[i][1], C15_Reverse(sd.ch[i][2])>>]
    IN [sd EXCEPT !.ch = IF sd.k \in DictKinds THEN [i \in 1..Len(ch) |-> ch[Len(ch) + 1 - i]] ELSE ch]

\* mark the node at path p with !unsafe / !new (on an already tagged node: through metadata)
C15_Mark(sd, flag) ==
    LET f == IF sd.form = "none" THEN "tag" ELSE IF sd.form = "tag" THEN "md" ELSE sd.form
    IN IF flag = "unsafe" THEN [sd EXCEPT !.safe = "F", !.form = f] ELSE [sd EXCEPT !.anew = "T", !.form = f]
RECURSIVE C15_MarkAt(_, _, _)
C15_MarkAt(sd, p, flag) ==
    IF p = <<>> THEN C15_Mark(sd, flag)
    ELSE [sd EXCEPT !.ch = [i \in 1..Len(sd.ch) |->
            IF sd.ch[i][1] = Head(p) THEN <<sd.ch[i][1], C15_MarkAt(sd.ch[i][2], Tail(p), flag)>> ELSE sd.ch[i]]]

RECURSIVE C15_SPaths(_)
C15_SPaths(sd) == {<<>>} \cup UNION { {<<sd.ch[i][1]>> \o q : q \in C15_SPaths(sd.ch[i][2])} : i \in 1..Len(sd.ch) }
RECURSIVE C15_SAt(_, _)
C15_SAt(sd, p) == IF p = <<>> THEN sd
                  ELSE C15_SAt(sd.ch[CHOOSE i \in 1..Len(sd.ch) : sd.ch[i][1] = Head(p)][2], Tail(p))

\* stated domain: priority, !del, !merge tags; the explicit remove-this-key idiom
\* (value-less !del, !del on a falsy value or on an empty/vanishing container) excluded
RECURSIVE C15_Vanishing(_)
C15_Vanishing(sd) ==
    sd.del = "T" /\ IF sd.k = "scalar" THEN sd.v \in FalsyAtoms
                    ELSE \A i \in 1..Len(sd.ch) : C15_Vanishing(sd.ch[i][2])
RECURSIVE C15_DocOk(_)
C15_DocOk(sd) ==
    /\ sd.k \in {"dict", "list", "scalar"}
    /\ ~C15_Vanishing(sd)
    /\ \A i \in 1..Len(sd.ch) : C15_DocOk(sd.ch[i][2])
C15_InDomain(docs) == \A j \in 1..Len(docs) : docs[j].k = "dict" /\ C15_DocOk(docs[j])

\* the laws on the specification --------------------------------------------
C15_ModelLaws(docs, acc) ==
    C15_InDomain(docs) =>
        /\ C15_SameUpToKeyOrder(acc, C15_Fold(C15_RepeatLast(docs)))    \* (key order may differ)
        /\ \A i \in 1..(Len(docs) + 1) : C15_SameOut(acc, C15_Fold(C15_InsertEmpty(docs, i)))
        /\ C15_SameUpToKeyOrder(acc, C15_Fold([i \in 1..Len(docs) |-> C15_Reverse(docs[i])]))
        /\ \A j \in 1..Len(docs), flag \in {"unsafe", "new"} : \A p \in C15_SPaths(docs[j]) :
               (flag = "new" => C15_SAt(docs[j], p).anew = "N") /\ (flag = "unsafe" => C15_SAt(docs[j], p).safe = "N") =>
               C15_SameOut(acc, C15_Fold([i \in 1..Len(docs) |-> IF i = j THEN C15_MarkAt(docs[i], p, flag) ELSE docs[i]]))

\* universes: C04's vocabulary without the remove-this-key idiom and !clear
C15_KA == SKey("a")  C15_KB == SKey("b")
C15_L(v) == SD("scalar", Atom("i", v), <<>>)
RECURSIVE C15_Old(_)
C15_Old(d) ==
    TagAll({C15_L("1")}, {"none", "force"}) \cup
    (IF d = 0 THEN {}
     ELSE (MapsOver(<<C15_KA, C15_KB>>, C15_Old(d - 1)) \ {SD("dict", NoVal, <<>>)})
          \cup {SD("list", NoVal, <<<<IKey(0), C15_L("1")>>, <<IKey(1), C15_L("1")>>>>)})
RECURSIVE C15_New(_)
C15_New(d) ==
    TagAll({C15_L("2")}, {"none", "weak"}) \cup
    (IF d = 0 THEN {}
     ELSE TagAll((MapsOverMax(<<C15_KA, C15_KB>>, C15_New(d - 1), IF d = 1 THEN 2 ELSE 1) \ {SD("dict", NoVal, <<>>)}),
                 {"none", "del", "merge", "weak"})
          \cup TagAll({SD("list", NoVal, <<<<IKey(0), C15_L("2")>>>>)}, {"none", "merge"}))
C15_OldDocs == {SD("dict", NoVal, <<<<C15_KA, c>>>>) : c \in C15_Old(2)}
C15_NewDocs == {SD("dict", NoVal, <<<<C15_KA, c>>>>) : c \in C15_New(2)} \cup
               {SD("dict", NoVal, <<<<C15_KA, c>>, <<C15_KB, C15_L("2")>>>>) : c \in C15_New(1)}
C15_Docs  == SetToSeq(C15_OldDocs) \o SetToSeq(C15_NewDocs)
C15_Range == << <<1, Cardinality(C15_OldDocs)>>, <<Cardinality(C15_OldDocs) + 1, Cardinality(C15_OldDocs) + Cardinality(C15_NewDocs)>> >>
\* the smallest universe in which a root marker puts a list two levels below a tag
C15_DocsM == <<SD("dict", NoVal, <<<<C15_KA, SD("dict", NoVal, <<<<C15_KB, SD("list", NoVal, <<<<IKey(0), C15_L("1")>>, <<IKey(1), C15_L("1")>>>>)>>>>)>>>>),
               SD("dict", NoVal, <<<<C15_KA, SD("dict", NoVal, <<<<C15_KB, SD("list", NoVal, <<<<IKey(0), C15_L("2")>>>>)>>>>)>>>>)>>
\* a small set for 3-stage histories (any document at any stage)
C15_Docs3 == SetToSeq({SD("dict", NoVal, <<<<C15_KA, c>>>>) : c \in C15_Old(1) \cup C15_New(1)})

\* deep chains: a list / mapping four mapping levels below the node whose !merge / !del it inherits (the marker relations put
\* !unsafe / !new on every level in turn: what is inherited must still arrive at the bottom)
C15_Chain(leaf) == SD("dict", NoVal, <<<<SKey("u"), SD("dict", NoVal, <<<<SKey("x"), SD("dict", NoVal, <<<<SKey("y"),
                       SD("dict", NoVal, <<<<SKey("l"), leaf>>>>)>>>>)>>>>)>>>>)
C15_DeepOld == {SD("dict", NoVal, <<<<C15_KA, C15_Chain(SD("list", NoVal, <<<<IKey(0), C15_L("1")>>, <<IKey(1), C15_L("2")>>, <<IKey(2), C15_L("3")>>>>))>>>>),
                SD("dict", NoVal, <<<<C15_KA, C15_Chain(SD("dict", NoVal, <<<<SKey("p"), C15_L("1")>>, <<SKey("q"), C15_L("2")>>>>))>>>>)}
C15_DeepNew == {SD("dict", NoVal, <<<<C15_KA, WithTag(C15_Chain(leaf), t)>>>>) :
                   leaf \in {SD("list", NoVal, <<<<IKey(0), C15_L("9")>>>>), SD("dict", NoVal, <<<<SKey("p"), C15_L("9")>>>>)},
                   t \in {"none", "merge", "del"}}
\* a prioritised older list against a LONGER plain newer list: the surplus items lose as well - also when a marker sits on an
\* ancestor (F24: the items of a list below a tagged node did not inherit the list's deleting default)
C15_LongOld == {SD("dict", NoVal, <<<<C15_KA, WithTag(SD("list", NoVal, <<<<IKey(0), C15_L("1")>>, <<IKey(1), C15_L("2")>>>>), "force")>>>>),
                SD("dict", NoVal, <<<<C15_KA, SD("dict", NoVal, <<<<C15_KB, WithTag(SD("list", NoVal, <<<<IKey(0), C15_L("1")>>>>), "force")>>>>)>>>>)}
C15_LongNew == {SD("dict", NoVal, <<<<C15_KA, SD("list", NoVal, <<<<IKey(0), C15_L("9")>>, <<IKey(1), C15_L("9")>>, <<IKey(2), C15_L("9")>>>>)>>>>),
                SD("dict", NoVal, <<<<C15_KA, SD("dict", NoVal, <<<<C15_KB, SD("list", NoVal, <<<<IKey(0), C15_L("9")>>, <<IKey(1), C15_L("9")>>>>)>>>>)>>>>)}
C15_DocsDeep  == SetToSeq(C15_DeepOld \cup C15_LongOld) \o SetToSeq(C15_DeepNew \cup C15_LongNew)
C15_RangeDeep == << <<1, Cardinality(C15_DeepOld \cup C15_LongOld)>>,
                    <<Cardinality(C15_DeepOld \cup C15_LongOld) + 1, Cardinality(C15_DeepOld \cup C15_LongOld) + Cardinality(C15_DeepNew \cup C15_LongNew)>> >>

=============================================================================
