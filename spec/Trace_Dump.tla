------------------------------ MODULE Trace_Dump ----------------------------
(***************************************************************************)
(* C18, direction code -> specification.  One recorded round trip per      *)
(* trace: the projection p0 of a document parsed by the library, what       *)
(* happened when it was dumped and read back ("ok" / "dump-error" /          *)
(* "reparse-error"), the projection p1 of the re-parsed document, whether    *)
(* a second dump gave the same text, and the outcome of substituting the     *)
(* pair into recorded merge histories.  TLC                                  *)
(*   - runs the specification of the code as it is (AsIs) on p0 and          *)
(*     classifies the first disagreement with p1 (path + field),             *)
(*   - evaluates the property's formulas on the LOGGED pair (p0, p1),        *)
(*   - re-does the recorded merge histories on the logged trees.             *)
(* Documents holding `!path` nodes were also parsed from a named file and     *)
(* their dump re-read (a) as a string, (b) as a file elsewhere, (c) under     *)
(* the same name: tr.pf logs, per way, the source file of every `!path` node  *)
(* of the original (l0) and of the re-parse (l1), in pre-order.  TLC compares *)
(* them with the source-file layer of AyDump (pfcmp) and evaluates SamePaths  *)
(* / SfStable on the LOGGED files (lpv / lsf).                                *)
(* The verdict is total: every trace gets exactly one row.                   *)
(***************************************************************************)
EXTENDS AyDump, Uni

CONSTANTS AsIs

Traces == ndJsonDeserialize(IOEnv.TRACE_FILE)

VARIABLES b, tid
vars == <<b, tid>>
Buckets == 128

Init == b = -1 /\ tid = 0
Next == \/ b = -1 /\ \E k \in 0..(Buckets - 1) : b' = k /\ UNCHANGED tid
        \/ b >= 0 /\ tid = 0 /\ \E j \in {x \in 1..Len(Traces) : x % Buckets = b} : tid' = j /\ UNCHANGED b

RECURSIVE NodeOfJ(_)
NodeOfJ(j) == [j EXCEPT !.md = {<<j.md[x][1], j.md[x][2]>> : x \in DOMAIN j.md},
                        !.ch = [i \in 1..Len(j.ch) |-> <<j.ch[i][1], NodeOfJ(j.ch[i][2])>>]]

CtxIdx    == DocRange[1][1]..DocRange[1][2]
CtxParsed == [j \in CtxIdx |-> Parse(Docs[j], TRUE)]
CtxFirst  == [j \in CtxIdx |-> FirstDoc(CtxParsed[j])]
Then(acc, d) == IF IsErr(acc) THEN acc ELSE MergeDocs(acc, d)

\* the two-stage contexts of the model on a logged pair (mapping roots only)
DifferL(t, u) ==
    LET ft == FirstDoc(t)
        fu == FirstDoc(u)
    IN IF ~ObsREq(ft, fu) THEN {<<0>>}
       ELSE {<<j, 0>> : j \in {x \in CtxIdx : ~ObsREq(Then(CtxFirst[x], t), Then(CtxFirst[x], u))}}
            \cup {<<0, j>> : j \in {x \in CtxIdx : ~ObsREq(Then(ft, CtxParsed[x]), Then(fu, CtxParsed[x]))}}

InterL(t, u) == u = t \/ (IF t.k = "dict" /\ u.k = "dict" THEN DifferL(t, u) = {} ELSE ObsEq(t, u))

\* a recorded history: documents before / after the hole
HistOf(c, x) == [q \in 1..Len(c.pre) |-> Parse(SDofJ(c.pre[q]), TRUE)] \o <<x>>
                \o [q \in 1..Len(c.post) |-> Parse(SDofJ(c.post[q]), TRUE)]

\* the logged source files of one way: same nodes, same reference directory / same file
FnSf(l) == [x \in 1..Len(l) |-> [fn |-> l[x].fn, sf |-> l[x].sf]]
LoggedSamePaths(e) == /\ Len(e.l1) = Len(e.l0)
                      /\ \A x \in 1..Len(e.l0) : e.l1[x].fn = e.l0[x].fn /\ RefBase(e.l1[x].fn, e.l1[x].sf) = RefBase(e.l0[x].fn, e.l0[x].sf)
LoggedSfStable(e)  == /\ Len(e.l1) = Len(e.l0)
                      /\ \A x \in 1..Len(e.l0) : e.l1[x].sf = e.l0[x].sf

Verdict(tr) ==
    LET p0     == NodeOfJ(tr.p0)
        realOk == tr.out = "ok"
        p1     == IF realOk THEN NodeOfJ(tr.p1) ELSE p0
        um     == RoundTrip(p0, AsIs)
        cmp    == IF IsErr(um)
                  THEN (IF um.err = "DumpError"
                        THEN (IF tr.out = "dump-error" THEN "equal" ELSE "model-dump-error")
                        ELSE (IF tr.out = "reparse-error" THEN "equal" ELSE "model-parse-error"))
                  ELSE IF ~realOk THEN "real-" \o tr.out
                  ELSE IF um = p1 THEN "equal" ELSE "differs"
        where  == IF cmp = "differs" THEN FirstDiff(um, p1, <<>>) ELSE <<>>
        mok    == ~IsErr(um)
        \* recorded histories re-done on the logged trees
        cbad   == {q \in 1..Len(tr.ctx) :
                     realOk /\ SameIn(HistOf(tr.ctx[q], p0), HistOf(tr.ctx[q], p1)) # tr.ctx[q].same}
        \* source files of the !path nodes: the layer of the specification against the logged one, way by way
        fits   == mok /\ SfFits(um, SfDump(p0, OrgParse(p0, NoFile)))
        pfbad  == {q \in 1..Len(tr.pf) :
                     \/ FnSf(SfOrig(p0, tr.pf[q].f)) # FnSf(tr.pf[q].l0)
                     \/ (fits /\ FnSf(SfAgain(p0, um, tr.pf[q].f, tr.pf[q].g)) # FnSf(tr.pf[q].l1))}
    IN [trace |-> tr.tid, cmp |-> cmp, where |-> where,
        lsv |-> realOk /\ SameValue(p0, p1), lmd |-> realOk /\ SameMd(p0, p1),
        lic |-> realOk /\ InterL(p0, p1),
        msv |-> SameValue(p0, um), mmd |-> SameMd(p0, um), mst |-> DumpStable(p0, um, AsIs),
        mic |-> mok /\ (IF cmp = "equal" /\ realOk THEN InterL(p0, p1) ELSE InterL(p0, um)),
        fired |-> Fired(p0, AsIs), cbad |-> cbad,
        pfcmp |-> IF Len(tr.pf) = 0 THEN "none" ELSE IF pfbad = {} THEN "equal" ELSE "differs", pfbad |-> pfbad,
        lpv |-> \A q \in 1..Len(tr.pf) : LoggedSamePaths(tr.pf[q]),
        lsf |-> \A q \in 1..Len(tr.pf) : LoggedSfStable(tr.pf[q]),
        mpv |-> mok => \A q \in 1..Len(tr.pf) : SamePaths(p0, um, tr.pf[q].f, tr.pf[q].g),
        msf |-> mok => \A q \in 1..Len(tr.pf) : SfStable(p0, um, tr.pf[q].f, tr.pf[q].g)]

Report == tid > 0 => PrintT(ToJson(Verdict(Traces[tid])))

=============================================================================
