-------------------------------- MODULE AyEval -------------------------------
(***************************************************************************)
(* Evaluation of a merged tree as a step machine, shaped after              *)
(*   eval_context.py:136-170  EvalContext.evaluate_node (safety gate,       *)
(*                            per-node cache, per-path cache, eval stack)   *)
(*   dict.py:117-119 / list.py:157-159  children are evaluated in order     *)
(*   xref.py:24-40   XRefNode: one link of the reference chain per step     *)
(*   call.py / bind.py  _require_safe, require_all_safe while evaluating    *)
(*                      the arguments, then the call / the partial          *)
(*   required.py     evaluating a placeholder is an error                   *)
(*                                                                          *)
(* A node is identified by its path in the (tree-shaped) working copy.      *)
(* Every evaluated container / object gets a fresh heap id so that          *)
(* "the very same object" is a statement about ids.                         *)
(***************************************************************************)
EXTENDS AyMerge, AyFiles

VARIABLES work,     \* the tree being evaluated (Config evaluates a deep copy of the merged tree)
          stack,    \* evaluation stack: frames, innermost last
          cache,    \* path -> heap id of the evaluated value (_eval_cache / _eval_cache_id)
          heap,     \* id -> value record
          calls,    \* the call log: what was invoked, in order, with which argument ids
          evlog,    \* every evaluate_node(<node>, path) call, in order (hits included)
          reqsafe,  \* EvalContext._require_all_safe
          taint,    \* cached paths whose value was produced with the help of an unsafe node (_eval_unsafe)
          over,     \* what !rec nodes have built so far: sequence of <<path, tree>>; the tree is evaluated IN PLACE of the node
          status    \* "idle" | "running" | "done" | "EvalError" | "UnsafeError"

evars == <<work, stack, cache, heap, calls, evlog, reqsafe, taint, over, status>>

NoTree == MkNode("nothing", NoVal, <<>>)

EInit == /\ work = NoTree /\ stack = <<>> /\ cache = <<>> /\ heap = <<>> /\ calls = <<>>
         /\ evlog = <<>> /\ reqsafe = FALSE /\ taint = {} /\ over = <<>> /\ status = "idle"

\* value records
VBunch(ch)     == [k |-> "bunch", v |-> NoVal, ch |-> ch, by |-> <<>>]
VList(ch)      == [k |-> "list", v |-> NoVal, ch |-> ch, by |-> <<>>]
VAtom(a)       == [k |-> "atom", v |-> a, ch |-> <<>>, by |-> <<>>]
VObj(p, ch)    == [k |-> "obj", v |-> NoVal, ch |-> ch, by |-> p]         \* what a !call returned
VPartial(p, ch) == [k |-> "partial", v |-> NoVal, ch |-> ch, by |-> p]    \* what a !bind evaluates to

Frame(p, node) == [p |-> p, i |-> 1, ids |-> <<>>, cur |-> node.ref, chain |-> <<p>>, wait |-> FALSE, rs |-> FALSE, u |-> FALSE, ov |-> FALSE]

\* the node a frame evaluates: a node of the working tree, or (ov) a node of the tree the innermost enclosing !rec built
OverIdx(p) == CHOOSE i \in 1..Len(over) : PathPrefix(over[i][1], p) /\ \A j \in 1..Len(over) : PathPrefix(over[j][1], p) => Len(over[j][1]) <= Len(over[i][1])
OverAt(p) == LET o == over[OverIdx(p)] IN At(o[2], SubSeq(p, Len(o[1]) + 1, Len(p)))
FrameNode(f) == IF f.ov THEN OverAt(f.p) ELSE At(work, f.p)
Top == stack[Len(stack)]
Pop == SubSeq(stack, 1, Len(stack) - 1)
SetTop(f) == [stack EXCEPT ![Len(stack)] = f]
OnStack(p) == \E j \in 1..Len(stack) : stack[j].p = p
Cached(p) == p \in DOMAIN cache
PutCache(p, id) == [q \in DOMAIN cache \cup {p} |-> IF q = p THEN id ELSE cache[q]]
NewId == Len(heap) + 1
\* eval_context.py: _eval_unsafe_uses grows whenever an unsafe node is evaluated or a tainted cached value is used again;
\* a node whose evaluation saw it grow is tainted itself.  Here: frame field u, handed to the enclosing frame on return.
\* (Mutation NoTaint: the code before the fix - a cached value is handed out whatever it was made from.)
Tainted(p) == p \in taint /\ ~Mut("NoTaint")
TopTainted == Top.u \/ ~EffSafe(FrameNode(Top))
\* hand value id (and whether it is tainted) to the frame on top of st1
Return(st1, id, t) ==
    LET f == st1[Len(st1)]
    IN IF FrameNode(f).k = "xref"
       THEN [st1 EXCEPT ![Len(st1)] = [f EXCEPT !.ids = <<id>>, !.u = @ \/ t]]
       ELSE [st1 EXCEPT ![Len(st1)] = [f EXCEPT !.ids = Append(@, id), !.i = @ + 1, !.u = @ \/ t]]

\* config.py:41: `pre_evaluate = copy.deepcopy(config_dict)`.  copy._reconstruct restores the state of a container
\* and then attaches the (already copied) children through the normal mutators (composed.py:360-368): every child is
\* adopted again by its parent, i.e. inherited flags are re-derived top-down from the explicit flags of the ancestors.
\* (That was the reconstruction protocol before the C19 repair; spec/AyCopy.tla models both protocols step by step.
\*  Since then the state carries the children and no mutator takes part: the copy equals the original, flags included.)
RECURSIVE DeepCopyReadopting(_)
DeepCopyReadopting(n) ==
    IF ~IsComposed(n) THEN n
    ELSE LET F[i \in 0..Len(n.ch)] ==
               IF i = 0 THEN [n EXCEPT !.ch = <<>>]
               ELSE SetChild(F[i-1], IF IsList(n) THEN IKey(i - 1) ELSE n.ch[i][1], DeepCopyReadopting(n.ch[i][2]))
         IN F[Len(n.ch)]
DeepCopy(n) == IF Mut("CopyReadopts") THEN DeepCopyReadopting(n) ELSE n

\* EvalContext.evaluate on a given working tree
StartOn(t) ==
    /\ status = "idle"
    /\ work' = t /\ status' = "running"
    /\ stack' = <<Frame(<<>>, t)>>
    /\ UNCHANGED <<cache, heap, calls, evlog, reqsafe, taint, over>>
\* Config.__init__: evaluate a deep copy of the merged tree
Start(t) == StartOn(DeepCopy(t))

Fail(kind) == /\ status' = kind /\ UNCHANGED <<work, stack, cache, heap, calls, evlog, reqsafe, taint, over>>

\* finishing the top frame with value record val: allocate, cache, pop, hand over
Finish(val, extraCalls) ==
    LET id  == NewId
        p   == Top.p
        st1 == Pop
        c1  == PutCache(p, id)
    IN /\ heap' = Append(heap, val)
       /\ cache' = c1
       /\ calls' = calls \o extraCalls
       /\ taint' = IF TopTainted THEN taint \cup {p} ELSE taint
       /\ IF st1 = <<>> THEN /\ stack' = st1 /\ status' = "done"
          ELSE /\ status' = status
               /\ stack' = Return(st1, id, TopTainted)
       /\ UNCHANGED <<work, evlog>>

Running == status = "running" /\ stack # <<>>
TopNode == FrameNode(Top)

\* ---- scalars and placeholders ------------------------------------------------
EvalScalar ==
    /\ Running /\ TopNode.k = "scalar"
    /\ Finish(VAtom(TopNode.v), <<>>) /\ UNCHANGED reqsafe

EvalRequired ==        \* required.py:26-27
    /\ Running /\ TopNode.k = "required" /\ Fail("EvalError")

\* ---- containers (and the arguments of function nodes) -------------------------
\* function nodes: call.py:56 / bind.py:80 `_require_safe(path)` before anything else
FnGate ==
    /\ Running /\ IsFn(TopNode) /\ Top.i = 1 /\ ~Top.wait
    /\ IF ~EffSafe(TopNode) /\ ~Mut("NoFnGate") THEN Fail("UnsafeError")
       ELSE IF TopNode.ref # <<>> THEN Fail("EvalError")          \* call.py / bind.py: import_name(_func) fails (marker NoImport)
       ELSE /\ stack' = SetTop([Top EXCEPT !.wait = TRUE, !.rs = reqsafe])   \* `with ctx.require_all_safe(...)`
            /\ reqsafe' = ~Mut("NoArgGate")
            /\ UNCHANGED <<work, cache, heap, calls, evlog, taint, status>>

ChildReady == Running /\ IsComposed(TopNode) /\ (IsFn(TopNode) => Top.wait) /\ Top.i <= Len(TopNode.ch)
ChildPath == Append(Top.p, TopNode.ch[Top.i][1])
ChildNode == TopNode.ch[Top.i][2]

\* evaluate_node(child, path + [key]): safety gate, then the cache, then on_evaluate
EnterChild ==
    /\ ChildReady
    /\ evlog' = Append(evlog, ChildPath)
    /\ UNCHANGED taint
    /\ IF reqsafe /\ ~EffSafe(ChildNode) THEN /\ status' = "UnsafeError" /\ UNCHANGED <<work, stack, cache, heap, calls, reqsafe>>
       ELSE IF Cached(ChildPath) /\ ~Mut("NoIdCache")
       THEN IF reqsafe /\ Tainted(ChildPath)          \* _reuse_evaluated
            THEN /\ status' = "UnsafeError" /\ UNCHANGED <<work, stack, cache, heap, calls, reqsafe>>
            ELSE /\ stack' = SetTop([Top EXCEPT !.ids = Append(@, cache[ChildPath]), !.i = @ + 1, !.u = @ \/ Tainted(ChildPath)])
                 /\ UNCHANGED <<work, cache, heap, calls, reqsafe, status>>
       ELSE /\ stack' = Append(stack, [Frame(ChildPath, ChildNode) EXCEPT !.ov = Top.ov])
            /\ UNCHANGED <<work, cache, heap, calls, reqsafe, status>>

FinishContainer ==
    /\ Running /\ IsComposed(TopNode) /\ TopNode.k # "rec" /\ (IsFn(TopNode) => Top.wait) /\ Top.i > Len(TopNode.ch)
    /\ LET kids == [j \in 1..Len(TopNode.ch) |-> <<TopNode.ch[j][1], Top.ids[j]>>]
       IN CASE TopNode.k = "call" ->
                 \* what the target returns: a fresh object, or (recording targets of the harness) None / a fresh empty list
                 /\ Finish(CASE TopNode.fn = "vmod.recnone" -> VAtom(Atom("n", ""))
                             [] TopNode.fn = "vmod.reclist" -> VList(<<>>)
                             [] OTHER -> VObj(Top.p, kids),
                           <<[p |-> Top.p, fn |-> TopNode.fn, args |-> kids]>>)
                 /\ reqsafe' = Top.rs
            [] TopNode.k = "bind" -> Finish(VPartial(Top.p, kids), <<>>) /\ reqsafe' = Top.rs
            [] IsList(TopNode)    -> Finish(VList(kids), <<>>) /\ UNCHANGED reqsafe
            [] OTHER              -> Finish(VBunch(kids), <<>>) /\ UNCHANGED reqsafe

\* ---- !rec: the named files are built at evaluation time and evaluated in place of the node (recurse.py:68-98) ----
\* every name is evaluated like a list element first (EnterChild); then a fresh Builder reads each file as a source
\* whose safe flag is the safety of the NAME node (`builder.add_source(file, safe=child.ayns.safe)`), merges them,
\* and `ctx.evaluate_node(<the built tree>, path)` evaluates the result under the node's own path.
RecNames == [j \in 1..Len(TopNode.ch) |-> heap[Top.ids[j]].v[2]]
RecBuild ==
    /\ Running /\ TopNode.k = "rec" /\ ~Top.wait /\ Top.i > Len(TopNode.ch) /\ Len(Top.ids) = Len(TopNode.ch)
    /\ UNCHANGED <<work, cache, heap, calls, taint, reqsafe>>
    /\ IF \E j \in 1..Len(TopNode.ch) : heap[Top.ids[j]].k # "atom" \/ heap[Top.ids[j]].v[1] # "s" \/ ~HasFile(RecNames[j])
       THEN status' = "EvalError" /\ UNCHANGED <<stack, evlog, over>>          \* not a string / FileNotFoundError
       ELSE LET sub == FoldDocs([j \in 1..Len(TopNode.ch) |-> Parse(FileDoc(RecNames[j]), EffSafe(TopNode.ch[j][2]))])
            IN IF IsErr(sub) THEN status' = "EvalError" /\ UNCHANGED <<stack, evlog, over>>
               ELSE /\ evlog' = Append(evlog, Top.p)
                    /\ over' = Append(over, <<Top.p, sub>>)
                    /\ IF reqsafe /\ ~EffSafe(sub) THEN status' = "UnsafeError" /\ UNCHANGED stack
                       ELSE /\ stack' = Append(SetTop([Top EXCEPT !.wait = TRUE]), [Frame(Top.p, sub) EXCEPT !.ov = TRUE])
                            /\ UNCHANGED status
RecTaken ==
    /\ Running /\ TopNode.k = "rec" /\ Top.wait /\ Len(Top.ids) = Len(TopNode.ch) + 1
    /\ LET id == Top.ids[Len(Top.ids)] IN
       /\ cache' = PutCache(Top.p, id)
       /\ taint' = IF TopTainted THEN taint \cup {Top.p} ELSE taint
       /\ LET st1 == Pop IN
          IF st1 = <<>> THEN stack' = st1 /\ status' = "done"
          ELSE status' = status /\ stack' = Return(st1, id, TopTainted)
    /\ UNCHANGED <<work, heap, calls, evlog, reqsafe, over>>

\* ---- cross-references: one link per step --------------------------------------
XRefReady == Running /\ TopNode.k = "xref" /\ Top.ids = <<>> /\ ~Top.wait

\* the target has already been evaluated: get_node returns the VALUE, the reference aliases it
XRefAlias ==
    /\ XRefReady /\ Cached(Top.cur)
    /\ IF reqsafe /\ Tainted(Top.cur)                 \* get_node: _reuse_evaluated
       THEN /\ status' = "UnsafeError" /\ UNCHANGED <<stack, cache, taint>>
       ELSE LET id == cache[Top.cur]
                t  == TopTainted \/ Tainted(Top.cur) IN
            /\ cache' = PutCache(Top.p, id)
            /\ taint' = IF t THEN taint \cup {Top.p} ELSE taint
            /\ LET st1 == Pop IN
               IF st1 = <<>> THEN stack' = st1 /\ status' = "done"
               ELSE /\ status' = status
                    /\ stack' = Return(st1, id, t)
    /\ UNCHANGED <<work, heap, calls, evlog, reqsafe>>

XRefMissing ==
    /\ XRefReady /\ ~Cached(Top.cur) /\ (Top.cur = <<>> \/ ~HasPath(work, Top.cur))
    /\ Fail("EvalError")

\* the target is itself a reference: follow it (fixed code: unless it was visited before)
XRefFollow ==
    /\ XRefReady /\ ~Cached(Top.cur) /\ Top.cur # <<>> /\ HasPath(work, Top.cur)
    /\ At(work, Top.cur).k = "xref"
    /\ IF ~NoCycleCheck /\ \E j \in 1..Len(Top.chain) : Top.chain[j] = Top.cur
       THEN Fail("EvalError")                                   \* cyclic reference
       ELSE \* (the pre-fix code kept the chain only for its error messages: it is not state there,
            \*  so that a reference cycle is a finite lasso TLC's liveness check can exhibit)
            /\ stack' = SetTop([Top EXCEPT !.chain = IF NoCycleCheck THEN @ ELSE Append(@, Top.cur), !.cur = At(work, Top.cur).ref])
            /\ UNCHANGED <<work, cache, heap, calls, evlog, reqsafe, taint, status>>

\* the target is an ordinary node: evaluate it (under its own path) and take its value.
\* A target that is being evaluated right now (an ancestor) recurses without end in the
\* code until CPython's recursion limit turns it into an EvalError.
XRefEnter ==
    /\ XRefReady /\ ~Cached(Top.cur) /\ Top.cur # <<>> /\ HasPath(work, Top.cur)
    /\ At(work, Top.cur).k # "xref"
    /\ evlog' = Append(evlog, Top.cur) /\ UNCHANGED taint
    /\ IF reqsafe /\ ~EffSafe(At(work, Top.cur)) THEN /\ status' = "UnsafeError" /\ UNCHANGED <<work, stack, cache, heap, calls, reqsafe>>
       ELSE IF OnStack(Top.cur) THEN /\ status' = "EvalError" /\ UNCHANGED <<work, stack, cache, heap, calls, reqsafe>>
       ELSE /\ stack' = Append(SetTop([Top EXCEPT !.wait = TRUE]), Frame(Top.cur, At(work, Top.cur)))
            /\ UNCHANGED <<work, cache, heap, calls, reqsafe, status>>

\* the target's value arrived: the reference evaluates to that very object
XRefTaken ==
    /\ Running /\ TopNode.k = "xref" /\ Top.ids # <<>>
    /\ LET id == Top.ids[1] IN
       /\ cache' = PutCache(Top.p, IF Mut("CopyOnXRef") THEN 0 ELSE id)
       /\ taint' = IF TopTainted THEN taint \cup {Top.p} ELSE taint
       /\ LET st1 == Pop IN
          IF st1 = <<>> THEN stack' = st1 /\ status' = "done"
          ELSE /\ status' = status
               /\ stack' = Return(st1, id, TopTainted)
    /\ UNCHANGED <<work, heap, calls, evlog, reqsafe>>

\* ---- !eval whose code is one bare name ------------------------------------------
\* (by convention of the universes / the projection such a node carries ref = <<the top-level key of that name>>)
\* eval.py: `_require_safe`, then the interpreter looks the name up in EvalBuiltins.__getitem__:
\*   `if name in ecfg._cfgobj: with ctx.require_all_safe(node, path): return ecfg[name]`, and
\* eval_context.py PartialChild.__getitem__: a key that is not yet in ecfg is evaluated now (every node on the way
\* must be safe); a finished one is reused (unless tainted); and a key is present as an unfinished PLACEHOLDER as
\* soon as something below it has been evaluated - made for `a: {b: 1, c: !eval a.b}`.  A placeholder that the code
\* hands back as its value is evaluated properly (eval.py; mutation EvalLeaksPlaceholder: the code before that fix).
\* (the same lookup serves an f-string whose body is one replacement field `{name}`: its value is the TEXT of the entry - a new
\*  string, not the entry itself)
IsEvalName(n) == n.k \in {"eval", "fstr"} /\ n.ref # <<>>
StrOfAtom(a) == CASE a[1] = "n" -> "None" [] a[1] = "b" -> (IF a[2] = "T" THEN "True" ELSE "False") [] OTHER -> a[2]
\* what the node yields for the value with heap id `id`: the id itself (!eval) / a fresh string (f-string; the text of a
\* container or object is not modelled: "?")
NameValue(n, id) == IF n.k = "eval" THEN <<"same", id>>
                    ELSE <<"new", VAtom(Atom("s", IF heap[id].k = "atom" THEN StrOfAtom(heap[id].v) ELSE "?"))>>
IsBelow(q, tp) == Len(q) > Len(tp) /\ SubSeq(q, 1, Len(tp)) = tp
HasPlaceholder(tp) == /\ ~Cached(tp)
                      /\ \/ \E q \in DOMAIN cache : IsBelow(q, tp)
                         \/ \E j \in 1..Len(stack) : IsBelow(stack[j].p, tp)
VPlaceholder == [k |-> "placeholder", v |-> NoVal, ch |-> <<>>, by |-> <<>>]

EvalNameLookup ==
    /\ Running /\ IsEvalName(TopNode) /\ Top.ids = <<>> /\ ~Top.wait
    /\ LET tp == TopNode.ref IN
       IF ~EffSafe(TopNode) THEN Fail("UnsafeError")
       ELSE IF ~HasPath(work, tp) THEN Fail("EvalError")                      \* NameError in the user code
       ELSE IF Cached(tp)
       THEN IF Tainted(tp) THEN Fail("UnsafeError")                          \* _reuse_evaluated under require_all_safe
            ELSE LET nv == NameValue(TopNode, cache[tp])
                     id == IF nv[1] = "same" THEN nv[2] ELSE NewId IN
                 /\ heap' = IF nv[1] = "same" THEN heap ELSE Append(heap, nv[2])
                 /\ cache' = PutCache(Top.p, id)
                 /\ taint' = IF TopTainted THEN taint \cup {Top.p} ELSE taint
                 /\ LET st1 == Pop IN
                    IF st1 = <<>> THEN stack' = st1 /\ status' = "done"
                    ELSE status' = status /\ stack' = Return(st1, id, TopTainted)
                 /\ UNCHANGED <<work, calls, evlog, reqsafe>>
       ELSE IF HasPlaceholder(tp) /\ Mut("EvalLeaksPlaceholder")
       THEN Finish(VPlaceholder, <<>>) /\ UNCHANGED reqsafe
       ELSE \* evaluate_node(<the node of that name>, [name]) under require_all_safe: by PartialChild.__getitem__ when the key
            \* was not in ecfg at all, by the eval node itself (on its result) when a placeholder came back
            /\ evlog' = Append(evlog, tp) /\ UNCHANGED taint
            /\ LET rs == TRUE IN
               IF rs /\ ~EffSafe(At(work, tp)) THEN /\ status' = "UnsafeError" /\ UNCHANGED <<work, stack, cache, heap, calls, reqsafe>>
               ELSE IF OnStack(tp) THEN /\ status' = "EvalError" /\ UNCHANGED <<work, stack, cache, heap, calls, reqsafe>>   \* unbounded recursion
               ELSE /\ stack' = Append(SetTop([Top EXCEPT !.wait = TRUE, !.rs = reqsafe]), Frame(tp, At(work, tp)))
                    /\ reqsafe' = rs
                    /\ UNCHANGED <<work, cache, heap, calls, status>>

\* the value arrived: the node evaluates to that very object
EvalNameTaken ==
    /\ Running /\ IsEvalName(TopNode) /\ Top.ids # <<>>
    /\ LET nv == NameValue(TopNode, Top.ids[1])
           id == IF nv[1] = "same" THEN nv[2] ELSE NewId IN
       /\ heap' = IF nv[1] = "same" THEN heap ELSE Append(heap, nv[2])
       /\ cache' = PutCache(Top.p, id)
       /\ reqsafe' = Top.rs
       /\ taint' = IF TopTainted THEN taint \cup {Top.p} ELSE taint
       /\ LET st1 == Pop IN
          IF st1 = <<>> THEN stack' = st1 /\ status' = "done"
          ELSE status' = status /\ stack' = Return(st1, id, TopTainted)
    /\ UNCHANGED <<work, calls, evlog>>

\* ---- other dynamic leaves (other !eval code, f-strings, !import, !path): opaque here ------
\* they gate on their own safety and produce an object (C12 refines them)
EvalOpaque ==
    /\ Running /\ TopNode.k \in {"eval", "fstr", "import"} /\ ~IsEvalName(TopNode)
    /\ IF ~EffSafe(TopNode) THEN Fail("UnsafeError")
       ELSE Finish(VObj(Top.p, <<>>), <<[p |-> Top.p, fn |-> IF TopNode.k = "import" THEN TopNode.v[2] ELSE TopNode.k, args |-> <<>>]>>)
            /\ UNCHANGED reqsafe

EStepNoRec == \/ EvalScalar \/ EvalRequired \/ FnGate \/ EnterChild \/ FinishContainer
              \/ XRefAlias \/ XRefMissing \/ XRefFollow \/ XRefEnter \/ XRefTaken \/ EvalNameLookup \/ EvalNameTaken \/ EvalOpaque
EStep == (EStepNoRec /\ UNCHANGED over) \/ RecBuild \/ RecTaken

ETerminal == status \in {"done", "EvalError", "UnsafeError"}

----------------------------------------------------------------------------
\* reading the result

\* plain data of the value with heap id `id` ("obj"/"partial" values are opaque)
RECURSIVE ValData(_, _)
ValData(h, id) ==
    LET v == h[id]
    IN CASE v.k = "atom"  -> Plain("scalar", v.v, <<>>)
         [] v.k = "list"  -> Plain("list", NoVal, [j \in 1..Len(v.ch) |-> <<v.ch[j][1], ValData(h, v.ch[j][2])>>])
         [] v.k = "bunch" -> Plain("dict", NoVal, [j \in 1..Len(v.ch) |-> <<v.ch[j][1], ValData(h, v.ch[j][2])>>])
         [] OTHER         -> Plain(v.k, NoVal, <<>>)

RootId == cache[<<>>]

\* paths of the RESULT and the id found there
RECURSIVE ResultIds(_, _, _)
ResultIds(h, id, prefix) ==
    {<<prefix, id>>} \cup
    (IF h[id].k \in {"list", "bunch"}
     THEN UNION {ResultIds(h, h[id].ch[j][2], Append(prefix, h[id].ch[j][1])) : j \in 1..Len(h[id].ch)}
     ELSE {})

=============================================================================
