---------------------------- MODULE MC_AyThreads ----------------------------
(***************************************************************************)
(* Model-checking wrapper of AyThreads (C20).                               *)
(*                                                                          *)
(* 1. Job universes.  The harness owns the table of inputs (harness/c20.py  *)
(*    JOBS); the assignments thread -> job a run ranges over are passed as  *)
(*    one JSON line each in the file named by env C20_JOBS.                 *)
(* 2. LineSpec: every label of AyThreads is a step of its own (the          *)
(*    property is verified at this grain).                                  *)
(* 3. MarkerSpec: the labels are grouped into the steps the conformance     *)
(*    harness can schedule with its markers (call / yield / resume / return *)
(*    of default_filename, default_safe_flag, api_entry.impl,               *)
(*    ConfigNode.__init__, Builder.add_source):                             *)
(*       Enter  = CheckApi [SetApi] + dispatch     (call impl -> next marker)*)
(*       EnterLeave = the same + LeaveApi when nothing marked runs inside   *)
(*       SetSafe = SaveSafe SetSafe (call -> yield of default_safe_flag)    *)
(*       SetFile = SaveFile SetFile (call -> yield of default_filename)     *)
(*       NewNode = ReadFile ReadSafe (call -> return of ConfigNode.__init__)*)
(*       RestoreFile, RestoreSafe (resume -> return of the generators)      *)
(*       Leave  = LeaveApi (.. -> return of impl)                           *)
(*    Labels that touch no slot (dispatch, loop tests, Raise) are glued to  *)
(*    the step before them; A0 / T0 to the step after them.  A group is     *)
(*    executed by one thread without interruption.  The history of groups   *)
(*    (thread, step name, api kind, the thread's view of the three slots    *)
(*    after the step, number of nodes it made) is what TLC prints for every *)
(*    complete interleaving and what the harness replays.                   *)
(*    MaxPre bounds the number of preemptions (a switch away from a thread  *)
(*    that has started and is not finished), as in CHESS.                   *)
(***************************************************************************)
EXTENDS AyThreads, Json, IOUtils

CONSTANTS MaxPre, Record

JA_Env == LET js == ndJsonDeserialize(IOEnv.C20_JOBS) IN {js[x] : x \in DOMAIN js}

\* a few assignments for stand-alone use of the module (tlc MC_AyThreads with a hand-written cfg)
Jb(name, n, fail, inc, incn, safe, build) ==
    [name |-> name, n |-> n, fail |-> fail, inc |-> inc, incn |-> incn, safe |-> safe, build |-> build]
JA_Demo == { <<Jb("include", 3, FALSE, "ok", 1, TRUE, TRUE), Jb("badtag", 2, TRUE, "none", 0, FALSE, TRUE)>> }

VARIABLES cur,   \* thread inside an unfinished group (0: none)
          ga,    \* first slot-touching label of the unfinished group
          gl,    \* the group contains LeaveApi
          gk,    \* api kind of the group's CheckApi
          prev,  \* thread of the last finished group
          pre,   \* preemptions so far
          hist   \* finished groups
mcvars == <<cur, ga, gl, gk, prev, pre, hist>>
allvars == <<vars, mcvars>>

MCInit == Init /\ cur = 0 /\ ga = "none" /\ gl = FALSE /\ gk = "none" /\ prev = 0 /\ pre = 0 /\ hist = <<>>

Preempts(t) == prev \notin {0, t} /\ pc[prev] # "Done"

MCStep(t) ==
    /\ cur \in {0, t}
    /\ (cur = 0 /\ Preempts(t)) => pre < MaxPre
    /\ StepOf(t)
    /\ LET lbl == pc[t]
           a2 == IF ga = "none" /\ lbl \in SlotLabels THEN lbl ELSE ga
           l2 == gl \/ lbl = "LeaveApi"
           k2 == IF ga = "none" /\ lbl = "CheckApi" THEN kind[t] ELSE gk
       IN IF GroupGoesOn(t, a2, l2)
          THEN /\ cur' = t /\ ga' = a2 /\ gl' = l2 /\ gk' = k2
               /\ UNCHANGED <<prev, pre, hist>>
          ELSE /\ cur' = 0 /\ ga' = "none" /\ gl' = FALSE /\ gk' = "none"
               /\ prev' = t
               /\ pre' = IF Preempts(t) THEN pre + 1 ELSE pre
               /\ hist' = IF Record
                          THEN Append(hist, <<t, StepName(a2, l2), k2, ViewFile(t)', ViewSafe(t)', ViewApi(t)',
                                              Len(made'[t])>>)
                          ELSE hist

MarkerNext == \E t \in Threads : MCStep(t)
MarkerSpec == MCInit /\ [][MarkerNext]_allvars

LineNext == \E t \in Threads : StepOf(t) /\ UNCHANGED mcvars
LineSpec == MCInit /\ [][LineNext]_allvars /\ \A t \in Threads : WF_allvars(StepOf(t) /\ UNCHANGED mcvars)

\* printed once per complete interleaving (distinct terminal state) when Record is on
Emit == AllDone =>
    PrintT(ToJson([jobs |-> [t \in Threads |-> <<job[t].name, job[t].safe, job[t].build>>], hist |-> hist, pre |-> pre,
                   made |-> [t \in Threads |-> [k \in 1..Len(made[t]) |-> <<made[t][k].src, made[t][k].dsafe>>]],
                   exc |-> exc, wraps |-> wraps]))
=============================================================================
