------------------------------ MODULE Props_C08 -----------------------------
(***************************************************************************)
(* C08 - !notnew (and command-line overrides) can change but never create   *)
(* paths.                                                                   *)
(***************************************************************************)
EXTENDS AyMerge, AyUniverse, AyCmdline, SequencesExt

\* surface: which nodes of a document are governed by !notnew: the nearest
\* STRICT ancestor carrying !new / !notnew decides (the tagged node itself is not
\* "below" its own tag)
RECURSIVE C08_Governed(_, _, _)
C08_Governed(sd, prefix, inherited) ==      \* set of paths of governed nodes
    (IF inherited = "F" THEN {prefix} ELSE {}) \cup
    UNION { C08_Governed(sd.ch[i][2], Append(prefix, sd.ch[i][1]),
                         IF sd.anew # "N" THEN sd.anew ELSE inherited) : i \in 1..Len(sd.ch) }

\* paths of a list written as a document are the element positions
C08_HasPath(t, p) == HasPath(t, p)

RECURSIVE C08_SPaths(_)
C08_SPaths(sd) == {<<>>} \cup UNION { {<<sd.ch[i][1]>> \o q : q \in C08_SPaths(sd.ch[i][2])} : i \in 1..Len(sd.ch) }
RECURSIVE C08_SAt(_, _)
C08_SAt(sd, p) == IF p = <<>> THEN sd
                  ELSE C08_SAt(sd.ch[CHOOSE i \in 1..Len(sd.ch) : sd.ch[i][1] = Head(p)][2], Tail(p))

C08_NoPriority(sd) == \A p \in C08_SPaths(sd) : C08_SAt(sd, p).pr = PrNone

C08_Vocabulary(sd) ==
    \A p \in C08_SPaths(sd) : LET n == C08_SAt(sd, p)
                              IN n.k \in {"dict", "list", "scalar"} /\ n.safe = "N"
                                 /\ (n.del = "T" => n.k # "scalar")          \* no remove-this-key idiom

\* one merge step: old (observed tree or "none" for the first document), newer document, outcome
C08_StepHolds(first, old, sd, out) ==
    LET gov     == C08_Governed(sd, <<>>, "N")
        missing == IF first THEN gov ELSE {p \in gov : ~HasPath(old, p)}
    IN /\ \* success never creates a governed path
          (~IsErr(out)) => \A p \in gov : HasPath(out, p) => (~first /\ HasPath(old, p))
       /\ \* a failure is a MergeError
          IsErr(out) => out.err = "MergeError"
       /\ \* without priority tags nothing can shadow the newer document: a governed missing path must fail
          (C08_NoPriority(sd) /\ (first \/ \A p \in PathsOf(old) : EffPr(At(old, p)) = 0) /\ missing # {})
              => (IsErr(out) /\ out.err = "MergeError")

\* the error names a missing governed path (checked where the named path is available: the model)
C08_NamesMissing(first, old, sd, out) ==
    (IsErr(out) /\ out.err = "MergeError" /\ "what" \in DOMAIN out /\ out.what # <<>>) =>
        (out.what \in C08_Governed(sd, <<>>, "N") /\ (first \/ ~HasPath(old, out.what)))

\* command-line override: exactly that path is set, nothing else changes
RECURSIVE C08_SetData(_, _, _)
C08_SetData(d, p, v) ==
    IF p = <<>> THEN v
    ELSE [d EXCEPT !.ch = [i \in 1..Len(d.ch) |->
            IF d.ch[i][1] = Head(p) THEN <<d.ch[i][1], C08_SetData(d.ch[i][2], Tail(p), v)>> ELSE d.ch[i]]]

C08_OverrideHolds(old, sd, out) ==
    IsOverrideDoc(sd) =>
        LET p == OverridePath(sd)   v == OverrideValue(sd)
        IN IF ~HasPath(old, p) THEN IsErr(out) /\ out.err = "MergeError"
           ELSE (v.k = "scalar" /\ \A q \in PathsOf(old) : EffPr(At(old, q)) = 0) =>
                    (~IsErr(out) /\ DataOf(out) = C08_SetData(DataOf(old), p, Erase(v)))

C08_Holds(docs, outs) ==
    \A j \in 1..Len(outs) :
        (C08_Vocabulary(docs[j]) /\ (j = 1 \/ ~IsErr(outs[j-1]))) =>
            /\ C08_StepHolds(j = 1, IF j = 1 THEN outs[1] ELSE outs[j-1], docs[j], outs[j])
            /\ C08_NamesMissing(j = 1, IF j = 1 THEN outs[1] ELSE outs[j-1], docs[j], outs[j])
            /\ (j > 1 => C08_OverrideHolds(outs[j-1], docs[j], outs[j]))

C08_ModelNames(docs, outs) ==
    \A j \in 1..Len(outs) :
        (C08_Vocabulary(docs[j]) /\ (j = 1 \/ ~IsErr(outs[j-1]))) =>
            C08_NamesMissing(j = 1, IF j = 1 THEN outs[1] ELSE outs[j-1], docs[j], outs[j])

C08_Judged(docs, outs) ==
    \E j \in 2..Len(outs) : ~IsErr(outs[j-1]) /\ C08_Vocabulary(docs[j]) /\ C08_Governed(docs[j], <<>>, "N") # {}

----------------------------------------------------------------------------
\* universes
C08_KA == SKey("a")  C08_KB == SKey("b")
C08_L(v) == SD("scalar", Atom("i", v), <<>>)

\* base configs: depth <= 3, maps over a b, lists of <= 2 elements (also of maps)
RECURSIVE C08_Base(_)
C08_Base(d) ==
    {C08_L("1")} \cup
    (IF d = 0 THEN {}
     ELSE (MapsOver(<<C08_KA, C08_KB>>, C08_Base(d - 1)) \ {SD("dict", NoVal, <<>>)})
          \cup (IF d = 1 THEN ListsOver(2, {C08_L("1")}) \ {SD("list", NoVal, <<>>)}
                ELSE {SD("list", NoVal, <<<<IKey(0), SD("dict", NoVal, <<<<C08_KA, C08_L("1")>>>>)>>>>)}))
C08_BaseDocs == {SD("dict", NoVal, <<<<C08_KA, c>>>>) : c \in C08_Base(2)}

\* overriding documents: !notnew / !new / none on every mapping and list, values 2
RECURSIVE C08_Ov(_)
C08_Ov(d) ==
    TagAll({C08_L("2")}, {"none", "notnew", "new"}) \cup
    (IF d = 0 THEN {}
     ELSE TagAll((MapsOverMax(<<C08_KA, C08_KB>>, C08_Ov(d - 1), IF d = 1 THEN 2 ELSE 1) \ {SD("dict", NoVal, <<>>)})
                 \cup ListsOver(IF d = 1 THEN 3 ELSE 1, {C08_L("2")}), {"none", "notnew", "new"}))
C08_OvDocs == TagAll({SD("dict", NoVal, <<<<C08_KA, c>>>>) : c \in C08_Ov(2)}, {"none", "notnew"})

\* !merge / !del tags below !notnew (the flags are independent: an explicit delete
\* flag on a node must not stop the inherited !notnew from reaching its children)
RECURSIVE C08_OvD(_)
C08_OvD(d) ==
    {C08_L("2")} \cup
    (IF d = 0 THEN {}
     ELSE TagAll((MapsOverMax(<<C08_KA, C08_KB>>, C08_OvD(d - 1), IF d = 1 THEN 2 ELSE 1) \ {SD("dict", NoVal, <<>>)})
                 \cup ListsOver(IF d = 1 THEN 3 ELSE 1, {C08_L("2")}), {"none", "merge", "del"}))
C08_OvDelDocs == TagAll({SD("dict", NoVal, <<<<C08_KA, c>>>>) : c \in C08_OvD(2)}, {"notnew"})
C08_DocsD  == SetToSeq(C08_BaseDocs) \o SetToSeq(C08_OvDelDocs)
C08_RangeD == << <<1, Cardinality(C08_BaseDocs)>>,
                 <<Cardinality(C08_BaseDocs) + 1, Cardinality(C08_BaseDocs) + Cardinality(C08_OvDelDocs)>> >>

\* command-line overrides: every path through mappings and indices (existing, mistyped, out of range)
C08_PathSteps == {C08_KA, C08_KB, IKey(0), IKey(1), IKey(2)}
C08_Paths == {<<C08_KA>>} \cup {<<C08_KA, x>> : x \in C08_PathSteps} \cup
             {<<C08_KA, x, y>> : x \in C08_PathSteps, y \in C08_PathSteps} \cup {<<C08_KB>>, <<C08_KB, C08_KA>>}
C08_Values == {C08_L("5"), SD("scalar", Atom("s", "v"), <<>>), SD("scalar", Atom("n", ""), <<>>),
               SD("list", NoVal, <<<<IKey(0), C08_L("5")>>>>),
               SD("list", NoVal, <<<<IKey(0), C08_L("5")>>, <<IKey(1), C08_L("6")>>, <<IKey(2), C08_L("7")>>>>)}
C08_CmdDocs == {OverrideDoc(p, v) : p \in C08_Paths, v \in C08_Values}

\* the overridden path holds a !call / !bind node (its arguments are children like any other; a plain mapping / list that
\* replaces them wholesale - !del, or a list - is moved INTO the function node object: that must not launder its !notnew)
C08_Fn(k, args) == [SD(k, NoVal, args) EXCEPT !.fn = "vmod.rec", !.form = "tag"]
C08_FnBase == {SD("dict", NoVal, <<<<C08_KA, f>>>>) :
                  f \in {C08_Fn("call", <<<<C08_KA, C08_L("1")>>>>), C08_Fn("bind", <<<<C08_KA, C08_L("1")>>, <<C08_KB, C08_L("1")>>>>),
                         C08_Fn("call", <<>>), C08_Fn("bind", <<<<IKey(0), C08_L("1")>>, <<IKey(1), C08_L("1")>>>>),
                         SD("dict", NoVal, <<<<C08_KA, C08_Fn("call", <<<<C08_KB, C08_L("1")>>>>)>>>>)}}
C08_FnOv == C08_OvDelDocs \cup {d \in C08_OvDocs : d.form = "tag"} \cup {d \in C08_CmdDocs : OverrideValue(d).v[1] # "s"}     \* (a string merged onto a function node renames its target: C13's table)
C08_DocsF  == SetToSeq(C08_FnBase) \o SetToSeq(C08_FnOv)
C08_RangeF == << <<1, Cardinality(C08_FnBase)>>, <<Cardinality(C08_FnBase) + 1, Cardinality(C08_FnBase) + Cardinality(C08_FnOv)>> >>

C08_Docs  == SetToSeq(C08_BaseDocs) \o SetToSeq(C08_OvDocs \cup C08_CmdDocs)
C08_Range == << <<1, Cardinality(C08_BaseDocs)>>,
                <<Cardinality(C08_BaseDocs) + 1, Cardinality(C08_BaseDocs) + Cardinality(C08_OvDocs \cup C08_CmdDocs)>> >>
\* a !notnew first document is an error: any document at stage 1
C08_DocsFirst == SetToSeq(C08_OvDocs)

\* 3-stage: small base set, small overriding set, then command-line overrides
C08_BaseS == {SD("dict", NoVal, <<<<C08_KA, c>>>>) : c \in C08_Base(1)}
C08_OvS   == TagAll({SD("dict", NoVal, <<<<C08_KA, c>>>>) : c \in C08_Ov(1)}, {"none", "notnew"})
C08_CmdS  == {OverrideDoc(p, v) : p \in {<<C08_KA>>, <<C08_KA, C08_KA>>, <<C08_KA, C08_KB>>, <<C08_KA, IKey(0)>>, <<C08_KA, IKey(2)>>},
                                  v \in {C08_L("5"), SD("list", NoVal, <<<<IKey(0), C08_L("5")>>>>)}}
C08_Docs3  == SetToSeq(C08_BaseS) \o SetToSeq(C08_OvS) \o SetToSeq(C08_CmdS)
C08_Range3 == << <<1, Cardinality(C08_BaseS)>>,
                 <<Cardinality(C08_BaseS) + 1, Cardinality(C08_BaseS) + Cardinality(C08_OvS)>>,
                 <<Cardinality(C08_BaseS) + Cardinality(C08_OvS) + 1, Cardinality(C08_BaseS) + Cardinality(C08_OvS) + Cardinality(C08_CmdS)>> >>

=============================================================================
