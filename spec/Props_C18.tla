------------------------------ MODULE Props_C18 -----------------------------
(***************************************************************************)
(* C18 - universes of surface documents for dump-then-parse.                *)
(*                                                                          *)
(* A target document is a root mapping R {a: X [, b: Y]} whose X is a leaf,  *)
(* an empty container, a node-kind node, or a container around one Z; every *)
(* level carries a DECORATION: explicit flags (priority / delete /           *)
(* allow_new / safe, any combination, written as a plain tag when that is    *)
(* possible and as !metadata{{..}} / !kind{{..}} otherwise) plus optional    *)
(* user metadata.  The representer treats every flag by the same rule and    *)
(* the flags interact only through HOW MANY entries are left (plain tag vs   *)
(* encoded form, pushed to the stack or not), so the quick universes vary    *)
(* one flag + metadata over all three levels (focus universes) and the       *)
(* thorough ones add flag pairs.                                             *)
(* Context documents are what the target is merged with.                     *)
(***************************************************************************)
EXTENDS AyParse, AyUniverse, SequencesExt

U_KA == SKey("a")
U_KB == SKey("b")
U_I(v) == SD("scalar", Atom("i", v), <<>>)
U_S(v) == SD("scalar", Atom("s", v), <<>>)
U_Null == SD("scalar", Atom("n", ""), <<>>)
U_Map1(k, x) == SD("dict", NoVal, << <<k, x>> >>)
U_Map2(x, y) == SD("dict", NoVal, << <<U_KA, x>>, <<U_KB, y>> >>)
U_List(xs) == SD("list", NoVal, [i \in 1..Len(xs) |-> <<IKey(i - 1), xs[i]>>])
U_EMap == SD("dict", NoVal, <<>>)
U_EList == SD("list", NoVal, <<>>)
U_Kind(k, ch) == [SD(k, NoVal, ch) EXCEPT !.form = "tag"]
U_Call(fn, ch) == [SD("call", NoVal, ch) EXCEPT !.form = "tag", !.fn = fn]
U_Bind(fn, ch) == [SD("bind", NoVal, ch) EXCEPT !.form = "tag", !.fn = fn]
U_XRef(p) == [SD("xref", NoVal, <<>>) EXCEPT !.form = "tag", !.ref = p]
U_Prev(p) == [SD("prev", NoVal, <<>>) EXCEPT !.form = "tag", !.ref = p]
U_Path(ref, xs) == [SD("path", NoVal, [i \in 1..Len(xs) |-> <<IKey(i - 1), xs[i]>>]) EXCEPT !.form = "tag", !.fn = ref]
U_Str(k, s) == [SD(k, Atom("s", s), <<>>) EXCEPT !.form = "tag"]      \* !eval / !fstr / !import
U_Md == {<<"m", Atom("i", "1")>>}

----------------------------------------------------------------------------
\* decorations

U_D(pr, del, anew, safe, md) == [pr |-> pr, del |-> del, anew |-> anew, safe |-> safe, md |-> md]
U_None == U_D(PrNone, "N", "N", "N", {})

U_NF(d) == (IF d.pr # PrNone THEN 1 ELSE 0) + (IF d.del # "N" THEN 1 ELSE 0)
           + (IF d.anew # "N" THEN 1 ELSE 0) + (IF d.safe # "N" THEN 1 ELSE 0)

\* kinds whose tag accepts {{...}} (yaml.py:486-521)
U_MdKinds == {"dict", "list", "scalar", "xref", "bind", "call", "eval", "required", "path", "clear", "extend"}
U_CanCarry(sd, d) == d = U_None \/ (sd.k \in U_MdKinds /\ (sd.k = "path" => sd.fn # ""))

U_Apply(sd, d) ==
    LET basic == sd.k \in {"dict", "list", "scalar"}
        form  == IF U_NF(d) = 0 /\ d.md = {} THEN (IF basic THEN "none" ELSE "tag")
                 ELSE IF basic /\ U_NF(d) = 1 /\ d.md = {} /\ d.pr # 0 /\ d.safe # "T" THEN "tag"
                 ELSE "md"
    IN [sd EXCEPT !.form = form, !.pr = d.pr, !.del = d.del, !.anew = d.anew, !.safe = d.safe, !.md = d.md]

U_Dec(S, D) == UNION {{U_Apply(sd, d) : d \in {x \in D : U_CanCarry(sd, x)}} : sd \in S}

U_PrVals == {PrNone, 1, -1, 0}
U_Tri == {"N", "T", "F"}
U_Mds == {{}, U_Md}

U_DPr   == {U_D(p, "N", "N", "N", m) : p \in U_PrVals, m \in U_Mds}
U_DDel  == {U_D(PrNone, d, "N", "N", m) : d \in U_Tri, m \in U_Mds}
U_DNew  == {U_D(PrNone, "N", a, "N", m) : a \in U_Tri, m \in U_Mds}
U_DSafe == {U_D(PrNone, "N", "N", s, m) : s \in U_Tri, m \in U_Mds}
\* every single flag value, bare and with metadata
U_DSingles == U_DPr \cup U_DDel \cup U_DNew \cup U_DSafe
\* two flags (no metadata): every pair of flags, every pair of values
U_DPairs == {U_D(p, d, "N", "N", {}) : p \in {1, -1}, d \in {"T", "F"}}
            \cup {U_D(p, "N", a, "N", {}) : p \in {1, -1}, a \in {"T", "F"}}
            \cup {U_D(p, "N", "N", s, {}) : p \in {1, -1}, s \in {"T", "F"}}
            \cup {U_D(PrNone, d, a, "N", {}) : d \in {"T", "F"}, a \in {"T", "F"}}
            \cup {U_D(PrNone, d, "N", s, {}) : d \in {"T", "F"}, s \in {"T", "F"}}
            \cup {U_D(PrNone, "N", a, s, {}) : a \in {"T", "F"}, s \in {"T", "F"}}
\* everything at once
U_DAll == {U_D(p, d, a, s, m) : p \in U_PrVals, d \in U_Tri, a \in U_Tri, s \in U_Tri, m \in U_Mds}
\* a few representative encoded parents (they push to the stack)
U_DParents == {U_None, U_D(1, "N", "N", "N", U_Md), U_D(PrNone, "T", "N", "N", U_Md), U_D(PrNone, "F", "N", "N", U_Md),
               U_D(PrNone, "N", "F", "N", U_Md), U_D(PrNone, "N", "N", "F", U_Md), U_D(PrNone, "T", "F", "N", {}),
               U_D(PrNone, "T", "N", "N", {}), U_D(PrNone, "N", "F", "N", {})}

----------------------------------------------------------------------------
\* shapes

U_Wrap(xk, z) == CASE xk = "dict" -> U_Map1(U_KA, z)
                   [] xk = "list" -> U_List(<<z>>)
                   [] xk = "call" -> U_Call("vmod.rec", << <<U_KA, z>> >>)
                   [] xk = "bind" -> U_Bind("vmod.rec", << <<U_KA, z>> >>)
                   [] xk = "extend" -> U_Kind("extend", << <<IKey(0), z>> >>)
                   [] xk = "pathp" -> U_Path("parent", <<z>>)

\* Z: what sits two levels down; content below Z is undecorated
U_ZFull == {U_I("1"), U_Null, U_EList, U_EMap, U_List(<<U_I("1")>>), U_Map1(U_KA, U_I("1"))}
U_ZSmall == {U_I("1"), U_Null, U_EMap}
\* X without a Z
U_XLeaf == {U_I("1"), U_Null, U_S(""), U_EList, U_EMap}
U_XLeafSmall == {U_I("1"), U_Null, U_EList}

\* R {a: X}: decorations Dr / Dx / Dz on the three levels
U_Chain(Dr, Dx, Dz, XK, ZB, XL) ==
    LET zs == U_Dec(ZB, Dz)
        xs == U_Dec({U_Wrap(xk, z) : xk \in XK, z \in zs}, Dx) \cup U_Dec(XL, Dx)
    IN U_Dec({U_Map1(U_KA, x) : x \in xs}, Dr)

\* focus universes: one flag + metadata on all three levels (thorough: as is;
\* quick: fewer Z decorations, X a mapping or a list)
U_DPrR   == {U_None, U_D(1, "N", "N", "N", {}), U_D(1, "N", "N", "N", U_Md), U_D(-1, "N", "N", "N", U_Md), U_D(0, "N", "N", "N", U_Md)}
U_FocusPr   == U_Chain(U_DPrR, U_DPr, U_DPr, {"dict", "list"}, U_ZSmall, U_XLeafSmall)
U_FocusDel  == U_Chain(U_DDel, U_DDel, U_DDel, {"dict", "list"}, U_ZFull, U_XLeaf)
U_FocusNew  == U_Chain(U_DNew, U_DNew, U_DNew, {"dict", "list"}, U_ZFull, U_XLeaf)
U_FocusSafe == U_Chain(U_DSafe, U_DSafe, U_DSafe, {"dict", "list", "call"}, {U_I("1"), U_Null, U_EMap, U_Map1(U_KA, U_I("1")), U_Call("vmod.rec", <<>>)}, U_XLeaf \cup {U_Call("vmod.rec", <<>>)})

U_DPrZ   == {U_D(p, "N", "N", "N", {}) : p \in U_PrVals} \cup {U_D(1, "N", "N", "N", U_Md)}
U_DDelZ  == {U_D(PrNone, d, "N", "N", {}) : d \in U_Tri} \cup {U_D(PrNone, "T", "N", "N", U_Md)}
U_DNewZ  == {U_D(PrNone, "N", a, "N", {}) : a \in U_Tri} \cup {U_D(PrNone, "N", "T", "N", U_Md)}
U_DSafeZ == {U_D(PrNone, "N", "N", x, {}) : x \in U_Tri} \cup {U_D(PrNone, "N", "N", "T", U_Md)}
U_QFocusPr   == U_Chain(U_DPrR, U_DPr, U_DPrZ, {"dict", "list"}, {U_I("1"), U_Null}, {U_I("1"), U_Null})
U_QFocusDel  == U_Chain(U_DDel, U_DDel, U_DDelZ, {"dict", "list"}, {U_I("1"), U_EList, U_List(<<U_I("1")>>)}, {U_Null, U_EList, U_EMap})
U_QFocusNew  == U_Chain(U_DNew, U_DNew, U_DNewZ, {"dict", "list"}, {U_EMap, U_Map1(U_KA, U_I("1"))}, {U_I("1"), U_EMap})
U_QFocusSafe == U_Chain(U_DSafe, U_DSafe, U_DSafeZ, {"dict", "list"}, {U_I("1"), U_Call("vmod.rec", <<>>)}, {U_I("1"), U_Call("vmod.rec", <<>>)})

\* node kinds at X (and, for containers, one decorated Z below)
U_KindLeaves == {U_Kind("required", <<>>), U_XRef(<<U_KB>>), U_XRef(<<U_KA, IKey(0)>>), U_Prev(<<U_KB>>),
                 U_Kind("clear", <<>>), U_Str("eval", "1+1"), U_Str("import", "os.path"),
                 U_Kind("include", << <<IKey(0), U_S("f.yaml")>> >>),
                 U_Path("parent", <<U_S("x")>>), U_Path("", <<U_S("x")>>), U_Path("cwd", <<>>),
                 U_Call("vmod.rec", <<>>), U_Bind("vmod.rec", <<>>), U_Kind("append", << <<IKey(0), U_I("1")>> >>),
                 U_Kind("extend", <<>>), U_Kind("append", <<>>)}
U_DKind == {U_None, U_D(PrNone, "N", "N", "N", U_Md), U_D(1, "N", "N", "N", {}), U_D(-1, "N", "N", "N", U_Md),
            U_D(PrNone, "T", "N", "N", {}), U_D(PrNone, "F", "N", "N", {}), U_D(PrNone, "N", "T", "N", {}),
            U_D(PrNone, "N", "F", "N", {}), U_D(PrNone, "N", "N", "F", {}), U_D(PrNone, "N", "N", "T", {}),
            U_D(1, "T", "N", "N", {}), U_D(PrNone, "F", "F", "N", U_Md)}
U_DZKind == {U_None, U_D(1, "N", "N", "N", {}), U_D(PrNone, "T", "N", "N", {}), U_D(PrNone, "F", "N", "N", {}),
             U_D(PrNone, "N", "F", "N", {}), U_D(PrNone, "N", "N", "F", {}), U_D(PrNone, "N", "N", "N", U_Md)}
U_DKindC == {U_None, U_D(1, "N", "N", "N", {}), U_D(PrNone, "F", "N", "N", U_Md), U_D(PrNone, "N", "F", "N", {})}
U_DKindQ == {U_None, U_D(PrNone, "N", "N", "N", U_Md), U_D(1, "N", "N", "N", {}), U_D(PrNone, "T", "N", "N", {}), U_D(PrNone, "F", "N", "N", {}),
             U_D(PrNone, "N", "F", "N", {}), U_D(PrNone, "N", "N", "F", {}), U_D(1, "T", "N", "N", {})}
U_DKindP == {U_None, U_D(1, "N", "N", "N", U_Md), U_D(PrNone, "T", "N", "N", U_Md)}
U_DZKindQ == {U_None, U_D(1, "N", "N", "N", {}), U_D(PrNone, "T", "N", "N", {}), U_D(PrNone, "N", "F", "N", {}), U_D(PrNone, "N", "N", "N", U_Md)}
U_KindsOf(zb, dz, dk, dkc, dp) ==
    LET zs == U_Dec(zb, dz)
        xs == U_Dec(U_KindLeaves, dk)
              \cup U_Dec({U_Wrap(xk, z) : xk \in {"call", "bind", "extend", "pathp"}, z \in zs}, dkc)
    IN U_Dec({U_Map1(U_KA, x) : x \in xs}, dp)
U_Kinds  == U_KindsOf({U_I("1"), U_Null, U_EList, U_Map1(U_KA, U_I("1"))}, U_DZKind, U_DKind, U_DKindQ, U_DParents)
U_QKinds == U_KindsOf({U_I("1"), U_Null, U_EList}, U_DZKindQ, U_DKindQ, U_DKindC, U_DKindP)

\* siblings: what is written after a tagged node (the stack must be popped;
\* a later string must still be quoted) - R {a: X, b: Y}
U_SibX == {U_Apply(U_I("1"), U_D(-1, "N", "N", "N", {})), U_Null, U_Apply(U_S("[1]"), U_D(1, "N", "N", "N", {})),
           U_Apply(U_S("a\\b"), U_D(-1, "N", "N", "N", {})), U_S("a\\b"), U_XRef(<<U_KB>>),
           U_Apply(U_I("1"), U_D(PrNone, "N", "N", "N", U_Md)),
           U_Apply(U_Map1(U_KA, U_I("1")), U_D(PrNone, "T", "N", "N", U_Md)),
           U_Apply(U_Map1(U_KA, U_I("1")), U_D(PrNone, "F", "N", "N", {})),
           U_Apply(U_Map1(U_KA, U_I("1")), U_D(PrNone, "N", "F", "N", U_Md)),
           U_Apply(U_Map1(U_KA, U_I("1")), U_D(1, "N", "N", "N", U_Md)),
           U_Apply(U_List(<<U_I("1")>>), U_D(PrNone, "F", "N", "F", {})),
           U_Call("vmod.rec", << <<U_KA, U_I("1")>> >>)}
U_SibY == {U_I("2"), U_S("[1]"), U_S("x #y"), U_S("true"), U_S(""), U_Null,
           U_Apply(U_List(<<U_I("1"), U_I("2")>>), U_D(PrNone, "F", "N", "N", {})),
           U_Apply(U_List(<<U_I("1")>>), U_D(PrNone, "T", "N", "N", {})),
           U_Apply(U_Map1(U_KA, U_I("1")), U_D(PrNone, "T", "N", "N", {})),
           U_Apply(U_Map1(U_KA, U_I("1")), U_D(PrNone, "N", "F", "N", {})),
           U_Apply(U_I("2"), U_D(1, "N", "N", "N", {})),
           U_Apply(U_Map1(U_KA, U_List(<<U_I("1")>>)), U_D(PrNone, "F", "N", "N", {}))}
U_QSiblings == {U_Map2(x, y) : x \in U_SibX, y \in U_SibY}
               \cup {U_Map1(U_KA, U_Apply(U_Map2(x, y), U_D(PrNone, "T", "N", "N", U_Md))) : x \in U_SibX, y \in {U_S("[1]"), U_I("2"), U_Apply(U_List(<<U_I("1"), U_I("2")>>), U_D(PrNone, "F", "N", "N", {}))}}
U_Siblings == U_Dec({U_Map2(x, y) : x \in U_SibX, y \in U_SibY}, {U_None, U_D(PrNone, "F", "N", "N", {}), U_D(PrNone, "T", "N", "N", U_Md)})
              \* the same nesting one level down: {a: !merge {a: .., b: ..}}
              \cup {U_Map1(U_KA, U_Apply(U_Map2(x, y), d)) : x \in U_SibX, y \in U_SibY,
                                                            d \in {U_D(PrNone, "F", "N", "N", {}), U_D(PrNone, "T", "N", "N", U_Md)}}

\* thorough: every combination of flags + metadata on X (plain root) and on Z
\* (below each representative parent); flag pairs on X and Z
U_AllX  == U_Chain({U_None}, U_DAll, {U_None}, {"dict", "list"}, {U_I("1"), U_EList}, {U_I("1"), U_Null, U_EList, U_EMap})
U_AllZd == U_Chain({U_None}, U_DParents, U_DAll, {"dict"}, {U_I("1")}, {})
U_AllZl == U_Chain({U_None}, U_DParents, U_DAll, {"list"}, {U_I("1")}, {})
U_AllZe == U_Chain({U_None}, U_DParents, U_DAll, {"dict"}, {U_EList}, {})
U_Pairs2 == U_Chain({U_None}, U_DPairs, U_DPairs, {"dict", "list"}, {U_I("1"), U_EList}, {U_EList})
U_TKinds == U_KindsOf({U_I("1"), U_Null, U_EList, U_Map1(U_KA, U_I("1"))}, U_DZKind, U_DKind, U_DKindQ, U_DKindP)

----------------------------------------------------------------------------
\* context documents (what a target is merged with): values at key a

U_T(sd, t) == WithTag(sd, t)
\* `!del {}` of a context document carries a mark: AyMerge takes two structurally EQUAL empty containers for the one
\* object `!clear` hands over (composed.py:308 compares identity), which would skip the remove-emptied rule
U_CtxDelEmpty == U_Apply(U_EMap, U_D(PrNone, "T", "N", "N", {<<"z", Atom("i", "9")>>}))
U_CtxA ==
    {U_I("5"), U_T(U_I("5"), "force"), U_T(U_I("5"), "weak"), U_T(U_I("5"), "notnew"), U_T(U_Null, "del"), U_S(""), U_Null,
     U_EMap, U_Map1(U_KA, U_I("5")), U_Map1(U_KB, U_I("5")), U_Map1(U_KA, U_Map1(U_KA, U_I("5"))), U_Map1(U_KA, U_Map1(U_KB, U_I("5"))),
     U_Map1(U_KA, U_List(<<U_I("5"), U_I("6")>>)), U_Map1(U_KA, U_T(U_Null, "del")), U_Map1(U_KA, U_CtxDelEmpty),
     U_Map1(U_KA, U_EMap), U_Map1(U_KA, U_EList), U_Map1(U_KA, U_S("")),
     U_T(U_Map1(U_KB, U_I("5")), "del"), U_T(U_Map1(U_KA, U_I("5")), "force"), U_T(U_Map1(U_KA, U_I("5")), "weak"),
     U_T(U_Map1(U_KA, U_I("5")), "notnew"), U_Map1(U_KA, U_T(U_I("5"), "notnew")), U_Map1(U_KB, U_T(U_I("5"), "notnew")),
     U_Map1(U_KA, U_T(U_List(<<U_I("5")>>), "merge")), U_Map1(U_KA, U_Map1(U_KA, U_Call("vmod.rec", <<>>))),
     U_Map1(U_KA, U_Call("vmod.rec", <<>>)), U_Map1(U_KB, U_Call("vmod.rec", <<>>)),
     U_EList, U_List(<<U_I("5"), U_I("6")>>), U_List(<<U_I("5"), U_I("6"), U_I("7")>>), U_T(U_List(<<U_I("5")>>), "merge"),
     U_List(<<U_Map1(U_KA, U_I("5"))>>), U_List(<<U_Map1(U_KB, U_I("5")), U_I("6")>>), U_List(<<U_List(<<U_I("5"), U_I("6")>>)>>),
     U_List(<<U_List(<<U_List(<<U_I("5"), U_I("6")>>)>>)>>), U_Map1(U_KA, U_List(<<U_List(<<U_I("5"), U_I("6")>>)>>)),
     U_T(U_List(<<U_T(U_List(<<U_I("5"), U_I("6")>>), "merge")>>), "merge"), U_T(U_List(<<U_T(U_Map1(U_KB, U_I("5")), "del")>>), "merge"),
     SD("dict", NoVal, << <<IKey(0), U_I("5")>> >>), SD("dict", NoVal, << <<IKey(0), U_Map1(U_KB, U_I("5"))>> >>),
     U_Call("vmod.rec", << <<U_KA, U_I("5")>> >>), U_Call("vmod.rec2", << <<U_KB, U_I("5")>> >>), U_Call("vmod.rec", <<>>), U_S("vmod.rec2"),
     U_Kind("clear", <<>>), U_Kind("append", << <<IKey(0), U_I("9")>> >>), U_Kind("extend", << <<IKey(0), U_I("9")>> >>),
     U_Map1(U_KA, U_Kind("clear", <<>>)), U_Map1(U_KA, U_Kind("append", << <<IKey(0), U_I("9")>> >>))}
U_CtxDocs == {U_Map1(U_KA, w) : w \in U_CtxA}
             \cup {U_EMap, U_Map1(U_KB, U_I("5")), U_T(U_Map1(U_KB, U_I("5")), "del"), U_T(U_Map1(U_KA, U_I("5")), "notnew"),
                   U_Map2(U_I("5"), U_I("6")), U_Map2(U_Prev(<<U_KB>>), U_I("6")), U_Map1(U_KB, U_Prev(<<U_KA>>)),
                   U_Map1(U_KB, U_Prev(<<U_KA, U_KA>>)), U_Map1(U_KB, U_Map1(U_KA, U_Prev(<<U_KA>>))),
                   U_Map1(U_KA, U_Prev(<<U_KA, U_KA>>)), U_Map1(U_KA, U_Prev(<<U_KA, IKey(0)>>))}
\* the few used for three-stage histories
U_CtxSmall == {U_Map1(U_KA, w) : w \in {U_I("5"), U_Map1(U_KA, U_I("5")), U_Map1(U_KA, U_Map1(U_KB, U_I("5"))),
                                       U_List(<<U_I("5"), U_I("6")>>), U_T(U_Null, "del"), U_Map1(U_KA, U_Kind("clear", <<>>)),
                                       U_Map1(U_KA, U_Call("vmod.rec", <<>>))}}
                \cup {U_Map1(U_KB, U_Prev(<<U_KA>>))}

U_CtxBig == U_CtxDocs \ U_CtxSmall
\* the quick tier's context documents
U_CtxQA == {U_I("5"), U_T(U_I("5"), "force"), U_T(U_Null, "del"), U_S(""), U_T(U_Map1(U_KA, U_I("5")), "weak"),
            U_Map1(U_KB, U_I("5")), U_Map1(U_KA, U_Map1(U_KB, U_I("5"))), U_Map1(U_KA, U_List(<<U_I("5"), U_I("6")>>)),
            U_Map1(U_KA, U_T(U_Null, "del")), U_Map1(U_KA, U_CtxDelEmpty), U_T(U_Map1(U_KA, U_I("5")), "notnew"),
            U_Map1(U_KA, U_T(U_I("5"), "notnew")), U_Map1(U_KA, U_Map1(U_KA, U_Call("vmod.rec", <<>>))), U_Map1(U_KA, U_Call("vmod.rec", <<>>)),
            U_List(<<U_I("5"), U_I("6"), U_I("7")>>), U_T(U_List(<<U_I("5")>>), "merge"), U_List(<<U_Map1(U_KB, U_I("5")), U_I("6")>>),
            U_List(<<U_List(<<U_I("5"), U_I("6")>>)>>), U_T(U_List(<<U_T(U_Map1(U_KB, U_I("5")), "del")>>), "merge"),
            SD("dict", NoVal, << <<IKey(0), U_Map1(U_KB, U_I("5"))>> >>), U_Call("vmod.rec", << <<U_KA, U_I("5")>> >>), U_Call("vmod.rec", <<>>),
            U_Kind("clear", <<>>), U_Kind("append", << <<IKey(0), U_I("9")>> >>)}
U_CtxSmallQ == {U_Map1(U_KA, w) : w \in {U_I("5"), U_Map1(U_KA, U_Map1(U_KB, U_I("5"))), U_T(U_Null, "del")}} \cup {U_Map1(U_KB, U_Prev(<<U_KA>>))}
U_CtxQ == ({U_Map1(U_KA, w) : w \in U_CtxQA}
           \cup {U_EMap, U_Map1(U_KB, U_Call("vmod.rec", <<>>)), U_T(U_Map1(U_KB, U_I("5")), "del"), U_Map1(U_KB, U_Prev(<<U_KA, U_KA>>)),
                 U_Map1(U_KB, U_Map1(U_KA, U_Prev(<<U_KA>>))), U_Map2(U_Prev(<<U_KB>>), U_I("6")),
                 U_Map1(U_KA, U_Prev(<<U_KA, U_KA>>)), U_Map1(U_KA, U_Prev(<<U_KA, IKey(0)>>))}) \ U_CtxSmallQ

U_Quick    == U_QFocusPr \cup U_QFocusDel \cup U_QFocusNew \cup U_QFocusSafe \cup U_QKinds \cup U_QSiblings
U_Thorough == U_Quick \cup U_FocusPr \cup U_FocusDel \cup U_FocusNew \cup U_FocusSafe \cup U_TKinds \cup U_Siblings
              \cup U_AllX \cup U_AllZd \cup U_AllZl \cup U_AllZe \cup U_Pairs2
\* narrow universes for the mutation cfgs
U_MutDel   == U_Chain({U_None, U_D(PrNone, "T", "N", "N", U_Md), U_D(PrNone, "F", "N", "N", U_Md)}, U_DDel, U_DDelZ, {"dict", "list"},
                      {U_I("1"), U_EList, U_List(<<U_I("1")>>), U_List(<<U_List(<<U_I("1")>>)>>)}, {U_EList, U_EMap})
U_MutNew   == U_Chain(U_DNew, U_DNew, U_DNewZ, {"dict", "list"}, {U_EMap, U_Map1(U_KA, U_I("1"))}, {U_I("1")})
U_MutSafe  == U_Chain({U_None, U_D(PrNone, "N", "N", "F", U_Md)}, U_DSafe, U_DSafeZ, {"dict", "list"}, {U_I("1"), U_Call("vmod.rec", <<>>), U_EMap}, {U_I("1"), U_Call("vmod.rec", <<>>)})
U_MutKinds == U_Dec({U_Map1(U_KA, x) : x \in U_Dec(U_KindLeaves \cup {U_Null, U_Apply(U_S("a\\b"), U_D(1, "N", "N", "N", {}))}, U_DKind)}, {U_None})
U_MutNewP == U_Chain({U_None}, {U_D(PrNone, "N", "F", "N", {}), U_D(PrNone, "N", "F", "N", U_Md)}, U_DNewZ, {"extend", "dict"}, {U_Map1(U_KA, U_I("1"))}, {})
U_MutKindsP == U_Dec({U_Map1(U_KA, x) : x \in U_KindLeaves}, {U_D(1, "N", "N", "N", {}), U_D(-1, "N", "N", "N", U_Md)})
\* `!path` nodes with every kind of reference point (AyDump: source files): `file` / `parent` / `parent(n)` evaluate relative
\* to the node's source file, which the dump writes into the mapping; alone, below a mapping / list / another !path,
\* decorated (a `!path:<ref>{{..}}` tag), next to each other
U_PathLeaves == {U_Path("parent", <<U_S("x")>>), U_Path("parent(1)", <<U_S("x"), U_S("y")>>), U_Path("file", <<>>),
                 U_Path("cwd", <<U_S("x")>>), U_Path("", <<U_S("x")>>)}
U_DPath == {U_None, U_D(1, "N", "N", "N", {}), U_D(PrNone, "F", "N", "N", U_Md), U_D(PrNone, "N", "N", "N", U_Md)}
U_QPaths == U_Chain({U_None, U_D(1, "N", "N", "N", U_Md)}, U_DPath, U_DPath, {"dict", "list", "pathp"}, U_PathLeaves, U_PathLeaves)
            \cup {U_Map2(x, y) : x \in U_PathLeaves, y \in U_PathLeaves}
U_MutPaths == {U_Map1(U_KA, x) : x \in U_PathLeaves} \cup {U_Map1(U_KA, U_Wrap(xk, z)) : xk \in {"dict", "pathp"}, z \in U_PathLeaves}
\* three-stage histories in the quick tier
U_Q3 == U_Chain({U_None, U_D(PrNone, "T", "N", "N", U_Md)}, U_DDelZ, U_DDelZ, {"dict", "list"}, {U_I("1"), U_EList}, {U_EList})
        \cup U_Chain({U_None, U_D(PrNone, "N", "F", "N", U_Md)}, U_DNewZ, U_DNewZ, {"dict"}, {U_EMap}, {U_I("1")})

=============================================================================
