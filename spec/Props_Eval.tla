------------------------------ MODULE Props_Eval ----------------------------
(***************************************************************************)
(* C09 C10 C11 - properties of evaluation, stated over the working tree     *)
(* `work`, the final heap / cache and the call log, as pure operators so    *)
(* that they can be evaluated on the specification's state and on what the  *)
(* library logged.                                                          *)
(***************************************************************************)
EXTENDS AyMerge, AyUniverse, AyFiles, SequencesExt

\* references: !xref nodes and !eval nodes whose code is one bare name (they carry ref = <<that top-level key>>):
\* both evaluate to the very object their target evaluates to
IsRefNode(n) == n.k = "xref" \/ (n.k = "eval" /\ n.ref # <<>>)
\* an f-string whose body is one replacement field `{name}` (ref = <<that top-level key>>): the TEXT of the entry
IsFStrName(n) == n.k = "fstr" /\ n.ref # <<>>
XRefPaths(t) == {p \in PathsOf(t) : IsRefNode(At(t, p))}
DynKinds == {"call", "eval", "fstr", "import"}
DynPaths(t)  == {p \in PathsOf(t) : At(t, p).k \in DynKinds /\ ~IsRefNode(At(t, p)) /\ ~IsFStrName(At(t, p))}
TextOfAtom(a) == CASE a[1] = "n" -> "None" [] a[1] = "b" -> (IF a[2] = "T" THEN "True" ELSE "False") [] OTHER -> a[2]

\* static resolution of the reference at p: <<"ok", target>> | <<"missing">> | <<"cycle">>
RECURSIVE ResolveFrom(_, _, _)
ResolveFrom(t, cur, seen) ==
    IF cur = <<>> \/ ~HasPath(t, cur) THEN <<"missing", cur>>
    ELSE IF ~IsRefNode(At(t, cur)) THEN <<"ok", cur>>
    ELSE IF cur \in seen THEN <<"cycle", cur>>
    ELSE ResolveFrom(t, At(t, cur).ref, seen \cup {cur})
Resolve(t, p) == ResolveFrom(t, At(t, p).ref, {p})

\* what the value of a node depends on: a container on its children, a reference on its final target
DepOf(t, p) ==
    LET n == At(t, p)
    IN IF IsRefNode(n) THEN (IF Resolve(t, p)[1] = "ok" THEN {Resolve(t, p)[2]} ELSE {})
       ELSE IF IsFStrName(n) THEN (IF HasPath(t, n.ref) THEN {n.ref} ELSE {})       \* (an f-string depends on the entry it formats)
       ELSE IF IsComposed(n) THEN {Append(p, n.ch[i][1]) : i \in 1..Len(n.ch)}
       ELSE {}
RECURSIVE ReachFrom(_, _, _)
ReachFrom(t, frontier, seen) ==
    IF frontier = {} THEN seen
    ELSE LET next == (UNION {DepOf(t, p) : p \in frontier}) \ seen
         IN ReachFrom(t, next, seen \cup next)
DependsOnItself(t, p) == p \in ReachFrom(t, DepOf(t, p), DepOf(t, p))

\* a config whose references cannot all be resolved: dangling, self, cyclic, or (through containers) circular
BadRefs(t) ==
    \/ \E p \in XRefPaths(t) : Resolve(t, p)[1] # "ok"
    \/ \E p \in PathsOf(t) : IsFStrName(At(t, p)) /\ ~HasPath(t, At(t, p).ref)         \* (NameError in the f-string)
    \/ \E p \in PathsOf(t) : DependsOnItself(t, p)

\* ---- C09 -------------------------------------------------------------------
\* outcome: [status, ids] where ids is the set of <<path, id>> of the evaluated tree,
\* one entry per path of the working tree
IdAt(ids, p) == (CHOOSE e \in ids : e[1] = p)[2]
HasId(ids, p) == \E e \in ids : e[1] = p

C09_Alias(t, status, ids) ==
    status = "done" =>
        \A p \in XRefPaths(t) : /\ Resolve(t, p)[1] = "ok"
                                /\ HasId(ids, p) /\ HasId(ids, Resolve(t, p)[2])
                                /\ IdAt(ids, p) = IdAt(ids, Resolve(t, p)[2])      \* the very same object
C09_Dangling(t, status) ==
    (\A p \in PathsOf(t) : /\ (At(t, p).k \in {"dict", "list", "scalar", "xref", "call", "bind"} \/ IsRefNode(At(t, p)))
                            /\ (IsFn(At(t, p)) => At(t, p).ref = <<>>)) =>
        ((status = "EvalError") <=> BadRefs(t))
C09_Holds(t, status, ids) == status \in {"done", "EvalError"} => (C09_Alias(t, status, ids) /\ C09_Dangling(t, status))

\* what a config with !rec nodes denotes: every !rec node whose names are plain strings of existing files stands for
\* the fold of these files (each read as a source whose safe flag is the safety of its name node), recursively
RECURSIVE ExpandRec(_)
ExpandRec(n) ==
    IF n.k = "rec" /\ \A i \in 1..Len(n.ch) : (n.ch[i][2].k = "scalar" /\ n.ch[i][2].v[1] = "s" /\ HasFile(n.ch[i][2].v[2]))
    THEN LET sub == FoldDocs([i \in 1..Len(n.ch) |-> Parse(FileDoc(n.ch[i][2].v[2]), EffSafe(n.ch[i][2]))])
         IN IF IsErr(sub) THEN n ELSE ExpandRec(sub)
    ELSE [n EXCEPT !.ch = [i \in 1..Len(n.ch) |-> <<n.ch[i][1], ExpandRec(n.ch[i][2])>>]]

\* ---- C10 -------------------------------------------------------------------
\* calls: sequence of [p, fn, args]
CallCount(calls, p) == Cardinality({i \in 1..Len(calls) : calls[i].p = p})
C10_AtMostOnce(calls) == \A i, j \in 1..Len(calls) : calls[i].p = calls[j].p => i = j
C10_ExactlyOnce(t, status, calls) ==
    status = "done" => \A p \in DynPaths(t) : CallCount(calls, p) = 1
C10_OnlyExisting(t, calls) == \A i \in 1..Len(calls) : calls[i].p \in DynPaths(t)

\* the value of a config does not depend on the order in which things are written:
\* a denotational reading - references denote their final target, containers their
\* children, a dynamic node "the object produced by the node at that path"
RECURSIVE Denote(_, _)
Denote(t, p) ==
    LET n == At(t, p)
    IN IF IsRefNode(n) THEN Denote(t, Resolve(t, p)[2])
       ELSE IF IsFStrName(n) /\ HasPath(t, n.ref)
       THEN LET d == Denote(t, n.ref) IN Plain("scalar", Atom("s", IF d.k = "scalar" THEN TextOfAtom(d.v) ELSE "?"), <<>>)
       ELSE IF n.k = "call" /\ n.fn = "vmod.recnone" THEN Plain("scalar", Atom("n", ""), <<>>)
       ELSE IF n.k = "call" /\ n.fn = "vmod.reclist" THEN Plain("list", NoVal, <<>>)
       ELSE IF n.k \in DynKinds THEN Plain("obj", NoVal, <<>>)
       ELSE IF n.k = "bind" THEN Plain("partial", NoVal, <<>>)
       ELSE IF IsList(n) THEN Plain("list", NoVal, [i \in 1..Len(n.ch) |-> <<n.ch[i][1], Denote(t, Append(p, n.ch[i][1]))>>])
       ELSE IF IsDict(n) THEN Plain("dict", NoVal, [i \in 1..Len(n.ch) |-> <<n.ch[i][1], Denote(t, Append(p, n.ch[i][1]))>>])
       ELSE Plain("scalar", n.v, <<>>)
\* data: plain data of the result (objects opaque)
C10_OrderFree(t, status, data) == (status = "done" /\ ~BadRefs(t)) => data = Denote(t, <<>>)
\* ... and which object a dynamic node produced is shared by all its consumers
C10_SameObject(t, status, ids) ==
    status = "done" => \A p \in PathsOf(t) : HasId(ids, p) /\
        (IsRefNode(At(t, p)) => IdAt(ids, p) = IdAt(ids, Resolve(t, p)[2]))

\* ---- C11 -------------------------------------------------------------------
\* mirror: the result has the shape of the merged tree (mapping -> attribute dict,
\* list -> list, scalar -> its exact atom), nothing of the node layer shows through
C11_Mirror(t, status, data) == (status = "done" /\ ~BadRefs(t)) => data = Denote(t, <<>>)

=============================================================================
