------------------------------- MODULE AyBuild ------------------------------
(***************************************************************************)
(* The builder as a state machine (builder.py): sources are added one by    *)
(* one (each parsed into a stage), then `flatten` folds the stages left to  *)
(* right, one MergeStage action per stage, and stops at the first error.    *)
(* History variables `hist` (what was added) and `accs` (the accumulated    *)
(* tree after every stage) carry the behaviour so that it can be replayed   *)
(* into the real library.                                                   *)
(***************************************************************************)
EXTENDS AyMerge, Uni

CONSTANTS SafeFlags,   \* the set of `safe=` values a source may be added with
          MinStages, MaxStages

VARIABLES stages,      \* builder.stages: parsed documents not yet merged
          acc,         \* the merged tree so far (stages[0] during flatten)
          phase,       \* "adding" | "merging" | "done" | "failed"
          k,           \* index of the next stage to merge
          hist, accs,  \* history: sources added; acc after each stage
          built        \* outcome of constructing the Config from the merged tree (config.py:30-52)

vars == <<stages, acc, phase, k, hist, accs, built>>

Nothing == MkNode("nothing", NoVal, <<>>)
NotBuilt == [status |-> "none", paths |-> <<>>]

\* config.py:143-151 check_missing: the paths of all !required nodes, in walk order
RequiredPathsSeq(t) ==
    SelectSeq(Preorder(t, <<>>), LAMBDA p : p # <<>> /\ At(t, p).k = "required" /\ (Mut("ScanTopLevelOnly") => Len(p) = 1))
CheckRequired(t) == LET ps == RequiredPathsSeq(t)
                    IN [status |-> IF ps = <<>> THEN "ok" ELSE "RequiredError", paths |-> ps]

Init == /\ stages = <<>> /\ acc = Nothing /\ phase = "adding" /\ k = 0
        /\ hist = <<>> /\ accs = <<>> /\ built = NotBuilt

\* Builder.add_source: one document of a source added with safe=s
AddSource(i, sd, s) ==
    /\ phase = "adding" /\ Len(stages) < MaxStages
    /\ stages' = Append(stages, Parse(sd, s))
    /\ hist' = Append(hist, [i |-> i, sd |-> sd, safe |-> s])
    /\ UNCHANGED <<acc, phase, k, accs, built>>

\* Builder.flatten, first stage: premerge(None) and the !notnew check
FlattenFirst ==
    /\ phase = "adding" /\ Len(stages) >= MinStages /\ Len(stages) >= 1
    /\ LET r == FirstDoc(stages[1])
       IN /\ acc' = r /\ accs' = <<r>>
          /\ phase' = IF IsErr(r) THEN "failed" ELSE "merging"
    /\ k' = 2
    /\ UNCHANGED <<stages, hist, built>>

\* one iteration of `root = root.ayns.merge(self.stages[i])`
MergeStage ==
    /\ phase = "merging" /\ k <= Len(stages)
    /\ LET r == MergeDocs(acc, stages[k])
       IN /\ acc' = r /\ accs' = Append(accs, r)
          /\ phase' = IF IsErr(r) THEN "failed" ELSE "merging"
    /\ k' = k + 1
    /\ UNCHANGED <<stages, hist, built>>

Finish ==
    /\ phase = "merging" /\ k > Len(stages)
    /\ phase' = "done"
    /\ UNCHANGED <<stages, acc, k, hist, accs, built>>

\* Config(merged_tree): the !required check comes first; evaluation (AyEval) only after it passed
Construct ==
    /\ phase = "done"
    /\ built' = CheckRequired(acc)
    /\ phase' = "constructed"
    /\ UNCHANGED <<stages, acc, k, hist, accs>>

StageDocs(n) == LET r == DocRange[IF n <= Len(DocRange) THEN n ELSE Len(DocRange)] IN r[1]..r[2]

Next == \/ \E i \in StageDocs(Len(stages) + 1), s \in SafeFlags : AddSource(i, Docs[i], s)
        \/ FlattenFirst \/ MergeStage \/ Finish \/ Construct

Spec == Init /\ [][Next]_vars

Terminal == phase \in {"constructed", "failed"}

=============================================================================
