------------------------------ MODULE AyThreads ------------------------------
(***************************************************************************)
(* C20 - concurrent builds in different threads do not influence each      *)
(* other.                                                                   *)
(*                                                                          *)
(* Every thread t runs, with a builder of its own, the program              *)
(*      b = Builder(); b.add_source(main_t, safe = s_t); [ b.build() ]      *)
(* The only state the threads have in common are three module / class       *)
(* level slots of the library:                                              *)
(*      ConfigNode._default_filename.value   (nodes/node.py:145)   dfile    *)
(*      ConfigNode._default_safe.value       (nodes/node.py:146)   dsafe    *)
(*      errors._api_entered.value            (errors.py:25)        api      *)
(* In the code all three are threading.local objects.  The constants        *)
(* KindFile / KindSafe / KindApi select, per slot, whether thread t reads   *)
(* and writes its own cell ("threadlocal": cell t) or one cell common to    *)
(* all threads ("shared": cell 0) - the latter are the mutations TLC must   *)
(* refute.                                                                  *)
(*                                                                          *)
(* The algorithm is written at LINE granularity: every label is one line    *)
(* (or one group of lines that touches no slot) of the code it cites, so    *)
(* a thread can be preempted between the save and the set of a context      *)
(* manager, between the two reads of a node constructor and between the     *)
(* test and the set of api_entry.  MC_AyThreads groups the labels into      *)
(* the marker-grain steps the conformance harness can schedule.             *)
(*                                                                          *)
(* A job (what a thread is given) is a record                               *)
(*   [name, n, fail, inc, incn, safe, build]                                *)
(*   n     nodes the parse of the main file constructs (before it fails)    *)
(*   fail  the main file does not parse (ParsingError out of add_source)    *)
(*   inc   "none" | "ok": the last node of the main file is an !include of  *)
(*         the thread's second file | "missing": of a file that does not    *)
(*         exist | "bad": of a file that does not parse                     *)
(*   incn  nodes the parse of the included file constructs                  *)
(*   safe  the safe= argument of add_source;  build: build() is called      *)
(***************************************************************************)
EXTENDS Naturals, Sequences, FiniteSets, TLC

CONSTANTS NThreads,          \* threads are 1..NThreads
          KindFile,          \* "threadlocal" | "shared"   ConfigNode._default_filename
          KindSafe,          \* "threadlocal" | "shared"   ConfigNode._default_safe
          KindApi,           \* "threadlocal" | "shared"   errors._api_entered
          RestoreInFinally,  \* TRUE: the context managers restore in a finally clause (node.py:159-162, 172-175)
          JobAssignments,    \* set of functions Threads -> job records
          Lookups            \* directories an include is looked up in (include.py:100; builder.py:305-307): 2

Threads == 1..NThreads
Cell(kind, t) == IF kind = "threadlocal" THEN t ELSE 0
Cells == 0..NThreads

NoFile == <<0, "-">>                       \* None
File(t, which) == <<t, which>>             \* "main" / "inc": the two files of thread t
ErrorKinds == {"ParsingError", "PreprocessError"}   \* subclasses of errors.Error (errors.py:116-136)

(***************************************************************************
--algorithm AyThreads
variables
  dfile = [c \in Cells |-> NoFile],      \* node.py:145, 154-155 (None until set)
  dsafe = [c \in Cells |-> TRUE],        \* node.py:146, 167-168 (True on first use)
  api   = [c \in Cells |-> FALSE],       \* errors.py:25, 30 (getattr default False)
  job \in JobAssignments,
  made  = [t \in Threads |-> <<>>],      \* nodes constructed by t, in order: [src, dsafe] as recorded by the
                                         \* constructor + ghost [ofile, osafe]: what t itself is parsing
  exc   = [t \in Threads |-> "none"],    \* the exception propagating in t
  wraps = [t \in Threads |-> 0],         \* how often api_entry re-created t's error (errors.py:45-51)
  gstack = [t \in Threads |-> <<>>],     \* ghost: t's own active add_source frames [file, safe]
  depth = [t \in Threads |-> 0];         \* ghost: t's own nesting of api calls

define
  ViewFile(t) == dfile[Cell(KindFile, t)]
  ViewSafe(t) == dsafe[Cell(KindSafe, t)]
  ViewApi(t)  == api[Cell(KindApi, t)]

  RECURSIVE AllSafe(_)
  AllSafe(s) == IF s = <<>> THEN TRUE ELSE s[1].safe /\ AllSafe(Tail(s))
  OwnFileNow(t) == IF gstack[t] = <<>> THEN NoFile ELSE gstack[t][Len(gstack[t])].file
  OwnSafeNow(t) == AllSafe(gstack[t])

  \* number of nodes the parse of a file constructs / whether it then fails
  Count(t, which) == IF which = "main" THEN job[t].n ELSE job[t].incn
  Fails(t, which) == IF which = "main" THEN job[t].fail ELSE job[t].inc = "bad"
  \* the safe= argument: the caller's for the main file, IncludeNode.ayns.safe for an included one
  \* (include.py:104; node.py:253: no !unsafe tag, so it is the _default_safe the include node recorded)
  SafeArg(t, which) == IF which = "main" THEN job[t].safe ELSE made[t][job[t].n].dsafe
  \* ghost: the safety t's own sources imply for the file
  OwnSafeArg(t, which) == job[t].safe
end define;

\* errors.py:28-55  api_entry.impl around fn
procedure Api(kind, arg)
variables outer = FALSE, own = FALSE;
begin
CheckApi:                                     \* errors.py:30  if getattr(_api_entered, 'value', False) ...: return fn(..)
  outer := ~ViewApi(self);
  own := (depth[self] = 0);
  depth[self] := depth[self] + 1;
  if outer then
SetApi:                                       \* errors.py:33  _api_entered.value = True
    api[Cell(KindApi, self)] := TRUE;
  end if;
ApiBody:                                      \* errors.py:31 / 35  fn(..)
  if kind = "add_source" then call AddSource(arg);
  elsif kind = "build" then call Build();
  elsif kind = "preprocess" then call Preprocess(arg);
  elsif kind = "flatten" then call Flatten(arg);
  end if;                                     \* "parse": a generator function, nothing runs here (yaml.py:710-711)
LeaveApi:                                     \* errors.py:36-53
  depth[self] := depth[self] - 1;
  if outer then
    if exc[self] \in ErrorKinds then
      wraps[self] := wraps[self] + 1;         \* errors.py:36-51  raise type(e)(...) from e.__context__
    end if;
    api[Cell(KindApi, self)] := FALSE;        \* errors.py:52-53  finally: _api_entered.value = False
  end if;
  return;
end procedure;

\* builder.py:125-195  Builder.add_source (through include.py:104 for an included file)
procedure AddSource(which)
variables oldS = TRUE, oldF = NoFile, i = 0;
begin
A0:                                           \* builder.py:168-179  open / read the file
  if which = "missing" then
    exc[self] := "FileNotFoundError";         \* builder.py:170, 179: raised before the try, not an errors.Error
    return;
  end if;
SaveSafe:                                     \* node.py:167-170  old = _default_safe.value
  oldS := ViewSafe(self);
SetSafe:                                      \* node.py:171  _default_safe.value = value and old  (builder.py:188)
  dsafe[Cell(KindSafe, self)] := SafeArg(self, which) /\ oldS;
  gstack[self] := Append(gstack[self], [file |-> File(self, which), safe |-> OwnSafeArg(self, which)]);
SaveFile:                                     \* node.py:154-157  old = _default_filename.value
  oldF := ViewFile(self);
SetFile:                                      \* node.py:158  _default_filename.value = filename  (builder.py:189)
  dfile[Cell(KindFile, self)] := File(self, which);
A1:                                           \* builder.py:191  yaml.parse(source, self)
  call Api("parse", which);
ParseLoop:                                    \* yaml.py:742 load_all: one constructor call per yaml node
  while i < Count(self, which) do
    i := i + 1;
    call NewNode();
  end while;
Raise:                                        \* yaml.py:747-753  a constructor error becomes a ParsingError
  if Fails(self, which) then
    exc[self] := "ParsingError";
  end if;
RestoreFile:                                  \* node.py:161-162  finally: _default_filename.value = old
  if exc[self] = "none" \/ RestoreInFinally then
    dfile[Cell(KindFile, self)] := oldF;
  end if;
RestoreSafe:                                  \* node.py:174-175  finally: _default_safe.value = old
  if exc[self] = "none" \/ RestoreInFinally then
    dsafe[Cell(KindSafe, self)] := oldS;
  end if;
  gstack[self] := SubSeq(gstack[self], 1, Len(gstack[self]) - 1);
  return;
end procedure;

\* node.py:178-199  ConfigNode.__init__ reads both defaults
procedure NewNode()
variables src = NoFile;
begin
ReadFile:                                     \* node.py:194  getattr(_default_filename, 'value', None)
  src := ViewFile(self);
ReadSafe:                                     \* node.py:199  getattr(_default_safe, 'value', False)
  made[self] := Append(made[self], [src |-> src, dsafe |-> ViewSafe(self),
                                    ofile |-> OwnFileNow(self), osafe |-> OwnSafeNow(self)]);
  return;
end procedure;

\* builder.py:197-211  Builder.build
procedure Build()
begin
B1:                                           \* builder.py:209  self.preprocess()
  call Api("preprocess", "main");
B2:                                           \* builder.py:210  self.flatten()
  if exc[self] = "none" then
    call Api("flatten", "main");
  end if;
B3:
  return;
end procedure;

\* builder.py:213-261  Builder.preprocess; include.py:96-118 IncludeNode.on_preprocess_impl; builder.py:353-364 SubBuilder.build
procedure Preprocess(pw)
variables tries = 0;
begin
P1:
  if pw = "main" /\ job[self].inc = "missing" then
P1a:                                          \* include.py:100-110  one attempt per lookup directory
    while tries < Lookups do
      tries := tries + 1;
      call Api("add_source", "missing");
P1b:                                          \* include.py:106  except FileNotFoundError: continue
      exc[self] := "none";
      wraps[self] := 0;
    end while;
P1c:                                          \* include.py:115 raise FileNotFoundError; node.py:43 + errors.py:152-158 -> PreprocessError
    exc[self] := "PreprocessError";         \* a new exception object: not yet re-created by api_entry
    wraps[self] := 0;
  elsif pw = "main" /\ job[self].inc \in {"ok", "bad"} then
    call Api("add_source", "inc");            \* include.py:104  subbuilder.add_source(file, safe=self.ayns.safe)
P2:
    if exc[self] # "none" then
      exc[self] := "PreprocessError";         \* node.py:43 + errors.py:152-158: a ParsingError is re-raised as PreprocessError
      wraps[self] := 0;
    else
      call Api("preprocess", "inc");          \* builder.py:363  SubBuilder.build -> self.preprocess()
P3:
      call NewNode();                         \* builder.py:364  StreamNode(self): constructed outside every context
    end if;
  end if;
P4:
  return;
end procedure;

\* builder.py:263-291  Builder.flatten; stream.py: the included stream is flattened by its sub-builder
procedure Flatten(fw)
begin
F1:
  if fw = "main" /\ job[self].inc = "ok" then
    call Api("flatten", "inc");
  end if;
F2:
  return;
end procedure;

fair process thr \in Threads
begin
T0:                                           \* b = Builder(); b.add_source(main, safe=job.safe)
  call Api("add_source", "main");
T1:                                           \* b.build()  (the caller stops at the first exception)
  if exc[self] = "none" /\ job[self].build then
    call Api("build", "main");
  end if;
T2:
  skip;
end process;
end algorithm
 ***************************************************************************)

\* BEGIN TRANSLATION
CONSTANT defaultInitValue
VARIABLES pc, dfile, dsafe, api, job, made, exc, wraps, gstack, depth, stack

(* define statement *)
ViewFile(t) == dfile[Cell(KindFile, t)]
ViewSafe(t) == dsafe[Cell(KindSafe, t)]
ViewApi(t)  == api[Cell(KindApi, t)]

RECURSIVE AllSafe(_)
AllSafe(s) == IF s = <<>> THEN TRUE ELSE s[1].safe /\ AllSafe(Tail(s))
OwnFileNow(t) == IF gstack[t] = <<>> THEN NoFile ELSE gstack[t][Len(gstack[t])].file
OwnSafeNow(t) == AllSafe(gstack[t])


Count(t, which) == IF which = "main" THEN job[t].n ELSE job[t].incn
Fails(t, which) == IF which = "main" THEN job[t].fail ELSE job[t].inc = "bad"


SafeArg(t, which) == IF which = "main" THEN job[t].safe ELSE made[t][job[t].n].dsafe

OwnSafeArg(t, which) == job[t].safe

VARIABLES kind, arg, outer, own, which, oldS, oldF, i, src, pw, tries, fw

vars == << pc, dfile, dsafe, api, job, made, exc, wraps, gstack, depth, stack, 
           kind, arg, outer, own, which, oldS, oldF, i, src, pw, tries, fw >>

ProcSet == (Threads)

Init == (* Global variables *)
        /\ dfile = [c \in Cells |-> NoFile]
        /\ dsafe = [c \in Cells |-> TRUE]
        /\ api = [c \in Cells |-> FALSE]
        /\ job \in JobAssignments
        /\ made = [t \in Threads |-> <<>>]
        /\ exc = [t \in Threads |-> "none"]
        /\ wraps = [t \in Threads |-> 0]
        /\ gstack = [t \in Threads |-> <<>>]
        /\ depth = [t \in Threads |-> 0]
        (* Procedure Api *)
        /\ kind = [ self \in ProcSet |-> defaultInitValue]
        /\ arg = [ self \in ProcSet |-> defaultInitValue]
        /\ outer = [ self \in ProcSet |-> FALSE]
        /\ own = [ self \in ProcSet |-> FALSE]
        (* Procedure AddSource *)
        /\ which = [ self \in ProcSet |-> defaultInitValue]
        /\ oldS = [ self \in ProcSet |-> TRUE]
        /\ oldF = [ self \in ProcSet |-> NoFile]
        /\ i = [ self \in ProcSet |-> 0]
        (* Procedure NewNode *)
        /\ src = [ self \in ProcSet |-> NoFile]
        (* Procedure Preprocess *)
        /\ pw = [ self \in ProcSet |-> defaultInitValue]
        /\ tries = [ self \in ProcSet |-> 0]
        (* Procedure Flatten *)
        /\ fw = [ self \in ProcSet |-> defaultInitValue]
        /\ stack = [self \in ProcSet |-> << >>]
        /\ pc = [self \in ProcSet |-> "T0"]

CheckApi(self) == /\ pc[self] = "CheckApi"
                  /\ outer' = [outer EXCEPT ![self] = ~ViewApi(self)]
                  /\ own' = [own EXCEPT ![self] = (depth[self] = 0)]
                  /\ depth' = [depth EXCEPT ![self] = depth[self] + 1]
                  /\ IF outer'[self]
                        THEN /\ pc' = [pc EXCEPT ![self] = "SetApi"]
                        ELSE /\ pc' = [pc EXCEPT ![self] = "ApiBody"]
                  /\ UNCHANGED << dfile, dsafe, api, job, made, exc, wraps, 
                                  gstack, stack, kind, arg, which, oldS, oldF, 
                                  i, src, pw, tries, fw >>

SetApi(self) == /\ pc[self] = "SetApi"
                /\ api' = [api EXCEPT ![Cell(KindApi, self)] = TRUE]
                /\ pc' = [pc EXCEPT ![self] = "ApiBody"]
                /\ UNCHANGED << dfile, dsafe, job, made, exc, wraps, gstack, 
                                depth, stack, kind, arg, outer, own, which, 
                                oldS, oldF, i, src, pw, tries, fw >>

ApiBody(self) == /\ pc[self] = "ApiBody"
                 /\ IF kind[self] = "add_source"
                       THEN /\ /\ stack' = [stack EXCEPT ![self] = << [ procedure |->  "AddSource",
                                                                        pc        |->  "LeaveApi",
                                                                        oldS      |->  oldS[self],
                                                                        oldF      |->  oldF[self],
                                                                        i         |->  i[self],
                                                                        which     |->  which[self] ] >>
                                                                    \o stack[self]]
                               /\ which' = [which EXCEPT ![self] = arg[self]]
                            /\ oldS' = [oldS EXCEPT ![self] = TRUE]
                            /\ oldF' = [oldF EXCEPT ![self] = NoFile]
                            /\ i' = [i EXCEPT ![self] = 0]
                            /\ pc' = [pc EXCEPT ![self] = "A0"]
                            /\ UNCHANGED << pw, tries, fw >>
                       ELSE /\ IF kind[self] = "build"
                                  THEN /\ stack' = [stack EXCEPT ![self] = << [ procedure |->  "Build",
                                                                                pc        |->  "LeaveApi" ] >>
                                                                            \o stack[self]]
                                       /\ pc' = [pc EXCEPT ![self] = "B1"]
                                       /\ UNCHANGED << pw, tries, fw >>
                                  ELSE /\ IF kind[self] = "preprocess"
                                             THEN /\ /\ pw' = [pw EXCEPT ![self] = arg[self]]
                                                     /\ stack' = [stack EXCEPT ![self] = << [ procedure |->  "Preprocess",
                                                                                              pc        |->  "LeaveApi",
                                                                                              tries     |->  tries[self],
                                                                                              pw        |->  pw[self] ] >>
                                                                                          \o stack[self]]
                                                  /\ tries' = [tries EXCEPT ![self] = 0]
                                                  /\ pc' = [pc EXCEPT ![self] = "P1"]
                                                  /\ fw' = fw
                                             ELSE /\ IF kind[self] = "flatten"
                                                        THEN /\ /\ fw' = [fw EXCEPT ![self] = arg[self]]
                                                                /\ stack' = [stack EXCEPT ![self] = << [ procedure |->  "Flatten",
                                                                                                         pc        |->  "LeaveApi",
                                                                                                         fw        |->  fw[self] ] >>
                                                                                                     \o stack[self]]
                                                             /\ pc' = [pc EXCEPT ![self] = "F1"]
                                                        ELSE /\ pc' = [pc EXCEPT ![self] = "LeaveApi"]
                                                             /\ UNCHANGED << stack, 
                                                                             fw >>
                                                  /\ UNCHANGED << pw, tries >>
                            /\ UNCHANGED << which, oldS, oldF, i >>
                 /\ UNCHANGED << dfile, dsafe, api, job, made, exc, wraps, 
                                 gstack, depth, kind, arg, outer, own, src >>

LeaveApi(self) == /\ pc[self] = "LeaveApi"
                  /\ depth' = [depth EXCEPT ![self] = depth[self] - 1]
                  /\ IF outer[self]
                        THEN /\ IF exc[self] \in ErrorKinds
                                   THEN /\ wraps' = [wraps EXCEPT ![self] = wraps[self] + 1]
                                   ELSE /\ TRUE
                                        /\ wraps' = wraps
                             /\ api' = [api EXCEPT ![Cell(KindApi, self)] = FALSE]
                        ELSE /\ TRUE
                             /\ UNCHANGED << api, wraps >>
                  /\ pc' = [pc EXCEPT ![self] = Head(stack[self]).pc]
                  /\ outer' = [outer EXCEPT ![self] = Head(stack[self]).outer]
                  /\ own' = [own EXCEPT ![self] = Head(stack[self]).own]
                  /\ kind' = [kind EXCEPT ![self] = Head(stack[self]).kind]
                  /\ arg' = [arg EXCEPT ![self] = Head(stack[self]).arg]
                  /\ stack' = [stack EXCEPT ![self] = Tail(stack[self])]
                  /\ UNCHANGED << dfile, dsafe, job, made, exc, gstack, which, 
                                  oldS, oldF, i, src, pw, tries, fw >>

Api(self) == CheckApi(self) \/ SetApi(self) \/ ApiBody(self)
                \/ LeaveApi(self)

A0(self) == /\ pc[self] = "A0"
            /\ IF which[self] = "missing"
                  THEN /\ exc' = [exc EXCEPT ![self] = "FileNotFoundError"]
                       /\ pc' = [pc EXCEPT ![self] = Head(stack[self]).pc]
                       /\ oldS' = [oldS EXCEPT ![self] = Head(stack[self]).oldS]
                       /\ oldF' = [oldF EXCEPT ![self] = Head(stack[self]).oldF]
                       /\ i' = [i EXCEPT ![self] = Head(stack[self]).i]
                       /\ which' = [which EXCEPT ![self] = Head(stack[self]).which]
                       /\ stack' = [stack EXCEPT ![self] = Tail(stack[self])]
                  ELSE /\ pc' = [pc EXCEPT ![self] = "SaveSafe"]
                       /\ UNCHANGED << exc, stack, which, oldS, oldF, i >>
            /\ UNCHANGED << dfile, dsafe, api, job, made, wraps, gstack, depth, 
                            kind, arg, outer, own, src, pw, tries, fw >>

SaveSafe(self) == /\ pc[self] = "SaveSafe"
                  /\ oldS' = [oldS EXCEPT ![self] = ViewSafe(self)]
                  /\ pc' = [pc EXCEPT ![self] = "SetSafe"]
                  /\ UNCHANGED << dfile, dsafe, api, job, made, exc, wraps, 
                                  gstack, depth, stack, kind, arg, outer, own, 
                                  which, oldF, i, src, pw, tries, fw >>

SetSafe(self) == /\ pc[self] = "SetSafe"
                 /\ dsafe' = [dsafe EXCEPT ![Cell(KindSafe, self)] = SafeArg(self, which[self]) /\ oldS[self]]
                 /\ gstack' = [gstack EXCEPT ![self] = Append(gstack[self], [file |-> File(self, which[self]), safe |-> OwnSafeArg(self, which[self])])]
                 /\ pc' = [pc EXCEPT ![self] = "SaveFile"]
                 /\ UNCHANGED << dfile, api, job, made, exc, wraps, depth, 
                                 stack, kind, arg, outer, own, which, oldS, 
                                 oldF, i, src, pw, tries, fw >>

SaveFile(self) == /\ pc[self] = "SaveFile"
                  /\ oldF' = [oldF EXCEPT ![self] = ViewFile(self)]
                  /\ pc' = [pc EXCEPT ![self] = "SetFile"]
                  /\ UNCHANGED << dfile, dsafe, api, job, made, exc, wraps, 
                                  gstack, depth, stack, kind, arg, outer, own, 
                                  which, oldS, i, src, pw, tries, fw >>

SetFile(self) == /\ pc[self] = "SetFile"
                 /\ dfile' = [dfile EXCEPT ![Cell(KindFile, self)] = File(self, which[self])]
                 /\ pc' = [pc EXCEPT ![self] = "A1"]
                 /\ UNCHANGED << dsafe, api, job, made, exc, wraps, gstack, 
                                 depth, stack, kind, arg, outer, own, which, 
                                 oldS, oldF, i, src, pw, tries, fw >>

A1(self) == /\ pc[self] = "A1"
            /\ /\ arg' = [arg EXCEPT ![self] = which[self]]
               /\ kind' = [kind EXCEPT ![self] = "parse"]
               /\ stack' = [stack EXCEPT ![self] = << [ procedure |->  "Api",
                                                        pc        |->  "ParseLoop",
                                                        outer     |->  outer[self],
                                                        own       |->  own[self],
                                                        kind      |->  kind[self],
                                                        arg       |->  arg[self] ] >>
                                                    \o stack[self]]
            /\ outer' = [outer EXCEPT ![self] = FALSE]
            /\ own' = [own EXCEPT ![self] = FALSE]
            /\ pc' = [pc EXCEPT ![self] = "CheckApi"]
            /\ UNCHANGED << dfile, dsafe, api, job, made, exc, wraps, gstack, 
                            depth, which, oldS, oldF, i, src, pw, tries, fw >>

ParseLoop(self) == /\ pc[self] = "ParseLoop"
                   /\ IF i[self] < Count(self, which[self])
                         THEN /\ i' = [i EXCEPT ![self] = i[self] + 1]
                              /\ stack' = [stack EXCEPT ![self] = << [ procedure |->  "NewNode",
                                                                       pc        |->  "ParseLoop",
                                                                       src       |->  src[self] ] >>
                                                                   \o stack[self]]
                              /\ src' = [src EXCEPT ![self] = NoFile]
                              /\ pc' = [pc EXCEPT ![self] = "ReadFile"]
                         ELSE /\ pc' = [pc EXCEPT ![self] = "Raise"]
                              /\ UNCHANGED << stack, i, src >>
                   /\ UNCHANGED << dfile, dsafe, api, job, made, exc, wraps, 
                                   gstack, depth, kind, arg, outer, own, which, 
                                   oldS, oldF, pw, tries, fw >>

Raise(self) == /\ pc[self] = "Raise"
               /\ IF Fails(self, which[self])
                     THEN /\ exc' = [exc EXCEPT ![self] = "ParsingError"]
                     ELSE /\ TRUE
                          /\ exc' = exc
               /\ pc' = [pc EXCEPT ![self] = "RestoreFile"]
               /\ UNCHANGED << dfile, dsafe, api, job, made, wraps, gstack, 
                               depth, stack, kind, arg, outer, own, which, 
                               oldS, oldF, i, src, pw, tries, fw >>

RestoreFile(self) == /\ pc[self] = "RestoreFile"
                     /\ IF exc[self] = "none" \/ RestoreInFinally
                           THEN /\ dfile' = [dfile EXCEPT ![Cell(KindFile, self)] = oldF[self]]
                           ELSE /\ TRUE
                                /\ dfile' = dfile
                     /\ pc' = [pc EXCEPT ![self] = "RestoreSafe"]
                     /\ UNCHANGED << dsafe, api, job, made, exc, wraps, gstack, 
                                     depth, stack, kind, arg, outer, own, 
                                     which, oldS, oldF, i, src, pw, tries, fw >>

RestoreSafe(self) == /\ pc[self] = "RestoreSafe"
                     /\ IF exc[self] = "none" \/ RestoreInFinally
                           THEN /\ dsafe' = [dsafe EXCEPT ![Cell(KindSafe, self)] = oldS[self]]
                           ELSE /\ TRUE
                                /\ dsafe' = dsafe
                     /\ gstack' = [gstack EXCEPT ![self] = SubSeq(gstack[self], 1, Len(gstack[self]) - 1)]
                     /\ pc' = [pc EXCEPT ![self] = Head(stack[self]).pc]
                     /\ oldS' = [oldS EXCEPT ![self] = Head(stack[self]).oldS]
                     /\ oldF' = [oldF EXCEPT ![self] = Head(stack[self]).oldF]
                     /\ i' = [i EXCEPT ![self] = Head(stack[self]).i]
                     /\ which' = [which EXCEPT ![self] = Head(stack[self]).which]
                     /\ stack' = [stack EXCEPT ![self] = Tail(stack[self])]
                     /\ UNCHANGED << dfile, api, job, made, exc, wraps, depth, 
                                     kind, arg, outer, own, src, pw, tries, fw >>

AddSource(self) == A0(self) \/ SaveSafe(self) \/ SetSafe(self)
                      \/ SaveFile(self) \/ SetFile(self) \/ A1(self)
                      \/ ParseLoop(self) \/ Raise(self)
                      \/ RestoreFile(self) \/ RestoreSafe(self)

ReadFile(self) == /\ pc[self] = "ReadFile"
                  /\ src' = [src EXCEPT ![self] = ViewFile(self)]
                  /\ pc' = [pc EXCEPT ![self] = "ReadSafe"]
                  /\ UNCHANGED << dfile, dsafe, api, job, made, exc, wraps, 
                                  gstack, depth, stack, kind, arg, outer, own, 
                                  which, oldS, oldF, i, pw, tries, fw >>

ReadSafe(self) == /\ pc[self] = "ReadSafe"
                  /\ made' = [made EXCEPT ![self] = Append(made[self], [src |-> src[self], dsafe |-> ViewSafe(self),
                                                                        ofile |-> OwnFileNow(self), osafe |-> OwnSafeNow(self)])]
                  /\ pc' = [pc EXCEPT ![self] = Head(stack[self]).pc]
                  /\ src' = [src EXCEPT ![self] = Head(stack[self]).src]
                  /\ stack' = [stack EXCEPT ![self] = Tail(stack[self])]
                  /\ UNCHANGED << dfile, dsafe, api, job, exc, wraps, gstack, 
                                  depth, kind, arg, outer, own, which, oldS, 
                                  oldF, i, pw, tries, fw >>

NewNode(self) == ReadFile(self) \/ ReadSafe(self)

B1(self) == /\ pc[self] = "B1"
            /\ /\ arg' = [arg EXCEPT ![self] = "main"]
               /\ kind' = [kind EXCEPT ![self] = "preprocess"]
               /\ stack' = [stack EXCEPT ![self] = << [ procedure |->  "Api",
                                                        pc        |->  "B2",
                                                        outer     |->  outer[self],
                                                        own       |->  own[self],
                                                        kind      |->  kind[self],
                                                        arg       |->  arg[self] ] >>
                                                    \o stack[self]]
            /\ outer' = [outer EXCEPT ![self] = FALSE]
            /\ own' = [own EXCEPT ![self] = FALSE]
            /\ pc' = [pc EXCEPT ![self] = "CheckApi"]
            /\ UNCHANGED << dfile, dsafe, api, job, made, exc, wraps, gstack, 
                            depth, which, oldS, oldF, i, src, pw, tries, fw >>

B2(self) == /\ pc[self] = "B2"
            /\ IF exc[self] = "none"
                  THEN /\ /\ arg' = [arg EXCEPT ![self] = "main"]
                          /\ kind' = [kind EXCEPT ![self] = "flatten"]
                          /\ stack' = [stack EXCEPT ![self] = << [ procedure |->  "Api",
                                                                   pc        |->  "B3",
                                                                   outer     |->  outer[self],
                                                                   own       |->  own[self],
                                                                   kind      |->  kind[self],
                                                                   arg       |->  arg[self] ] >>
                                                               \o stack[self]]
                       /\ outer' = [outer EXCEPT ![self] = FALSE]
                       /\ own' = [own EXCEPT ![self] = FALSE]
                       /\ pc' = [pc EXCEPT ![self] = "CheckApi"]
                  ELSE /\ pc' = [pc EXCEPT ![self] = "B3"]
                       /\ UNCHANGED << stack, kind, arg, outer, own >>
            /\ UNCHANGED << dfile, dsafe, api, job, made, exc, wraps, gstack, 
                            depth, which, oldS, oldF, i, src, pw, tries, fw >>

B3(self) == /\ pc[self] = "B3"
            /\ pc' = [pc EXCEPT ![self] = Head(stack[self]).pc]
            /\ stack' = [stack EXCEPT ![self] = Tail(stack[self])]
            /\ UNCHANGED << dfile, dsafe, api, job, made, exc, wraps, gstack, 
                            depth, kind, arg, outer, own, which, oldS, oldF, i, 
                            src, pw, tries, fw >>

Build(self) == B1(self) \/ B2(self) \/ B3(self)

P1(self) == /\ pc[self] = "P1"
            /\ IF pw[self] = "main" /\ job[self].inc = "missing"
                  THEN /\ pc' = [pc EXCEPT ![self] = "P1a"]
                       /\ UNCHANGED << stack, kind, arg, outer, own >>
                  ELSE /\ IF pw[self] = "main" /\ job[self].inc \in {"ok", "bad"}
                             THEN /\ /\ arg' = [arg EXCEPT ![self] = "inc"]
                                     /\ kind' = [kind EXCEPT ![self] = "add_source"]
                                     /\ stack' = [stack EXCEPT ![self] = << [ procedure |->  "Api",
                                                                              pc        |->  "P2",
                                                                              outer     |->  outer[self],
                                                                              own       |->  own[self],
                                                                              kind      |->  kind[self],
                                                                              arg       |->  arg[self] ] >>
                                                                          \o stack[self]]
                                  /\ outer' = [outer EXCEPT ![self] = FALSE]
                                  /\ own' = [own EXCEPT ![self] = FALSE]
                                  /\ pc' = [pc EXCEPT ![self] = "CheckApi"]
                             ELSE /\ pc' = [pc EXCEPT ![self] = "P4"]
                                  /\ UNCHANGED << stack, kind, arg, outer, own >>
            /\ UNCHANGED << dfile, dsafe, api, job, made, exc, wraps, gstack, 
                            depth, which, oldS, oldF, i, src, pw, tries, fw >>

P1a(self) == /\ pc[self] = "P1a"
             /\ IF tries[self] < Lookups
                   THEN /\ tries' = [tries EXCEPT ![self] = tries[self] + 1]
                        /\ /\ arg' = [arg EXCEPT ![self] = "missing"]
                           /\ kind' = [kind EXCEPT ![self] = "add_source"]
                           /\ stack' = [stack EXCEPT ![self] = << [ procedure |->  "Api",
                                                                    pc        |->  "P1b",
                                                                    outer     |->  outer[self],
                                                                    own       |->  own[self],
                                                                    kind      |->  kind[self],
                                                                    arg       |->  arg[self] ] >>
                                                                \o stack[self]]
                        /\ outer' = [outer EXCEPT ![self] = FALSE]
                        /\ own' = [own EXCEPT ![self] = FALSE]
                        /\ pc' = [pc EXCEPT ![self] = "CheckApi"]
                   ELSE /\ pc' = [pc EXCEPT ![self] = "P1c"]
                        /\ UNCHANGED << stack, kind, arg, outer, own, tries >>
             /\ UNCHANGED << dfile, dsafe, api, job, made, exc, wraps, gstack, 
                             depth, which, oldS, oldF, i, src, pw, fw >>

P1b(self) == /\ pc[self] = "P1b"
             /\ exc' = [exc EXCEPT ![self] = "none"]
             /\ wraps' = [wraps EXCEPT ![self] = 0]
             /\ pc' = [pc EXCEPT ![self] = "P1a"]
             /\ UNCHANGED << dfile, dsafe, api, job, made, gstack, depth, 
                             stack, kind, arg, outer, own, which, oldS, oldF, 
                             i, src, pw, tries, fw >>

P1c(self) == /\ pc[self] = "P1c"
             /\ exc' = [exc EXCEPT ![self] = "PreprocessError"]
             /\ wraps' = [wraps EXCEPT ![self] = 0]
             /\ pc' = [pc EXCEPT ![self] = "P4"]
             /\ UNCHANGED << dfile, dsafe, api, job, made, gstack, depth, 
                             stack, kind, arg, outer, own, which, oldS, oldF, 
                             i, src, pw, tries, fw >>

P2(self) == /\ pc[self] = "P2"
            /\ IF exc[self] # "none"
                  THEN /\ exc' = [exc EXCEPT ![self] = "PreprocessError"]
                       /\ wraps' = [wraps EXCEPT ![self] = 0]
                       /\ pc' = [pc EXCEPT ![self] = "P4"]
                       /\ UNCHANGED << stack, kind, arg, outer, own >>
                  ELSE /\ /\ arg' = [arg EXCEPT ![self] = "inc"]
                          /\ kind' = [kind EXCEPT ![self] = "preprocess"]
                          /\ stack' = [stack EXCEPT ![self] = << [ procedure |->  "Api",
                                                                   pc        |->  "P3",
                                                                   outer     |->  outer[self],
                                                                   own       |->  own[self],
                                                                   kind      |->  kind[self],
                                                                   arg       |->  arg[self] ] >>
                                                               \o stack[self]]
                       /\ outer' = [outer EXCEPT ![self] = FALSE]
                       /\ own' = [own EXCEPT ![self] = FALSE]
                       /\ pc' = [pc EXCEPT ![self] = "CheckApi"]
                       /\ UNCHANGED << exc, wraps >>
            /\ UNCHANGED << dfile, dsafe, api, job, made, gstack, depth, which, 
                            oldS, oldF, i, src, pw, tries, fw >>

P3(self) == /\ pc[self] = "P3"
            /\ stack' = [stack EXCEPT ![self] = << [ procedure |->  "NewNode",
                                                     pc        |->  "P4",
                                                     src       |->  src[self] ] >>
                                                 \o stack[self]]
            /\ src' = [src EXCEPT ![self] = NoFile]
            /\ pc' = [pc EXCEPT ![self] = "ReadFile"]
            /\ UNCHANGED << dfile, dsafe, api, job, made, exc, wraps, gstack, 
                            depth, kind, arg, outer, own, which, oldS, oldF, i, 
                            pw, tries, fw >>

P4(self) == /\ pc[self] = "P4"
            /\ pc' = [pc EXCEPT ![self] = Head(stack[self]).pc]
            /\ tries' = [tries EXCEPT ![self] = Head(stack[self]).tries]
            /\ pw' = [pw EXCEPT ![self] = Head(stack[self]).pw]
            /\ stack' = [stack EXCEPT ![self] = Tail(stack[self])]
            /\ UNCHANGED << dfile, dsafe, api, job, made, exc, wraps, gstack, 
                            depth, kind, arg, outer, own, which, oldS, oldF, i, 
                            src, fw >>

Preprocess(self) == P1(self) \/ P1a(self) \/ P1b(self) \/ P1c(self)
                       \/ P2(self) \/ P3(self) \/ P4(self)

F1(self) == /\ pc[self] = "F1"
            /\ IF fw[self] = "main" /\ job[self].inc = "ok"
                  THEN /\ /\ arg' = [arg EXCEPT ![self] = "inc"]
                          /\ kind' = [kind EXCEPT ![self] = "flatten"]
                          /\ stack' = [stack EXCEPT ![self] = << [ procedure |->  "Api",
                                                                   pc        |->  "F2",
                                                                   outer     |->  outer[self],
                                                                   own       |->  own[self],
                                                                   kind      |->  kind[self],
                                                                   arg       |->  arg[self] ] >>
                                                               \o stack[self]]
                       /\ outer' = [outer EXCEPT ![self] = FALSE]
                       /\ own' = [own EXCEPT ![self] = FALSE]
                       /\ pc' = [pc EXCEPT ![self] = "CheckApi"]
                  ELSE /\ pc' = [pc EXCEPT ![self] = "F2"]
                       /\ UNCHANGED << stack, kind, arg, outer, own >>
            /\ UNCHANGED << dfile, dsafe, api, job, made, exc, wraps, gstack, 
                            depth, which, oldS, oldF, i, src, pw, tries, fw >>

F2(self) == /\ pc[self] = "F2"
            /\ pc' = [pc EXCEPT ![self] = Head(stack[self]).pc]
            /\ fw' = [fw EXCEPT ![self] = Head(stack[self]).fw]
            /\ stack' = [stack EXCEPT ![self] = Tail(stack[self])]
            /\ UNCHANGED << dfile, dsafe, api, job, made, exc, wraps, gstack, 
                            depth, kind, arg, outer, own, which, oldS, oldF, i, 
                            src, pw, tries >>

Flatten(self) == F1(self) \/ F2(self)

T0(self) == /\ pc[self] = "T0"
            /\ /\ arg' = [arg EXCEPT ![self] = "main"]
               /\ kind' = [kind EXCEPT ![self] = "add_source"]
               /\ stack' = [stack EXCEPT ![self] = << [ procedure |->  "Api",
                                                        pc        |->  "T1",
                                                        outer     |->  outer[self],
                                                        own       |->  own[self],
                                                        kind      |->  kind[self],
                                                        arg       |->  arg[self] ] >>
                                                    \o stack[self]]
            /\ outer' = [outer EXCEPT ![self] = FALSE]
            /\ own' = [own EXCEPT ![self] = FALSE]
            /\ pc' = [pc EXCEPT ![self] = "CheckApi"]
            /\ UNCHANGED << dfile, dsafe, api, job, made, exc, wraps, gstack, 
                            depth, which, oldS, oldF, i, src, pw, tries, fw >>

T1(self) == /\ pc[self] = "T1"
            /\ IF exc[self] = "none" /\ job[self].build
                  THEN /\ /\ arg' = [arg EXCEPT ![self] = "main"]
                          /\ kind' = [kind EXCEPT ![self] = "build"]
                          /\ stack' = [stack EXCEPT ![self] = << [ procedure |->  "Api",
                                                                   pc        |->  "T2",
                                                                   outer     |->  outer[self],
                                                                   own       |->  own[self],
                                                                   kind      |->  kind[self],
                                                                   arg       |->  arg[self] ] >>
                                                               \o stack[self]]
                       /\ outer' = [outer EXCEPT ![self] = FALSE]
                       /\ own' = [own EXCEPT ![self] = FALSE]
                       /\ pc' = [pc EXCEPT ![self] = "CheckApi"]
                  ELSE /\ pc' = [pc EXCEPT ![self] = "T2"]
                       /\ UNCHANGED << stack, kind, arg, outer, own >>
            /\ UNCHANGED << dfile, dsafe, api, job, made, exc, wraps, gstack, 
                            depth, which, oldS, oldF, i, src, pw, tries, fw >>

T2(self) == /\ pc[self] = "T2"
            /\ TRUE
            /\ pc' = [pc EXCEPT ![self] = "Done"]
            /\ UNCHANGED << dfile, dsafe, api, job, made, exc, wraps, gstack, 
                            depth, stack, kind, arg, outer, own, which, oldS, 
                            oldF, i, src, pw, tries, fw >>

thr(self) == T0(self) \/ T1(self) \/ T2(self)

(* Allow infinite stuttering to prevent deadlock on termination. *)
Terminating == /\ \A self \in ProcSet: pc[self] = "Done"
               /\ UNCHANGED vars

Next == (\E self \in ProcSet:  \/ Api(self) \/ AddSource(self)
                               \/ NewNode(self) \/ Build(self)
                               \/ Preprocess(self) \/ Flatten(self))
           \/ (\E self \in Threads: thr(self))
           \/ Terminating

Spec == /\ Init /\ [][Next]_vars
        /\ \A self \in Threads : /\ WF_vars(thr(self))
                                 /\ WF_vars(Api(self))
                                 /\ WF_vars(AddSource(self))
                                 /\ WF_vars(NewNode(self))
                                 /\ WF_vars(Build(self))
                                 /\ WF_vars(Preprocess(self))
                                 /\ WF_vars(Flatten(self))

Termination == <>(\A self \in ProcSet: pc[self] = "Done")

\* END TRANSLATION

(***************************************************************************)
(* The property.                                                            *)
(***************************************************************************)
Initial(t) == ViewFile(t) = NoFile /\ ViewSafe(t) = TRUE /\ ViewApi(t) = FALSE

\* every node created by thread t records the file t is parsing
OwnFile == \A t \in Threads : \A k \in 1..Len(made[t]) : made[t][k].src = made[t][k].ofile

\* ... and the safety of t's own source and of the includes enclosing it
OwnSafety == \A t \in Threads : \A k \in 1..Len(made[t]) : made[t][k].dsafe = made[t][k].osafe

\* between and after its api calls a thread finds its slots as they were initially
Restored == \A t \in Threads : pc[t] \in {"T1", "T2", "Done"} => Initial(t)

\* the wrapping decision api_entry takes for t depends on t's own nesting only,
\* and an error leaves t re-created exactly once (by t's outermost api call)
ErrorsLocal ==
    /\ \A t \in Threads : pc[t] \in {"SetApi", "ApiBody"} => (outer[t] = own[t])
    /\ \A t \in Threads : pc[t] = "Done" => wraps[t] = (IF exc[t] \in ErrorKinds THEN 1 ELSE 0)

\* what a thread produces: the (file, default-safe) pairs of its nodes in construction order + its error report
Result(t) == [nodes |-> [k \in 1..Len(made[t]) |-> <<made[t][k].src, made[t][k].dsafe>>],
              exc |-> exc[t], wraps |-> wraps[t]]

\* ... and what the same job produces when it runs alone (declarative, from the job record)
Rep(n, x) == [k \in 1..n |-> x]
SequentialResult(t) ==
    LET j == job[t]
        built == j.build /\ ~j.fail
        e == IF j.fail THEN "ParsingError"
             ELSE IF built /\ j.inc \in {"missing", "bad"} THEN "PreprocessError" ELSE "none"
    IN [nodes |-> Rep(j.n, <<File(t, "main"), j.safe>>)
                  \o (IF built /\ j.inc \in {"ok", "bad"} THEN Rep(j.incn, <<File(t, "inc"), j.safe>>) ELSE <<>>)
                  \o (IF built /\ j.inc = "ok" THEN << <<NoFile, TRUE>> >> ELSE <<>>),
        exc |-> e, wraps |-> IF e = "none" THEN 0 ELSE 1]

SeqEquivalent == \A t \in Threads : pc[t] = "Done" => Result(t) = SequentialResult(t)

AllDone == \A t \in Threads : pc[t] = "Done"
Termination2 == <>AllDone

TypeOK == /\ \A c \in Cells : dsafe[c] \in BOOLEAN /\ api[c] \in BOOLEAN
          /\ \A t \in Threads : exc[t] \in {"none", "FileNotFoundError"} \cup ErrorKinds
          /\ \A t \in Threads : depth[t] \in 0..8 /\ wraps[t] \in 0..8

(***************************************************************************)
(* Grouping of the labels into the steps a marker-grain scheduler sees      *)
(* (used by MC_AyThreads and Trace_AyThreads).                              *)
(***************************************************************************)
StepOf(t) == thr(t) \/ Api(t) \/ AddSource(t) \/ NewNode(t) \/ Build(t) \/ Preprocess(t) \/ Flatten(t)

\* labels that read or write a slot
SlotLabels == {"CheckApi", "SetApi", "SaveSafe", "SetSafe", "SaveFile", "SetFile", "ReadFile", "ReadSafe",
               "RestoreFile", "RestoreSafe", "LeaveApi"}
\* labels executed in the same marker segment as the label before them (second halves + dispatch / loop tests)
GlueBack == {"SetApi", "SetSafe", "SetFile", "ReadSafe",
             "ApiBody", "A1", "ParseLoop", "Raise", "B1", "B2", "B3", "P1", "P1a", "P1b", "P1c", "P2", "P3", "P4",
             "F1", "F2", "T1", "T2"}

StepName(a, leave) ==
    CASE a = "CheckApi" -> IF leave THEN "EnterLeave" ELSE "Enter"
      [] a = "SaveSafe" -> "SetSafe"
      [] a = "SaveFile" -> "SetFile"
      [] a = "ReadFile" -> "NewNode"
      [] a = "LeaveApi" -> "Leave"
      [] OTHER -> a

\* does the group of thread t go on after this step (a2: first slot label of the group, l2: it contains LeaveApi)?
GroupGoesOn(t, a2, l2) ==
    /\ pc'[t] # "Done"
    /\ \/ a2 = "none"
       \/ pc'[t] \in GlueBack
       \/ pc'[t] = "LeaveApi" /\ a2 = "CheckApi" /\ ~l2    \* nothing marked ran inside the api call

\* reachability witnesses (INVARIANT ~Witness must be violated): two threads inside their contexts at once,
\* one of them parsing an included file, and a thread finishing with an error
WitnessOverlap == \E t, u \in Threads : t # u /\ Len(gstack[t]) = 1 /\ gstack[t][1].file = File(t, "inc") /\ Len(gstack[u]) >= 1
WitnessError == AllDone /\ \E t \in Threads : exc[t] \in ErrorKinds
NotWitnessOverlap == ~WitnessOverlap
NotWitnessError == ~WitnessError
===============================================================================
