------------------------------ MODULE Trace_C13 -----------------------------
(***************************************************************************)
(* Trace validation for the merge-table half of C13 (direction B): the      *)
(* recorded histories are consumed by the trace specification of the        *)
(* builder state machine (AyBuildTrace: TInit / TNext, verdict = first      *)
(* disagreement between the library's logged state and the specification)   *)
(* and the table oracle of Props_C13 is evaluated on the LOGGED outcomes.   *)
(***************************************************************************)
EXTENDS AyBuildTrace, Props_C13

PropVerdict13 == IF ~C13_Judged(HistDocs, louts) THEN
                     (IF C13_Holds(HistDocs, louts) THEN "outside" ELSE "violated")
                 ELSE IF C13_Holds(HistDocs, louts) THEN "holds" ELSE "violated"
ModelVerdict13 == IF C13_Holds(HistDocs, accs) THEN "holds" ELSE "violated"

\* one line per trace, printed where the whole trace is consumed (a trace without a line was rejected)
Report13 ==
    (l = Len(Ev) + 1) =>
        PrintT(<<"TRACE", Traces[tid].tid, verdict, PropVerdict13, ModelVerdict13,
                 IF verdict = "ok" /\ PropVerdict13 # "violated" /\ ModelVerdict13 # "violated" THEN ""
                 ELSE ToJson([model |-> accs, k |-> k])>>)
=============================================================================
