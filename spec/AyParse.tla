------------------------------- MODULE AyParse ------------------------------
(***************************************************************************)
(* From a surface document (what a YAML author writes) to a node tree.      *)
(* Shaped after yaml.py:40-69 (AwesomeyamlLoader), yaml.py:195-256          *)
(* (_make_node), node.py:56-124 (ConfigNodeMeta: the adopt-existing-node    *)
(* branch), composed.py:22-31 (ComposedNode.__init__), composed.py:370-405  *)
(* (_get_child_kwargs, _propagate_implicit_values).                         *)
(*                                                                          *)
(* A surface document SDoc is                                               *)
(*   [k, v, ch, fn, form, pr, del, anew, safe, md]                          *)
(* k    kind: "dict" "list" "scalar" or a node-kind tag ("call", ...)       *)
(* form "none" (untagged) | "tag" (a plain tag such as !force)              *)
(*      | "md" (the !metadata{{...}} / !kind{{...}} syntax)                 *)
(* pr, del, anew, safe: the explicit flags the tag / metadata sets          *)
(* md   user metadata, a set of <<name, atom>> pairs                        *)
(***************************************************************************)
EXTENDS AyTree

SD(k, v, ch) == [k |-> k, v |-> v, ch |-> ch, fn |-> "", ref |-> <<>>, form |-> "none",
                 pr |-> PrNone, del |-> "N", anew |-> "N", safe |-> "N", md |-> {}]

Tagged(sd) == sd.form # "none"

\* the merge-control tags as decorations of an untagged surface node
WithTag(sd, t) ==
    CASE t = "none"   -> sd
      [] t = "force"  -> [sd EXCEPT !.form = "tag", !.pr = 1]
      [] t = "weak"   -> [sd EXCEPT !.form = "tag", !.pr = -1]
      [] t = "del"    -> [sd EXCEPT !.form = "tag", !.del = "T"]
      [] t = "merge"  -> [sd EXCEPT !.form = "tag", !.del = "F"]
      [] t = "new"    -> [sd EXCEPT !.form = "tag", !.anew = "T"]
      [] t = "notnew" -> [sd EXCEPT !.form = "tag", !.anew = "F"]
      [] t = "unsafe" -> [sd EXCEPT !.form = "tag", !.safe = "F"]

----------------------------------------------------------------------------
\* composed.py:370-378 _get_child_kwargs (child = None)

ChildKw(n) ==
    [idel  |-> NotNoneOr(n.del, IF TypeDefaultDelete(n) THEN "T" ELSE n.idel),
     ianew |-> NotNoneOr(n.anew, n.ianew),
     isafe |-> NotNoneOr(n.safe, n.isafe)]

NoKw == [idel |-> "N", ianew |-> "N", isafe |-> "N"]

\* composed.py:380-405 _propagate_implicit_values
\* (since the fix of composed.py: first of all, everything below an unsafe node is made unsafe, however the node became unsafe)
RECURSIVE Propagate(_), PropagateOld(_)
Propagate(n) ==
    IF ~IsComposed(n) THEN n
    ELSE IF NotNoneOr(n.safe, n.isafe) = "F" /\ ~Mut("MergeLaundersUnsafe")
    THEN PropagateOld([n EXCEPT !.ch = [i \in 1..Len(n.ch) |->
             <<n.ch[i][1], IF n.ch[i][2].isafe # "F" THEN Propagate([n.ch[i][2] EXCEPT !.isafe = "F"]) ELSE n.ch[i][2]>>]])
    ELSE PropagateOld(n)
PropagateOld(n) ==
    IF ~IsComposed(n) THEN n
    ELSE IF n.idel = "N" /\ n.ianew = "N" /\ n.isafe = "N" THEN n
    ELSE IF n.del # "N" /\ n.anew # "N" /\ n.safe # "N" THEN n
    ELSE [n EXCEPT !.ch = [i \in 1..Len(n.ch) |->
            LET c  == n.ch[i][2]
                \* what children inherit for `delete` is what they are given when attached (_get_child_kwargs): the container
                \* type's deleting default counts (mutation PropagateIgnoresDefaultDelete: the code before that fix, which let
                \* an unrelated tag on an ancestor turn the items of a plain list into merge-mode items)
                pd == IF n.idel = "N" /\ TypeDefaultDelete(n) /\ ~Mut("PropagateIgnoresDefaultDelete") THEN "T" ELSE n.idel
                f1 == n.del = "N"  /\ c.idel # pd
                f2 == n.anew = "N" /\ c.ianew # n.ianew
                f3 == n.safe = "N" /\ c.isafe # n.isafe /\ c.isafe # "F"
                c1 == [c EXCEPT !.idel  = IF f1 THEN pd ELSE @,
                                !.ianew = IF f2 THEN n.ianew ELSE @,
                                !.isafe = IF f3 THEN n.isafe ELSE @]
            IN <<n.ch[i][1], IF f1 \/ f2 \/ f3 THEN Propagate(c1) ELSE c>>]]

\* a tagged container's priority is written onto what is below it
\* (node.py:74-85; intended: every descendant, F3: direct children only)
RECURSIVE PushPr(_, _)
PushPr(c, pr) ==
    IF ShallowPriority THEN [c EXCEPT !.pr = pr]
    ELSE [c EXCEPT !.pr = pr,
                   !.ch = [i \in 1..Len(c.ch) |-> <<c.ch[i][1], PushPr(c.ch[i][2], pr)>>]]

\* node.py:74-85: ConfigNode(existing_node, **kwargs)
Adopt(c, kw, hasPr, pr) ==
    LET c0 == IF hasPr THEN PushPr(c, pr) ELSE c
        c1 == [c0 EXCEPT !.idel = kw.idel, !.ianew = kw.ianew,
                         !.isafe = IF c0.isafe = "F" THEN "F" ELSE kw.isafe]
    IN Propagate(c1)

\* composed.py:22-31: a container built around already-constructed children
AdoptChildren(n, hasPr) ==
    [n EXCEPT !.ch = [i \in 1..Len(n.ch) |->
        <<n.ch[i][1], Adopt(n.ch[i][2], ChildKw(n), hasPr, n.pr)>>]]

\* composed.py:34-38 ayns.set_child on the raw child map + both views
SetChild(n, k, c) == SetChildRaw(n, k, Adopt(c, ChildKw(n), FALSE, PrNone))

----------------------------------------------------------------------------
Decorate(n, sd) ==
    [n EXCEPT !.pr = sd.pr, !.anew = sd.anew, !.safe = sd.safe, !.md = sd.md,
              !.del = IF sd.del = "N" /\ n.k \in FnKinds THEN "T" ELSE sd.del]  \* function.py:44

IsContainerSD(sd) == sd.k \in ComposedKinds

RECURSIVE BuildDeep(_, _, _), ParseTagged(_, _)

\* a node carrying a tag: yaml.py _make_node -> construct_*(deep=True) -> node_type(data, **kwargs)
ParseTagged(sd, ds) ==
    IF IsContainerSD(sd)
    THEN LET chs == [i \in 1..Len(sd.ch) |-> <<sd.ch[i][1], BuildDeep(sd.ch[i][2], ds, FALSE)>>]
             n   == Decorate([MkNode(sd.k, NoVal, chs) EXCEPT !.dsafe = ds, !.fn = sd.fn], sd)
         IN AdoptChildren(n, sd.pr # PrNone)
    ELSE Decorate([MkNode(sd.k, sd.v, <<>>) EXCEPT !.dsafe = ds, !.fn = sd.fn, !.ref = sd.ref], sd)

\* anything below a tagged node: PyYAML is in deep_construct mode, containers
\* are filled before AwesomeyamlLoader._convert wraps them (bottom-up).
\* parentUntagged: this node was constructed with deep=False (yaml.py:63)
BuildDeep(sd, ds, parentUntagged) ==
    IF Tagged(sd) THEN ParseTagged(sd, ds)
    ELSE IF IsContainerSD(sd)
    THEN LET chs0 == [i \in 1..Len(sd.ch) |-> <<sd.ch[i][1], BuildDeep(sd.ch[i][2], ds, TRUE)>>]
             chs  == IF DeepWrapRefills /\ parentUntagged /\ sd.k = "list"
                     THEN Renumber(chs0 \o chs0) ELSE chs0
             n    == [MkNode(sd.k, NoVal, chs) EXCEPT !.dsafe = ds]
         IN AdoptChildren(n, FALSE)
    ELSE [MkNode(sd.k, sd.v, <<>>) EXCEPT !.dsafe = ds]

\* untagged nodes outside any tag: the wrapper exists (and has been adopted by
\* its parent, kw) before its children are attached one by one (top-down)
RECURSIVE BuildTop(_, _, _)
BuildTop(sd, kw, ds) ==
    IF Tagged(sd) THEN Adopt(ParseTagged(sd, ds), kw, FALSE, PrNone)
    ELSE IF IsContainerSD(sd)
    THEN LET n0 == [MkNode(sd.k, NoVal, <<>>) EXCEPT !.dsafe = ds,
                        !.idel = kw.idel, !.ianew = kw.ianew, !.isafe = kw.isafe]
         IN [n0 EXCEPT !.ch = [i \in 1..Len(sd.ch) |->
                <<sd.ch[i][1], BuildTop(sd.ch[i][2], ChildKw(n0), ds)>>]]
    ELSE [MkNode(sd.k, sd.v, <<>>) EXCEPT !.dsafe = ds,
              !.idel = kw.idel, !.ianew = kw.ianew, !.isafe = kw.isafe]

\* one YAML document of a source added with safe = srcSafe
ParseIntended(sd, srcSafe) ==
    IF Tagged(sd) THEN ParseTagged(sd, Tri(srcSafe)) ELSE BuildTop(sd, NoKw, Tri(srcSafe))

\* (design mutation for the vacuity guard of C01: items whose key starts with '_' get lost)
RECURSIVE DropUnderscore(_)
DropUnderscore(n) ==
    [n EXCEPT !.ch = [i \in 1..Len(SelectSeq(n.ch, LAMBDA e : ~(e[1].t = "s" /\ e[1].s = "_u"))) |->
        LET c == SelectSeq(n.ch, LAMBDA e : ~(e[1].t = "s" /\ e[1].s = "_u"))[i] IN <<c[1], DropUnderscore(c[2])>>]]
Parse(sd, srcSafe) == IF Mut("DropUnderscoreKeys") THEN DropUnderscore(ParseIntended(sd, srcSafe)) ELSE ParseIntended(sd, srcSafe)

----------------------------------------------------------------------------
\* the tag-free reading of a surface document (what yaml.load yields)
RECURSIVE Erase(_)
Erase(sd) ==
    Plain(sd.k, sd.v, [i \in 1..Len(sd.ch) |-> <<sd.ch[i][1], Erase(sd.ch[i][2])>>])

=============================================================================
