------------------------------- MODULE AyPath -------------------------------
(***************************************************************************)
(* NodePath text form (awesomeyaml/nodes/node_path.py).                     *)
(*                                                                          *)
(* A path is a sequence of components; a component is an index (int) or a   *)
(* name (str).  TLC cannot look inside strings, so a TEXT is a sequence of  *)
(* one-character strings and a name is the sequence of its characters.      *)
(* Components are uniform records so that TLC never has to compare an       *)
(* integer with a string:                                                   *)
(*     [t |-> "i", i |-> 3,  s |-> <<>>]       the index 3                  *)
(*     [t |-> "s", i |-> 0,  s |-> <<"_","x">>] the name "_x"               *)
(*                                                                          *)
(*   Join  == NodePath.join_path          node_path.py:64-75                *)
(*   Split == NodePath.split_path(validate=True): the three alternatives of *)
(*            _path_component_regex (node_path.py:6-16) tried at every      *)
(*            position, and the "no gap, no prefix, no suffix" validation   *)
(*            of lines 33-53.                                               *)
(*                                                                          *)
(* Mutation (vacuity guard, must be refuted):                               *)
(*   "SplitDropsSign"  the index alternative forgets the minus sign         *)
(*   "JoinAlwaysDot"   a dot is written in front of a name even when the    *)
(*                     text is still empty                                  *)
(***************************************************************************)
EXTENDS Integers, Sequences, FiniteSets, TLC

CONSTANT PathMutation

Digits   == <<"0", "1", "2", "3", "4", "5", "6", "7", "8", "9">>
DigitSet == {Digits[j] : j \in 1..10}
\* [a-zA-Z0-9_] restricted to the characters the models use
IdChars  == DigitSet \cup {"a", "b", "c", "x", "y", "z", "_", "l", "e", "r", "u", "p", "d", "t", "o"}

IComp(i) == [t |-> "i", i |-> i, s |-> <<>>]
SComp(s) == [t |-> "s", i |-> 0, s |-> s]

DigitVal(c) == CHOOSE j \in 0..9 : Digits[j + 1] = c

\* decimal digits of a natural number < 1000
NatChars(n) == IF n < 10 THEN <<Digits[n + 1]>>
               ELSE IF n < 100 THEN <<Digits[(n \div 10) + 1], Digits[(n % 10) + 1]>>
               ELSE <<Digits[(n \div 100) + 1], Digits[((n \div 10) % 10) + 1], Digits[(n % 10) + 1]>>
IntChars(i) == IF i < 0 THEN <<"-">> \o NatChars(0 - i) ELSE NatChars(i)

\* node_path.py:71-75  _get_child_accessor(childname, myname)
Accessor(c, sofar) ==
    IF c.t = "i" THEN <<"[">> \o IntChars(c.i) \o <<"]">>
    ELSE (IF Len(sofar) > 0 \/ PathMutation = "JoinAlwaysDot" THEN <<".">> ELSE <<>>) \o c.s

\* node_path.py:64-69  join_path
RECURSIVE JoinFrom(_, _, _)
JoinFrom(p, j, sofar) == IF j > Len(p) THEN sofar
                         ELSE JoinFrom(p, j + 1, sofar \o Accessor(p[j], sofar))
Join(p) == JoinFrom(p, 1, <<>>)

(***************************************************************************)
(* The regular expression, one operator per alternative.  Each returns the  *)
(* position just after the match (0 = the alternative does not match at     *)
(* pos).  Positions are 1-based.                                            *)
(***************************************************************************)
RECURSIVE RunEnd(_, _, _)
RunEnd(tx, pos, cs) == IF pos <= Len(tx) /\ tx[pos] \in cs THEN RunEnd(tx, pos + 1, cs) ELSE pos

\* (?:^|(?<=\.)) ( [a-zA-Z0-9_]+ )
AltName(tx, pos) ==
    IF (pos = 1 \/ tx[pos - 1] = ".") /\ pos <= Len(tx) /\ tx[pos] \in IdChars
    THEN RunEnd(tx, pos, IdChars) ELSE 0

\* \[ (-?[0-9]+) \]
AltIndex(tx, pos) ==
    IF pos <= Len(tx) /\ tx[pos] = "["
    THEN LET d == IF pos + 1 <= Len(tx) /\ tx[pos + 1] = "-" THEN pos + 2 ELSE pos + 1
             e == RunEnd(tx, d, DigitSet)
         IN IF e > d /\ e <= Len(tx) /\ tx[e] = "]" THEN e + 1 ELSE 0
    ELSE 0

\* (?<!^) \. (?:(?!$)(?!\.)(?!\[))
AltDot(tx, pos) ==
    IF pos > 1 /\ pos <= Len(tx) /\ tx[pos] = "."
       /\ pos + 1 <= Len(tx) /\ tx[pos + 1] # "." /\ tx[pos + 1] # "["
    THEN pos + 1 ELSE 0

RECURSIVE NatOf(_, _, _, _)
NatOf(tx, from, to, acc) == IF from >= to THEN acc
                            ELSE NatOf(tx, from + 1, to, acc * 10 + DigitVal(tx[from]))

IndexOf(tx, pos, e) ==   \* the integer inside [..] that spans pos..e-1
    IF tx[pos + 1] = "-"
    THEN (IF PathMutation = "SplitDropsSign" THEN NatOf(tx, pos + 2, e - 1, 0) ELSE 0 - NatOf(tx, pos + 2, e - 1, 0))
    ELSE NatOf(tx, pos + 1, e - 1, 0)

(***************************************************************************)
(* split_path(text, validate=True).  finditer() would skip over characters *)
(* no alternative matches, and the validation loop (node_path.py:37-51)     *)
(* turns every such gap, prefix or suffix into ValueError: the text is      *)
(* valid iff the matches tile it.  Result: [ok |-> BOOLEAN, p |-> path].    *)
(***************************************************************************)
RECURSIVE SplitFrom(_, _, _)
SplitFrom(tx, pos, acc) ==
    IF pos > Len(tx) THEN [ok |-> TRUE, p |-> acc]
    ELSE LET a1 == AltName(tx, pos)
             a2 == AltIndex(tx, pos)
             a3 == AltDot(tx, pos)
         IN IF a1 > 0 THEN SplitFrom(tx, a1, Append(acc, SComp(SubSeq(tx, pos, a1 - 1))))
            ELSE IF a2 > 0 THEN SplitFrom(tx, a2, Append(acc, IComp(IndexOf(tx, pos, a2))))
            ELSE IF a3 > 0 THEN SplitFrom(tx, a3, acc)
            ELSE [ok |-> FALSE, p |-> <<>>]
Split(tx) == SplitFrom(tx, 1, <<>>)

\* the property: a path converted to text and parsed back is unchanged
RoundTrip(p) == LET r == Split(Join(p)) IN r.ok /\ r.p = p

\* name components the statement is about: non-empty words over [a-zA-Z0-9_]
WordOk(s) == Len(s) > 0 /\ \A j \in 1..Len(s) : s[j] \in IdChars
=============================================================================
