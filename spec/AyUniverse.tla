------------------------------ MODULE AyUniverse ----------------------------
(***************************************************************************)
(* Bounded generators of surface documents.  TLC enumerates the quantifier  *)
(* domain of a property from these; every cfg states which generator and    *)
(* which constants it uses.  Documents are chosen by actions, never by Init *)
(* (TLC computes initial states on one thread).                             *)
(***************************************************************************)
EXTENDS AyParse

\* the i-th smallest element of a finite set of integers
SortedSeq(S) == CHOOSE s \in [1..Cardinality(S) -> S] :
                    \A i, j \in 1..Cardinality(S) : i < j => s[i] < s[j]

Leaves(atoms) == {SD("scalar", a, <<>>) : a \in atoms}

\* every mapping whose keys are a subset of keyseq (written in that order)
\* with children from sub
MapsOver(keyseq, sub) ==
    UNION { LET idx == SortedSeq(S)
            IN { SD("dict", NoVal, [i \in 1..Cardinality(S) |-> <<keyseq[idx[i]], f[idx[i]]>>])
                 : f \in [S -> sub] }
          : S \in SUBSET (1..Len(keyseq)) }

\* as MapsOver, with at most maxKeys keys
MapsOverMax(keyseq, sub, maxKeys) ==
    UNION { LET idx == SortedSeq(S)
            IN { SD("dict", NoVal, [i \in 1..Cardinality(S) |-> <<keyseq[idx[i]], f[idx[i]]>>])
                 : f \in [S -> sub] }
          : S \in {X \in SUBSET (1..Len(keyseq)) : Cardinality(X) <= maxKeys} }

ListsOver(maxLen, sub) ==
    UNION { { SD("list", NoVal, [i \in 1..n |-> <<IKey(i - 1), f[i]>>]) : f \in [1..n -> sub] }
          : n \in 0..maxLen }

TagAll(S, tags) == {WithTag(sd, t) : sd \in S, t \in tags}

\* trees of depth <= d: leaves, mappings over keyseq and lists of <= maxLen
\* elements, every node carrying one tag of `tags`
RECURSIVE Trees(_, _, _, _, _)
Trees(d, keyseq, atoms, maxLen, tags) ==
    IF d = 0 THEN TagAll(Leaves(atoms), tags)
    ELSE LET sub == Trees(d - 1, keyseq, atoms, maxLen, tags)
         IN TagAll(Leaves(atoms) \cup MapsOver(keyseq, sub) \cup
                   (IF maxLen >= 0 THEN ListsOver(maxLen, sub) ELSE {}), tags)

\* root documents are mappings
RootMaps(d, keyseq, atoms, maxLen, tags, rootTags) ==
    TagAll(MapsOver(keyseq, Trees(d - 1, keyseq, atoms, maxLen, tags)), rootTags)

\* chain-shaped documents: one mapping level may have two keys, the others one
RECURSIVE Chains(_, _, _, _)
Chains(d, keyseq, atoms, tags) ==
    IF d = 0 THEN TagAll(Leaves(atoms), tags)
    ELSE LET sub == Chains(d - 1, keyseq, atoms, tags)
         IN TagAll(Leaves(atoms) \cup MapsOverMax(keyseq, sub, 1), tags)

=============================================================================
