------------------------------- MODULE AyFunc -------------------------------
(***************************************************************************)
(* C13, first half: how a !call / !bind node hands its children to the      *)
(* target callable.                                                         *)
(*                                                                          *)
(*   FunctionNode.__init__      awesomeyaml/nodes/function.py:22-45         *)
(*       list arguments -> {0: v0, 1: v1, ..}; scalar argument -> {0: v};   *)
(*       `!call name` -> {}                                                 *)
(*   FunctionNode._resolve_args awesomeyaml/nodes/function.py:112-144       *)
(*       int keys -> positions; the contiguous prefix 0..k is unpacked      *)
(*       positionally, the remaining (gap) positions are renamed to the     *)
(*       parameter found at that index, an index without a name is an error *)
(*   CallNode.on_evaluate_impl  awesomeyaml/nodes/call.py:54-63             *)
(*       _func( *p, **kw_p, **kw)                                            *)
(*   BindNode.on_evaluate_impl  awesomeyaml/nodes/bind.py:78-87             *)
(*       functools.partial(_func, *p, **kw_p, **kw)                         *)
(*                                                                          *)
(* Three readings are defined and related by the properties at the end:     *)
(*   ResolveArgs / Received / BindResult   the code, step by step           *)
(*   PyBind                                Python's own binding rule for a  *)
(*                                         call f( *pos, **kws)              *)
(*                                         (= inspect.signature(f).bind)    *)
(*   Stated / StatedPartial                the property statement, read per *)
(*                                         argument key                     *)
(* A signature is a sequence of parameters [n |-> name, k |-> kind,         *)
(* d |-> has a default]; kinds: "pos" positional-or-keyword, "var" *args,   *)
(* "kwo" keyword-only, "vkw" **kwargs (in Python's order).  Arguments are a *)
(* sequence of [k |-> key, v |-> value token]; keys are [t, n, s] records   *)
(* (int and str keys in one comparable sort).                               *)
(***************************************************************************)
EXTENDS Integers, Sequences, FiniteSets, TLC

CONSTANTS
    IndexReachesKwOnly,   \* deviation (finding F16): the index -> name table of _resolve_args stops only at *args,
                          \* so without *args an integer index reaches keyword-only parameters and the **kwargs name
    FuncMutation          \* one named design mutation ("none" in every real cfg); mutation cfgs must be refuted

FMut(name) == FuncMutation = name

IK(i) == [t |-> "i", n |-> i, s |-> ""]
SK(s) == [t |-> "s", n |-> 0, s |-> s]
IsInt(k) == k.t = "i"

Par(n, k, d) == [n |-> n, k |-> k, d |-> d]
Arg(k, v) == [k |-> k, v |-> v]

----------------------------------------------------------------------------
\* outcomes: a binding (one entry per parameter), a partial, or an error

DFLT == "dflt"                         \* the parameter keeps its default
BPlain(p, v) == [p |-> p, v |-> v,  t |-> <<>>, d |-> {}]
BVar(p, t)   == [p |-> p, v |-> "", t |-> t,    d |-> {}]
BVkw(p, d)   == [p |-> p, v |-> "", t |-> <<>>, d |-> d]

Bound(b)        == [err |-> FALSE, why |-> "",  b |-> b,  pa |-> <<>>, pk |-> {}]
Partial(pa, pk) == [err |-> FALSE, why |-> "",  b |-> {}, pa |-> pa,   pk |-> pk]
Failed(why)     == [err |-> TRUE,  why |-> why, b |-> {}, pa |-> <<>>, pk |-> {}]

\* error messages are not part of the property: outcomes agree when both fail or both carry the same content
Same(x, y) == x.err = y.err /\ (~x.err => (x.b = y.b /\ x.pa = y.pa /\ x.pk = y.pk))

Names(S)     == {e[1] : e \in S}
Lookup(S, n) == (CHOOSE e \in S : e[1] = n)[2]

PosParams(sig) == SelectSeq(sig, LAMBDA p : p.k = "pos")
KwoParams(sig) == SelectSeq(sig, LAMBDA p : p.k = "kwo")
HasKind(sig, kind) == \E i \in 1..Len(sig) : sig[i].k = kind
NameOfKind(sig, kind) == sig[CHOOSE i \in 1..Len(sig) : sig[i].k = kind].n
Named(sig) == {sig[i].n : i \in {j \in 1..Len(sig) : sig[j].k \in {"pos", "kwo"}}}

\* a well-formed Python signature: pos* (defaults trailing), var?, kwo*, vkw?; distinct names
Rank(kind) == CASE kind = "pos" -> 1 [] kind = "var" -> 2 [] kind = "kwo" -> 3 [] kind = "vkw" -> 4
WellFormedSig(sig) ==
    /\ \A i, j \in 1..Len(sig) : i < j => (Rank(sig[i].k) <= Rank(sig[j].k) /\ sig[i].n # sig[j].n)
    /\ Cardinality({i \in 1..Len(sig) : sig[i].k = "var"}) <= 1
    /\ Cardinality({i \in 1..Len(sig) : sig[i].k = "vkw"}) <= 1
    /\ \A i, j \in 1..Len(sig) : (i < j /\ sig[i].k = "pos" /\ sig[j].k = "pos" /\ sig[i].d) => sig[j].d
    /\ \A i \in 1..Len(sig) : sig[i].k \in {"var", "vkw"} => ~sig[i].d

----------------------------------------------------------------------------
\* Python's binding rule for the call  f( *pos, **kws)   (kws: a set of <<name, value>>, names distinct)

PyBind(sig, pos, kws) ==
    LET P == PosParams(sig)
        K == KwoParams(sig)
        extra == {e \in kws : e[1] \notin Named(sig)}
    IN IF Len(pos) > Len(P) /\ ~HasKind(sig, "var") THEN Failed("too many positional arguments")
       ELSE IF \E i \in 1..Len(P) : i <= Len(pos) /\ P[i].n \in Names(kws) THEN Failed("multiple values for argument")
       ELSE IF extra # {} /\ ~HasKind(sig, "vkw") THEN Failed("unexpected keyword argument")
       ELSE IF \/ \E i \in 1..Len(P) : i > Len(pos) /\ P[i].n \notin Names(kws) /\ ~P[i].d
               \/ \E i \in 1..Len(K) : K[i].n \notin Names(kws) /\ ~K[i].d
            THEN Failed("missing a required argument")
       ELSE Bound(
            {BPlain(P[i].n, IF i <= Len(pos) THEN pos[i]
                            ELSE IF P[i].n \in Names(kws) THEN Lookup(kws, P[i].n) ELSE DFLT) : i \in 1..Len(P)}
            \cup {BPlain(K[i].n, IF K[i].n \in Names(kws) THEN Lookup(kws, K[i].n) ELSE DFLT) : i \in 1..Len(K)}
            \cup (IF HasKind(sig, "var")
                  THEN {BVar(NameOfKind(sig, "var"), SubSeq(pos, Len(P) + 1, Len(pos)))} ELSE {})
            \cup (IF HasKind(sig, "vkw") THEN {BVkw(NameOfKind(sig, "vkw"), extra)} ELSE {}))

----------------------------------------------------------------------------
\* FunctionNode.__init__ (function.py:38-42): what the author wrote -> the children of the node
\* form "map": keys as written; "list": a YAML sequence; "scalar": one scalar; "name": `!call name`

NodeArgs(form, written) ==
    CASE form = "map"    -> written
      [] form = "list"   -> [i \in 1..Len(written) |-> Arg(IK(i - 1), written[i].v)]
      [] form = "scalar" -> <<Arg(IK(0), written[1].v)>>
      [] form = "name"   -> <<>>

ArgKeys(args) == {args[i].k : i \in 1..Len(args)}
ValAt(args, key) == args[CHOOSE i \in 1..Len(args) : args[i].k = key].v
IntIdx(args) == {k.n : k \in {x \in ArgKeys(args) : IsInt(x)}}
StrNames(args) == {k.s : k \in {x \in ArgKeys(args) : ~IsInt(x)}}
KwOf(args) == {<<k.s, ValAt(args, k)>> : k \in {x \in ArgKeys(args) : ~IsInt(x)}}

\* the length of the contiguous run 0, 1, 2, .. of integer keys (function.py:130-136)
RECURSIVE PrefixFrom(_, _)
PrefixFrom(ints, n) == IF n \in ints THEN PrefixFrom(ints, n + 1) ELSE n
PrefixLen(args) == PrefixFrom(IntIdx(args), 0)

\* function.py:121-128: the index -> name table
IdxToName(sig) ==
    LET firstVar == IF HasKind(sig, "var") THEN CHOOSE i \in 1..Len(sig) : sig[i].k = "var" ELSE Len(sig) + 1
        upTo     == SubSeq(sig, 1, firstVar - 1)
    IN IF FMut("NoBreakAtVarargs")                    \* seeded mutant: *args merely filtered out
       THEN LET s == SelectSeq(sig, LAMBDA p : p.k # "var") IN [i \in 1..Len(s) |-> s[i].n]
       ELSE IF IndexReachesKwOnly                     \* the code as it is: `break` only at VAR_POSITIONAL
       THEN [i \in 1..Len(upTo) |-> upTo[i].n]
       ELSE LET P == PosParams(sig) IN [i \in 1..Len(P) |-> P[i].n]      \* intended: positional parameters only

\* function.py:112-144
ResolveArgs(sig, args) ==
    IF IntIdx(args) = {} THEN [err |-> FALSE, p |-> <<>>, kwp |-> {}, kw |-> KwOf(args)]       \* :115-116
    ELSE LET names == IdxToName(sig)
             n     == IF FMut("GapsCloseUp") THEN 0 ELSE PrefixLen(args)
             rest  == {i \in IntIdx(args) : i >= n}
             p     == [i \in 1..n |-> ValAt(args, IK(i - 1))]
         IN IF \E i \in rest : i >= Len(names) THEN [err |-> TRUE, p |-> <<>>, kwp |-> {}, kw |-> {}]   \* :140-141
            ELSE [err |-> FALSE, p |-> p,
                  kwp |-> {<<names[i + 1], ValAt(args, IK(i))>> : i \in rest}, kw |-> KwOf(args)]

\* `f( *p, **kw_p, **kw)`: the same keyword twice is a TypeError at the call site
Clash(r) == Names(r.kwp) \cap Names(r.kw) # {} /\ ~FMut("KeywordWinsSilently")
AllKw(r) == {e \in r.kwp : e[1] \notin Names(r.kw)} \cup r.kw

\* call.py:54-63: what the target receives
Received(sig, args) ==
    LET r == ResolveArgs(sig, args)
    IN IF r.err THEN Failed("Cannot resolve argument at position")
       ELSE IF Clash(r) THEN Failed("got multiple values for keyword argument")
       ELSE PyBind(sig, r.p, AllKw(r))

\* bind.py:78-87: the partial object
BindResult(sig, args) ==
    LET r == ResolveArgs(sig, args)
    IN IF r.err THEN Failed("Cannot resolve argument at position")
       ELSE IF Clash(r) THEN Failed("got multiple values for keyword argument")
       ELSE Partial(r.p, AllKw(r))

----------------------------------------------------------------------------
\* The statement, read per argument key.  With P the positional parameters:
\*   int key i < |P|      -> the i-th positional parameter
\*   int key i >= |P|     -> element i-|P| of *args, possible only when every position below i is given too;
\*                           otherwise "an index beyond the signature": error
\*   str key s            -> the parameter named s (positional or keyword-only), else an entry of **kwargs, else error
\*   two keys for one parameter -> error;  a required parameter without a key -> error

Stated(sig, args) ==
    LET P     == PosParams(sig)
        K     == KwoParams(sig)
        ints  == IntIdx(args)
        strs  == StrNames(args)
        n     == PrefixLen(args)
        v(key) == ValAt(args, key)
    IN IF \E i \in ints : i >= Len(P) /\ ~(HasKind(sig, "var") /\ i < n) THEN Failed("index beyond the signature")
       ELSE IF \E i \in ints : i < Len(P) /\ P[i + 1].n \in strs THEN Failed("two arguments for one parameter")
       ELSE IF (strs \ Named(sig)) # {} /\ ~HasKind(sig, "vkw") THEN Failed("no parameter of that name")
       ELSE IF \/ \E i \in 1..Len(P) : (i - 1) \notin ints /\ P[i].n \notin strs /\ ~P[i].d
               \/ \E i \in 1..Len(K) : K[i].n \notin strs /\ ~K[i].d
            THEN Failed("required parameter not supplied")
       ELSE Bound(
            {BPlain(P[i].n, IF (i - 1) \in ints THEN v(IK(i - 1))
                            ELSE IF P[i].n \in strs THEN v(SK(P[i].n)) ELSE DFLT) : i \in 1..Len(P)}
            \cup {BPlain(K[i].n, IF K[i].n \in strs THEN v(SK(K[i].n)) ELSE DFLT) : i \in 1..Len(K)}
            \cup (IF HasKind(sig, "var")
                  THEN {BVar(NameOfKind(sig, "var"),
                             [j \in 1..(IF n > Len(P) THEN n - Len(P) ELSE 0) |-> v(IK(Len(P) + j - 1))])}
                  ELSE {})
            \cup (IF HasKind(sig, "vkw")
                  THEN {BVkw(NameOfKind(sig, "vkw"), {<<s, v(SK(s))>> : s \in strs \ Named(sig)})} ELSE {}))

\* !bind = functools.partial(target, <the same binding>): the contiguous prefix positionally, every other
\* position under the name of its parameter, string keys as keywords.  A partial may still be incomplete or
\* over-full (that shows when it is called); binding itself fails only where a position has no parameter to
\* be renamed to, or where a renamed position collides with a string key.
StatedPartial(sig, args) ==
    LET P    == PosParams(sig)
        n    == PrefixLen(args)
        gaps == {i \in IntIdx(args) : i >= n}
    IN IF \E i \in gaps : i >= Len(P) THEN Failed("index beyond the signature")
       ELSE IF \E i \in gaps : P[i + 1].n \in StrNames(args) THEN Failed("two arguments for one parameter")
       ELSE Partial([i \in 1..n |-> ValAt(args, IK(i - 1))],
                    {<<P[i + 1].n, ValAt(args, IK(i))>> : i \in gaps} \cup KwOf(args))

----------------------------------------------------------------------------
\* the properties, for one node

PassesAsPython(sig, args) == Same(Received(sig, args), Stated(sig, args))
BindIsPartial(sig, args)  == Same(BindResult(sig, args), StatedPartial(sig, args))
\* calling the partial with nothing added is the !call of the same arguments (also when that is an error)
PartialCompletes(sig, args) ==
    LET b == BindResult(sig, args)
    IN ~b.err => Same(PyBind(sig, b.pa, b.pk), Stated(sig, args))

=============================================================================
