------------------------------- MODULE GenUni -------------------------------
(* Evaluates one universe expression once and prints it as JSON; the harness *)
(* substitutes the expression names through the cfg (small values only).     *)
EXTENDS Props_C01, Props_C02, Props_C03, Props_C04, Props_C05, Props_C08, Props_C14, Props_C15, Props_C16, Props_EvalUni, Props_C07, Json

CONSTANTS UDocs, URange
VARIABLE x
Init == x = 0
Next == UNCHANGED x
WholeRange == << <<1, Len(UDocs)>> >>
ASSUME PrintT(ToJson([universe |-> UDocs, range |-> URange]))
=============================================================================
