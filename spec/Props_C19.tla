------------------------------ MODULE Props_C19 -----------------------------
(***************************************************************************)
(* C19 - universes of the copy machine (spec/AyCopy.tla): surface documents *)
(* whose PARSED trees are copied (every tag, every node kind), the merge    *)
(* contexts of Behaves, and a 2-stage universe aimed at what only merging   *)
(* produces: children whose implicit flags differ from what their current   *)
(* parent would derive.  The merged trees of Props_C03 / Props_C04 /        *)
(* Props_C08 are used as they are (GenUni19).                               *)
(***************************************************************************)
EXTENDS AyMerge, AyUniverse, SequencesExt

C19_KA == SKey("a")  C19_KB == SKey("b")
C19_L(v) == SD("scalar", Atom("i", v), <<>>)
C19_S(s) == SD("scalar", Atom("s", s), <<>>)

C19_Tags  == {"none", "force", "weak", "del", "merge", "new", "notnew", "unsafe"}
C19_Tags2 == {"none", "force", "del", "merge", "notnew", "unsafe"}

\* the !metadata{{...}} form: user metadata alone, and together with all four explicit flags
C19_Md(sd)    == [sd EXCEPT !.form = "md", !.md = {<<"m", Atom("i", "1")>>}]
C19_MdAll(sd) == [sd EXCEPT !.form = "md", !.md = {<<"m", Atom("i", "1")>>, <<"n", Atom("s", "x")>>},
                            !.pr = 1, !.del = "F", !.anew = "F", !.safe = "F"]
C19_Deco(S) == TagAll(S, C19_Tags) \cup {C19_Md(sd) : sd \in S} \cup {C19_MdAll(sd) : sd \in S}

\* node-kind leaves
C19_Req   == [SD("required", NoVal, <<>>) EXCEPT !.form = "tag"]
C19_XRef  == [SD("xref", NoVal, <<>>) EXCEPT !.form = "tag", !.ref = <<C19_KA, C19_KB>>]
C19_Prev  == [SD("prev", NoVal, <<>>) EXCEPT !.form = "tag", !.ref = <<C19_KB>>]
C19_Clear == [SD("clear", NoVal, <<>>) EXCEPT !.form = "tag"]
C19_Eval  == [SD("eval", Atom("s", "1+1"), <<>>) EXCEPT !.form = "tag"]
C19_FStr  == [SD("fstr", Atom("s", "x{1}"), <<>>) EXCEPT !.form = "tag"]
C19_Imp   == [SD("import", Atom("s", "os.path"), <<>>) EXCEPT !.form = "tag"]
C19_Incl  == [SD("include", NoVal, <<<<IKey(0), C19_S("x.yaml")>>>>) EXCEPT !.form = "tag"]
C19_ReqMd == [C19_Req EXCEPT !.form = "md", !.md = {<<"m", Atom("i", "1")>>}, !.pr = 1]
C19_KindLeaves == {C19_Req, C19_XRef, C19_Prev, C19_Clear, C19_Eval, C19_Imp, C19_Incl, C19_ReqMd}

\* node-kind containers
C19_Call(args) == [SD("call", NoVal, args) EXCEPT !.fn = "vmod.rec", !.form = "tag"]
C19_Bind(args) == [SD("bind", NoVal, args) EXCEPT !.fn = "vmod.rec", !.form = "tag"]
C19_CallMd(args) == [C19_Call(args) EXCEPT !.form = "md", !.md = {<<"m", Atom("i", "1")>>}, !.pr = -1, !.del = "F", !.safe = "F"]
C19_Path  == [SD("path", NoVal, <<<<IKey(0), C19_S("x")>>, <<IKey(1), C19_S("y")>>>>) EXCEPT !.form = "tag"]
C19_App(es) == [SD("append", NoVal, es) EXCEPT !.form = "tag"]
C19_Ext(es) == [SD("extend", NoVal, es) EXCEPT !.form = "tag"]

\* third level: leaves with every tag, node-kind leaves, small tagged containers
C19_Y == C19_Deco({C19_L("1")}) \cup C19_KindLeaves
         \cup TagAll({SD("dict", NoVal, <<<<C19_KA, l>>>>) : l \in {C19_L("1"), WithTag(C19_L("1"), "force")}}
                     \cup {SD("list", NoVal, <<<<IKey(0), l>>>>) : l \in {C19_L("1"), WithTag(C19_L("1"), "force")}}
                     \cup {SD("dict", NoVal, <<>>), SD("list", NoVal, <<>>)}, C19_Tags2)
\* second level
C19_X == C19_Deco(UNION {{SD("dict", NoVal, <<<<C19_KA, y>>>>),
                          SD("dict", NoVal, <<<<C19_KA, y>>, <<C19_KB, C19_L("2")>>>>),
                          SD("list", NoVal, <<<<IKey(0), y>>>>),
                          SD("list", NoVal, <<<<IKey(0), y>>, <<IKey(1), C19_L("2")>>>>)} : y \in C19_Y})
         \cup UNION {{C19_Call(<<<<C19_KA, y>>>>), C19_Bind(<<<<C19_KA, y>>, <<IKey(0), C19_L("2")>>>>), C19_CallMd(<<<<C19_KA, y>>>>),
                      C19_App(<<<<IKey(0), y>>>>), C19_Ext(<<<<IKey(0), y>>>>)} : y \in C19_Y}
         \cup {C19_Path}
C19_Parsed == SetToSeq({SD("dict", NoVal, <<<<C19_KA, x>>>>) : x \in C19_X})
\* quick tier: one mapping shape and one list shape per third-level node
C19_XQ == C19_Deco(UNION {{SD("dict", NoVal, <<<<C19_KA, y>>>>),
                           SD("list", NoVal, <<<<IKey(0), y>>, <<IKey(1), C19_L("2")>>>>)} : y \in C19_Y})
          \cup UNION {{C19_Call(<<<<C19_KA, y>>>>), C19_Bind(<<<<C19_KA, y>>, <<IKey(0), C19_L("2")>>>>), C19_CallMd(<<<<C19_KA, y>>>>),
                       C19_App(<<<<IKey(0), y>>>>)} : y \in C19_Y}
          \cup {C19_Path}
C19_ParsedQ == SetToSeq({SD("dict", NoVal, <<<<C19_KA, x>>>>) : x \in C19_XQ})

\* a small set for the runs with mutations / edits / both safe flags
C19_YS == TagAll({C19_L("1")}, {"none", "force", "notnew"}) \cup {C19_Req, C19_XRef}
          \cup TagAll({SD("dict", NoVal, <<<<C19_KA, C19_L("1")>>>>), SD("list", NoVal, <<<<IKey(0), C19_L("1")>>>>), SD("list", NoVal, <<>>)}, {"none", "del", "unsafe"})
C19_XS == TagAll(UNION {{SD("dict", NoVal, <<<<C19_KA, y>>, <<C19_KB, C19_L("2")>>>>),
                         SD("list", NoVal, <<<<IKey(0), y>>, <<IKey(1), C19_L("2")>>>>)} : y \in C19_YS}, {"none", "notnew", "del", "merge", "unsafe"})
          \cup {C19_Call(<<<<C19_KA, y>>>>) : y \in C19_YS} \cup {C19_Path, C19_MdAll(SD("dict", NoVal, <<<<C19_KA, C19_L("1")>>>>))}
C19_ParsedS == SetToSeq({SD("dict", NoVal, <<<<C19_KA, x>>>>) : x \in C19_XS})

\* lists to be edited with insert / append before the copy
C19_Lists == SetToSeq({SD("dict", NoVal, <<<<C19_KA, l>>>>) :
                l \in TagAll({SD("list", NoVal, <<<<IKey(0), C19_L("1")>>, <<IKey(1), C19_L("2")>>>>),
                              SD("list", NoVal, <<<<IKey(0), C19_L("1")>>, <<IKey(1), SD("list", NoVal, <<<<IKey(0), C19_L("2")>>>>)>>, <<IKey(2), C19_L("3")>>>>)},
                             {"none", "merge", "notnew"}) \cup {C19_Path}})

\* keys a mapping treats specially: '_'-prefixed (dict storage only) and names shadowing a dict attribute (parseable
\* below a tagged node only: the constructor path does not check them)
C19_KU == SKey("_x")  C19_KI == SKey("items")
C19_Keys == SetToSeq(
    {SD("dict", NoVal, <<<<C19_KU, C19_L("1")>>, <<C19_KB, C19_L("2")>>>>),
     SD("dict", NoVal, <<<<C19_KA, SD("dict", NoVal, <<<<C19_KU, SD("dict", NoVal, <<<<C19_KA, C19_L("1")>>>>)>>>>)>>>>)}
    \cup {SD("dict", NoVal, <<<<C19_KA, x>>>>) :
             x \in TagAll({SD("dict", NoVal, <<<<C19_KU, C19_L("1")>>, <<C19_KB, C19_L("2")>>>>),
                           SD("dict", NoVal, <<<<C19_KI, C19_L("1")>>>>),
                           SD("dict", NoVal, <<<<C19_KB, SD("dict", NoVal, <<<<C19_KI, C19_L("1")>>>>)>>>>)}, {"force", "notnew"})
                  \cup {C19_Call(<<<<SKey("values"), C19_L("1")>>>>), C19_Call(<<<<C19_KU, C19_L("1")>>>>)}})

----------------------------------------------------------------------------
\* 2-stage histories aimed at flag mismatches: an older document whose entries survive a flagged newer
\* container (priority), and newer containers carrying !del / !merge / !notnew / !unsafe / !force / metadata
C19_OldLeaf == TagAll({C19_L("1")}, {"none", "force"})
C19_OldSub  == C19_OldLeaf
               \cup {SD("dict", NoVal, <<<<C19_KA, l>>>>) : l \in C19_OldLeaf}
               \cup {WithTag(SD("dict", NoVal, <<<<C19_KA, C19_L("1")>>>>), "force"), WithTag(SD("dict", NoVal, <<<<C19_KA, C19_L("1")>>>>), "unsafe"),
                     WithTag(SD("list", NoVal, <<<<IKey(0), C19_L("1")>>>>), "force"), C19_Call(<<<<C19_KA, C19_L("1")>>>>)}
C19_Old == {SD("dict", NoVal, <<<<C19_KA, c>>>>) :
               c \in TagAll(MapsOver(<<C19_KA, C19_KB>>, C19_OldSub) \ {SD("dict", NoVal, <<>>)}, {"none", "unsafe"})}
C19_NewLeaf == {C19_L("2")}
C19_NewSub  == C19_NewLeaf
               \cup TagAll({SD("dict", NoVal, <<<<C19_KB, C19_L("2")>>>>), SD("list", NoVal, <<<<IKey(0), C19_L("2")>>>>)},
                           {"none", "del", "merge", "notnew", "unsafe"})
               \cup {SD("dict", NoVal, <<>>)}
C19_New == {SD("dict", NoVal, <<<<C19_KA, c>>>>) :
               c \in TagAll(MapsOverMax(<<C19_KA, C19_KB>>, C19_NewSub, 1) \ {SD("dict", NoVal, <<>>)}, {"none", "del", "merge", "notnew", "unsafe", "weak"})
                     \cup {C19_MdAll(SD("dict", NoVal, <<<<C19_KB, C19_L("2")>>>>)), SD("dict", NoVal, <<>>),
                           WithTag(SD("dict", NoVal, <<>>), "del"),
                           WithTag(SD("dict", NoVal, <<<<C19_KA, C19_L("2")>>, <<C19_KB, WithTag(SD("dict", NoVal, <<<<C19_KB, C19_L("2")>>>>), "notnew")>>>>), "del")}}
\* quick tier: a narrower older set
C19_OldSubQ == {C19_L("1"), WithTag(C19_L("1"), "force"), SD("dict", NoVal, <<<<C19_KA, WithTag(C19_L("1"), "force")>>>>),
                WithTag(SD("dict", NoVal, <<<<C19_KA, C19_L("1")>>>>), "force"), C19_Call(<<<<C19_KA, C19_L("1")>>>>)}
C19_OldQ == {SD("dict", NoVal, <<<<C19_KA, c>>>>) : c \in MapsOver(<<C19_KA, C19_KB>>, C19_OldSubQ) \ {SD("dict", NoVal, <<>>)}}
C19_NewQ == {SD("dict", NoVal, <<<<C19_KA, c>>>>) :
               c \in TagAll(MapsOverMax(<<C19_KA, C19_KB>>, C19_NewSub, 1) \ {SD("dict", NoVal, <<>>)}, {"none", "del", "merge", "notnew", "unsafe"})
                     \cup {C19_MdAll(SD("dict", NoVal, <<<<C19_KB, C19_L("2")>>>>)), WithTag(SD("dict", NoVal, <<>>), "del")}}
C19_HistQ == SetToSeq(C19_OldQ) \o SetToSeq(C19_NewQ)
C19_HistRangeQ == << <<1, Cardinality(C19_OldQ)>>, <<Cardinality(C19_OldQ) + 1, Cardinality(C19_OldQ) + Cardinality(C19_NewQ)>> >>
\* ... and a still narrower newer set for the run with mutations of either side
C19_NewM == {SD("dict", NoVal, <<<<C19_KA, c>>>>) :
               c \in TagAll({SD("dict", NoVal, <<<<C19_KB, WithTag(SD("list", NoVal, <<<<IKey(0), C19_L("2")>>>>), "merge")>>>>),
                             SD("dict", NoVal, <<<<C19_KA, SD("dict", NoVal, <<<<C19_KB, C19_L("2")>>>>)>>>>)}, {"del", "notnew", "unsafe"})
                     \cup {WithTag(SD("dict", NoVal, <<>>), "del")}}
C19_HistM == SetToSeq(C19_OldQ) \o SetToSeq(C19_NewM)
C19_HistRangeM == << <<1, Cardinality(C19_OldQ)>>, <<Cardinality(C19_OldQ) + 1, Cardinality(C19_OldQ) + Cardinality(C19_NewM)>> >>
C19_Hist  == SetToSeq(C19_Old) \o SetToSeq(C19_New)
C19_HistRange == << <<1, Cardinality(C19_Old)>>, <<Cardinality(C19_Old) + 1, Cardinality(C19_Old) + Cardinality(C19_New)>> >>

----------------------------------------------------------------------------
\* merge contexts of Behaves: plain documents reaching every path of depth <= 3 over a b / index 0, with
\* mappings, lists and scalars at each of them, plus flagged ones (a newer !del / !notnew meets the copy's own flags)
C19_CtxSD ==
    << SD("dict", NoVal, <<<<C19_KA, SD("dict", NoVal, <<<<C19_KA, SD("dict", NoVal, <<<<C19_KA, C19_L("5")>>, <<C19_KB, C19_L("5")>>>>)>>,
                                                          <<C19_KB, SD("dict", NoVal, <<<<C19_KA, C19_L("5")>>, <<C19_KB, C19_L("5")>>>>)>>>>)>>>>),
       SD("dict", NoVal, <<<<C19_KA, SD("dict", NoVal, <<<<C19_KA, SD("list", NoVal, <<<<IKey(0), C19_L("5")>>, <<IKey(1), C19_L("6")>>>>)>>,
                                                          <<C19_KB, SD("list", NoVal, <<<<IKey(0), C19_L("5")>>, <<IKey(1), C19_L("6")>>>>)>>>>)>>>>),
       SD("dict", NoVal, <<<<C19_KA, SD("list", NoVal, <<<<IKey(0), SD("dict", NoVal, <<<<C19_KA, C19_L("5")>>, <<C19_KB, C19_L("5")>>>>)>>,
                                                          <<IKey(1), C19_L("6")>>>>)>>>>),
       SD("dict", NoVal, <<<<C19_KA, SD("dict", NoVal, <<<<C19_KA, C19_L("5")>>, <<C19_KB, C19_L("5")>>>>)>>, <<C19_KB, C19_L("5")>>>>),
       SD("dict", NoVal, <<<<C19_KA, WithTag(SD("dict", NoVal, <<<<C19_KA, SD("dict", NoVal, <<<<SKey("c"), C19_L("5")>>>>)>>,
                                                                   <<C19_KB, SD("dict", NoVal, <<<<SKey("c"), C19_L("5")>>>>)>>>>), "weak")>>>>),
       SD("dict", NoVal, <<<<C19_KA, C19_L("5")>>>>) >>
C19_Ctx == [i \in 1..Len(C19_CtxSD) |-> Parse(C19_CtxSD[i], TRUE)]

=============================================================================
