------------------------------ MODULE MC_EvalNS -----------------------------
(***************************************************************************)
(* C12 - model checking AyEvalNS over sequences of builds in one process.   *)
(*                                                                         *)
(* Three instances of the machine:                                         *)
(*   A  the process under study: a HISTORY of up to MaxBuilds builds       *)
(*      (switches as set in the cfg: all FALSE = intended design)          *)
(*   B  the reference for HistoryFree: a FRESH process that performs only  *)
(*      the build A has just finished (same program, config, symbols,      *)
(*      file) - two-history formulation of "depends only on this build"    *)
(*   C  (WithAsIs) the same history as A with the KNOWN deviations on      *)
(*      (AsIsCache / AsIsPatch / AsIsNoFile, from known_findings.json) =   *)
(*      what the pinned tree is expected to do; only printed, never judged *)
(* TLC picks the program (from the table the harness derived from CPython, *)
(* JSON file C12_PROGS) at the first build and a config / symbol table /   *)
(* file flag at every build.                                               *)
(***************************************************************************)
EXTENDS Naturals, Sequences, FiniteSets, TLC, Json, IOUtils

CONSTANTS ModuleCacheKeepsCtx, BytecodePatch312, NoFilenameCompile, BuiltinBeforeCfg, SymbolsLeak,
          MaxBuilds,        \* length of the histories
          Vers,             \* versions 1..Vers of a config entry / symbol value ("same or different configs")
          FilePerBuild,     \* TRUE: the file flag is chosen at every build; FALSE: once per history
          TwoHistories,     \* run the reference instance B
          WithAsIs,         \* run the as-is instance C
          EmitJson,         \* print every complete history
          AsIsCache, AsIsPatch, AsIsNoFile   \* which known deviations the as-is instance C has on (known_findings.json)

VARIABLES stA, stB, stC, turn, pidx, hist

Uni   == JsonDeserialize(IOEnv.C12_PROGS)
Progs == Uni.progs
Prog(i) == Progs[i]

A == INSTANCE AyEvalNS WITH st <- stA
B == INSTANCE AyEvalNS WITH st <- stB
C == INSTANCE AyEvalNS WITH st <- stC, ModuleCacheKeepsCtx <- AsIsCache, BytecodePatch312 <- AsIsPatch, NoFilenameCompile <- AsIsNoFile,
                            BuiltinBeforeCfg <- FALSE, SymbolsLeak <- FALSE

vars == <<stA, stB, stC, turn, pidx, hist>>

Tables(p) == UNION {[S -> 1..Vers] : S \in SUBSET A!ToSetS(p.slots)}
Files == IF FilePerBuild \/ Len(hist) = 0 THEN BOOLEAN ELSE {hist[1].file}

Init == /\ stA = A!InitState /\ stB = B!InitState /\ stC = C!InitState
        /\ turn = "A" /\ pidx = 0 /\ hist = <<>>

StartA ==
    /\ turn = "A" /\ stA.pc = "idle" /\ Len(hist) < MaxBuilds
    /\ \E i \in (IF pidx = 0 THEN 1..Len(Progs) ELSE {pidx}) :
         \E c \in Tables(Progs[i]), s \in Tables(Progs[i]), f \in Files :
            /\ A!Build(i, c, s, f)
            /\ pidx' = i
    /\ UNCHANGED <<stB, stC, turn, hist>>

RunA == turn = "A" /\ stA.pc \in {"exec", "eval"} /\ A!Run /\ UNCHANGED <<stB, stC, turn, pidx, hist>>

DoneA == /\ turn = "A" /\ stA.pc = "done"
         /\ turn' = "B"
         /\ stB' = B!InitState                  \* a fresh process
         /\ UNCHANGED <<stA, stC, pidx, hist>>

cur == stA.cur
StartB == /\ turn = "B" /\ TwoHistories /\ stB.pc = "idle" /\ stB.nb = 0
          /\ B!Build(cur.prog, cur.cfg, cur.syms, cur.file)
          /\ UNCHANGED <<stA, stC, turn, pidx, hist>>
RunB == turn = "B" /\ stB.pc \in {"exec", "eval"} /\ B!Run /\ UNCHANGED <<stA, stC, turn, pidx, hist>>
DoneB == /\ turn = "B" /\ (stB.pc = "done" \/ ~TwoHistories)
         /\ turn' = "C"
         /\ UNCHANGED <<stA, stB, stC, pidx, hist>>

StartC == /\ turn = "C" /\ WithAsIs /\ stC.pc = "idle" /\ stC.nb = Len(hist)
          /\ C!Build(cur.prog, cur.cfg, cur.syms, cur.file)
          /\ UNCHANGED <<stA, stB, turn, pidx, hist>>
RunC == turn = "C" /\ stC.pc \in {"exec", "eval"} /\ C!Run /\ UNCHANGED <<stA, stB, turn, pidx, hist>>

\* compact form of an outcome for the harness: resolutions as <<name, source, version>>
Compact(o) == [kind |-> o.kind, cause |-> o.cause, arg |-> o.arg,
               res |-> [i \in 1..Len(o.log) |-> <<o.log[i].name, o.log[i].val.src, o.log[i].val.ver, o.log[i].via>>]]

DoneC == /\ turn = "C" /\ (stC.pc = "done" \/ ~WithAsIs)
         /\ hist' = Append(hist, [cfg |-> cur.cfg, syms |-> cur.syms, file |-> cur.file,
                                  want |-> Compact(A!Want(cur)),
                                  model |-> Compact(stA.outcome),
                                  asis |-> IF WithAsIs THEN Compact(stC.outcome) ELSE Compact(A!NoOutcome),
                                  fired |-> IF WithAsIs THEN stC.fired ELSE {},
                                  modules |-> IF WithAsIs THEN Cardinality(DOMAIN stC.modcache) ELSE 0,
                                  defsyms |-> IF WithAsIs THEN DOMAIN stC.defsyms ELSE {}])
         /\ turn' = "A"
         /\ A!EndBuild
         /\ IF WithAsIs THEN C!EndBuild ELSE UNCHANGED stC
         /\ UNCHANGED <<stB, pidx>>

Next == StartA \/ RunA \/ DoneA \/ StartB \/ RunB \/ DoneB \/ StartC \/ RunC \/ DoneC
Spec == Init /\ [][Next]_vars

----------------------------------------------------------------------------
\* properties of the process under study
ResolveOrder   == A!ResolveOrder
ExecEvalSplit  == A!ExecEvalSplit
UserError      == A!UserError
NoCrash        == A!NoCrash
ComputesPython == A!ComputesPython

\* the outcome of build k of any history equals the outcome of the same build in a fresh process
HistoryFree == (turn = "B" /\ TwoHistories /\ stB.pc = "done") => stA.outcome = stB.outcome

\* the value does not depend on whether a source file name was given: judged through ComputesPython
\* (Want does not read the file flag)

Complete == turn = "A" /\ stA.pc = "idle" /\ Len(hist) = MaxBuilds
Emit == (Complete /\ EmitJson) => PrintT(ToJson([c12 |-> Progs[pidx].id, builds |-> hist]))

\* vacuity: these must be REACHABLE (checked as invariants expected to fail)
NeverCacheHit  == ~(WithAsIs /\ "ModuleCacheKeepsCtx" \in stC.fired)
NeverUserError == ~(stA.pc = "done" /\ stA.outcome.kind = "EvalError")
=============================================================================
