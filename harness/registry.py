"""Which machinery decides which property."""
import functools
import os
import sys

HERE = os.path.dirname(os.path.abspath(__file__))
sys.path.insert(0, HERE)
import sdoc as S  # noqa
import builderfam  # noqa


# ---------------------------------------------------------------------------
# seeded generators of larger histories (direction B)

def _gen_plain(rng, max_stages):
    g = S.Gen(rng, keys=("a", "b", "c", 0, 1), atoms=(1, 2, "x", None, 0, True, 2.5, ""), tags=(),
              max_depth=rng.choice([2, 3, 4]), max_width=3, p_tag=0.0, p_empty=0.15)
    n = rng.randint(1, max_stages)
    return [g.doc() for _ in range(n)], [True] * n


def _has_type_change_or_nesting(docs):
    return len(docs) >= 2


BUILDER = {
    "C02": {
        "invariants": ["Inv_C02", "Inv_C02_NoKeyLost", "Inv_C02_Frame"],
        "exh": {"quick": [("C02_Docs3", 1, 3), ("C02_Docs2q", 2, 2)],
                "thorough": [("C02_Docs3", 1, 3), ("C02_Docs2", 2, 2), ("C02_Docs4", 4, 4)]},
        "mutations": [{"mutation": "ListsMergeByDefault", "docs": "C02_Docs3", "stages": (2, 2), "expect": ["Inv_C02"]},
                      {"mutation": "DropNewKeys", "docs": "C02_Docs3", "stages": (2, 2), "expect": ["Inv_C02_NoKeyLost"]}],
        "gen": _gen_plain, "random": {"quick": 1500, "thorough": 30000}, "max_stages": 6,
        "nontrivial": _has_type_change_or_nesting,
        "rule": "A: every history TLC enumerates over the named universes (documents of depth<=2 over keys a,b,0,1; "
                "maps, lists, scalars, empty containers) replayed through Builder, outcome after every stage compared; "
                "B: seeded random tag-free histories (depth<=4, up to 6 stages) recorded and validated by TLC. "
                "non-trivial = history of >= 2 documents; distinct by document content",
    },
}

CHECKS = {}
for _p, _spec in BUILDER.items():
    CHECKS[_p] = functools.partial(builderfam.run, _spec)

# ---------------------------------------------------------------------------
# MANIFEST texts

_BUILDER_NOTE = ("trusted: TLC 1.8, the YAML renderer and the projection of harness/, CPython 3.12.1 / PyYAML of /venv; "
                 "bounded universes (named in the evidence); direction B samples larger inputs, it does not enumerate them")
ENGINES = [
    {"name": "builder-family", "path": "/verif/harness/builderfam.py",
     "serves_properties": sorted(BUILDER.keys()),
     "kind_free_text": "TLC over spec/MC_Build.tla (AyBuild state machine: AddSource / FlattenFirst / MergeStage / Finish over "
                       "AyParse + AyMerge) checks the property invariants on every history of a bounded document universe and prints "
                       "each behaviour; every behaviour is replayed through the real Builder; recorded traces of seeded larger "
                       "histories are validated by TLC against spec/AyBuildTrace.tla with the property formula evaluated on the "
                       "logged outcomes; mutation cfgs must be refuted"},
]
META = {
    "C02": {"engine": "builder-family", "design_ref": "DESIGN.md 5/C02",
            "technique": "TLC model checking of AyBuild + trace validation / behaviour replay against the library",
            "text": "TLC checks on the explicit merge specification that folding tag-free documents equals the declarative recursive "
                    "update (Inv_C02), that no key is lost and that unmentioned paths are unchanged, exhaustively for every 1-3 (4) "
                    "stage history of the bounded universes; every enumerated behaviour is replayed through Builder and compared "
                    "stage by stage, and seeded deeper histories recorded from the library are validated by TLC with the formula "
                    "evaluated on the logged outcomes. Right level: the property quantifies over all histories; the small-scope "
                    "enumeration covers every type change at a path and the binding makes a code change show up as a trace the "
                    "specification rejects.",
            "note": _BUILDER_NOTE},
}
NOT_APPLICABLE = {}
