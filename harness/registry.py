"""Which machinery decides which property."""
import functools
import os
import sys

HERE = os.path.dirname(os.path.abspath(__file__))
sys.path.insert(0, HERE)
import sdoc as S  # noqa
import builderfam  # noqa
import evalfam  # noqa


# ---------------------------------------------------------------------------
# seeded generators of larger histories (direction B)

def _gen_plain(rng, max_stages):
    g = S.Gen(rng, keys=("a", "b", "c", 0, 1), atoms=(1, 2, "x", None, 0, True, 2.5, ""), tags=(),
              max_depth=rng.choice([2, 3, 4]), max_width=3, p_tag=0.0, p_empty=0.15)
    n = rng.randint(1, max_stages)
    return [g.doc() for _ in range(n)], [True] * n


def _has_type_change_or_nesting(docs):
    return len(docs) >= 2


def _gen_prio(rng, max_stages):
    """chain/tree documents with !force/!weak on leaves or containers, at most one priority tag per path,
    consistent shapes across stages (C03's stated domain); optional user metadata"""
    keys = ["a", "b", "c"]
    shape_depth = rng.choice([2, 3, 4])
    # one fixed shape (which paths are maps / leaves), shared by all stages
    def shape(d):
        if d == 0 or rng.random() < 0.3:
            return rng.choice(["leaf", "leaf", "list"])
        return {k: shape(d - 1) for k in rng.sample(keys, rng.randint(1, 3))}
    sh = {k: shape(shape_depth - 1) for k in rng.sample(keys, rng.randint(1, 3))}
    def md(sd):
        if rng.random() < 0.25:
            sd = dict(sd); sd["form"] = "md"; sd["md"] = [[rng.choice(["m", "n"]), S.atom_of_py(rng.choice([1, 2, 3]))]]
        return sd
    def tagp(sd, allowed):
        if allowed and rng.random() < 0.3:
            pr = rng.choice([1, -1])
            sd = dict(sd)
            if sd["form"] == "md":
                sd["pr"] = pr
            else:
                sd = S.with_tag(sd, "force" if pr == 1 else "weak")
            return sd, False
        return sd, allowed
    def inst(s, allowed):
        if s == "leaf":
            sd, _ = tagp(md(S.leaf(rng.choice([1, 2, 3, "x", None, 0]))), allowed)
            return sd
        if s == "list":
            sd, _ = tagp(md(S.sequence([S.leaf(rng.choice([1, 2, 3])) for _ in range(rng.randint(0, 3))])), allowed)
            return sd
        ks = [k for k in s if rng.random() < 0.7]
        node, allowed2 = tagp(md(S.mapping([])), allowed)
        node = dict(node)
        node["ch"] = [[S.key_of_py(k), inst(s[k], allowed2)] for k in ks]
        return node
    n = rng.randint(2, max_stages)
    return [inst(sh, True) for _ in range(n)], [True] * n


def _c03_nontrivial(docs):
    def prs(sd, acc):
        if sd["pr"] != 9:
            acc.add(sd["pr"])
        for _, c in sd["ch"]:
            prs(c, acc)
        return acc
    s = set()
    for d in docs:
        prs(d, s)
    return len(docs) >= 2 and len(s) >= 1


def _strip_below_lists(sd, below=False, truthy_del=True):
    sd = dict(sd)
    if below:
        sd.update({"form": "none" if sd["k"] in ("dict", "list", "scalar") else "tag", "pr": 9, "del": "N", "anew": "N", "safe": "N", "md": []})
    if sd["del"] == "T" and ((sd["k"] in ("dict", "list") and not sd["ch"]) or (sd["k"] == "scalar" and not S.atom_py(sd["v"]))):
        if not (sd["k"] == "scalar" and sd["v"] == ["n", ""]):
            sd.update({"form": "none", "del": "N"})
    sd["ch"] = [[k, _strip_below_lists(c, below or sd["k"] == "list")] for k, c in sd["ch"]]
    return sd


def _gen_c04(rng, max_stages):
    g = S.Gen(rng, keys=("a", "b", "c"), atoms=(1, 2, 3, "x"), tags=("force", "weak", "del", "del", "merge"),
              max_depth=rng.choice([2, 3, 4]), max_width=3, p_tag=0.35, p_empty=0.08, p_call=0.04,
              leaf_extra=[S.SD("clear", None, form="tag"), S.with_tag(S.leaf(None), "del")])
    n = rng.randint(2, max_stages)
    docs = [_strip_below_lists(g.doc()) for _ in range(n)]
    docs[0] = _strip_clear(docs[0])
    return docs, [True] * n


def _gen_c15(rng, max_stages):
    g = S.Gen(rng, keys=("a", "b", "c"), atoms=(1, 2, 3, "x"), tags=("force", "weak", "del", "merge"),
              max_depth=rng.choice([2, 3, 4]), max_width=3, p_tag=0.35, p_empty=0.08)
    n = rng.randint(2, max_stages)
    return [_strip_below_lists(g.doc()) for _ in range(n)], [True] * n


def _paths_of_sd(sd, p=()):
    yield p, sd
    for k, c in sd["ch"]:
        yield from _paths_of_sd(c, p + (S.key_py(k),))


def _gen_c08(rng, max_stages):
    g = S.Gen(rng, keys=("a", "b", "c"), atoms=(1, 2, 3, "x", None), tags=("notnew", "notnew", "new", "merge"),
              max_depth=rng.choice([2, 3, 4]), max_width=3, p_tag=0.3, p_empty=0.05)
    gb = S.Gen(rng, keys=("a", "b", "c"), atoms=(1, 2, 3, "x"), tags=(), max_depth=rng.choice([2, 3, 4]), max_width=3, p_tag=0.0, p_empty=0.05)
    n = rng.randint(2, max_stages)
    docs = [gb.doc()]
    for _ in range(n - 1):
        r = rng.random()
        if r < 0.45:
            # a command-line override aimed at a path of some earlier document, possibly mistyped
            src = rng.choice(docs)
            cands = [p for p, node in _paths_of_sd(src) if p and isinstance(p[0], str)]
            if not cands:
                docs.append(gb.doc()); continue
            p = list(rng.choice(cands))
            if rng.random() < 0.4:
                i = rng.randrange(len(p))
                p[i] = rng.choice(["zz", "a", "b", 0, 1, 5]) if i > 0 else rng.choice(["zz", "a", "b"])
                if rng.random() < 0.3:
                    p = p[:i + 1]
            val = rng.choice([S.leaf(5), S.leaf("v"), S.leaf(None), S.sequence([S.leaf(5)]), S.sequence([S.leaf(5), S.leaf(6), S.leaf(7)])])
            node = val
            for k in reversed(p):
                node = S.mapping([(k, node)])
            docs.append(S.with_tag(node, "notnew"))
        elif r < 0.8:
            d = g.doc()
            if rng.random() < 0.5 and d["form"] == "none":
                d = S.with_tag(d, "notnew")
            docs.append(d)
        else:
            docs.append(gb.doc())
    return docs, [True] * n


def _c08_nontrivial(docs):
    def gov(sd, inh):
        if inh == "F":
            return True
        return any(gov(c, sd["anew"] if sd["anew"] != "N" else inh) for _, c in sd["ch"])
    return len(docs) >= 2 and any(gov(d, "N") for d in docs[1:])


def _gen_c14(rng, max_stages):
    req = S.SD("required", None, form="tag")
    g = S.Gen(rng, keys=("a", "b", "c"), atoms=(1, 2, "x", None), tags=("del", "force", "weak"),
              max_depth=rng.choice([2, 3, 4]), max_width=3, p_tag=0.12, p_empty=0.08, leaf_extra=[req, req, S.with_tag(S.leaf(None), "del")])
    n = rng.randint(1, max_stages)
    docs = [_strip_below_lists(g.doc()) for _ in range(n)]
    docs[0] = _strip_clear(docs[0])
    for j in range(1, n):
        if rng.random() < 0.12 and docs[j]["form"] == "none":
            docs[j] = S.with_tag(docs[j], "del")       # a document that throws the previous tree away (root mapping tagged !del)
    # sometimes wrap a subtree's arguments in a recording call
    if rng.random() < 0.4 and docs[0]["ch"]:
        k, c = docs[0]["ch"][0]
        if c["k"] == "dict" and c["form"] == "none":
            c = dict(c); c["k"] = "call"; c["fn"] = "vmod.rec"; c["form"] = "tag"
            docs[0] = dict(docs[0]); docs[0]["ch"] = [[k, c]] + docs[0]["ch"][1:]
    return docs, [True] * n


def _c14_nontrivial(docs):
    def has_req(sd):
        return sd["k"] == "required" or any(has_req(c) for _, c in sd["ch"])
    return any(has_req(d) for d in docs)


def _gen_c16(rng, max_stages):
    """base configs, then stages using !append / !extend / !prev at existing and missing, list and non-list paths"""
    gb = S.Gen(rng, keys=("a", "b", "c", "a.b", "x-y"), atoms=(1, 2, 3, "x"), tags=(), max_depth=rng.choice([2, 3]), max_width=3, p_tag=0.0,
               p_empty=0.1, p_list=0.45)
    n = rng.randint(2, max_stages)
    docs = [gb.doc()]
    for _ in range(n - 1):
        allp = [(p, node) for d in docs for p, node in _paths_of_sd(d) if p and all(isinstance(x, str) for x in p)]
        d = {}
        used_prev = set()
        for _ in range(rng.randint(1, 3)):
            r = rng.random()
            if allp and r < 0.8:
                p, node = rng.choice(allp)
            else:
                p = tuple(rng.choice(["a", "b", "c", "zz"]) for _ in range(rng.randint(1, 2)))
            op = rng.choice(["append", "append", "extend", "prev", "plain"])
            if op in ("append", "extend"):
                val = S.SD(op, None, [[S.ikey(i), S.leaf(rng.choice([7, 8, 9]))] for i in range(rng.randint(0, 2))], form="tag")
            elif op == "prev":
                idp = [(pp, nn) for pp, nn in allp if all(x.isidentifier() for x in pp)]
                # elements of lists as targets (`!prev a.b[1]`, round 4 / F25): every third reference when there are any
                lep = [(pp, nn) for d0 in docs for pp, nn in _paths_of_sd(d0)
                       if pp and isinstance(pp[0], str) and any(isinstance(x, int) for x in pp)
                       and all(x.isidentifier() for x in pp if isinstance(x, str))]
                if lep and rng.random() < 0.33:
                    idp = lep
                if idp and rng.random() < 0.85:
                    q, _ = rng.choice(idp)
                else:
                    q = ("zz",)
                if q in used_prev:
                    continue
                used_prev.add(q)
                val = S.SD("prev", None, ref=[S.key_of_py(x) for x in q], form="tag")
            else:
                val = gb.node(1)
            # place val at path p inside the new document (dict of dicts)
            cur = d
            for x in p[:-1]:
                nxt = cur.get(x)
                if not isinstance(nxt, dict):
                    nxt = {}
                    cur[x] = nxt
                cur = nxt
            cur[p[-1]] = val
        def to_sd(x):
            if isinstance(x, dict) and "k" not in x:
                return S.mapping([(k, to_sd(v)) for k, v in x.items()])
            return x
        docs.append(to_sd(d) if d else S.mapping([]))
    return docs, [True] * n


def _c16_nontrivial(docs):
    def has_op(sd):
        return sd["k"] in ("append", "extend", "prev") or any(has_op(c) for _, c in sd["ch"])
    return any(has_op(d) for d in docs[1:])


def _strip_clear(sd):
    sd = dict(sd)
    sd["ch"] = [[k, _strip_clear(c)] for k, c in sd["ch"] if c["k"] != "clear" and not (c["k"] == "scalar" and c["del"] == "T" and c["v"] == ["n", ""])]
    if sd["k"] == "list":
        sd["ch"] = [[S.ikey(i), c] for i, (_, c) in enumerate(sd["ch"])]
    return sd


def _c04_nontrivial(docs):
    def has_del(sd):
        return sd["del"] != "N" or sd["k"] in ("list", "clear") or any(has_del(c) for _, c in sd["ch"])
    return len(docs) >= 2 and any(has_del(d) for d in docs[1:])


def _gen_c01(rng, max_stages):
    g = S.Gen(rng, keys=("a", "b", "_u", "c", 0, 1, 2.5), atoms=(1, 0, "x", "", None, True, False, 2.5, -3, "1", "yes", "8080", "12", "true", "2.5", "null"),
              tags=("force", "weak", "del", "merge", "new", "unsafe", "md"), max_depth=rng.choice([2, 3, 4, 5]), max_width=4,
              p_tag=0.4, p_empty=0.12)
    return [g.doc()], [True]


def _c01_nontrivial(docs):
    def f(sd):
        return sd["form"] != "none" or any(f(c) for _, c in sd["ch"])
    return f(docs[0])


BUILDER = {
    "C01": {
        "invariants": ["Inv_C01"],
        "driver": "builder+evaluate",
        "exh": {"quick": [("C01_DocsQ", 1, 1)], "thorough": [("C01_Docs", 1, 1), ("C01_Docs2", 1, 1)]},
        "mutations": [{"switch": "DeepWrapRefills", "docs": "C01_DocsQ", "stages": (1, 1), "expect": ["Inv_C01"]},
                      {"mutation": "DropUnderscoreKeys", "docs": "C01_DocsQ", "stages": (1, 1), "expect": ["Inv_C01"]}],
        "gen": _gen_c01, "random": {"quick": 1000, "thorough": 40000}, "max_stages": 1,
        "nontrivial": _c01_nontrivial,
        "rule": "A: single mapping documents: every key type (str, '_'-prefixed str, int, float) x every scalar type (int, 0, str, '', "
                "float, bool, None) and empty / small containers x each of the 7 merge-control tags, !metadata with user data and with "
                "several flags at once, on the value and on the document; and a -> b -> c chains with a tag at any level above lists "
                "and mappings nested two and three levels below it; each document is built and EVALUATED (Config), compared with TLC's "
                "Erase(doc) and with PyYAML's own load of the tag-erased text (== and recursive type()); B: seeded random documents "
                "(depth<=5, 7 key names of all key types, all tags). non-trivial = the document carries at least one tag; distinct by content",
    },
    "C02": {
        "invariants": ["Inv_C02", "Inv_C02_NoKeyLost", "Inv_C02_Frame"],
        "exh": {"quick": [("C02_Docs3", 1, 3), ("C02_Docs2q", 2, 2)],
                "thorough": [("C02_Docs3", 1, 3), ("C02_Docs2", 2, 2), ("C02_Docs4", 4, 4)]},
        "mutations": [{"mutation": "ListsMergeByDefault", "docs": "C02_Docs3", "stages": (2, 2), "expect": ["Inv_C02"]},
                      {"mutation": "DropNewKeys", "docs": "C02_Docs3", "stages": (2, 2), "expect": ["Inv_C02_NoKeyLost"]}],
        "gen": _gen_plain, "random": {"quick": 1500, "thorough": 30000}, "max_stages": 6,
        "nontrivial": _has_type_change_or_nesting,
        "rule": "A: every history TLC enumerates over the named universes (documents of depth<=2 over keys a,b,0,1; "
                "maps, lists, scalars, empty containers) replayed through Builder, outcome after every stage compared; "
                "B: seeded random tag-free histories (depth<=4, up to 6 stages) recorded and validated by TLC. "
                "non-trivial = history of >= 2 documents; distinct by document content",
    },
    "C03": {
        "invariants": ["Inv_C03"],
        "exh": {"quick": [("C03_Docs", 2, 2), ("C03_DocsMd", 2, 2), ("C03_Docs3", 3, 3), ("C03_DocsMdS", 3, 3), ("C03_DocsNull", 2, 3)],
                "thorough": [("C03_Docs2", 2, 2), ("C03_DocsMd", 2, 3), ("C03_Docs3", 3, 3), ("C03_DocsMdS", 3, 4), ("C03_DocsNull", 2, 3)]},
        "mutations": [{"switch": "ShallowPriority", "docs": "C03_Docs", "stages": (2, 2), "expect": ["Inv_C03"]},
                      {"mutation": "PriorityGE", "docs": "C03_Docs", "stages": (2, 2), "expect": ["Inv_C03"]},
                      {"mutation": "MdSpreadSwapped", "docs": "C03_DocsMd", "stages": (2, 2), "expect": ["Inv_C03"]}],
        "witness": "C03_Witness",
        "gen": _gen_prio, "random": {"quick": 1500, "thorough": 30000}, "max_stages": 5,
        "nontrivial": _c03_nontrivial,
        "rule": "A: every 2-3 stage history over chain-shaped mapping documents of depth<=3 with !force/!weak/none on any one "
                "node per path, atomic lists, and one user-metadata key per node (universes named in configs); B: seeded random "
                "histories (2-5 stages, depth<=4, 3 keys per level, consistent shapes). non-trivial = >=2 stages and at least one "
                "priority tag; distinct by document content",
    },
    "C04": {
        "invariants": ["Inv_C04"],
        "exh": {"quick": [("C04_Docs", 2, 2, "C04_Range"), ("C04_DocsL", 2, 3, "C04_RangeL"), ("C04_DocsP", 3, 3, "C04_RangeP"), ("C04_DocsK", 2, 2, "C04_RangeK")],
                "thorough": [("C04_Docs", 2, 2, "C04_Range"), ("C04_DocsL", 2, 3, "C04_RangeL"), ("C04_Docs3", 3, 3, "C04_Range3"),
                             ("C04_DocsP", 3, 3, "C04_RangeP"), ("C04_DocsK", 2, 2, "C04_RangeK")]},
        "mutations": [{"switch": "AbsLookup", "docs": "C04_Docs3", "range": "C04_Range3", "stages": (2, 2), "expect": ["Inv_C04"]},
                      {"switch": "FnTruthyWhenEmpty", "docs": "C04_Docs", "range": "C04_Range", "stages": (2, 2), "expect": ["Inv_C04"]},
                      {"mutation": "PruneEqualPriority", "docs": "C04_Docs3", "range": "C04_Range3", "stages": (2, 2), "expect": ["Inv_C04"]},
                      {"mutation": "ClearKeepsContent", "docs": "C04_Docs3", "range": "C04_Range3", "stages": (2, 2), "expect": ["Inv_C04"]}],
        "witness": "C04_Witness",
        "gen": _gen_c04, "random": {"quick": 1500, "thorough": 30000}, "max_stages": 4,
        "nontrivial": _c04_nontrivial,
        "rule": "A: every 2-stage history of (older document: depth<=3, keys a b, !force leaves, a list, a !call node) x (newer "
                "document: !del/!merge/!weak/none on every mapping, value-less !del and !clear leaves, lists with and without !merge), "
                "child keys equal to ancestor keys included; B: seeded random 2-4 stage histories (depth<=4, 3 keys) over the same "
                "vocabulary. non-trivial = the newer documents contain a deleting node (!del, list, !clear); distinct by content",
    },
    "C05": {
        "invariants": ["Inv_C05_Wrap", "Inv_C05_Sibling", "Inv_C05_Frame"],
        "rel": "c05",
        "exh": {"quick": [("C04_Docs3", 2, 2, "C04_Range3")],
                "thorough": [("C04_Docs3", 2, 2, "C04_Range3"), ("C04_DocsP", 3, 3, "C04_RangeP"), ("C04_DocsK", 2, 2, "C04_RangeK")]},
                # (3 stages of C04_Docs3 or 2 of C04_Docs: > 50 min of TLC - the relational invariants fold ~20 related histories per state)
        "mutations": [{"switch": "AbsLookup", "docs": "C04_Docs3", "range": "C04_Range3", "stages": (2, 2), "expect": ["Inv_C05_Wrap"]},
                      {"mutation": "PruneAlways", "docs": "C04_Docs3", "range": "C04_Range3", "stages": (2, 2), "expect": ["Inv_C05_Frame"]}],
        "gen": _gen_c04, "random": {"quick": 700, "thorough": 3000}, "max_stages": 4,
        "nontrivial": _c04_nontrivial,
        "rule": "A: every 2(3)-stage history of the C04 universes, each replayed as written AND wrapped under the key chains a, b, a.a, "
                "a.b (same key set as the documents) AND with a sibling subtree under a fresh root key at every stage, outcomes related; "
                "B: seeded random histories (all merge-control tags) with a random wrapping chain of length 1-4 and a random sibling. "
                "non-trivial = newer documents contain a deleting node; distinct by content",
    },
    "C08": {
        "invariants": ["Inv_C08"],
        "driver": "cmdline",
        "exh": {"quick": [("C08_Docs", 2, 2, "C08_Range"), ("C08_DocsFirst", 1, 1), ("C08_DocsD", 2, 2, "C08_RangeD"), ("C08_DocsF", 2, 2, "C08_RangeF")],
                "thorough": [("C08_Docs", 2, 2, "C08_Range"), ("C08_DocsFirst", 1, 1), ("C08_DocsD", 2, 2, "C08_RangeD"), ("C08_DocsF", 2, 2, "C08_RangeF"),
                             ("C08_Docs3", 3, 3, "C08_Range3")]},
        "mutations": [{"mutation": "NotNewShallow", "docs": "C08_Docs", "range": "C08_Range", "stages": (2, 2), "expect": ["Inv_C08"]},
                      {"mutation": "NotNewSkipsFirst", "docs": "C08_DocsFirst", "stages": (1, 1), "expect": ["Inv_C08"]}],
        "gen": _gen_c08, "random": {"quick": 1500, "thorough": 30000}, "max_stages": 4,
        "nontrivial": _c08_nontrivial,
        "rule": "A: every base config (depth<=3, mappings and lists of mappings) x every overriding document with !notnew/!new/none on "
                "every mapping and list (738) and every command-line override `path=value` over paths through keys a b and indices 0 1 2 "
                "(existing, mistyped at each depth, out of range) x scalar and list values (165), the latter driven through "
                "Config.build_from_cmdline; every overriding document also as a first document; B: seeded random histories and "
                "random overrides derived from the paths of the config built so far (existing or mutated). non-trivial = some later "
                "document has a node below !notnew; distinct by content",
    },
    "C14": {
        "invariants": ["Inv_C14", "Inv_C14_Survivors"],
        "driver": "builder+construct",
        "exh": {"quick": [("C14_Docs", 1, 2, "C14_Range"), ("C14_Docs3", 3, 3, "C14_Range3")],
                "thorough": [("C14_Docs", 1, 2, "C14_Range"), ("C14_Docs3", 3, 4, "C14_Range3")]},
        "mutations": [{"mutation": "ScanTopLevelOnly", "docs": "C14_Docs3", "range": "C14_Range3", "stages": (1, 2), "expect": ["Inv_C14"]},
                      {"mutation": "DropNewKeys", "docs": "C14_Docs3", "range": "C14_Range3", "stages": (2, 2), "expect": ["Inv_C14_Survivors"]}],
        "witness": "C14_Witness",
        "gen": _gen_c14, "random": {"quick": 1500, "thorough": 30000}, "max_stages": 4,
        "nontrivial": _c14_nontrivial,
        "rule": "A: every first document with 1 or !required at every position of mappings, lists and !call/!bind arguments x every later "
                "document overriding, re-requiring or deleting (value-less !del, empty list) any subset, 1-2 stages (3-4 on a narrower "
                "set); Config() is constructed for real, !call targets are recording functions; B: seeded random histories with "
                "!required sprinkled over deeper trees. non-trivial = some document contains !required; distinct by content",
    },
    "C16": {
        "invariants": ["Inv_C16"],
        "exh": {"quick": [("C16_DocsQ", 1, 2, "C16_RangeQ"), ("C16_Docs3", 1, 1), ("C16_DocsDot", 2, 2, "C16_RangeDot"), ("C16_DocsLE", 2, 2, "C16_RangeLE")],
                "thorough": [("C16_Docs", 1, 2, "C16_Range"), ("C16_Docs3", 1, 3), ("C16_DocsDot", 2, 3, "C16_RangeDot"), ("C16_DocsLE", 2, 2, "C16_RangeLE")]},
        "mutations": [{"mutation": "PrevCopies", "docs": "C16_DocsQ", "range": "C16_RangeQ", "stages": (2, 2), "expect": ["Inv_C16"]},
                      {"mutation": "AppendPrepends", "docs": "C16_DocsQ", "range": "C16_RangeQ", "stages": (2, 2), "expect": ["Inv_C16"]}],
        "gen": _gen_c16, "random": {"quick": 1500, "thorough": 30000}, "max_stages": 4,
        "nontrivial": _c16_nontrivial,
        "rule": "A: base configs (mappings over a b, depth<=3, scalars, lists of 0-2 elements) x newer documents placing !append [7], "
                "!append [], !extend [7,8], !prev <5 paths> or a scalar at every path of depth<=2 (top level / nested, existing / missing, "
                "list / non-list targets, several operators per document); operators in a first document; 3-stage sequences on a "
                "narrower set; !prev of list ELEMENTS (C16_DocsLE: a[0] a[1] a[2] a[0][1] b[0] at three keys over 4 bases); B: seeded random histories aiming the operators at paths of earlier documents - every third !prev at a list element - (or mistyped ones). "
                "non-trivial = a later document contains an operator; distinct by content",
    },
    "C15": {
        "invariants": ["Inv_C15"],
        "rel": "c15",
        "exh": {"quick": [("C15_Docs3", 2, 2), ("C15_DocsDeep", 2, 2, "C15_RangeDeep")],
                "thorough": [("C15_Docs3", 2, 2), ("C15_DocsDeep", 2, 2, "C15_RangeDeep")]},
                # (3 stages of C15_Docs3: 106,064 behaviours x ~15 related histories = 62 min; ("C15_Docs", 2, 2): > 1 h - the depth of the
                #  thorough tier is in its 3,000 random histories, which is where F24 was found)
        "mutations": [{"switch": "DeepWrapRefills", "docs": "C15_DocsM", "stages": (2, 2), "expect": ["Inv_C15"]},
                      {"mutation": "PruneAlways", "docs": "C15_Docs3", "stages": (2, 2), "expect": ["Inv_C15"]},
                      {"mutation": "PropagateIgnoresDefaultDelete", "docs": "C15_DocsDeep", "range": "C15_RangeDeep", "stages": (2, 2), "expect": ["Inv_C15"]}],
        "gen": _gen_c15, "random": {"quick": 400, "thorough": 3000}, "max_stages": 4,
        "nontrivial": _c04_nontrivial,
        "rule": "A: every 2(3)-stage history of the C15 universes (priority, !del, !merge, lists), each replayed as written and again "
                "(a) unchanged in the same process, (b) with the last document repeated, (c) with an empty mapping document inserted at "
                "every position, (d) with the keys of every mapping reversed, (e) with !unsafe / !new put on every node in turn; "
                "B: seeded random histories with a random permutation, insertion position and three random marker placements. "
                "non-trivial = newer documents contain a deleting node; distinct by content",
    },
}

def _gen_eval(rng, max_stages, p_bad=0.25, calls=True):
    """configs with cross-references (chains, fan-in, forward/backward, into and out of containers and call arguments,
    sometimes dangling / self / cyclic) and recording calls; optionally a later stage overriding / deleting entries"""
    keys = ["a", "b", "c", "d"]
    holes = []

    def node(depth):
        r = rng.random()
        if r < 0.26:
            h = S.SD("xref", None, form="tag")
            holes.append(h)
            return h
        if r < 0.30:
            # an evaluated expression consuming a top-level entry: `!eval <name>` (AyEval.tla: ref = that key)
            k = rng.choice(keys + (["zz"] if rng.random() < p_bad else []))
            return S.SD("eval", ["s", k], ref=[S.skey(k)], form="tag")
        if calls and r < 0.45:
            n = rng.randint(0, 2)
            fn = rng.choice(["vmod.rec", "vmod.rec", "vmod.recnone", "vmod.reclist"])
            return S.SD("call", None, [[S.key_of_py(k), node(depth - 1) if depth > 0 else S.leaf(1)] for k in rng.sample(keys, n)],
                        fn=fn, form="tag")
        if calls and r < 0.50:
            return S.SD("bind", None, [[S.key_of_py(k), node(depth - 1) if depth > 0 else S.leaf(1)] for k in rng.sample(keys, rng.randint(0, 1))],
                        fn="vmod.rec", form="tag")
        if depth > 0 and r < 0.68:
            return S.mapping([(k, node(depth - 1)) for k in rng.sample(keys + [0, 1] + ([2.5] if max_stages == 1 else []), rng.randint(0, 3))])
        if depth > 0 and r < 0.80:
            return S.sequence([node(depth - 1) for _ in range(rng.randint(0, 3))])
        return S.leaf(rng.choice([1, 2, "x", None, True, 2.5, 0, ""]))

    doc = S.mapping([(k, node(rng.choice([2, 3]))) for k in rng.sample(keys, rng.randint(2, 4))])
    paths = [p for p, _ in _paths_of_sd(doc) if p and all(isinstance(x, (str, int)) and not isinstance(x, bool) for x in p)
             and isinstance(p[0], str)]
    for h in holes:
        if rng.random() < p_bad or not paths:
            h["ref"] = [S.key_of_py(x) for x in rng.choice([("zz",), ("a", "zz"), ("a", 7)])]
        else:
            h["ref"] = [S.key_of_py(x) for x in rng.choice(paths)]
    docs = [doc]
    if max_stages > 1 and rng.random() < 0.35:
        over = []
        for k, c in doc["ch"]:
            if rng.random() < 0.4:
                over.append((S.key_py(k), rng.choice([S.leaf(5), S.with_tag(S.leaf(None), "del"), S.sequence([]),
                                                       S.SD("call", None, [], fn="vmod.rec", form="tag")])))
        if over:
            docs.append(S.mapping(over))
    return docs, [True] * len(docs)


def _gen_eval_good(rng, max_stages):
    return _gen_eval(rng, 1, p_bad=0.0)      # single stage: float keys allowed (see finding F13)


def _eval_nontrivial(docs):
    def f(sd):
        return sd["k"] in ("xref", "call", "bind", "eval") or any(f(c) for _, c in sd["ch"])
    return any(f(d) for d in docs)


def _gen_c07(rng, max_stages):
    """random histories over the C07 vocabulary: every dynamic node / scalar of stage j is named r<j>? / v<j>?"""
    n = rng.randint(1, max_stages)
    docs, safes = [], []
    recs = [False]
    for j in range(1, n + 1):
        cnt = [0]

        def name(kind):
            cnt[0] += 1
            # (scalars are importable names too: a string merged onto a function node becomes its target)
            return f"vmod.r{j}{'abcdefgh'[cnt[0] % 8]}{cnt[0]}" if kind == "fn" else f"vmod.r{j}s{cnt[0]}"

        def unsafe(sd):
            if rng.random() < 0.25:
                sd = dict(sd)
                if sd["form"] == "none":
                    return S.with_tag(sd, "unsafe")
                if sd["k"] in ("call", "bind", "required"):
                    sd["safe"] = "F"; sd["form"] = "md"
            return sd

        def value(depth):
            r = rng.random()
            if r < 0.3:
                return unsafe(S.leaf(name("atom")))
            if r < 0.55 and depth > 0:
                args = [[S.skey(k), value(depth - 1)] for k in rng.sample(["a", "b"], rng.randint(0, 2))]
                return unsafe(S.SD(rng.choice(["call", "call", "bind"]), None, args, fn=name("fn"), form="tag"))
            if r < 0.62:
                return S.SD("import", ["s", name("fn")], form="tag")
            if r < 0.72:
                return S.SD("xref", None, ref=[S.skey(rng.choice(["f", "d", "e"]))], form="tag")
            if r < 0.74:
                k = rng.choice(["f", "d", "e"])
                return unsafe(S.SD("eval", ["s", k], ref=[S.skey(k)], form="tag"))
            if r < 0.75:
                k = rng.choice(["f", "d", "e"])
                return S.SD("fstr", ["s", "f'{" + k + "}'"], ref=[S.skey(k)], form="tag")
            if r < 0.78 and depth > 0 and not recs[0]:
                # files read at evaluation time (one !rec node per history: provenance of what the files hold must be decidable)
                recs[0] = True
                names = rng.sample(["rfcall.yaml", "rfdata.yaml", "rfuns.yaml"], rng.randint(1, 2))
                return S.SD("rec", None, [[S.ikey(i), unsafe(S.leaf(nm))] for i, nm in enumerate(names)], form="tag")
            if r < 0.85 and depth > 0:
                return unsafe(S.mapping([(k, value(depth - 1)) for k in rng.sample(["a", "b"], rng.randint(0, 2))]))
            if r < 0.9:
                return S.sequence([value(0)])
            if r < 0.95 and j > 1:
                return S.with_tag(S.leaf(None), "del")
            return S.SD("required", None, form="tag") if j < n else S.leaf(name("atom"))
        keys = rng.sample(["f", "d", "e"], rng.randint(1, 3))
        d = S.mapping([(k, value(2)) for k in keys])
        if rng.random() < 0.15:
            d = S.with_tag(d, "unsafe")
        docs.append(d)
        safes.append(rng.random() < 0.7)
    return docs, safes


def _c07_nontrivial(docs):
    def f(sd):
        return sd["safe"] == "F" or any(f(c) for _, c in sd["ch"])
    return any(f(d) for d in docs) or True


EVAL = {
    "C09": {
        "invariants": ["Inv_C09", "StepBound"],
        "exh": {"quick": [("EU_C09_DocsS", 1, 1), ("EU_C09_DocsC", 1, 1), ("EU_C10_DocsE", 1, 1)],
                "thorough": [("EU_C09_Docs", 1, 1), ("EU_C09_DocsC", 1, 1), ("EU_C10_DocsE", 1, 1)]},
        "liveness": {"quick": [("EU_C09_DocsS", 1, 1)], "thorough": [("EU_C09_DocsS", 1, 1)]},
        "mutations": [{"switch": "NoCycleCheck", "docs": "EU_C09_DocsS", "stages": (1, 1), "expect": ["Terminates"]},
                      {"mutation": "CopyOnXRef", "docs": "EU_C09_DocsS", "stages": (1, 1), "expect": ["Inv_C09"]}],
        "gen": _gen_eval, "random": {"quick": 1500, "thorough": 25000}, "max_stages": 2,
        "nontrivial": _eval_nontrivial,
        "rule": "A: every config with top-level keys a b (c) whose values are a scalar, a reference to any of 9 path expressions "
                "(existing, missing, itself, ancestors, descendants), or a mapping / list / !call holding one of those - chains, fan-in, "
                "forward and backward references, cycles of length 1-3 - built, constructed and evaluated, outcome (status, data, "
                "object identities, evaluation order) compared; liveness (Terminates under weak fairness, no state constraint); "
                "B: seeded random configs (depth<=3, 4 keys, lists, calls, 25% dangling targets) recorded and validated by TLC. "
                "non-trivial = the config contains a reference or a call; distinct by content",
    },
    "C10": {
        "invariants": ["Inv_C10", "StepBound"],
        "rec_files": {"rc1.yaml": S.mapping([("x", S.SD("call", None, [], fn="vmod.rec", form="tag")), ("y", S.leaf(1))]),
                      "rc2.yaml": S.mapping([("x", S.SD("call", None, [[S.skey("a"), S.leaf(1)]], fn="vmod.rec", form="tag")),
                                             ("z", S.SD("call", None, [], fn="vmod.reclist", form="tag"))])},
        "exh": {"quick": [("EU_C10_DocsS", 1, 1), ("EU_C10_DocsE", 1, 1), ("EU_C10_DocsN", 1, 1), ("EU_C10_DocsF", 1, 1), ("EU_C10_DocsR", 1, 1), ("EU_C10_Hist", 2, 2, "EU_C10_HistRange")],
                "thorough": [("EU_C10_Docs", 1, 1), ("EU_C10_DocsE", 1, 1), ("EU_C10_DocsN", 1, 1), ("EU_C10_DocsF", 1, 1), ("EU_C10_DocsR", 1, 1), ("EU_C10_Hist", 2, 2, "EU_C10_HistRange")]},
        "mutations": [{"mutation": "NoIdCache", "docs": "EU_C10_DocsS", "stages": (1, 1), "expect": ["Inv_C10"]},
                      {"mutation": "EvalLeaksPlaceholder", "docs": "EU_C10_DocsE", "stages": (1, 1), "expect": ["Inv_C10"]}],
        "gen": _gen_eval, "random": {"quick": 1500, "thorough": 25000}, "max_stages": 2,
        "nontrivial": _eval_nontrivial,
        "rule": "A: every config with one to three recording !call nodes consumed by references, call arguments, list and mapping "
                "elements and !bind arguments (key order of consumers before / after producers included), and every 2-stage history "
                "overwriting or deleting any subset of the top-level dynamic nodes; call log (which node, how often, in which order) and "
                "object identities compared; B: seeded random configs. non-trivial = contains a call or a reference; distinct by content",
    },
    "C11": {
        "invariants": ["Inv_C11"],
        "lifecycle": True, "max_evals": 2, "issues_matter": True,
        "exh": {"quick": [("EU_C10_DocsS", 1, 1), ("EU_C10_DocsE", 1, 1)], "thorough": [("EU_C10_Docs", 1, 1), ("EU_C09_DocsS", 1, 1), ("EU_C10_DocsE", 1, 1)]},
        "mutations": [{"mutation": "EvalSharesHeap", "docs": "EU_C10_DocsS", "stages": (1, 1), "expect": ["Inv_C11"], "max_evals": 2},
                      {"mutation": "EvalLeaksPlaceholder", "docs": "EU_C10_DocsE", "stages": (1, 1), "expect": ["Inv_C11"], "max_evals": 2}],
        "gen": _gen_eval_good, "random": {"quick": 1500, "thorough": 25000}, "max_stages": 2,
        "nontrivial": _eval_nontrivial,
        "rule": "A: the C10 configs built and evaluated, then the kept source evaluated again and an earlier result mutated (TLC: Again / "
                "Mutate actions, heap ids disjoint, re-evaluation equal); in the library: exact Python types of every value and key, "
                "attribute-dict access, no node anywhere in the result, source projection unchanged by evaluation, by re-evaluation and "
                "by mutating every container of the result; B: seeded random configs without dangling references (all scalar types). "
                "non-trivial = contains a call or a reference; distinct by content",
    },
    "C07": {
        "invariants": ["Inv_C07_Trees", "Inv_C07_Eval"],
        # files a `!rec` node may name (written to the directory the library runs in, handed to TLC as JSON: spec/AyFiles.tla)
        "rec_files": {"rfcall.yaml": S.mapping([("x", S.SD("call", None, [], fn="vmod.r9a", form="tag")), ("y", S.leaf("vmod.r9y"))]),
                      "rfdata.yaml": S.mapping([("x", S.leaf("vmod.r9v"))]),
                      "rfuns.yaml": S.mapping([("x", S.with_tag(S.leaf("vmod.r9w"), "unsafe"))])},
        "safes": "{TRUE, FALSE}", "with_docs": True,
        "exh": {"quick": [("C07_Docs", 1, 2, "C07_Range")], "thorough": [("C07_Docs", 1, 2, "C07_Range"), ("C07_Docs3", 3, 3, "C07_Range3")]},
        "mutations": [{"switch": "DefaultSafeOverwrite", "docs": "C07_Docs", "range": "C07_Range", "stages": (2, 2), "expect": ["Inv_C07_Trees", "Inv_C07_Eval"]},
                      {"mutation": "NoArgGate", "docs": "C07_Docs", "range": "C07_Range", "stages": (1, 1), "expect": ["Inv_C07_Eval"]},
                      {"mutation": "NoFnGate", "docs": "C07_Docs", "range": "C07_Range", "stages": (2, 2), "expect": ["Inv_C07_Eval"]},
                      {"mutation": "NoTaint", "docs": "C07_Docs", "range": "C07_Range", "stages": (1, 1), "expect": ["Inv_C07_Eval"]},
                      {"mutation": "MergeLaundersUnsafe", "docs": "C07_Docs", "range": "C07_Range", "stages": (2, 2), "expect": ["Inv_C07_Trees"]}],
        "gen": _gen_c07, "random": {"quick": 1500, "thorough": 25000}, "max_stages": 3,
        "nontrivial": _c07_nontrivial,
        "rule": "A: first documents with a !call / !bind / !import / placeholder at f (argument static, cross-referenced, a nested call; "
                "!unsafe on the node, on an argument, on the whole document, on referenced data) x later documents overriding f by a "
                "function node, a mapping, a list, a target-name string, an import, !required or value-less !del (plain, !unsafe, "
                "!force, !weak) or the referenced data, x every assignment of safe=True/False to the sources; every dynamic node and "
                "every scalar carries its own name so that what ran / was passed is traced to its surface node; B: seeded random "
                "histories over the same vocabulary (2-3 stages). non-trivial = some content is tainted; distinct by content+flags",
    },
}

CHECKS = {}
for _p, _spec in EVAL.items():
    CHECKS[_p] = functools.partial(evalfam.run, _spec)
for _p, _spec in BUILDER.items():
    CHECKS[_p] = functools.partial(builderfam.run, _spec)

# ---------------------------------------------------------------------------
# MANIFEST texts

_BUILDER_NOTE = ("trusted: TLC 1.8, the YAML renderer and the projection of harness/, CPython 3.12.1 / PyYAML of /venv; "
                 "bounded universes (named in the evidence); direction B samples larger inputs, it does not enumerate them")
ENGINES = [
    {"name": "builder-family", "path": "/verif/harness/builderfam.py",
     "serves_properties": sorted(["C01", "C02", "C03", "C04", "C05", "C08", "C14", "C15", "C16"]),
     "kind_free_text": "TLC over spec/MC_Build.tla (AyBuild state machine: AddSource / FlattenFirst / MergeStage / Finish over "
                       "AyParse + AyMerge) checks the property invariants on every history of a bounded document universe and prints "
                       "each behaviour; every behaviour is replayed through the real Builder; recorded traces of seeded larger "
                       "histories are validated by TLC against spec/AyBuildTrace.tla with the property formula evaluated on the "
                       "logged outcomes; mutation cfgs must be refuted"},
]
ENGINES.append({"name": "eval-family", "path": "/verif/harness/evalfam.py", "serves_properties": ["C07", "C09", "C10", "C11"],
    "kind_free_text": "TLC over spec/MC_Eval.tla (AyBuild followed by AyEval: Start / EnterChild / FinishContainer / XRefFollow / "
                      "XRefEnter / XRefAlias / XRefTaken / FnGate ... plus Again / Mutate) with safety invariants and the liveness "
                      "property Terminates; behaviours replayed through Builder + Config with an instrumented EvalContext subclass; "
                      "recorded evaluations validated against spec/EvalTrace.tla"})
META = {
    "C02": {"engine": "builder-family", "design_ref": "DESIGN.md 5/C02",
            "technique": "TLC model checking of AyBuild + trace validation / behaviour replay against the library",
            "text": "TLC checks on the explicit merge specification that folding tag-free documents equals the declarative recursive "
                    "update (Inv_C02), that no key is lost and that unmentioned paths are unchanged, exhaustively for every 1-3 (4) "
                    "stage history of the bounded universes; every enumerated behaviour is replayed through Builder and compared "
                    "stage by stage, and seeded deeper histories recorded from the library are validated by TLC with the formula "
                    "evaluated on the logged outcomes. Right level: the property quantifies over all histories; the small-scope "
                    "enumeration covers every type change at a path and the binding makes a code change show up as a trace the "
                    "specification rejects.",
            "note": _BUILDER_NOTE},
}
META["C03"] = {"engine": "builder-family", "design_ref": "DESIGN.md 5/C03",
    "technique": "TLC model checking of AyBuild + trace validation / behaviour replay against the library",
    "text": "TLC checks on the merge specification (flags, priority push-down, leaf rule, _replace_self/_replace_other metadata "
            "spreads) that at every path the value of the highest-priority, latest writer survives and that metadata keys are "
            "never lost and the winner's values kept (Inv_C03, stated over the surface documents), for every 2-3 stage history of "
            "the bounded universes; behaviours replayed through Builder; recorded deeper histories validated by TLC with the formula "
            "on logged outcomes; mutation cfgs ShallowPriority / PriorityGE / MdSpreadSwapped must be refuted.",
    "note": _BUILDER_NOTE + "; domain narrowed as DESIGN 5/C03 states (no mapping<->leaf change at a path, one priority tag per path, atomic lists)"}
META["C04"] = {"engine": "builder-family", "design_ref": "DESIGN.md 5/C04",
    "technique": "TLC model checking of AyBuild + trace validation / behaviour replay against the library",
    "text": "TLC checks that the implementation-shaped merge (three-level delete flag, two-pass prune with relative lookup, "
            "emptied-container early return, pre-filter of newer lists, premerge !clear, promotion) equals a two-operator declarative "
            "oracle (Protect = older entries with strictly higher priority than the nearest newer node; Spec = key-wise / index-wise "
            "combination after Protect) on every enumerated 2(3)-stage history, the oracle being evaluated from the OBSERVED older tree "
            "and the newer document; behaviours replayed through Builder; recorded random histories validated by TLC; "
            "mutation cfgs AbsLookup / FnTruthyWhenEmpty / PruneEqualPriority / ClearKeepsContent must be refuted.",
    "note": _BUILDER_NOTE + "; domain narrowed as DESIGN 5/C04 states (uniform priority below lists, remove-this-key idiom and "
            "vanishing !del containers excluded, function nodes as merge partners left to C13)"}
META["C05"] = {"engine": "builder-family", "design_ref": "DESIGN.md 5/C05",
    "technique": "TLC model checking of AyBuild (relational invariants) + metamorphic replay / trace validation against the library",
    "text": "TLC checks on the merge specification that folding the documents wrapped under a key chain equals the wrapped fold, that a "
            "sibling subtree under a fresh key changes nothing else, and the frame condition (paths the newer document does not reach "
            "are unchanged), for every enumerated history x wrapping chain x sibling; in the library both histories are really built "
            "and related to each other, disagreements and seeded random histories are judged by TLC on the logged outcomes; "
            "mutation AbsLookup (absolute path used in a lookup) must be refuted.",
    "note": _BUILDER_NOTE + "; !prev / cross-reference targets (absolute paths by definition) are not wrapped"}
META["C15"] = {"engine": "builder-family", "design_ref": "DESIGN.md 5/C15",
    "technique": "TLC model checking of AyBuild (relational invariants) + metamorphic replay / trace validation against the library",
    "text": "TLC checks the five laws on the specification for every enumerated history (repeat last, insert {} at every position, "
            "reverse every mapping's keys, mark every node !unsafe / !new); the library is driven along the base and every derived "
            "history (and twice in one process for determinism) and TLC judges the logged outcomes; idempotence and key-order "
            "freedom are up to key order, the others exact.",
    "note": _BUILDER_NOTE + "; remove-this-key idiom (value-less / falsy / vanishing !del) excluded as the statement says"}
META["C08"] = {"engine": "builder-family", "design_ref": "DESIGN.md 5/C08",
    "technique": "TLC model checking of AyBuild + AyCmdline + trace validation / behaviour replay (Config.build_from_cmdline) against the library",
    "text": "TLC checks on the merge specification (_require_all_new on new keys, on whole-subtree replacement with the removed-set, on "
            "the first stage) that a successful stage never creates a path governed by !notnew (nearest strict !new/!notnew ancestor), "
            "that a governed missing path fails with a MergeError naming such a path, that a !notnew first document fails, and that "
            "the document process_cmdline builds for `a.b[i].c=value` sets exactly that path; every enumerated behaviour is replayed "
            "(overrides through the real command-line grammar) and random histories validated by TLC.",
    "note": _BUILDER_NOTE + "; OverrideExact is claimed for scalar values (mapping values merge, list values longer than the "
            "existing list address new indices and fail by the !notnew rule itself)"}
META["C14"] = {"engine": "builder-family", "design_ref": "DESIGN.md 5/C14",
    "technique": "TLC model checking of AyBuild (Construct action) + trace validation / behaviour replay (Config construction) against the library",
    "text": "The builder state machine ends with a Construct action (the !required check comes first, evaluation only after it passed). "
            "TLC checks that construction fails iff the merged tree holds a !required node anywhere (mappings, lists, !call/!bind "
            "arguments), that all of them are listed, and - against C02's declarative fold - that placeholders overridden or deleted "
            "by later stages do not count; every behaviour is replayed with recording call targets (nothing may run before the check), "
            "recorded histories are judged by TLC on the logged status / paths / call count.",
    "note": _BUILDER_NOTE}
META["C16"] = {"engine": "builder-family", "design_ref": "DESIGN.md 5/C16",
    "technique": "TLC model checking of AyBuild (premerge operators) + trace validation / behaviour replay against the library",
    "text": "The premerge operators are part of the merge specification (document-order walk, detach from the older tree, re-set in the "
            "newer document, then merge). TLC checks it against a declarative reading: the operators act in document order on what is "
            "left of the configuration (append = previous list ++ L or PremergeError, extend = the same or plain L, prev = take the "
            "subtree out of p and put it at q) and the rest is C02's recursive update, so every other path keeps its value and element "
            "order; exhaustive over the named universes, behaviours replayed, random histories validated by TLC; mutations PrevCopies "
            "and AppendPrepends must be refuted.",
    "note": _BUILDER_NOTE + "; documents carry no priority / delete tags (those are C03/C04); operator targets are mapping paths, and for !prev also elements of lists (universe C16_DocsLE); !append / !extend ON a list element are the known finding F26 (known_findings.json, three input-identified probes built on every run: KNOWN-FINDING lines, exit 0; any other result on these inputs is a violation)"}
_EVAL_NOTE = ("trusted: TLC 1.8, harness/evalobs.py (EvalContext subclass passed through the public eval_ctx argument, recording "
              "call targets), CPython 3.12.1; bounded universes; object identity of scalars is not compared")
META["C09"] = {"engine": "eval-family", "design_ref": "DESIGN.md 5/C09",
    "technique": "TLC model checking (safety + liveness) of AyBuild+AyEval + behaviour replay / trace validation against the library",
    "text": "AyEval is evaluation as a step machine (evaluation stack, per-path cache, heap ids, one reference link per step). TLC "
            "checks Alias (a reference and its final target hold the same heap id), Dangling (EvalError iff some reference is missing, "
            "cyclic, or circular through containers), a step bound in every state and the liveness property Terminates under weak "
            "fairness without state constraint; the mutation NoCycleCheck (the pre-fix code) yields a lasso. Every enumerated config is "
            "built and evaluated in the library under a step-bounded EvalContext (a hang is a deterministic verdict), identities, data "
            "and evaluation order compared; recorded random evaluations are validated by TLC with the formulas on the logged outcome.",
    "note": _EVAL_NOTE}
META["C10"] = {"engine": "eval-family", "design_ref": "DESIGN.md 5/C10",
    "technique": "TLC model checking of AyBuild+AyEval + behaviour replay / trace validation against the library",
    "text": "On the same machine TLC checks AtMostOnce in every state, ExactlyOnce at the end, that calls only come from nodes of the "
            "merged tree (overwritten / deleted nodes never run), that every consumer holds the producer's heap id, and order-freedom "
            "through a denotational reading of the tree (the result equals Denote(tree), which does not depend on any order); the "
            "library's call log is attributed to node paths and compared in order; mutation NoIdCache must be refuted.",
    "note": _EVAL_NOTE}
META["C11"] = {"engine": "eval-family", "design_ref": "DESIGN.md 5/C11",
    "technique": "TLC model checking of the Config life cycle (MC_Eval: Again / Mutate) + behaviour replay / trace validation against the library",
    "text": "MC_Eval adds the Config life cycle: the kept source is evaluated again (heap ids keep growing) and earlier results are "
            "mutated. TLC checks that the working tree never changes once evaluation started (action property SourceStable), that "
            "re-evaluation gives equal data sharing no mutable object with earlier results, and Mirror (the result is the denotation "
            "of the merged tree). In the library: exact type of every value and key, Bunch + attribute identity, no node in the "
            "result, source projection unchanged after evaluation, re-evaluation and mutation of every container.",
    "note": _EVAL_NOTE}
META["C07"] = {"engine": "eval-family", "design_ref": "DESIGN.md 5/C07",
    "technique": "TLC model checking of AyBuild+AyEval (safety flags, gates) + behaviour replay / trace validation against the library",
    "text": "Provenance is made observable (every dynamic node and scalar of a history has its own name, tainted = source added with "
            "safe=False or below !unsafe). TLC checks on parse + merge + deepcopy + evaluation that whatever originates from tainted "
            "content is never 'safe' in the tree that is evaluated (flags do not launder taint), that no call ran on behalf of a "
            "tainted node or received a tainted value (also through references), and that a surviving tainted dynamic node fails the "
            "build with UnsafeError, for every history x every safe-flag assignment; behaviours replayed with recording targets, "
            "recorded random histories judged by TLC on the logged call log (names + received data). The evaluation caches are part "
            "of the model (a value evaluated earlier outside any safety requirement carries a taint and is refused while all nodes "
            "must be safe), so are names resolved by evaluated code (!eval <name>: never yields a tainted atom) and the import of "
            "target names. Mutations DefaultSafeOverwrite, NoArgGate, NoFnGate, NoTaint (F18), MergeLaundersUnsafe (F22) - the "
            "pre-fix codes - must be refuted.",
    "note": _EVAL_NOTE + "; of !eval / f-string code only the form `!eval <one top-level name>` is modelled here (attribute chains and other code: opaque gate; name resolution order is C12); include-by-unsafe-content is C06's file-system model"}
META["C01"] = {"engine": "builder-family", "design_ref": "DESIGN.md 5/C01",
    "technique": "TLC model checking of AyParse/AyBuild (single-stage) + behaviour replay / trace validation against the library, PyYAML as cross-check",
    "text": "AyParse specifies how a surface document becomes a node tree (tag -> explicit flags; top-down construction outside tags, "
            "bottom-up deep construction below a tag; adoption and flag propagation). TLC checks that the data of the parsed tree equals "
            "the tag-free reading Erase(doc) and that every container holds each child exactly once in order (FilledOnce), for every "
            "enumerated document x tag placement; mutation DeepWrapRefills (the pre-fix loader) and DropUnderscoreKeys must be refuted. "
            "Each document is rendered to YAML text, built and evaluated by the library; the evaluated config (exact types) is compared "
            "with TLC's expectation and with yaml.load of the tag-erased text; random deeper documents are validated by TLC.",
    "note": _BUILDER_NOTE + "; keys equal to attribute names of the node classes are excluded as the statement says; YAML anchors/aliases are not generated"}
NOT_APPLICABLE = {}


# ---------------------------------------------------------------------------
# stand-alone check modules: harness/cNN.py exposing PROP, run(prop, tier, seed, replay, keep), META and (optionally) ENGINE
import importlib
for _i in range(1, 21):
    _name = "c%02d" % _i
    if os.path.exists(os.path.join(HERE, _name + ".py")):
        try:
            _m = importlib.import_module(_name)
            _run, _meta, _prop = _m.run, _m.META, _m.PROP
        except Exception as _e:  # a module still under construction must not break the other checks
            sys.stderr.write(f"registry: skipping {_name}.py ({type(_e).__name__}: {_e})\n")
            continue
        CHECKS[_prop] = _run
        META[_prop] = _meta
        if getattr(_m, "ENGINE", None):
            ENGINES.append(_m.ENGINE)
