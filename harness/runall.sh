#!/bin/bash
# Maintenance helper (not a registered command): runs the given checks (default: all) on the clean tree, two at a time,
# one summary line each; logs in /verif/work/logs.  Usage: harness/runall.sh [--seed N] [--tier T] [Cxx ...]
cd "$(dirname "$0")/.." || exit 2
seed=0; tier=quick
while [ "${1#--}" != "$1" ]; do case "$1" in --seed) seed=$2; shift 2;; --tier) tier=$2; shift 2;; *) shift;; esac; done
checks="$*"; [ -z "$checks" ] && checks="C01 C02 C03 C04 C05 C06 C07 C08 C09 C10 C11 C12 C13 C14 C15 C16 C17 C18 C19 C20"
mkdir -p work/logs
run() { ./check "$1" --seed "$2" --tier "$3" > "work/logs/$1.$3.$2.log" 2>&1; echo "$1 seed=$2 exit=$? $(tail -1 "work/logs/$1.$3.$2.log" | cut -c1-300)"; }
export -f run
printf "%s\n" $checks | xargs -P 2 -I{} bash -c "run {} $seed $tier"
