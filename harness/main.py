"""./check <Cxx|setup|selftest> [--tier quick|thorough] [--seed N] [--replay PATH]"""
import argparse
import json
import os
import sys
import time
import traceback

HERE = os.path.dirname(os.path.abspath(__file__))
sys.path.insert(0, HERE)
VERIF = os.path.dirname(HERE)
os.environ.setdefault("PYTHONHASHSEED", "0")


def write_evidence(prop, tier, seed, level, coverage, wall, violations, assumptions):
    os.makedirs(os.path.join(VERIF, "evidence"), exist_ok=True)
    ev = {"property_id": prop, "tier": tier, "seed": int(seed), "level": level, "coverage": coverage,
          "assumptions": assumptions, "wall_s": round(wall, 2), "violations": int(violations)}
    with open(os.path.join(VERIF, "evidence", prop + ".json"), "w") as f:
        json.dump(ev, f, indent=1)


def known_findings():
    p = os.path.join(VERIF, "known_findings.json")
    if not os.path.exists(p):
        return []
    return json.load(open(p))["findings"]


def setup():
    import tlc
    ok = True
    for fn in sorted(os.listdir(tlc.SPEC)):
        if fn.endswith(".tla"):
            good, out = tlc.sany(fn[:-4])
            print(("ok   " if good else "FAIL ") + fn)
            if not good:
                print(out[-2000:])
                ok = False
    return 0 if ok else 2


def main():
    ap = argparse.ArgumentParser()
    ap.add_argument("what")
    ap.add_argument("--tier", default=os.environ.get("VERIF_TIER", "quick"))
    ap.add_argument("--seed", type=int, default=int(os.environ.get("VERIF_SEED", "0")))
    ap.add_argument("--replay", default=None)
    ap.add_argument("--keep", action="store_true")
    a = ap.parse_args()
    if a.what == "setup":
        sys.exit(setup())
    import registry
    if a.what == "selftest":
        import selftest
        sys.exit(selftest.main(a))
    if a.what not in registry.CHECKS:
        print("unknown check", a.what)
        sys.exit(2)
    t0 = time.time()
    # one consistent snapshot of the specification for the whole run (a check runs TLC many times)
    import shutil, tempfile
    import tlc
    snap = None
    try:
        os.makedirs(tlc.WORK, exist_ok=True)
        snap = tempfile.mkdtemp(prefix="spec_", dir=tlc.WORK)
        for fn in os.listdir(tlc.SPEC):
            if fn.endswith(".tla"):
                shutil.copy(os.path.join(tlc.SPEC, fn), os.path.join(snap, fn))
        tlc.SPEC = snap
        res = registry.CHECKS[a.what](a.what, a.tier, a.seed, a.replay, a.keep)
    except Exception as e:  # machinery failure: never a VIOLATION
        traceback.print_exc()
        print(f"MACHINERY-ERROR property={a.what} {type(e).__name__}: {str(e)[:500]}")
        sys.exit(2)
    finally:
        if snap:
            shutil.rmtree(snap, ignore_errors=True)
    wall = time.time() - t0
    for line in res.get("known_lines", []):
        print(line)
    for v in res["violations"]:
        print(f"VIOLATION property={a.what} replay={v}")
    if not a.replay:
        write_evidence(a.what, a.tier, a.seed, res["level"], res["coverage"], wall, len(res["violations"]), res["assumptions"])
    print(f"{a.what} tier={a.tier} seed={a.seed} wall={wall:.1f}s violations={len(res['violations'])} "
          f"known={len(res.get('known_lines', []))} drift={res.get('drift', 0)} "
          + " ".join(f"{k}={v}" for k, v in res.get("summary", {}).items()))
    sys.exit(1 if res["violations"] else 0)


if __name__ == "__main__":
    main()
