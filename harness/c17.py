"""C17 - node containers stay consistent under any sequence of API operations.

Specification: spec/AyContainer.tla (dual-view machine), spec/AyPath.tla (NodePath text form),
roots spec/MC_AyContainer.tla, spec/MC_AyPath.tla, spec/Trace_AyContainer.tla.

Direction A: every behaviour TLC enumerates (history variable of operations; one JSON line per behaviour) is
replayed into real ConfigList / ConfigDict objects; the projected heap (both views of every reachable
container, node identity preserved), the exception class and the EvalContext().evaluate(root) order are
compared with the state TLC printed, and the property is evaluated on the real objects.
Direction B: seeded random longer sequences on deeper trees are recorded from the real objects and validated
by TLC against the trace specification.
"""
import hashlib
import json
import os
import random
import sys
import time
from concurrent.futures import ThreadPoolExecutor

HERE = os.path.dirname(os.path.abspath(__file__))
sys.path.insert(0, HERE)
import tlc  # noqa: E402

REPO = os.environ.get("AY_REPO", "/repo")
if REPO not in sys.path:
    sys.path.insert(0, REPO)

PROP = "C17"
VERIF = os.path.dirname(HERE)
ROOT_ID = 3000
SWITCHES = ["InsertKeepsMapOrder", "PopNotOverridden", "UnderscoreBypass", "PopitemBroken", "RenameMapOnly"]
INVS = ["ViewsAgree", "AllNodes", "Numbered", "WalkLookup", "EvalAgree", "PathRoundTrip"]

FINDINGS = {
    "InsertKeepsMapOrder": ("C17-insert-order",
                            "ConfigList.insert() into a non-empty list leaves the child map in a different order than the "
                            "list (new index is added last): named_children / evaluation order diverge from list order"),
    "PopNotOverridden": ("C17-list-pop",
                         "ConfigList.pop() is the inherited list.pop: the list shrinks, the child map keeps the entry "
                         "(views disagree, walk vs lookup disagree)"),
    "UnderscoreBypass": ("C17-underscore-item",
                         "d['_x'] = v / del d['_x'] bypass the child map for '_'-prefixed names (value stored unwrapped, "
                         "not a node; deletion leaves the child behind)"),
    "PopitemBroken": ("C17-dict-popitem",
                      "ConfigDict.popitem() cannot be called (TypeError: signature popitem(k, d=None)); nothing is removed "
                      "(views stay consistent - functional defect outside the invariants)"),
    "RenameMapOnly": ("C17-rename-child",
                      "ayns.rename_child renames in the child map only: a mapping keeps the old key in its dict storage, "
                      "a list gets children that are not numbered 0..n-1"),
}

META = {
    "engine": "container-machine",
    "design_ref": "DESIGN.md 5/C17",
    "technique": "TLC model checking of the dual-view container machine (AyContainer) + behaviour replay into real "
                 "ConfigList/ConfigDict objects + TLC trace validation of recorded random operation sequences",
    "text": "A ConfigList/ConfigDict is modelled as a heap of nodes with two stores per container (the built-in list/dict and "
            "the ordered child map) and one action per public mutator written after the code (index normalisation, order of "
            "the two updates, what an exception leaves behind). TLC checks on every operation sequence up to the bound that the "
            "intended machine keeps ViewsAgree, AllNodes, Numbered, WalkLookup, EvalAgree and PathRoundTrip, that each deviation "
            "switch (the code as it is today) is refuted, prints every behaviour of the as-is machine and the harness replays "
            "each into the library comparing heap, exception class and evaluation order; recorded random sequences (length <= 12, "
            "nested targets) are judged by TLC with the property evaluated on the logged state. NodePath join/split is a "
            "character-level model of the regular expression, enumerated over all short texts.",
    "note": "values are fresh plain data (int, [int], {a: int}); no aliasing (a node stored twice) and no list.extend(self) "
            "(it does not terminate in the library); sort/reverse/+=/slices are not in the statement and are not driven; "
            "path names are words over [a-zA-Z0-9_]",
}
ENGINE = {"name": "container-machine", "path": "harness/c17.py", "serves_properties": ["C17"],
          "kind_free_text": "TLC explicit-state model checking of spec/AyContainer.tla + AyPath.tla, behaviour replay (spec->code) "
                            "and trace validation (code->spec) against awesomeyaml.nodes.{list,dict,composed,node_path}"}

ASSUMPTIONS = [
    "TLC results hold for the stated bounds (sequence length, index range -4..4, names a b c _x, start trees listed in MC_AyContainer)",
    "CPython list / dict semantics are trusted (the built-in view is read with list(node) / node.items())",
    "values handed to operations are fresh plain data; aliasing the same node into two places is outside the checked domain",
    "node identity is tracked by unique integer payloads (scalar id = payload, container id = 1000 + payload it was created with)",
]


# --------------------------------------------------------------------------------------------------
# the library side: driver, projection, the property evaluated on real objects
# --------------------------------------------------------------------------------------------------
_LIB = {}


def lib():
    if not _LIB:
        from awesomeyaml.nodes.node import ConfigNode
        from awesomeyaml.nodes.composed import ComposedNode
        from awesomeyaml.nodes.node_path import NodePath
        from awesomeyaml.eval_context import EvalContext
        _LIB.update(ConfigNode=ConfigNode, ComposedNode=ComposedNode, NodePath=NodePath, EvalContext=EvalContext)
    return _LIB


class Reg:
    """real object -> model id"""

    def __init__(self):
        self.lab = {}
        self.keep = []
        self.unknown = 0

    def put(self, obj, label):
        self.lab[id(obj)] = label
        self.keep.append(obj)

    def label(self, obj):
        L = lib()
        got = self.lab.get(id(obj))
        if got is not None:
            return got
        if isinstance(obj, L["ConfigNode"]):
            if isinstance(obj, L["ComposedNode"]):
                n = _birth(obj)
                if n is None:
                    self.unknown += 1
                    lab = -self.unknown
                else:
                    lab = 1000 + n
            else:
                try:
                    lab = int(obj)
                except Exception:
                    self.unknown += 1
                    lab = -self.unknown
            self.put(obj, lab)
            return lab
        n = _raw_payload(obj)
        return 2000 + n if n is not None else -999


def _birth(c):
    try:
        if isinstance(c, list):
            items = list(c)
            return int(items[0]) if len(items) == 1 else None
        items = list(c.items())
        return int(items[0][1]) if len(items) == 1 and items[0][0] == "a" else None
    except Exception:
        return None


def _raw_payload(v):
    try:
        if isinstance(v, bool):
            return None
        if isinstance(v, int):
            return int(v)
        if isinstance(v, list) and len(v) == 1:
            return int(v[0])
        if isinstance(v, dict) and list(v.keys()) == ["a"]:
            return int(v["a"])
    except Exception:
        pass
    return None


def literal(heap, nid):
    """model heap {id: [kind, py, cm]} -> plain python data (built-in view)"""
    ent = heap.get(nid)
    if ent is None:
        return nid
    if ent[0] == "l":
        return [literal(heap, x) for x in ent[1]]
    if ent[0] == "d":
        return {k: literal(heap, x) for k, x in ent[1]}
    raise ValueError("raw value in a start tree")


def register_start(reg, heap, nid, obj):
    reg.put(obj, nid)
    ent = heap.get(nid)
    if ent is None:
        return
    if ent[0] == "l":
        for x, o in zip(ent[1], list(obj)):
            register_start(reg, heap, x, o)
    else:
        items = dict(obj.items())
        for k, x in ent[1]:
            register_start(reg, heap, x, items[k])


def heap_of(s):
    return {e[0]: [e[1], e[2], e[3]] for e in s}


def make_start(s):
    L = lib()
    heap = heap_of(s)
    root = L["ConfigNode"](literal(heap, ROOT_ID))
    reg = Reg()
    register_start(reg, heap, ROOT_ID, root)
    return root, reg


def pyval(v):
    t, n = v[0], v[1]
    return n if t == "S" else [n] if t == "L" else {"a": n}


def keep_scalar(c, v):
    """AyContainer!KeepS"""
    return v % 2 == 0 if c == 0 else v % 2 == 1 if c == 1 else False if c == 2 else v >= 10


def filter_condition(c):
    Composed = lib()["ComposedNode"]

    def cond(path, node):
        return (not isinstance(node, Composed)) and keep_scalar(c, int(node))
    return cond


def apply_op(root, op):
    """op = [name, target path, i, i2, key, key2, flag, vals]; returns the exception class name or ''"""
    name, tp, i, i2, key, key2, flag, vals = op[:8]
    try:
        tgt = root if not tp else root.ayns.get_node(list(tp))
        if name == "l.setitem":
            tgt[i] = pyval(vals[0])
        elif name == "l.delitem":
            del tgt[i]
        elif name == "l.append":
            tgt.append(pyval(vals[0]))
        elif name == "l.insert":
            tgt.insert(i, pyval(vals[0]))
        elif name == "l.extend":
            tgt.extend([pyval(v) for v in vals])
        elif name == "l.remove":
            tgt.remove(pyval(vals[0]))
        elif name == "l.pop":
            if flag:
                tgt.pop(i)
            else:
                tgt.pop()
        elif name in ("l.clear", "d.clear"):
            tgt.clear()
        elif name == "l.set_child":
            tgt.ayns.set_child(i, pyval(vals[0]))
        elif name == "l.remove_child":
            tgt.ayns.remove_child(i)
        elif name == "l.rename_child":
            tgt.ayns.rename_child(i, i2)
        elif name == "d.setitem":
            tgt[key] = pyval(vals[0])
        elif name == "d.setattr":
            setattr(tgt, key, pyval(vals[0]))
        elif name == "d.delitem":
            del tgt[key]
        elif name == "d.delattr":
            delattr(tgt, key)
        elif name == "d.update":
            if flag:
                tgt.update([(v[2], pyval(v)) for v in vals])
            else:
                tgt.update({v[2]: pyval(v) for v in vals})
        elif name == "d.setdefault":
            tgt.setdefault(key, pyval(vals[0]))
        elif name == "d.pop":
            if flag:
                tgt.pop(key, None)
            else:
                tgt.pop(key)
        elif name == "d.popitem":
            tgt.popitem()
        elif name == "d.set_child":
            tgt.ayns.set_child(key, pyval(vals[0]))
        elif name == "d.remove_child":
            tgt.ayns.remove_child(key)
        elif name == "d.rename_child":
            tgt.ayns.rename_child(key, key2)
        elif name in ("l.remove_node", "d.remove_node"):      # through the root: path of the container + one name
            root.ayns.remove_node(list(tp) + [i if name[0] == "l" else key])
        elif name in ("l.filter", "d.filter"):
            tgt.ayns.filter_nodes(filter_condition(i))
        else:
            raise RuntimeError("unknown operation " + name)
    except RuntimeError:
        raise
    except Exception as e:  # the operation raised: the state it leaves behind is still compared
        return type(e).__name__
    return ""


def views(obj):
    """(kind, built-in view, child-map view) of a container"""
    if isinstance(obj, list):
        return "l", list(obj), list(obj.ayns.named_children())
    return "d", list(obj.items()), list(obj.ayns.named_children())


def reachable(root):
    L = lib()
    seen, order, stack = set(), [], [root]
    while stack:
        o = stack.pop()
        if id(o) in seen:
            continue
        seen.add(id(o))
        order.append(o)
        if isinstance(o, L["ComposedNode"]):
            k, py, cm = views(o)
            kids = (py if k == "l" else [v for _, v in py]) + [v for _, v in cm]
            stack.extend(kids)
    return order


def scan(root, reg):
    """gives every node that is new since the last call its identity (a container is recognised by the payload it was
    created around, so this runs after every operation, before a later one can change the container)"""
    L = lib()
    for o in reachable(root):
        if isinstance(o, L["ConfigNode"]):
            reg.label(o)


def project(root, reg):
    """[[id, kind, py, cm] ..] sorted by id, the shape of AyContainer!HeapSeq"""
    L = lib()
    out = {}
    for o in reachable(root):
        if isinstance(o, L["ComposedNode"]):
            k, py, cm = views(o)
            lab = reg.label(o)
            if k == "l":
                out[lab] = [lab, "l", [reg.label(x) for x in py], [[n, reg.label(x)] for n, x in cm]]
            else:
                out[lab] = [lab, "d", [[n, reg.label(x)] for n, x in py], [[n, reg.label(x)] for n, x in cm]]
        elif not isinstance(o, L["ConfigNode"]):
            lab = reg.label(o)
            out[lab] = [lab, "raw", ["L" if isinstance(o, list) else "D" if isinstance(o, dict) else "S"], []]
    return [out[k] for k in sorted(out)]


def tokens_eval(v):
    if isinstance(v, dict):
        out = ["{"]
        for k, x in v.items():
            out.append(str(k))
            out.extend(tokens_eval(x))
        return out + ["}"]
    if isinstance(v, (list, tuple)):
        out = ["["]
        for x in v:
            out.extend(tokens_eval(x))
        return out + ["]"]
    return [str(v)]


def tokens_py(obj):
    L = lib()
    if isinstance(obj, L["ComposedNode"]):
        k, py, _ = views(obj)
        if k == "l":
            out = ["["]
            for x in py:
                out.extend(tokens_py(x))
            return out + ["]"]
        out = ["{"]
        for n, x in py:
            out.append(str(n))
            out.extend(tokens_py(x))
        return out + ["}"]
    if isinstance(obj, L["ConfigNode"]):
        return [str(int(obj))]
    n = _raw_payload(obj)
    return ["!", str(n)]


def tokens_model(heap, nid, view="cm"):
    ent = heap.get(nid)
    if ent is None:
        return [str(nid)]
    if ent[0] == "raw":
        return ["!", str(nid - 2000)]
    m = ent[2] if view == "cm" else ent[1]
    if ent[0] == "l":
        out = ["["]
        for x in m:
            out.extend(tokens_model(heap, x[1] if view == "cm" else x, view))
        return out + ["]"]
    out = ["{"]
    for n, x in m:
        out.append(n)
        out.extend(tokens_model(heap, x, view))
    return out + ["}"]


def real_eval(root):
    L = lib()
    try:
        return tokens_eval(L["EvalContext"]().evaluate(root))
    except Exception:
        return ["err"]


def real_broken(root, evtok=None):
    """the property on the real objects (identity based), independent of the projection"""
    L = lib()
    bad = set()
    for o in reachable(root):
        if not isinstance(o, L["ConfigNode"]):
            bad.add("AllNodes")
            continue
        if not isinstance(o, L["ComposedNode"]):
            continue
        k, py, cm = views(o)
        if k == "l":
            if len(py) != len(cm) or any(a is not b for a, (_, b) in zip(py, cm)):
                bad.add("ViewsAgree")
            names = [n for n, _ in cm]
            if any(not isinstance(n, int) or isinstance(n, bool) for n in names) or sorted(names) != list(range(len(cm))):
                bad.add("Numbered")
        else:
            if len(py) != len(cm) or any(n1 != n2 or a is not b for (n1, a), (n2, b) in zip(py, cm)):
                bad.add("ViewsAgree")
    try:
        walked = list(root.ayns.nodes_with_paths())
    except Exception:
        walked = []
        bad.add("WalkLookup")
    for p, n in walked:
        try:
            if root.ayns.get_node(p) is not n:
                bad.add("WalkLookup")
        except Exception:
            bad.add("WalkLookup")
        try:
            back = L["NodePath"].get_list_path(str(p))
            if list(back) != list(p) or [type(x) for x in back] != [type(x) for x in p]:
                bad.add("PathRoundTrip")
        except Exception:
            bad.add("PathRoundTrip")
    if evtok is None:
        evtok = real_eval(root)
    if evtok != tokens_py(root):
        bad.add("EvalAgree")
    return bad


# --------------------------------------------------------------------------------------------------
# direction A: replay of TLC behaviours
# --------------------------------------------------------------------------------------------------
def judge_line(j, starts):
    """replays one behaviour; returns (status, info).  status: ok | known | drift | viol"""
    ops = j["ops"]
    root, reg = make_start(starts[j["st"]])
    exc = ""
    for op in ops:
        exc = apply_op(root, op)
        scan(root, reg)
    proj = project(root, reg)
    evtok = real_eval(root)
    rbad = real_broken(root, evtok)
    mheap = heap_of(j["s"])
    mev = ["err"] if j["ee"] else tokens_model(mheap, ROOT_ID)
    match = proj == j["s"]
    evm = evtok == mev
    errm = j["e"] == "?" or not ops or exc == j["e"]
    if rbad:
        # explained: the state is the one the as-is machine predicts and everything broken on the real objects is broken in
        # the prediction (an evaluation result that differs on an already inconsistent state is only drift)
        if match and rbad <= set(j["bad"]):
            return "known", {"fired": j["f"], "bad": sorted(rbad), "evdrift": not evm}
        return "viol", {"observed": proj, "observed_exc": exc, "observed_eval": evtok, "broken": sorted(rbad),
                        "expected": j["s"], "expected_exc": j["e"], "expected_eval": mev, "expected_broken": j["bad"],
                        "fired": j["f"]}
    if match and evm and errm and not j["bad"]:
        return "ok", None
    return "drift", {"observed": proj, "observed_exc": exc, "observed_eval": evtok, "expected": j["s"],
                     "expected_exc": j["e"], "expected_eval": mev, "expected_broken": j["bad"]}


_W = {}


def _replay_chunk(args):
    lines, starts = args
    res = {"n": 0, "ok": 0, "known": 0, "drift": 0, "viol": 0, "nontrivial": 0, "bad": [], "knownf": {}, "steps": 0, "sample": None,
           "popitem_agree": 0, "evdrift": 0}
    for ln in lines:
        j = json.loads(ln)
        res["n"] += 1
        res["steps"] += len(j["ops"])
        status, info = judge_line(j, starts)
        res[status] += 1
        if j["ops"] and j["e"] == "":
            res["nontrivial"] += 1
        if j["ops"] and j["ops"][-1][0] == "d.popitem" and j["e"] == "TypeError" and status in ("ok", "known"):
            res["popitem_agree"] += 1
        if status == "known":
            if info["evdrift"]:
                res["evdrift"] += 1
            for f in info["fired"]:
                slot = res["knownf"].setdefault(f, [0, None])
                slot[0] += 1
                if slot[1] is None or len(j["ops"]) < len(slot[1]["ops"]):
                    slot[1] = {"st": j["st"], "ops": j["ops"], "broken": info["bad"]}
        elif status in ("viol", "drift"):
            res["bad"].append((status, j["st"], j["ops"], info))
        if res["sample"] is None and len(j["ops"]) >= 2 and j["e"] == "" and status == "ok":
            res["sample"] = {"start": starts[j["st"]], "ops": j["ops"], "state_after": j["s"]}
    return res


def emit_lines(out):
    """the JSON payloads of PrintT(ToJson(..)) lines, still as text (parsed in the workers)"""
    res = []
    for line in out.splitlines():
        line = line.strip()
        if len(line) > 2 and line[0] == '"' and line[-1] == '"' and line.startswith('"{'):
            try:
                res.append(json.loads(line))
            except Exception:
                continue
    return res


def replay_start(lines, pool):
    """lines: JSON texts of behaviours.  Start trees come from the lines with an empty history."""
    starts = {}
    for ln in lines:
        if '"ops":[]' in ln:
            j = json.loads(ln)
            starts[j["st"]] = j["s"]
    n = len(lines)
    chunk = max(200, min(3000, n // 64 + 1))
    return starts, pool.map_async(_replay_chunk, [(lines[i:i + chunk], starts) for i in range(0, n, chunk)])


def replay_finish(started, timeout):
    starts, res = started
    agg = {"n": 0, "ok": 0, "known": 0, "drift": 0, "viol": 0, "nontrivial": 0, "bad": [], "knownf": {}, "steps": 0, "samples": [],
           "popitem_agree": 0, "evdrift": 0}
    for r in res.get(timeout=timeout):
        for k in ("n", "ok", "known", "drift", "viol", "nontrivial", "steps", "popitem_agree", "evdrift"):
            agg[k] += r[k]
        agg["bad"].extend(r["bad"])
        for f, (cnt, wit) in r["knownf"].items():
            slot = agg["knownf"].setdefault(f, [0, None])
            slot[0] += cnt
            if wit and (slot[1] is None or len(wit["ops"]) < len(slot[1]["ops"])):
                slot[1] = wit
        if r["sample"] and len(agg["samples"]) < 3:
            agg["samples"].append(r["sample"])
    agg["starts"] = starts
    return agg


def minimal_bad(bad):
    """keeps the failing histories none of whose proper prefixes failed (a later state is not judged after a disagreement)"""
    keyset = {(st, json.dumps(ops)) for _, st, ops, _ in bad}
    out = []
    for status, st, ops, info in bad:
        if any((st, json.dumps(ops[:k])) in keyset for k in range(0, len(ops))):
            continue
        out.append((status, st, ops, info))
    return out


# --------------------------------------------------------------------------------------------------
# cfgs
# --------------------------------------------------------------------------------------------------
def cfg_container(sw, idx, ren, keys, newkeys, kinds, ops, starts, tgt, maxlen, upd, invariants, emit, sim=False):
    lines = ["SPECIFICATION Spec", "CONSTANTS"]
    for s in SWITCHES:
        lines.append(f"  {s} = {'TRUE' if s in sw else 'FALSE'}")
    lines += [f"  Idx <- {idx}", f"  RenPairs <- {ren}",
              "  Keys = {" + ", ".join('"%s"' % k for k in keys) + "}",
              "  NewKeys = {" + ", ".join('"%s"' % k for k in newkeys) + "}",
              "  ValKinds = {" + ", ".join('"%s"' % k for k in kinds) + "}",
              f"  OpsOn <- {ops}",
              "  StartIds = {" + ", ".join(str(x) for x in starts) + "}",
              f'  Tgt = "{tgt}"', f"  MaxLen = {maxlen}", f"  UpdShapes <- {upd}", f"  Sim = {'TRUE' if sim else 'FALSE'}"]
    for i in invariants:
        lines.append(f"INVARIANT {i}")
    if emit:
        lines.append("INVARIANT Emit")
    lines.append("CHECK_DEADLOCK FALSE")
    return "\n".join(lines) + "\n"


PROP_INVS = ["Inv_" + x for x in INVS] + ["Inv_NoDeviation"]


def active_switches():
    """the deviation switches that describe the library as it is: all of them, minus those whose finding is recorded as
    fixed in known_findings.json (entry with "deviation": <switch>, "kind": "fixed"), minus C17_SWITCHES_OFF=a,b (used to
    try a proposed fix in a scratch worktree)"""
    on = list(SWITCHES)
    try:
        for f in json.load(open(os.path.join(VERIF, "known_findings.json")))["findings"]:
            devs = f.get("deviation") or ""
            for d in [x.strip() for x in devs.replace(";", ",").split(",")]:
                if d in on and f.get("kind") == "fixed":
                    on.remove(d)
    except Exception:
        pass
    for d in os.environ.get("C17_SWITCHES_OFF", "").split(","):
        if d.strip() in on:
            on.remove(d.strip())
    return on


def universes(tier):
    """(name, kwargs) - the operation alphabets TLC enumerates completely"""
    K4 = ["a", "b", "c", "_x"]
    U = []
    if tier == "quick":
        U.append(("list-L3-edge", dict(idx="IdxEdge", ren="RenTwo", keys=K4, newkeys=["z"], kinds=["S"], ops="ListOpsCore",
                                       starts=[1], tgt="root", maxlen=3, upd="UpdOne")))
        U.append(("dict-L3", dict(idx="IdxEdge", ren="RenEdge", keys=K4, newkeys=["z", "update"], kinds=["S"], ops="DictOpsCore",
                                  starts=[3], tgt="root", maxlen=3, upd="UpdOne")))
        U.append(("list-L2-full", dict(idx="IdxFull", ren="RenNine", keys=K4, newkeys=["z"], kinds=["S", "L"], ops="ListOps",
                                       starts=[1, 2], tgt="root", maxlen=2, upd="UpdOne")))
        U.append(("dict-L2-full", dict(idx="IdxEdge", ren="RenEdge", keys=K4, newkeys=["a", "z", "clear"], kinds=["S", "D"], ops="DictOps",
                                       starts=[3, 4], tgt="root", maxlen=2, upd="UpdFull")))
        U.append(("nested-L2", dict(idx="IdxSmall", ren="RenTwo", keys=["a", "c", "_x"], newkeys=["z"], kinds=["S"], ops="AllOps",
                                    starts=[5, 6], tgt="kids", maxlen=2, upd="UpdOne")))
    else:
        U.append(("list-L3-full", dict(idx="IdxFull", ren="RenEdge", keys=K4, newkeys=["z"], kinds=["S"], ops="ListOps",
                                       starts=[1], tgt="root", maxlen=3, upd="UpdOne")))
        U.append(("list-L4-edge", dict(idx="IdxEdge4", ren="RenEdge2", keys=K4, newkeys=["z"], kinds=["S"], ops="ListOpsL4",
                                       starts=[7], tgt="root", maxlen=4, upd="UpdOne")))
        U.append(("dict-L4", dict(idx="IdxEdge", ren="RenEdge", keys=["a", "b", "_x"], newkeys=["z"], kinds=["S"], ops="DictOpsL4",
                                  starts=[8], tgt="root", maxlen=4, upd="UpdOne")))
        U.append(("dict-L3-full", dict(idx="IdxEdge", ren="RenEdge", keys=K4, newkeys=["a", "z", "clear"], kinds=["S"], ops="DictOps",
                                       starts=[3], tgt="root", maxlen=3, upd="UpdFull")))
        U.append(("nested-L3", dict(idx="IdxNest", ren="RenTwo", keys=["a", "_x"], newkeys=["z"], kinds=["S"], ops="AllOps",
                                    starts=[5, 6], tgt="kids", maxlen=3, upd="UpdOne")))
        U.append(("list-L2-full", dict(idx="IdxFull", ren="RenFull", keys=K4, newkeys=["z"], kinds=["S", "L"], ops="ListOps",
                                       starts=[1, 2], tgt="root", maxlen=2, upd="UpdOne")))
        U.append(("dict-L2-full", dict(idx="IdxEdge", ren="RenEdge", keys=K4 + ["clear"], newkeys=["a", "z", "clear"], kinds=["S", "D"], ops="DictOps",
                                       starts=[3, 4], tgt="root", maxlen=2, upd="UpdFull")))
        U.append(("dict-shadow-L2", dict(idx="IdxEdge", ren="RenEdge", keys=["a", "_x", "clear"], newkeys=["z"], kinds=["S"], ops="DictOps",
                                         starts=[3, 4], tgt="root", maxlen=2, upd="UpdShadow")))
        U.append(("nested-both-L2", dict(idx="IdxSmall", ren="RenTwo", keys=["a", "c", "_x"], newkeys=["z"], kinds=["S"], ops="AllOps",
                                         starts=[5, 6], tgt="both", maxlen=2, upd="UpdOne")))
    return U


MUTATIONS = [  # (switch, invariants it must break, universe)
    ("InsertKeepsMapOrder", ["Inv_ViewsAgree", "Inv_EvalAgree"],
     dict(idx="IdxEdge", ren="RenEdge", keys=["a"], newkeys=["z"], kinds=["S"], ops="ListOps", starts=[1], tgt="root", maxlen=2, upd="UpdOne")),
    ("PopNotOverridden", ["Inv_ViewsAgree", "Inv_WalkLookup"],
     dict(idx="IdxEdge", ren="RenEdge", keys=["a"], newkeys=["z"], kinds=["S"], ops="ListOps", starts=[1], tgt="root", maxlen=2, upd="UpdOne")),
    ("UnderscoreBypass", ["Inv_AllNodes", "Inv_ViewsAgree"],
     dict(idx="IdxEdge", ren="RenEdge", keys=["a", "_x"], newkeys=["z"], kinds=["S"], ops="DictOps", starts=[3], tgt="root", maxlen=2, upd="UpdOne")),
    ("RenameMapOnly", ["Inv_ViewsAgree", "Inv_Numbered"],
     dict(idx="IdxEdge", ren="RenEdge", keys=["a", "b"], newkeys=["z"], kinds=["S"], ops="AllOps", starts=[1, 3], tgt="root", maxlen=1, upd="UpdOne")),
    ("PopitemBroken", ["Inv_PopitemWorks"],
     dict(idx="IdxEdge", ren="RenEdge", keys=["a"], newkeys=["z"], kinds=["S"], ops="DictOps", starts=[3], tgt="root", maxlen=1, upd="UpdOne")),
]


def cfg_path(mutation, maxcomps, maxtext, emit):
    return ("SPECIFICATION Spec\nCONSTANTS\n  PathMutation = \"%s\"\n  MaxComps = %d\n  MaxText = %d\n"
            "INVARIANT Inv_RoundTrip\nINVARIANT Inv_SplitStable\n%sCHECK_DEADLOCK FALSE\n"
            % (mutation, maxcomps, maxtext, "INVARIANT Emit\n" if emit else ""))


# --------------------------------------------------------------------------------------------------
# NodePath replay (direction A for the text form)
# --------------------------------------------------------------------------------------------------
def _comp(c):
    return c[1] if c[0] == "i" else "".join(c[1])


def judge_path(j):
    NodePath = lib()["NodePath"]
    text = "".join(j["x"])
    if j["kind"] == "path":
        p = [_comp(c) for c in j["p"]]
        got = NodePath.join_path(p)
        if got != text:
            return {"what": "join", "path": p, "expected_text": text, "observed_text": got}
        try:
            back = list(NodePath.get_list_path(NodePath.get_str_path(p)))
        except Exception as e:
            back = type(e).__name__
        if back != p or [type(x) for x in back] != [type(x) for x in p]:
            return {"what": "roundtrip", "path": p, "text": text, "observed_back": back}
    try:
        got = list(NodePath.split_path(text))
        ok = True
    except ValueError:
        got, ok = [], False
    exp = [_comp(c) for c in j["r"]]
    if ok != j["ok"] or got != exp or [type(x) for x in got] != [type(x) for x in exp]:
        return {"what": "split", "text": text, "expected_ok": j["ok"], "expected": exp, "observed_ok": ok, "observed": got}
    return None


def _path_chunk(lines):
    bad = []
    for ln in lines:
        j = json.loads(ln)
        r = judge_path(j)
        if r:
            r["kind"] = j["kind"]
            r["case"] = j
            bad.append(r)
    return len(lines), bad


# --------------------------------------------------------------------------------------------------
# direction B: recording random operation sequences from the real objects
# --------------------------------------------------------------------------------------------------
B_KEYS = ["a", "b", "c", "z", "_x", "_y"]


def gen_start(rng):
    """random nested start tree as a model heap; payloads 1.., containers 3000.."""
    cnt = {"p": 0, "c": ROOT_ID}
    s = []

    def scalar():
        cnt["p"] += 1
        return cnt["p"]

    def cont(depth, nid):
        kind = rng.choice("ld")
        width = rng.randint(0, 3) if depth > 0 else rng.randint(1, 3)
        kids = []
        for _ in range(width):
            if depth < 2 and rng.random() < 0.45 and cnt["p"] < 8:
                cnt["c"] += 1
                cid = cnt["c"]
                cont(depth + 1, cid)
                kids.append(cid)
            elif cnt["p"] < 9:
                kids.append(scalar())
        if kind == "l":
            s.append([nid, "l", kids, [[i, x] for i, x in enumerate(kids)]])
        else:
            names = rng.sample(["a", "b", "c", "_x"], len(kids))
            pairs = [[n, x] for n, x in zip(names, kids)]
            s.append([nid, "d", pairs, [list(p) for p in pairs]])

    cont(0, ROOT_ID)
    return sorted(s)


def gen_op(rng, root, fresh):
    L = lib()
    cands = [[]]
    for p, n in root.ayns.nodes_with_paths():
        if len(p) <= 3:
            try:
                got = root.ayns.get_node(list(p))
            except Exception:
                continue
            if isinstance(got, L["ComposedNode"]):
                cands.append(list(p))
    tp = rng.choice(cands)
    tgt = root if not tp else root.ayns.get_node(list(tp))

    def val(k=""):
        fresh[0] += 1
        return [rng.choice("SLD"), fresh[0], k]

    i, i2 = rng.randint(-6, 6), rng.randint(0, 6)
    if isinstance(tgt, list):
        name = rng.choice(["l.setitem", "l.delitem", "l.append", "l.insert", "l.insert", "l.extend", "l.remove", "l.pop",
                           "l.clear", "l.set_child", "l.remove_child", "l.rename_child", "l.append", "l.delitem", "l.remove_node", "l.filter"])
        vals, flag = [], False
        if name in ("l.setitem", "l.append", "l.insert", "l.set_child"):
            vals = [val()]
        elif name == "l.extend":
            vals = [val() for _ in range(rng.randint(0, 3))]
        elif name == "l.remove":
            items = list(tgt)
            spec = None
            if items and rng.random() < 0.8:
                x = rng.choice(items)
                if isinstance(x, L["ComposedNode"]):
                    n = _birth(x)
                    if n is not None:
                        spec = ["L" if isinstance(x, list) else "D", n, ""]
                elif isinstance(x, L["ConfigNode"]):
                    spec = ["S", int(x), ""]
            vals = [spec or ["S", 0, ""]]
        elif name == "l.pop":
            flag = rng.random() < 0.6
        elif name == "l.rename_child":
            i = rng.randint(0, 4)
        elif name == "l.filter":
            i = rng.randint(0, 3)
            if i == 2 and rng.random() < 0.6:
                i = 3
        if name == "l.clear" and rng.random() < 0.6:
            name, vals = "l.append", [val()]
        return [name, tp, i, i2, "", "", flag, vals]
    name = rng.choice(["d.setitem", "d.setattr", "d.delitem", "d.delattr", "d.update", "d.setdefault", "d.pop", "d.popitem",
                       "d.clear", "d.set_child", "d.remove_child", "d.rename_child", "d.setitem", "d.delitem", "d.remove_node", "d.filter"])
    key, key2 = rng.choice(B_KEYS), rng.choice(["a", "b", "z", "_y", "clear", "update"])
    vals, flag = [], False
    setters = ("d.setitem", "d.setattr", "d.setdefault", "d.set_child")
    if name in setters:
        if rng.random() < 0.06:
            key = "clear"
        vals = [val()]
    elif name == "d.update":
        names = rng.sample(B_KEYS + (["clear"] if rng.random() < 0.1 else []), rng.randint(0, 3))
        vals = [val(k) for k in names]
        flag = rng.random() < 0.5
    elif name == "d.pop":
        flag = rng.random() < 0.5
    if name == "d.clear" and rng.random() < 0.6:
        name, vals = "d.set_child", [val()]
    if name == "d.filter":
        c = rng.randint(0, 3)
        return [name, tp, 3 if c == 2 and rng.random() < 0.6 else c, 0, key, key2, flag, vals]
    return [name, tp, 0, 0, key, key2, flag, vals]


def op_record(op):
    return {"op": op[0], "t": op[1], "tk": ["l" if isinstance(c, int) else "d" for c in op[1]], "i": op[2], "i2": op[3], "key": op[4], "key2": op[5], "flag": op[6],
            "vals": [{"t": v[0], "n": v[1], "k": v[2]} for v in op[7]]}


def _chars(text):
    return list(text)


def _pcomps(p):
    return [{"t": "i", "i": int(c), "s": []} if isinstance(c, int) else {"t": "s", "i": 0, "s": list(c)} for c in p]


def record_trace(tid, seed, maxlen):
    L = lib()
    rng = random.Random(seed)
    start = gen_start(rng)
    root, reg = make_start(start)
    fresh = [9]
    ev = []
    for _ in range(rng.randint(3, maxlen)):
        op = gen_op(rng, root, fresh)
        exc = apply_op(root, op)
        evtok = real_eval(root)
        ev.append({"op": op_record(op), "s": project(root, reg), "e": exc, "ev": evtok,
                   "rb": sorted(real_broken(root, evtok))})
    paths = []
    try:
        for p, _ in root.ayns.nodes_with_paths():
            text = str(p)
            try:
                back = list(L["NodePath"].get_list_path(text))
            except Exception:
                back = []
            paths.append({"c": _pcomps(list(p)), "x": _chars(text), "b": _pcomps(back)})
    except Exception:
        pass
    return {"tid": tid, "seed": seed, "root": ROOT_ID, "start": start, "ev": ev, "paths": paths}


def _record_chunk(args):
    tids, base, maxlen = args
    return [json.dumps(record_trace(t, base * 1000003 + t, maxlen)) for t in tids]


def cfg_trace(on=None):
    on = SWITCHES if on is None else on
    lines = ["INIT TInit", "NEXT TNext", "CONSTANTS"] + [f"  {s} = {'TRUE' if s in on else 'FALSE'}" for s in SWITCHES]
    lines += ["INVARIANT Report", "CHECK_DEADLOCK FALSE"]
    return "\n".join(lines) + "\n"


# --------------------------------------------------------------------------------------------------
# replay files
# --------------------------------------------------------------------------------------------------
def write_replay(kind, payload):
    d = os.path.join(VERIF, "replays", PROP)
    os.makedirs(d, exist_ok=True)
    body = {"property": PROP, "kind": kind}
    body.update(payload)
    text = json.dumps(body, indent=1, sort_keys=True)
    sha = hashlib.sha256(json.dumps({k: body[k] for k in body if k in ("kind", "start", "ops", "text", "path")},
                                    sort_keys=True).encode()).hexdigest()[:16]
    path = os.path.join(d, sha + ".json")
    with open(path, "w") as f:
        f.write(text)
    return path


def describe(start, ops):
    heap = heap_of(start)
    txt = [f"x = ConfigNode({literal(heap, ROOT_ID)!r})"]
    for name, tp, i, i2, key, key2, flag, vals in [o[:8] for o in ops]:
        tgt = "x" if not tp else f"x.ayns.get_node({list(tp)!r})"
        v = [pyval(z) for z in vals]
        call = {"l.setitem": lambda: f"{tgt}[{i}] = {v[0]!r}", "l.delitem": lambda: f"del {tgt}[{i}]",
                "l.append": lambda: f"{tgt}.append({v[0]!r})", "l.insert": lambda: f"{tgt}.insert({i}, {v[0]!r})",
                "l.extend": lambda: f"{tgt}.extend({v!r})", "l.remove": lambda: f"{tgt}.remove({v[0]!r})",
                "l.pop": lambda: f"{tgt}.pop({i if flag else ''})", "l.clear": lambda: f"{tgt}.clear()",
                "l.set_child": lambda: f"{tgt}.ayns.set_child({i}, {v[0]!r})",
                "l.remove_child": lambda: f"{tgt}.ayns.remove_child({i})",
                "l.rename_child": lambda: f"{tgt}.ayns.rename_child({i}, {i2})",
                "d.setitem": lambda: f"{tgt}[{key!r}] = {v[0]!r}", "d.setattr": lambda: f"{tgt}.{key} = {v[0]!r}",
                "d.delitem": lambda: f"del {tgt}[{key!r}]", "d.delattr": lambda: f"del {tgt}.{key}",
                "d.update": lambda: f"{tgt}.update({[(z[2], pyval(z)) for z in vals] if flag else {z[2]: pyval(z) for z in vals}!r})",
                "d.setdefault": lambda: f"{tgt}.setdefault({key!r}, {v[0]!r})",
                "d.pop": lambda: f"{tgt}.pop({key!r}{', None' if flag else ''})", "d.popitem": lambda: f"{tgt}.popitem()",
                "d.clear": lambda: f"{tgt}.clear()", "d.set_child": lambda: f"{tgt}.ayns.set_child({key!r}, {v[0]!r})",
                "d.remove_child": lambda: f"{tgt}.ayns.remove_child({key!r})",
                "d.rename_child": lambda: f"{tgt}.ayns.rename_child({key!r}, {key2!r})",
                "l.remove_node": lambda: f"x.ayns.remove_node({list(tp) + [i]!r})",
                "d.remove_node": lambda: f"x.ayns.remove_node({list(tp) + [key]!r})",
                "l.filter": lambda: f"{tgt}.ayns.filter_nodes(<keep scalars: {['even', 'odd', 'none', '>= 10'][i]}>)",
                "d.filter": lambda: f"{tgt}.ayns.filter_nodes(<keep scalars: {['even', 'odd', 'none', '>= 10'][i]}>)"}[name]()
        txt.append(call)
    return txt


def run_replay(path):
    """re-runs a stored failing case against the library; a violation again iff it still fails"""
    body = json.load(open(path))
    kind = body["kind"]
    if kind == "path":
        r = judge_path(body["case"])
        print("replay path case:", "still failing " + json.dumps(r) if r else "passes now")
        return [path] if r else []
    start, ops = body["start"], body["ops"]
    root, reg = make_start(start)
    for ln in describe(start, ops):
        print("  " + ln)
    exc = ""
    for op in ops:
        exc = apply_op(root, op)
        scan(root, reg)
    proj = project(root, reg)
    evtok = real_eval(root)
    rbad = real_broken(root, evtok)
    print("  observed state :", json.dumps(proj))
    print("  observed raise :", exc or "-", " evaluation:", " ".join(evtok))
    print("  broken on the real objects:", sorted(rbad))
    exp = body.get("expected")
    if exp is not None:
        print("  expected state :", json.dumps(exp), "(specification with the deviation switches on)")
    explained = exp is not None and proj == exp and evtok == body.get("expected_eval") and rbad <= set(body.get("expected_broken", []))
    if rbad and not explained:
        return [path]
    print("  -> does not fail any more" if not rbad else "  -> explained by the specification's known deviations")
    return []


# --------------------------------------------------------------------------------------------------
# the check
# --------------------------------------------------------------------------------------------------
def _tlc(module, cfg, name, workers, timeout, env=None, simulate=None, depth=None, seed=None, trace_file=None):
    wd = tlc.workdir("C17_" + name.replace("/", "_"))
    try:
        if trace_file:
            tf = os.path.join(wd, "traces.ndjson")
            with open(tf, "w") as f:
                f.write(trace_file)
            env = dict(env or {}, TRACE_FILE=tf)
        r = tlc.run(module, cfg, wd, workers=workers, timeout=timeout, env=env, simulate=simulate, depth=depth, seed=seed,
                    heap="6g")
        r["name"] = name
        return r
    finally:
        if not _W.get("keep"):
            tlc.cleanup(wd)


def _ops_of_trace(tr, k):
    return [[e["op"]["op"], e["op"]["t"], e["op"]["i"], e["op"]["i2"], e["op"]["key"], e["op"]["key2"], e["op"]["flag"],
             [[z["t"], z["n"], z["k"]] for z in e["op"]["vals"]]] for e in tr["ev"][:k]]


def run(prop, tier, seed, replay, keep):
    import multiprocessing as mp
    from concurrent.futures import as_completed
    _W["keep"] = keep
    os.environ["AY_REPO"] = REPO
    if replay:
        v = run_replay(replay)
        return {"violations": v, "known_lines": [], "drift": 0, "level": "model_checking", "coverage": {}, "assumptions": ASSUMPTIONS,
                "summary": {"replayed": 1}}
    t0 = time.time()
    quick = tier == "quick"
    rdir = os.path.join(VERIF, "replays", PROP)     # replay files are per run
    if os.path.isdir(rdir):
        for fn in os.listdir(rdir):
            if fn.endswith(".json"):
                os.remove(os.path.join(rdir, fn))
    pool = mp.get_context("fork").Pool(16)
    violations, known_hits, drift = [], {}, 0
    cov = {"configs": [], "mutations": [], "states": 0, "transitions": 0, "traces_validated_against_impl": 0, "samples": [],
           "evaluations": 0, "distinct_nontrivial": 0, "exhaustive": True}
    ntr = 1500 if quick else 12000
    maxlen = 12
    tmo = 400 if quick else 1700
    try:
        # direction B recording starts first (pure python; runs while TLC explores)
        per = 50
        rec_async = pool.map_async(_record_chunk, [(list(range(a, min(a + per, ntr + 1))), seed, maxlen) for a in range(1, ntr + 1, per)])

        U = universes(tier)
        ON = active_switches()
        wk = 4 if quick else 6
        jobs = []   # (name, module, cfg, workers, simulate, depth)
        for name, kw in U:      # the universes are listed largest first
            jobs.append(("asis/" + name, "MC_AyContainer", cfg_container(set(ON), invariants=[], emit=True, **kw), wk, None, None))
            jobs.append(("intended/" + name, "MC_AyContainer",
                         cfg_container(set(), invariants=["Inv_Property", "Inv_NoDeviation"], emit=False, **kw), wk, None, None))
        jobs.insert(4, ("trace", "Trace_AyContainer", cfg_trace(ON), 8, None, None))
        if not quick:
            jobs.insert(2, ("asis/simulate-L8", "MC_AyContainer",
                            cfg_container(set(ON), invariants=[], emit=True, idx="IdxFull", ren="RenEdge", keys=["a", "b", "c", "_x"],
                                          newkeys=["a", "z", "clear"], kinds=["S", "L", "D"], ops="AllOps", starts=[1, 3, 5, 6], tgt="both", maxlen=8,
                                          upd="UpdFull", sim=True), 6, "num=1500", 10))
        for sw, invs, kw in MUTATIONS:
            jobs.append(("mutation/" + sw, "MC_AyContainer",
                         cfg_container({sw}, invariants=PROP_INVS[:-1] + ["Inv_PopitemWorks"], emit=False, **kw), 2, None, None))
        for m in ("SplitDropsSign", "JoinAlwaysDot"):
            jobs.append(("mutation/" + m, "MC_AyPath", cfg_path(m, 2, 3, False), 2, None, None))
        jobs.append(("path", "MC_AyPath", cfg_path("none", 3, 4 if quick else 5, True), 4, None, None))

        rec_box = {}

        def go(job):
            name, module, cfg, workers, sim, depth = job
            if name == "trace":
                rec = [ln for chunk in rec_async.get(timeout=tmo) for ln in chunk]
                rec_box["rec"] = rec
                return _tlc(module, cfg, name, workers, tmo, trace_file="\n".join(rec) + "\n")
            return _tlc(module, cfg, name, workers, tmo, simulate=sim, depth=depth, seed=(seed if sim else None))

        byname, replays = {}, {}
        with ThreadPoolExecutor(max_workers=4) as ex:
            futs = [ex.submit(go, j) for j in jobs]
            for fu in as_completed(futs):
                r = fu.result()
                byname[r["name"]] = r
                if r["name"].startswith("asis/"):
                    # direction A starts as soon as a universe is enumerated
                    lines = emit_lines(r["out"])
                    r["out"] = r["out"][-3000:]
                    if r["name"] == "asis/simulate-L8":
                        lines = list(dict.fromkeys(lines))
                    elif len(lines) != r["distinct"] - 1:
                        raise tlc.TLCError(f"{r['name']}: {len(lines)} behaviours printed for {r['distinct']} states")
                    replays[r["name"][5:]] = replay_start(lines, pool)
                elif r["name"] == "path":
                    plines = emit_lines(r["out"])
                    step = 1000
                    replays["path"] = (plines, pool.map_async(_path_chunk, [plines[i:i + step] for i in range(0, len(plines), step)]))
        t_tlc = time.time() - t0

        # ---------------- judge the TLC results
        for name, kw in U:
            ri, ra = byname["intended/" + name], byname["asis/" + name]
            if ri["violated"]:
                raise tlc.TLCError(f"the intended machine violates {ri['violated']} on {name}:\n" + ri["out"][-3000:])
        for sw, invs, kw in MUTATIONS:
            r = byname["mutation/" + sw]
            ok = bool(r["violated"]) and set(r["violated"]) <= (set(PROP_INVS[:-1]) if sw != "PopitemBroken" else {"Inv_PopitemWorks"})
            cov["mutations"].append({"switch": sw, "refuted": bool(r["violated"]), "violated": r["violated"], "states": r["distinct"]})
            if not ok:
                raise tlc.TLCError(f"mutation cfg {sw} was not refuted as expected: {r['violated']}")
        for m in ("SplitDropsSign", "JoinAlwaysDot"):
            r = byname["mutation/" + m]
            cov["mutations"].append({"switch": m, "refuted": bool(r["violated"]), "violated": r["violated"], "states": r["distinct"]})
            if not r["violated"]:
                raise tlc.TLCError(f"path mutation {m} was not refuted")

        # ---------------- direction A: every behaviour replayed
        popitem_agree = 0
        for name, kw in U + ([("simulate-L8", None)] if not quick else []):
            ra = byname["asis/" + name]
            agg = replay_finish(replays[name], tmo)
            bad = minimal_bad(agg["bad"])
            nv = nd = 0
            for status, st, ops, info in bad:
                if status == "viol":
                    nv += 1
                    if len(violations) < 25:
                        violations.append(write_replay("behaviour", dict(start=agg["starts"][st], ops=ops, calls=describe(agg["starts"][st], ops),
                                                                         universe=name, **info)))
                else:
                    nd += 1
                    if nd <= 3:
                        print("DRIFT", name, json.dumps({"calls": describe(agg["starts"][st], ops), **info})[:1500])
            nd += agg["evdrift"]
            drift += nd
            popitem_agree += agg["popitem_agree"]
            for f, (cnt, wit) in agg["knownf"].items():
                slot = known_hits.setdefault(f, [0, None])
                slot[0] += cnt
                if wit and (slot[1] is None or len(wit["ops"]) < len(slot[1]["ops"])):
                    slot[1] = dict(wit, start=agg["starts"][wit["st"]])
            ri = byname.get("intended/" + name)
            nstates = ra["distinct"] or agg["n"]
            cov["configs"].append({"universe": name, "alphabet": kw, "behaviours": agg["n"], "operations_replayed": agg["steps"],
                                   "states": nstates, "transitions": ra["generated"] or agg["n"],
                                   "states_intended_run": ri["distinct"] if ri else 0,
                                   "agree": agg["ok"], "explained_by_known_deviation": agg["known"], "violations": nv, "drift": nd,
                                   "shadowed_by_an_earlier_disagreement": len(agg["bad"]) - len(bad),
                                   "tlc_wall_s": round(ra["wall"], 1), "exhaustive": name != "simulate-L8"})
            cov["states"] += nstates + (ri["distinct"] if ri else 0)
            cov["transitions"] += (ra["generated"] or agg["n"]) + (ri["generated"] if ri else 0)
            cov["traces_validated_against_impl"] += agg["n"]
            cov["evaluations"] += agg["n"]
            cov["distinct_nontrivial"] += agg["nontrivial"]
            for smp in agg["samples"][:1]:
                if len(cov["samples"]) < 6:
                    cov["samples"].append({"universe": name, "calls": describe(smp["start"], smp["ops"]), "state_after": smp["state_after"]})
        # NodePath
        rp = byname["path"]
        if rp["violated"]:
            raise tlc.TLCError("the NodePath model violates its round trip: " + rp["out"][-2000:])
        plines, pres = replays["path"]
        pbad, pn = [], 0
        for n, b in pres.get(timeout=tmo):
            pn += n
            pbad.extend(b)
        if pn != rp["distinct"] - 1:
            raise tlc.TLCError(f"path: {pn} cases replayed for {rp['distinct']} states")
        for b in pbad:
            # the property is the round trip of a path of words / indices; a join or split detail on which code and
            # model differ while the round trip holds is drift
            if b["what"] == "roundtrip":
                if len(violations) < 25:
                    violations.append(write_replay("path", dict(text="".join(b["case"]["x"]), **b)))
            else:
                drift += 1
                if drift <= 3:
                    print("DRIFT path", json.dumps(b)[:600])
        cov["configs"].append({"universe": "nodepath", "paths_and_texts": pn, "states": rp["distinct"], "transitions": rp["generated"],
                               "disagreements": len(pbad)})
        cov["states"] += rp["distinct"]
        cov["transitions"] += rp["generated"]
        cov["traces_validated_against_impl"] += pn
        cov["evaluations"] += pn
        cov["samples"].append({"universe": "nodepath", "case": json.loads(plines[len(plines) // 2])})

        # ---------------- direction B: TLC's verdicts on the recorded traces
        rt, rec = byname["trace"], rec_box["rec"]
        verdicts = {v["trace"]: v for v in tlc.json_prints(rt["out"], marker="trace")}
        if len(verdicts) != len(rec):
            raise tlc.TLCError(f"trace validation: {len(verdicts)} verdicts for {len(rec)} traces\n" + rt["out"][-3000:])
        accepted = explained = tdrift = tviol = steps = pathbad = 0
        finals = set()
        for ln in rec:
            tr = json.loads(ln)
            v = verdicts[tr["tid"]]
            steps += len(tr["ev"])
            pathbad += v["pathbad"]
            finals.add(json.dumps(tr["ev"][-1]["s"]))
            if v["viol"]:
                tviol += 1
                k = v["viol"]
                ops = _ops_of_trace(tr, k)
                if len(violations) < 25:
                    violations.append(write_replay("trace", dict(start=tr["start"], ops=ops, calls=describe(tr["start"], ops), seed=tr["seed"],
                                                                 broken=tr["ev"][k - 1]["rb"], observed=tr["ev"][k - 1]["s"],
                                                                 observed_eval=tr["ev"][k - 1]["ev"], tlc_verdict=v)))
            elif v["verdict"] != "ok":      # state / eval / exception class differ while the property is not (newly) broken
                tdrift += 1
                if tdrift <= 3:
                    print("DRIFT trace", tr["tid"], json.dumps(v)[:1200], json.dumps(tr["ev"][v["vstep"] - 1])[:1200])
            else:
                accepted += 1
            if v["nexpl"] and not v["viol"]:
                explained += 1
                for f in v["expl"]:
                    slot = known_hits.setdefault(f, [0, None])
                    slot[0] += 1
        if pathbad:
            raise tlc.TLCError(f"{pathbad} recorded paths disagree with the NodePath model (join/split)")
        drift += tdrift
        cov["configs"].append({"universe": "recorded-traces", "traces": len(rec), "events": steps, "max_length": maxlen, "accepted": accepted,
                               "with_states_explained_by_known_deviation": explained, "violations": tviol, "drift": tdrift,
                               "states": rt["distinct"], "transitions": rt["generated"], "tlc_wall_s": round(rt["wall"], 1), "exhaustive": False})
        cov["states"] += rt["distinct"]
        cov["transitions"] += rt["generated"]
        cov["traces_validated_against_impl"] += len(rec)
        cov["evaluations"] += len(rec)
        cov["distinct_nontrivial"] += len(finals)
        tr0 = json.loads(rec[0])
        cov["samples"].append({"universe": "recorded-traces", "seed": tr0["seed"], "calls": describe(tr0["start"], _ops_of_trace(tr0, len(tr0["ev"])))})
    finally:
        pool.terminate()
        pool.join()

    known_lines = []
    cov["known_findings_hit"] = []
    for sw in SWITCHES:
        if sw == "PopitemBroken":
            continue
        if sw in known_hits:
            fid, what = FINDINGS[sw]
            cnt, wit = known_hits[sw]
            known_lines.append(f"KNOWN-FINDING: property={PROP} {fid} {what} [deviation switch {sw}; explains {cnt} behaviours whose state breaks the property]")
            cov["known_findings_hit"].append({"id": fid, "switch": sw, "behaviours": cnt,
                                              "witness": describe(wit["start"], wit["ops"]) if wit else None,
                                              "broken": wit.get("broken") if wit else None})
    # the popitem defect breaks no invariant (both views stay as they were): it is confirmed by the library agreeing with the
    # as-is machine (TypeError, state unchanged) on every behaviour that ends in popitem, and by its refuted mutation cfg
    if popitem_agree and "PopitemBroken" in ON:
        fid, what = FINDINGS["PopitemBroken"]
        known_lines.append(f"KNOWN-FINDING: property={PROP} {fid} {what} [deviation switch PopitemBroken; library = as-is machine on {popitem_agree} behaviours ending in popitem()]")
        cov["known_findings_hit"].append({"id": fid, "switch": "PopitemBroken", "behaviours": popitem_agree,
                                          "witness": ["x = ConfigNode({'a': 1})", "x.popitem()"], "broken": []})
    cov["deviation_switches_on"] = ON
    cov["rule"] = ("behaviours = every operation sequence TLC enumerates per universe (history variable), distinct by construction; "
                   "non-trivial = non-empty sequence whose last operation returned (did not raise); recorded traces: distinct final states")
    cov["wall"] = {"tlc_and_replay_pipeline_s": round(t_tlc, 1), "total_s": round(time.time() - t0, 1)}
    summary = {"behaviours": sum(c.get("behaviours", 0) for c in cov["configs"]), "traces": ntr, "states": cov["states"],
               "tlc_s": round(t_tlc, 1)}
    return {"violations": violations, "known_lines": known_lines, "drift": drift, "level": "model_checking", "coverage": cov,
            "assumptions": ASSUMPTIONS, "summary": summary}
