"""C18 - dump then parse gives a document that merges and evaluates the same.

Specification: spec/AyDump.tla (Dump shaped after yaml.py:524-637, ParseD = Parse of AyParse on the dumped surface
document), spec/MC_Dump.tla (one state per enumerated document; invariants Interchangeable / SameValue / SameMd /
DumpStable / DumpOk for the design `Dev`; Emit prints what the code as it is - deviation set AsIs - is expected to do),
spec/Props_C18.tla (universes), spec/Trace_Dump.tla (direction B).

  A  every TLC-enumerated document is rendered (sdoc), parsed by the library inside a Builder, dumped with
     awesomeyaml.yaml.dump, parsed back, dumped again; compared: (a) the projection of the re-parsed text with the
     specification's Parse(Dump(t)); (b) original vs dumped text substituted into real merge histories (the contexts TLC
     found distinguishing + a seeded sample) and evaluated; (c) text stability of the second round.
  B  seeded random deeper documents and every fixture YAML section of the repository that parses are round-tripped by the
     library, recorded and validated by TLC (verdict per trace, formulas evaluated on the LOGGED pair).
  M  one mutation cfg per deviation switch (+ design mutations): TLC must refute the property.
  F  source files (AyDump.tla "SOURCE FILES"): every document holding `!path` nodes (A and B) is also written to a scratch
     file <work>/A/cfg/exp/doc.yaml and parsed FROM it, so that the nodes know their source file and the dump writes
     `source_file:` into the `!path` mappings; the dump is re-read (a) as a string, (b) from <work>/B/dumps/re.yaml, (c) under
     the original name; source file + own value of every `!path` node, Config evaluation (alone and inside merge histories,
     paths compared through os.path.abspath) and the second dump are compared, and bound to the layer of the specification.
"""
import hashlib
import json
import multiprocessing as mp
import os
import random
import re
import sys
import time
from concurrent.futures import ThreadPoolExecutor, as_completed

HERE = os.path.dirname(os.path.abspath(__file__))
if HERE not in sys.path:
    sys.path.insert(0, HERE)
REPO = os.environ.get("AY_REPO", "/repo")
if REPO not in sys.path:
    sys.path.insert(0, REPO)
import tlc  # noqa
import sdoc as S  # noqa

PROP = "C18"
VERIF = os.path.dirname(HERE)

# deviation switches of spec/AyDump.tla that reproduce the code as it is (every one is a finding on the pinned tree)
ASIS = ["ElideDelDefault", "ElideDelParent", "ElideNewDefault", "ElideNewParent", "ElideSafeDefault", "ElideSafeParent", "PlainTagNotPushed",
        "SafeTagTrue", "NullDropsFlags", "ClearNoValue", "PathNoRefWraps", "ReprQuoting"]
# ... which of them describe the library under test is decided by /verif/known_findings.json (never written at run time):
# a switch is on iff an entry of kind "known" names it as its deviation; "fixed" entries switch nothing on.
ALL_SWITCHES = list(ASIS)
try:
    _kf = json.load(open(os.path.join(VERIF, "known_findings.json")))["findings"]
    ASIS = [sw for sw in ALL_SWITCHES if any(f.get("kind") == "known" and f.get("deviation") == sw for f in _kf)]
except Exception:  # noqa
    pass
if os.environ.get("C18_ASIS") is not None:      # e.g. C18_ASIS=ElideDelDefault AY_REPO=<tree without that fix>
    ASIS = [x for x in os.environ["C18_ASIS"].split(",") if x]
INVS = ["Inv_DumpOk", "Inv_Interchangeable", "Inv_SameValue", "Inv_SameMd", "Inv_DumpStable"]

FINDINGS = {  # switch -> (finding id, call site, what fails)
    "ElideDelDefault": ("F11a", "awesomeyaml/yaml.py _node_representer (current == default)",
                        "an explicit delete flag equal to the node type's default is not written: `!del []` comes back as `[]` "
                        "(the remove-this-key idiom is lost), `!merge {l: [..]}` and `!del {x: !merge {..}}` come back without !merge "
                        "(the inner node then follows what it inherits instead of its own flag)"),
    "ElideDelParent": ("F11b", "awesomeyaml/yaml.py _node_representer (current == parent)",
                       "an explicit delete flag equal to the enclosing encoded entry is not written; the child then only inherits it, and loses it "
                       "when `!prev` moves it elsewhere (`z: {p: 1}; a: !metadata{{'delete': True, 'm': 1}} {x: !del {q: 2}}` then `z: !prev a.x`)"),
    "ElideNewDefault": ("F11c", "awesomeyaml/yaml.py _node_representer (current == default, allow_new)",
                        "`!new` (allow_new=True) is never written: `!notnew {x: !new {..}}` comes back with x forbidding new keys"),
    "ElideNewParent": ("F11l", "awesomeyaml/yaml.py _node_representer (current == parent, allow_new)",
                       "an explicit `!notnew` equal to the enclosing encoded entry is not written; the enclosing `!extend` / `!append` node is "
                       "replaced by a plain list at premerge, so `a: !extend{{'allow_new': False}} [ !notnew {a: 1} ]` raises MergeError as a first "
                       "document while its dump builds"),
    "ElideSafeDefault": ("F11d", "awesomeyaml/yaml.py _node_representer (current == default, safe)",
                         "an explicit safe flag equal to the source's default is not written: `!unsafe {x: !metadata{{'safe': True}} ..}` "
                         "comes back with x (and what it executes) unsafe"),
    "ElideSafeParent": ("F11e", "awesomeyaml/yaml.py _node_representer (current == parent, safe)",
                        "an explicit `!unsafe` below an encoded unsafe container is not written: an explicit flag and an inherited one "
                        "behave differently once the node is replaced (node.py:440-441 taints the replacement, composed.py:396-401 stops propagation)"),
    "PlainTagNotPushed": ("F11f", "awesomeyaml/yaml.py _node_representer (stack push after the plain-tag branch)",
                          "a flag written as a plain tag is removed from `metadata` before the push: grandchildren are compared with an OUTER "
                          "container's entry and omit a flag their parent overrides (`!metadata{{'allow_new': False, ..}} {a: !new [ !notnew {..} ]}`); "
                          "children also repeat the parent's plain tag, which `!append` / `!prev` / `!include` / `!import` cannot carry: "
                          "`a: !force {b: !append [1]}` dumps `!append:<enc>`, for which no constructor exists"),
    "SafeTagTrue": ("F11g", "awesomeyaml/yaml.py _node_representer tags_to_infer['safe'][True]",
                    "a lone safe=True is written as `!safe`, for which no constructor exists: the dumped text does not parse"),
    "NullDropsFlags": ("F11h", "awesomeyaml/yaml.py _node_representer (data is None branch)",
                       "None is always written as a bare `!null`: `!force ~`, `!del` (remove-this-key), `!metadata{{..}} ~` lose flags and user metadata"),
    "ClearNoValue": ("F11i", "awesomeyaml/nodes/clear.py (no value) via ConfigNode.ayns.represent",
                     "dumping a document that holds `!clear` raises AttributeError ('ClearNode' object has no attribute '_get_value')"),
    "PathNoRefWraps": ("F11j", "awesomeyaml/yaml.py _simple_path_constructor (dict_is_data)",
                       "`!path [..]` without reference point is dumped as a mapping {values, ref_point} that `!path` reads back as ONE path "
                       "component: value changes and grows on every round"),
    "ReprQuoting": ("F11k", "awesomeyaml/yaml.py _node_representer repr(data) of a tagged string",
                    "a tagged string is written through Python repr() and read back by YAML quoting rules: a backslash doubles on every round"),
}

META = {
    "engine": "dump-roundtrip",
    "design_ref": "DESIGN.md 5/C18",
    "technique": "TLC model checking of AyDump/MC_Dump (design-level decision which flags may be omitted) + replay of every enumerated "
                 "document through yaml.parse / yaml.dump / Builder + TLC validation of recorded round trips (Trace_Dump)",
    "text": "AyDump.tla is the representer as a function from node trees to surface documents (parent-metadata stack, per-flag elision, "
            "plain tag vs encoded metadata, !null, kind tags), so Parse(Dump(t)) is defined inside the specification. For every document of "
            "depth <= 2 over the full tag vocabulary x explicit-flag combinations TLC checks, for the intended design, Interchangeable (every "
            "1-3 stage history with the document in any position folds to the same observable configuration), SameValue, SameMd, DumpStable "
            "and DumpOk; for the code as it is (deviation switches) it prints the expected re-parsed tree, the verdict of each formula, the "
            "deviations that fire and the distinguishing histories. Each document is rendered, parsed, dumped, re-parsed and re-dumped by "
            "the library and substituted into real merge histories; a difference that the as-is specification predicts exactly is a known "
            "finding, any other is a violation. Random deeper documents and all fixture sections are recorded and validated by TLC.",
    "note": "trusted: TLC, harness/sdoc.py renderer, harness/project.py projection, PyYAML 6.0.3, CPython 3.12; universes bounded (depth 2 below the "
            "root, keys a/b, one metadata key); strings are opaque to TLC (one string with a backslash models repr-quoting); "
            "source_file / idx are not part of a dump by design (node.py:354) and not compared, EXCEPT the source file of `!path` nodes, "
            "which path.py:150-151 writes into the dumped mapping: documents holding `!path` nodes are also read from a named scratch file "
            "and their dump re-read as a string / from another directory / under the same name (evaluated paths and second dump compared)",
}
ENGINE = {"name": "dump-roundtrip", "path": "harness/c18.py", "serves_properties": ["C18"],
          "kind_free_text": "TLC (AyDump, MC_Dump, Trace_Dump) + differential replay of yaml.dump / yaml.parse / Builder"}
ASSUMPTIONS = [
    "TLC explores bounded universes (spec/Props_C18.tla): root mapping, two levels below it, keys a/b, one user metadata key, "
    "flags varied one at a time on all three levels (quick) plus flag pairs / every combination on two levels (thorough)",
    "merge histories: every 1- and 2-stage history over the context documents with the hole anywhere, 3-stage over a subset",
    "the renderer (harness/sdoc.py) and the projection (harness/project.py) are trusted; PyYAML 6.0.3, CPython 3.12",
    "interchangeable = equal data, user metadata, effective priority, safety of executing nodes and of what containers hand to new "
    "children, in the merged tree of every history, and equal evaluation outcome; source_file and stage index are excluded by design, "
    "except the source file of `!path` nodes (written by the dump): a document read from a named file and its dump re-read without a name, "
    "under another name in another directory and under the same name must evaluate to the same paths and dump to the same text; a document "
    "that never had a file name re-read under one, and merge histories in which a `!path` node adopts the file of a plain list of the "
    "document that replaces it (node.py:524-532 _take_over), are outside the domain",
    "strings are opaque to TLC: text-level quoting is exercised by rendering only (one backslash string is modelled)",
]

LISTK = {"list", "append", "extend", "path", "stream"}
DICTK = {"dict", "call", "bind"}
COMPOSED = LISTK | DICTK
SAFEK = {"call", "bind", "eval", "fstr", "import", "include"}
KNOWN_KINDS = COMPOSED | {"scalar", "required", "xref", "prev", "clear", "eval", "fstr", "import", "include"}


# --------------------------------------------------------------------------------------------------
# observations on projected trees (mirror of Obs / DataD / MdTree in spec/AyDump.tla)
# --------------------------------------------------------------------------------------------------
def eff_pr(n):
    return 0 if n["pr"] == 9 else n["pr"]


def eff_safe(n):
    return n["safe"] != "F" and n["isafe"] != "F" and n["dsafe"] == "T"


def kind_class(k):
    return "eval" if k == "fstr" else k


def obs(n, c, under=False):
    """n: projection of the merged tree; c: projection of its deep copy (what Config evaluates: inherited flags re-derived);
    under: below a function node (its arguments are evaluated with require_all_safe)"""
    comp = c["k"] in COMPOSED
    return {"k": kind_class(n["k"]), "v": n["v"], "fn": n["fn"], "ref": n["ref"], "md": sorted(map(json.dumps, n["md"])), "pr": eff_pr(n),
            "safe": eff_safe(c) if (under or c["k"] in SAFEK) else True,
            "ksafe": ((c["safe"] if c["safe"] != "N" else c["isafe"]) != "F") if comp else True,
            "ch": [[k, obs(x, y, under or c["k"] in ("call", "bind"))] for (k, x), (_, y) in zip(n["ch"], c["ch"])]}


def data_of(n):
    return {"k": kind_class(n["k"]), "v": n["v"], "fn": n["fn"], "ref": n["ref"], "ch": [[k, data_of(c)] for k, c in n["ch"]]}


def md_tree(n):
    return {"md": sorted(map(json.dumps, n["md"])), "ch": [[k, md_tree(c)] for k, c in n["ch"]]}


def norm_node(n):
    """a node record printed by TLC (sets in TLC's order) in the shape of project.project"""
    if "err" in n:
        return {"err": n["err"]}
    return {"k": n["k"], "v": list(n["v"]), "ch": [[k, norm_node(c)] for k, c in n["ch"]], "fn": n["fn"], "ref": list(n["ref"]),
            "pr": n["pr"], "del": n["del"], "idel": n["idel"], "anew": n["anew"], "ianew": n["ianew"], "safe": n["safe"],
            "isafe": n["isafe"], "dsafe": n["dsafe"], "md": sorted([list(m[0:1]) + [list(m[1])] for m in n["md"]])}


def first_diff(a, b, path=""):
    if "err" in a or "err" in b:
        return (path, "err") if a != b else None
    for f in ("k", "v", "fn", "ref", "pr", "del", "idel", "anew", "ianew", "safe", "isafe", "dsafe", "md"):
        if a[f] != b[f]:
            return (path or "<root>", f, a[f], b[f])
    if [k for k, _ in a["ch"]] != [k for k, _ in b["ch"]]:
        return (path or "<root>", "keys", [S.key_py(k) for k, _ in a["ch"]], [S.key_py(k) for k, _ in b["ch"]])
    for (k, c1), (_, c2) in zip(a["ch"], b["ch"]):
        d = first_diff(c1, c2, path + "/" + str(S.key_py(k)))
        if d:
            return d
    return None


def kinds_of(n, acc=None):
    acc = set() if acc is None else acc
    acc.add(n["k"])
    for _, c in n["ch"]:
        kinds_of(c, acc)
    return acc


def supported(n):
    """inside the node vocabulary of the specification (no tuples, !rec, streams, non-scalar atoms, bool keys)"""
    if n["k"] not in KNOWN_KINDS or n["v"][0] == "o" or any(m[1][0] == "o" for m in n["md"]):
        return False
    return all(supported(c) for _, c in n["ch"])


# --------------------------------------------------------------------------------------------------
# the library
# --------------------------------------------------------------------------------------------------
def _errclass(e):
    try:
        import awesomeyaml.errors as errors
        if isinstance(e, errors.Error):
            return type(e).__name__
    except Exception:
        pass
    return "Crash:" + type(e).__name__


def parse_stages(text, safe=True):
    from awesomeyaml.builder import Builder
    b = Builder()
    b.add_source(text, raw_yaml=True, safe=bool(safe))
    return b.stages


def parse_one(text, safe=True):
    st = parse_stages(text, safe)
    if len(st) != 1:
        raise ValueError("expected one document, got %d" % len(st))
    return st[0]


def proj(node):
    """project.project + the reference point of !path nodes (project.py looks for `_ref_point`, the attribute is `ref_point`)"""
    import project as P
    out = P.project(node)

    def fix(n, p):
        if p["k"] == "path":
            p["fn"] = str(getattr(n, "ref_point", "") or "")
        if p["ch"]:
            for (_, c), (_, pc) in zip(n._children.items(), p["ch"]):
                fix(c, pc)
    fix(node, out)
    return out


def extras(node, path=""):
    """what the projection does not carry: file names of !include"""
    from awesomeyaml.nodes.composed import ComposedNode
    out = []
    if type(node).__name__ == "IncludeNode":
        out.append([path, list(node.filenames)])
    if isinstance(node, ComposedNode):
        for name, c in node._children.items():
            out.extend(extras(c, path + "/" + str(name)))
    return out


def round_trip_node(orig, safe):
    """project -> dump -> parse -> project -> dump of one parsed document"""
    import project as P
    from awesomeyaml import yaml as ay
    r = {"out": "ok", "p0": proj(orig), "x0": extras(orig), "text1": None, "p1": None, "x1": None, "text2": None, "stable": False, "err": ""}
    try:
        r["text1"] = ay.dump(orig)
    except Exception as e:  # noqa
        r["out"], r["err"] = "dump-error", "%s: %s" % (type(e).__name__, str(e)[:300])
        return r
    try:
        re_ = parse_one(r["text1"], safe)
    except Exception as e:  # noqa
        r["out"], r["err"] = "reparse-error", "%s: %s" % (_errclass(e), str(e)[:300])
        return r
    r["p1"] = proj(re_)
    r["x1"] = extras(re_)
    try:
        r["text2"] = ay.dump(re_)
        r["stable"] = r["text2"] == r["text1"]
    except Exception as e:  # noqa
        r["err"] = "second dump: %s: %s" % (type(e).__name__, str(e)[:300])
    return r


# --------------------------------------------------------------------------------------------------
# source files of `!path` nodes (AyDump.tla, "SOURCE FILES"): the original is read from a named file, its dump is re-read
# (a) as a string, (b) from a file in another directory at another depth, (c) under the name of the original
# --------------------------------------------------------------------------------------------------
FILE_A = ("A", "cfg", "exp", "doc.yaml")       # FileA / FileB of AyDump.tla, below a scratch directory under /verif/work
FILE_B = ("B", "dumps", "re.yaml")
WAYS = [("text", []), ("other-file", list(FILE_B)), ("same-name", list(FILE_A))]     # FilePairs[2..4]: the g of <<FileA, g>>


def sym_file(name, root):
    """a file name as the sequence of its components below the scratch root ([] = no file)"""
    if name is None:
        return []
    a, r = os.path.abspath(str(name)), os.path.abspath(root)
    if a == r or a.startswith(r + os.sep):
        return [c for c in a[len(r):].split(os.sep) if c]
    return ["<outside>", a]


def sym_path(v, root):
    """an evaluated pathlib path, made absolute (as harness/c06.py compares paths), relative to the scratch root / the cwd"""
    a, r, c = os.path.abspath(str(v)), os.path.abspath(root), os.getcwd()
    if a == r or a.startswith(r + os.sep):
        return ["/"] + [x for x in a[len(r):].split(os.sep) if x]
    if a == c or a.startswith(c + os.sep):
        return ["@"] + [x for x in a[len(c):].split(os.sep) if x]
    return ["abs", a]


def path_nodes(node):
    """the !path nodes of a parsed document in pre-order (the order of SfList in AyDump.tla)"""
    from awesomeyaml.nodes.composed import ComposedNode
    out = []

    def walk(n):
        if type(n).__name__ == "PathNode":
            out.append(n)
        if isinstance(n, ComposedNode):
            for c in n._children.values():
                walk(c)
    walk(node)
    return out


def sf_list(node, root):
    """per !path node: reference point, source file, what the node evaluates to on its own (or "!": it raises)"""
    import copy
    from awesomeyaml.eval_context import EvalContext
    out = []
    for n in path_nodes(node):
        try:
            val = sym_path(EvalContext().evaluate(copy.deepcopy(n)), root)
        except Exception:  # noqa
            val = ["!"]
        comps = [c.ayns.native_value if type(c).__name__.startswith("ConfigScalar") else None for c in n._children.values()]
        out.append({"fn": str(n.ref_point or ""), "sf": sym_file(n.ayns.source_file, root), "val": val,
                    "comps": comps if all(isinstance(c, str) and c not in ("", ".", "..") and "/" not in c for c in comps) else None})
    return out


def _shape_p(v, root):
    import pathlib
    if isinstance(v, dict):
        return ["dict", [[type(k).__name__, repr(k), _shape_p(c, root)] for k, c in v.items()]]
    if isinstance(v, (list, tuple)):
        return [type(v).__name__, [_shape_p(c, root) for c in v]]
    if isinstance(v, pathlib.PurePath):
        return ["Path", sym_path(v, root)]
    return [type(v).__name__, repr(v)]


class PathAdoptions(object):
    """Counts the promotions in which a `!path` node stands in for the plain list that replaces it (node.py:501-518): `_take_over`
    (node.py:524-532) then gives it EVERY attribute of that list, its source file included.  The file of a plain list is not part
    of a dump by design (node.py:354), so a merge history in which this happens to a list OF THE DOCUMENT is outside the property's
    domain (`out: !path:parent [results]` from /srv/proj/base.yaml, then `out: [elsewhere]` from /home/u/exp/over.yaml evaluates to
    /home/u/exp/elsewhere; the dump of the second document is `out: [elsewhere]` wherever it is read from)."""
    def __init__(self):
        self.n = 0

    def __enter__(self):
        from awesomeyaml.nodes.node import ConfigNode
        self.cls, self.orig = ConfigNode, ConfigNode.__dict__.get("_take_over")
        if self.orig is not None:
            me, orig = self, self.orig

            def _take_over(node, other):
                # (the context documents of a history are parsed from strings: a list that knows a file is a node of the document)
                if type(node).__name__ == "PathNode" and getattr(other, "_source_file", None) is not None:
                    me.n += 1
                return orig(node, other)
            ConfigNode._take_over = _take_over
        return self

    def __exit__(self, *exc):
        if self.orig is not None:
            self.cls._take_over = self.orig
        return False


def outcome_files(sources, root):
    """evaluation outcome of a merge history whose sources are (text or file name, raw_yaml, filename, safe)"""
    import vmod
    from awesomeyaml.builder import Builder
    from awesomeyaml.config import Config
    with PathAdoptions() as ad:
        try:
            b = Builder()
            for src, raw, fname, safe in sources:
                b.add_source(src, raw_yaml=raw, filename=fname, safe=bool(safe))
            tree = b.build()
        except Exception as e:  # noqa
            return {"err": _errclass(e)}
    if ad.n:
        return {"outside": "a !path node adopted the source file of the plain list that replaced it"}
    del vmod.CALLS[:]
    del vmod.STACK[:]
    try:
        return {"eval": _shape_p(Config(tree), root), "calls": len(vmod.CALLS)}
    except Exception as e:  # noqa
        return {"eval": {"err": _errclass(e)}}


def file_round_trips(text0, safe, root, hists=()):
    """The document is written to <root>/A/cfg/exp/doc.yaml and parsed FROM THAT FILE; its dump is re-read in the three WAYS.
    Per way: source files + own value of every !path node before / after, evaluation of the document alone and inside the
    merge histories `hists` (lists of texts, None = the hole), text of the second dump.  Verdict (library only):
    pv = every !path node and every evaluation gives the same paths, st = the second dump is the first one."""
    from awesomeyaml import yaml as ay
    from awesomeyaml.builder import Builder
    d = os.path.join(root, "p%d" % os.getpid())
    fa, fb = os.path.join(d, *FILE_A), os.path.join(d, *FILE_B)
    for f in (fa, fb):
        os.makedirs(os.path.dirname(f), exist_ok=True)
    with open(fa, "w") as f:
        f.write(text0)
    res = {"out": "ok", "err": "", "dumped": None, "ways": [], "pv": True, "st": True, "ic": True}

    def load(src, raw, fname):
        b = Builder()
        b.add_source(src, raw_yaml=raw, filename=fname, safe=bool(safe))
        if len(b.stages) != 1:
            raise ValueError("expected one document, got %d" % len(b.stages))
        return b.stages[0]

    def fills(hole):
        return [[(hole if h is None else (h, True, None, True)) for h in hist] for hist in [[None]] + [list(h) for h in hists]]
    try:
        orig = load(fa, False, None)
        l0 = sf_list(orig, d)
        text1 = ay.dump(orig)
    except Exception as e:  # noqa
        res.update(out="dump-error", err="%s: %s" % (type(e).__name__, str(e)[:300]), pv=False, st=False, ic=False)
        return res
    res["dumped"], res["l0"] = text1, l0
    ev0 = [outcome_files(srcs, d) for srcs in fills((fa, False, None, safe))]
    for way, g in WAYS:
        w = {"way": way, "f": list(FILE_A), "g": g, "l0": l0, "l1": None, "pv": False, "st": False, "ic": False, "err": ""}
        res["ways"].append(w)
        if way == "other-file":
            with open(fb, "w") as f:
                f.write(text1)
            hole = (fb, False, None, safe)
        else:
            hole = (text1, True, fa if way == "same-name" else None, safe)
        try:
            re_ = load(*hole[:3])
        except Exception as e:  # noqa
            w["err"] = "reparse: %s: %s" % (_errclass(e), str(e)[:300])
            res["out"] = "reparse-error"
            continue
        w["l1"] = sf_list(re_, d)
        try:
            w["second_dump"] = ay.dump(re_)
            w["st"] = w["second_dump"] == text1
        except Exception as e:  # noqa
            w["err"] = "second dump: %s: %s" % (type(e).__name__, str(e)[:300])
        ev1 = [outcome_files(srcs, d) for srcs in fills(hole)]
        vals0, vals1 = [[x["fn"], x["val"]] for x in l0], [[x["fn"], x["val"]] for x in w["l1"]]
        w["pv"] = vals0 == vals1 and ev0[0] == ev1[0]
        bad = [k for k in range(1, len(ev0)) if ev0[k] != ev1[k] and "outside" not in ev0[k] and "outside" not in ev1[k]]
        w["ic"] = not bad
        w["outside"] = sum(1 for k in range(len(ev0)) if "outside" in ev0[k] or "outside" in ev1[k])
        if not w["pv"]:
            w["values"] = {"original": [vals0, ev0[0]], "reparsed": [vals1, ev1[0]]}
        if bad:
            w["history"] = [[k, ev0[k], ev1[k]] for k in bad]
        if w["st"]:
            w.pop("second_dump", None)
    for k in ("pv", "st", "ic"):
        res[k] = all(w[k] for w in res["ways"])
    res["outside"] = sum(w.get("outside", 0) for w in res["ways"])
    return res


def pf_model_agrees(fr, pf):
    """the library's source files / own values against the layer of the specification (`pf` of MC_Dump.Emit, FilePairs[2..4])"""
    by_g = {json.dumps(e["g"]): e for e in pf if e["f"] == list(FILE_A)}
    for w in fr["ways"]:
        e = by_g.get(json.dumps(w["g"]))
        if e is None or w["l1"] is None:
            return False, (w["way"], "no re-parse" if e is not None else "no row")
        for side, mine in (("l0", w["l0"]), ("l1", w["l1"])):
            theirs = e[side]
            if [[x["fn"], x["sf"]] for x in mine] != [[x["fn"], list(x["sf"])] for x in theirs]:
                return False, (w["way"], side, "source files", [x["sf"] for x in mine], [list(x["sf"]) for x in theirs])
            for x, y in zip(mine, theirs):
                base = list(y["base"])
                if base[0] == "!":
                    want = ["!"]
                elif x["comps"] is None:
                    continue          # components that are not plain strings: the value is not modelled (compared original vs re-parse only)
                else:
                    want = (["@"] if base[0] == "@" and base[1] in ("", "cwd") else base) + x["comps"]
                    if base[0] == "@" and base[1] not in ("", "cwd"):
                        continue
                if x["val"] != want:
                    return False, (w["way"], side, "value", x["val"], want)
    return True, None


def _shape(v):
    if isinstance(v, dict):
        return ["dict", [[type(k).__name__, repr(k), _shape(c)] for k, c in v.items()]]
    if isinstance(v, (list, tuple)):
        return [type(v).__name__, [_shape(c) for c in v]]
    return [type(v).__name__, repr(v)]


def outcome(texts, safes, evaluate=True):
    """observable outcome of one merge history in the library: merged tree (+ evaluation) or the error class"""
    import project as P
    import vmod
    from awesomeyaml.builder import Builder
    try:
        b = Builder()
        for t, s in zip(texts, safes):
            b.add_source(t, raw_yaml=True, safe=bool(s))
        tree = b.build()
    except Exception as e:  # noqa
        return {"err": _errclass(e)}
    import copy
    pn = proj(tree)
    try:
        o = {"obs": obs(pn, proj(copy.deepcopy(tree)))}
    except Exception as e:  # noqa  (a mapping key that shadows a dict method cannot be deep-copied: C19's subject)
        o = {"obs": obs(pn, pn), "copy_error": type(e).__name__}
    if evaluate:
        from awesomeyaml.config import Config
        del vmod.CALLS[:]
        del vmod.STACK[:]
        try:
            o["eval"] = _shape(Config(tree))
            o["calls"] = len(vmod.CALLS)
        except Exception as e:  # noqa
            o["eval"] = {"err": _errclass(e) + ("/" + type(e).__name__ if not _errclass(e).startswith("Crash") else "")}
    return o


# --------------------------------------------------------------------------------------------------
# universes
# --------------------------------------------------------------------------------------------------
def _dep_hash():
    h = hashlib.sha1()
    for fn in ("AyTree.tla", "AyParse.tla", "AyUniverse.tla", "Props_C18.tla", "GenUni18.tla"):
        h.update(open(os.path.join(tlc.SPEC, fn), "rb").read())
    return h.hexdigest()[:12]


def gen_set(expr, timeout=900):
    """evaluates one universe expression of Props_C18 ONCE (TLC on spec/GenUni18.tla); cached under work/unicache"""
    cdir = os.path.join(tlc.WORK, "unicache")
    os.makedirs(cdir, exist_ok=True)
    path = os.path.join(cdir, "c18_%s_%s.json" % (_dep_hash(), expr))
    if os.path.exists(path):
        return json.load(open(path))
    wd = tlc.workdir("C18_gen")
    try:
        cfg = tlc.cfg_text(init="Init", next_="Next", constants={"UDocs": "<- " + expr})
        r = tlc.run("GenUni18", cfg, wd, workers=1, timeout=timeout, heap="4g")
        docs = None
        for v in tlc.json_prints(r["out"]):
            if isinstance(v, dict) and "docs" in v:
                docs = v["docs"]
        if docs is None:
            raise tlc.TLCError("GenUni18 did not print " + expr + "\n" + r["out"][-2000:])
        tmp = path + ".tmp%d" % os.getpid()
        json.dump(docs, open(tmp, "w"))
        os.replace(tmp, path)
        return docs
    finally:
        tlc.cleanup(wd)


def pack(targets, ctxbig, ctxsmall, path):
    n, cb, cs = len(targets), len(ctxbig), len(ctxsmall)
    uni = {"docs": targets + ctxbig + ctxsmall, "range": [[1, n], [n + 1, n + cb + cs], [n + cb + 1, n + cb + cs]]}
    json.dump(uni, open(path, "w"))
    return uni


def S_(xs):
    return "{" + ", ".join(json.dumps(x) for x in xs) + "}"


def cfg_mc(dev=(), asis=ASIS, safes="{TRUE}", st3=False, invariants=INVS, emit=True, mutation=None):
    consts = {"Dev": S_(dev), "AsIs": S_(asis), "SrcSafes": safes, "Stages3": "TRUE" if st3 else "FALSE"}
    if mutation:
        consts["Mutation"] = json.dumps(mutation)
    return tlc.cfg_text(init="Init", next_="Next", constants=consts, invariants=list(invariants) + (["Emit"] if emit else []))


# --------------------------------------------------------------------------------------------------
# direction A: replay of TLC's rows
# --------------------------------------------------------------------------------------------------
_U = {}      # universe path -> {"docs", "texts", "ctx2"}


def _universe(path):
    u = _U.get(path)
    if u is None:
        raw = json.load(open(path))
        lo, hi = raw["range"][1]
        u = {"docs": raw["docs"], "texts": {}, "ctx2": [[j, 0] for j in range(lo, hi + 1)] + [[0, j] for j in range(lo, hi + 1)]}
        _U.clear()
        _U[path] = u
    return u


def _text(u, j):
    t = u["texts"].get(j)
    if t is None:
        t = u["texts"][j] = S.render_doc(u["docs"][j - 1])
    return t


def fill(u, c, hole_text, hole_safe):
    return [hole_text if j == 0 else _text(u, j) for j in c], [hole_safe if j == 0 else True for j in c]


def judge_pair(rt, model, ctxs_of, text0, safe, rng, nsample):
    """Verdict on one recorded round trip `rt` (see round_trip_node).
    model: {"t", "u", "sv", "smd", "st", "dx", "fired"} - what the as-is specification expects (None: no model, direction B
    computes it in TLC afterwards).  ctxs_of(c, hole_text) -> (texts, safes) of the history c with the hole filled."""
    real = {"dump": rt["out"] != "dump-error", "reparse": rt["out"] == "ok", "sv": False, "md": False, "st": False, "ic": False}
    res = {"real": real, "ctx_bad": [], "ctx_run": 0}
    if rt["out"] != "ok":
        return res
    p0, p1 = rt["p0"], rt["p1"]
    real["sv"] = data_of(p0) == data_of(p1) and rt["x0"] == rt["x1"]
    real["md"] = md_tree(p0) == md_tree(p1)
    real["st"] = bool(rt["stable"])
    if p0 == p1 and rt["x0"] == rt["x1"]:
        real["ic"] = True
        return res
    chosen = [[0]]
    if model is not None:
        chosen += [c for c in model["dx"] if c != [0]][:2]
    pool = ctxs_of(None, None)
    extra = nsample if (model is None or model.get("a_agree", True)) else 4 * nsample
    for c in rng.sample(pool, min(extra, len(pool))):
        if c not in chosen:
            chosen.append(c)
    real["ic"] = True
    for c in chosen:
        ta, sa = ctxs_of(c, text0)
        tb, sb = ctxs_of(c, rt["text1"])
        oa, ob = outcome(ta, sa), outcome(tb, sb)
        res["ctx_run"] += 1
        if oa != ob:
            real["ic"] = False
            what = "error" if ("err" in oa) != ("err" in ob) or oa.get("err") != ob.get("err") else \
                ("evaluation" if oa.get("eval") != ob.get("eval") else
                 "merged data" if _strip(oa.get("obs")) != _strip(ob.get("obs")) else "flags of the merged tree")
            res["ctx_bad"].append({"ctx": c, "differs_in": what})
            if len(res["ctx_bad"]) >= 2:
                break
    return res


def _strip(o):
    return None if o is None else {"k": o["k"], "v": o["v"], "fn": o["fn"], "ref": o["ref"], "md": o["md"], "ch": [[k, _strip(c)] for k, c in o["ch"]]}


def classify(real, model_broken_set, a_agree, parse_agree, fired=()):
    """real: formula -> holds on the library's behaviour.  A failing case is EXPLAINED (known) iff the library's parse and re-parse
    are exactly the as-is specification's and every failing formula fails in the specification too.  One relaxation: with the
    re-parsed tree exactly as predicted and a deviation firing, a difference found in a merge history is attributed to that
    deviation even where AyMerge does not reproduce the difference (AyMerge takes two structurally equal empty containers for the
    one object `!clear` hands over; the merge itself is C02-C05's subject)."""
    real_broken = {k for k, v in real.items() if not v}
    if real_broken:
        rest = real_broken - model_broken_set
        if a_agree and parse_agree and (not rest or (rest == {"ic"} and fired)):
            return "known"
        return "viol"
    if model_broken_set:
        return "drift"
    if not (a_agree and parse_agree):
        return "drift"
    return "ok"


def model_broken_of(row):
    u = row["u"]
    if "err" in u:
        return {"dump", "reparse", "sv", "md", "st", "ic"} if u["err"] == "DumpError" else {"reparse", "sv", "md", "st", "ic"}
    bs = set()
    if not row["sv"]:
        bs.add("sv")
    if not row["smd"]:
        bs.add("md")
    if not row["st"]:
        bs.add("st")
    if row["dx"]:
        bs.add("ic")
    return bs


def _replay_chunk(args):
    upath, rows, seed, nsample, froot = args
    u = _universe(upath)
    out = []
    for row in rows:
        out.append(_replay_row(u, row, seed, nsample, froot))
    return out


def _replay_row(u, row, seed, nsample, froot):
    i, safe = row["i"], bool(row["s"])
    sd = u["docs"][i - 1]
    text0 = _text(u, i)
    t, um = norm_node(row["t"]), norm_node(row["u"])
    rng = random.Random(seed * 1000003 + i * 2 + (1 if safe else 0))
    res = {"i": i, "s": safe, "fired": sorted(row["fired"])}
    try:
        orig = parse_one(text0, safe)
    except Exception as e:  # noqa  (outside the property's domain: "any PARSED document")
        res.update(cls="unparsed", why="%s: %s" % (_errclass(e), str(e)[:200]))
        return res
    rt = round_trip_node(orig, safe)
    parse_agree = rt["p0"] == t
    if "err" in um:
        a_agree = (um["err"] == "DumpError" and rt["out"] == "dump-error") or (um["err"] == "ParsingError" and rt["out"] == "reparse-error")
    else:
        a_agree = rt["out"] == "ok" and rt["p1"] == um
    model = {"dx": row["dx"], "a_agree": a_agree}

    def ctxs_of(c, hole):
        if c is None:
            return u["ctx2"]
        return fill(u, c, hole, safe)

    j = judge_pair(rt, model, ctxs_of, text0, safe, rng, nsample)
    # documents holding !path nodes: once more, read from a named file (source files are state of those nodes)
    fr = None
    if rt["out"] == "ok" and "path" in kinds_of(rt["p0"]):
        hs = [[None if k == 0 else _text(u, k) for k in c] for c in rng.sample(u["ctx2"], min(nsample, len(u["ctx2"])))]
        fr = file_round_trips(text0, safe, froot, hs)
        real = j["real"]
        real["reparse"] = real["reparse"] and fr["out"] == "ok"
        real["sv"] = real["sv"] and fr["pv"]
        real["st"] = real["st"] and fr["st"]
        real["ic"] = real["ic"] and fr["ic"]
        j["ctx_run"] += len(WAYS) * (1 + len(hs))
        if row.get("pf"):
            ok_, why = pf_model_agrees(fr, row["pf"])
            if not ok_:
                a_agree = False
                fr["model_vs_library"] = why
        fr["histories"] = [["<the document>" if h is None else h for h in hist] for hist in hs]
    mb = model_broken_of(row)
    cls = classify(j["real"], mb, a_agree, parse_agree, row["fired"])
    res.update(cls=cls, real=j["real"], model_broken=sorted(mb), a_agree=a_agree, parse_agree=parse_agree, ctx_run=j["ctx_run"],
               nontrivial=bool(rt["text1"] and "!" in rt["text1"]) or rt["out"] != "ok", changed=rt["out"] != "ok" or rt["p0"] != rt["p1"],
               file_trip=fr is not None, file_outside=fr["outside"] if fr else 0)
    if cls in ("viol", "drift") or (cls == "known" and res["fired"]):
        d = None
        if rt["out"] == "ok" and "err" not in um and not a_agree:
            d = first_diff(um, rt["p1"])
        elif not parse_agree:
            d = ("parse",) + tuple(first_diff(t, rt["p0"]) or ())
        res["detail"] = {"yaml": text0, "dumped": rt["text1"], "second_dump": rt["text2"], "outcome": rt["out"], "error": rt["err"],
                         "model_vs_library_reparse": d, "ctx_bad": j["ctx_bad"], "file_round_trip": fr,
                         "ctx_yaml": [[("<the document>" if k == 0 else _text(u, k)) for k in cb["ctx"]] for cb in j["ctx_bad"]]}
        if cls == "viol":
            res["detail"].update(sd=sd, expected_reparse=um, library_reparse=rt["p1"], library_original=rt["p0"])
    return res


# --------------------------------------------------------------------------------------------------
# direction B: recorded round trips
# --------------------------------------------------------------------------------------------------
KEYS_B = ["a", "b", "c"]
ATOMS_B = [1, 2, 0, "x", "", "[1]", "x: {y}", "see #12", "a\\b", "true", "1", None, True, 2.5, "it's"]
MD_B = [["m", ["i", "1"]], ["n", ["s", "x"]]]


def deco(rng, sd, p=0.45, allow_md=True):
    """a random decoration that the kind's tag can carry"""
    k = sd["k"]
    md_ok = k in ("dict", "list", "scalar", "xref", "bind", "call", "eval", "required", "clear", "extend") or (k == "path" and sd["fn"])
    if not md_ok or rng.random() > p:
        return sd
    r = dict(sd)
    n = rng.choice([1, 1, 1, 2, 2, 3])
    flags = rng.sample(["pr", "del", "anew", "safe"], n)
    for f in flags:
        r[f] = rng.choice([1, -1, 0]) if f == "pr" else rng.choice(["T", "F"])
    if allow_md and rng.random() < 0.3:
        r["md"] = [rng.choice(MD_B)]
    if rng.random() < 0.15:
        for f in flags:
            r[f] = 9 if f == "pr" else "N"
        r["md"] = [rng.choice(MD_B)]
    nf = sum(1 for f in ("pr", "del", "anew", "safe") if r[f] not in (9, "N"))
    if k in ("dict", "list", "scalar"):
        if nf == 0 and not r["md"]:
            r["form"] = "none"
        elif nf == 1 and not r["md"] and r["pr"] != 0 and r["safe"] != "T":
            r["form"] = "tag"
        else:
            r["form"] = "md"
    else:
        r["form"] = "md" if (nf or r["md"]) else "tag"
    return r


def gen_node(rng, depth):
    r = rng.random()
    if depth <= 0 or r < 0.3:
        return deco(rng, S.leaf(rng.choice(ATOMS_B)))
    if r < 0.42:
        kinds = ["required", "xref", "clear", "eval", "import", "include", "prev", "pathp", "path", "call0"]
        k = rng.choice(kinds)
        if k == "required":
            return deco(rng, S.SD("required", form="tag"))
        if k == "clear":
            return deco(rng, S.SD("clear", form="tag"))
        if k == "xref":
            return deco(rng, S.SD("xref", form="tag", ref=[S.skey(rng.choice(KEYS_B))] + ([S.ikey(0)] if rng.random() < 0.3 else [])))
        if k == "prev":
            return S.SD("prev", form="tag", ref=[S.skey(rng.choice(KEYS_B))])
        if k == "eval":
            return deco(rng, S.SD("eval", ["s", rng.choice(["1+1", "'a' + 'b'", "[1, 2]"])], form="tag"))
        if k == "import":
            return S.SD("import", ["s", "os.path"], form="tag")
        if k == "include":
            return S.SD("include", None, [[S.ikey(0), S.leaf("f.yaml")]], form="tag")
        if k == "pathp":
            return deco(rng, S.SD("path", None, [[S.ikey(i), S.leaf(rng.choice(["x", "y"]))] for i in range(rng.randint(0, 2))], form="tag", fn=rng.choice(["parent", "cwd", "file", "parent(1)"])))
        if k == "path":
            return S.SD("path", None, [[S.ikey(i), S.leaf(rng.choice(["x", "y"]))] for i in range(rng.randint(1, 2))], form="tag", fn="")
        return deco(rng, S.SD("call", None, [], form="tag", fn="vmod.rec"))
    if r < 0.62:
        n = rng.choice([0, 1, 1, 2, 3])
        kind = rng.choice(["list", "list", "list", "append", "extend"])
        items = [[S.ikey(i), gen_node(rng, depth - 1)] for i in range(n)]
        if kind == "list":
            return deco(rng, S.SD("list", None, items))
        return deco(rng, S.SD(kind, None, items, form="tag"))
    n = rng.choice([0, 1, 2, 2, 3])
    ks = rng.sample(KEYS_B, n)
    items = [[S.skey(k), gen_node(rng, depth - 1)] for k in ks]
    kind = rng.choice(["dict", "dict", "dict", "dict", "call", "bind"])
    if kind == "dict":
        return deco(rng, S.SD("dict", None, items))
    return deco(rng, S.SD(kind, None, items, form="tag", fn=rng.choice(["vmod.rec", "vmod.rec2"])))


def gen_doc(rng):
    n = rng.choice([1, 2, 2, 3])
    ks = rng.sample(KEYS_B, n)
    return deco(rng, S.SD("dict", None, [[S.skey(k), gen_node(rng, rng.choice([1, 2, 2, 3]))] for k in ks]), p=0.3)


def plainify(p, mode, depth=0):
    """a plain surface document derived from a projected tree: the same paths with other values (mode 1),
    longer lists / extra keys (mode 2)"""
    k = p["k"]
    if k in DICTK:
        ch = [[key, plainify(c, mode, depth + 1)] for key, c in p["ch"]]
        if mode == 2:
            ch.append([S.skey("zz"), S.leaf(7)])
        return S.SD("dict", None, ch)
    if k in LISTK:
        ch = [plainify(c, mode, depth + 1) for _, c in p["ch"]]
        if mode == 2:
            ch = ch + [S.leaf(8), S.leaf(9)]
        return S.sequence(ch)
    return S.leaf(7 if mode == 1 else 6)


def _record_one(args):
    """one recorded round trip: kind 'sd' (a generated surface document) or 'text' (one document of a fixture section)"""
    tid, kind, payload, safe, seed, ctx_sds, froot = args
    import project as P
    rng = random.Random(seed * 7919 + tid)
    tr = {"tid": tid, "s": bool(safe), "src": payload.get("src", ""), "out": "ok", "stable": False, "ctx": []}
    try:
        text0 = S.render_doc(payload["sd"]) if kind == "sd" else payload["text"]
        orig = parse_one(text0, safe)
    except Exception as e:  # noqa
        return {"tid": tid, "skip": "unparsed: " + _errclass(e), "src": payload.get("src", "")}
    rt = round_trip_node(orig, safe)
    if not supported(rt["p0"]) or (rt["p1"] is not None and not supported(rt["p1"])):
        return {"tid": tid, "skip": "kinds outside the specification: " + ",".join(sorted(kinds_of(rt["p0"]) - KNOWN_KINDS)) , "src": payload.get("src", "")}
    tr.update(out=rt["out"], p0=rt["p0"], p1=rt["p1"] if rt["p1"] is not None else rt["p0"], stable=bool(rt["stable"]),
              yaml=text0, dumped=rt["text1"], second=rt["text2"], err=rt["err"], xsame=rt["x0"] == rt["x1"])
    real = {"dump": rt["out"] != "dump-error", "reparse": rt["out"] == "ok", "st": bool(rt["stable"]), "ctx": True}
    if rt["out"] == "ok" and rt["p0"]["k"] == "dict" and (rt["p0"] != rt["p1"]):
        c1, c2 = plainify(rt["p0"], 1), plainify(rt["p0"], 2)
        hists = [([c1], []), ([], [c1]), ([c2], []), ([], [c2]), ([c1], [c2]), ([], [])]
        for sdx in rng.sample(ctx_sds, min(4, len(ctx_sds))):
            hists.append(([sdx], []) if rng.random() < 0.5 else ([], [sdx]))
        for pre, post in hists:
            tp, tq = [S.render_doc(x) for x in pre], [S.render_doc(x) for x in post]
            sf = [True] * len(pre) + [safe] + [True] * len(post)
            oa = outcome(tp + [text0] + tq, sf)
            ob = outcome(tp + [rt["text1"]] + tq, sf)
            same_tree = ("err" in oa and oa.get("err") == ob.get("err")) or ("obs" in oa and oa.get("obs") == ob.get("obs"))
            tr["ctx"].append({"pre": pre, "post": post, "same": bool(same_tree), "evsame": oa == ob})
            if oa != ob:
                real["ctx"] = False
    # documents holding !path nodes: read from a named file, the dump re-read in the three WAYS; the source files are logged
    tr["pf"] = []
    real["pv"] = True
    if rt["out"] == "ok" and "path" in kinds_of(rt["p0"]):
        fr = file_round_trips(text0, safe, froot)
        strip = lambda l: [{"fn": x["fn"], "sf": x["sf"]} for x in l]      # noqa
        if fr["out"] == "ok":
            tr["pf"] = [{"f": w["f"], "g": w["g"], "l0": strip(w["l0"]), "l1": strip(w["l1"])} for w in fr["ways"]]
        real["reparse"] = real["reparse"] and fr["out"] == "ok"
        real["pv"] = fr["pv"] and fr["ic"]
        real["st"] = real["st"] and fr["st"]
        if not (fr["pv"] and fr["st"] and fr["ic"] and fr["out"] == "ok"):
            tr["file_round_trip"] = fr
    tr["real"] = real
    return tr


def fixture_sections(repo):
    """the YAML section of every fixture file, split into its documents"""
    import glob
    out = []
    root = os.path.join(repo, "tests", "yaml_files")
    for f in sorted(glob.glob(os.path.join(root, "**", "*.yaml"), recursive=True)):
        lines = []
        for line in open(f, errors="replace"):
            if line.startswith("###"):
                break
            lines.append(line)
        text = "".join(lines)
        if not text.strip():
            continue
        parts, cur = [], []
        for line in text.splitlines(True):
            if line.startswith("---"):
                if "".join(cur).strip():
                    parts.append("".join(cur))
                cur = []
                rest = line[3:].strip()
                if rest:
                    cur.append(rest + "\n")
            else:
                cur.append(line)
        if "".join(cur).strip():
            parts.append("".join(cur))
        rel = os.path.relpath(f, root)
        for n, ptxt in enumerate(parts):
            out.append({"src": "%s#%d" % (rel, n), "text": ptxt})
    return out


def cfg_trace(asis=ASIS):
    return tlc.cfg_text(init="Init", next_="Next", constants={"AsIs": S_(asis)}, invariants=["Report"])


# --------------------------------------------------------------------------------------------------
# replay files
# --------------------------------------------------------------------------------------------------
def write_replay(kind, payload):
    d = os.path.join(VERIF, "replays", PROP)
    os.makedirs(d, exist_ok=True)
    body = {"property": PROP, "kind": kind}
    body.update(payload)
    sha = hashlib.sha1(json.dumps({"k": kind, "y": payload.get("yaml"), "s": payload.get("safe")}, sort_keys=True).encode()).hexdigest()[:16]
    path = os.path.join(d, sha + ".json")
    with open(path, "w") as f:
        json.dump(body, f, indent=1)
    return path


def run_replay(path):
    """re-runs one replay file against the library: still failing (and not as the as-is specification expects) -> violation"""
    body = json.load(open(path))
    text0, safe = body["yaml"], body.get("safe", True)
    print("document (source added with safe=%s):" % safe)
    print("  " + text0.replace("\n", "\n  "))
    try:
        orig = parse_one(text0, safe)
    except Exception as e:  # noqa
        print("does not parse any more:", e)
        return []
    rt = round_trip_node(orig, safe)
    print("dump outcome:", rt["out"], rt["err"])
    if rt["text1"] is not None:
        print("dumped text:\n  " + rt["text1"].replace("\n", "\n  "))
    if rt["text2"] is not None and rt["text2"] != rt["text1"]:
        print("second dump differs:\n  " + rt["text2"].replace("\n", "\n  "))
    real = {"dump": rt["out"] != "dump-error", "reparse": rt["out"] == "ok", "sv": False, "md": False, "st": False, "ic": False}
    if rt["out"] == "ok":
        real["sv"] = data_of(rt["p0"]) == data_of(rt["p1"]) and rt["x0"] == rt["x1"]
        real["md"] = md_tree(rt["p0"]) == md_tree(rt["p1"])
        real["st"] = bool(rt["stable"])
        real["ic"] = True
        for hist in body.get("histories", [["<the document>"]]):
            ta = [text0 if h == "<the document>" else h for h in hist]
            tb = [rt["text1"] if h == "<the document>" else h for h in hist]
            sf = [safe if h == "<the document>" else True for h in hist]
            oa, ob = outcome(ta, sf), outcome(tb, sf)
            if oa != ob:
                real["ic"] = False
                print("history", [h if h == "<the document>" else h.strip() for h in hist], "differs:")
                print("   original :", json.dumps(oa)[:600])
                print("   dumped   :", json.dumps(ob)[:600])
    if rt["out"] == "ok" and "path" in kinds_of(rt["p0"]):
        # source files of !path nodes: the document read from a named file, its dump re-read as text / elsewhere / same name
        wd = tlc.workdir("C18_replay")
        try:
            hs = [[None if h == "<the document>" else h for h in hist] for hist in ((body.get("file_round_trip") or {}).get("histories") or [])]
            fr = file_round_trips(text0, safe, wd, hs)
        finally:
            tlc.cleanup(wd)
        real["reparse"] = real["reparse"] and fr["out"] == "ok"
        real["sv"], real["st"], real["ic"] = real["sv"] and fr["pv"], real["st"] and fr["st"], real["ic"] and fr["ic"]
        print("read from the file %s; the dump holds:\n  %s" % ("/".join(FILE_A), (fr["dumped"] or "").replace("\n", "\n  ")))
        for w in fr["ways"]:
            print("  dump re-read as %-10s (%s): same paths %s, same second dump %s, same in merge histories %s %s" % (
                w["way"], "/".join(w["g"]) or "a string", w["pv"], w["st"], w["ic"], w["err"]))
            if w["l1"] is not None and (not w["pv"] or not w["st"]):
                for x, y in zip(w["l0"], w["l1"]):
                    print("      !path:%s  source file %s -> %s, value %s -> %s" % (x["fn"], "/".join(x["sf"]) or None, "/".join(y["sf"]) or None,
                                                                                  "/".join(x["val"]), "/".join(y["val"])))
    print("formulas on the library's behaviour:", real)
    broken = {k for k, v in real.items() if not v}
    exp = body.get("expected_reparse")
    explained = False
    if broken and exp is not None and body.get("model_broken") is not None:
        a_agree = (rt["out"] == "ok" and rt["p1"] == exp) or ("err" in exp and rt["out"] != "ok")
        explained = a_agree and broken <= set(body["model_broken"])
    if broken and not explained:
        return [path]
    print("  -> does not fail any more" if not broken else "  -> explained by the specification's known deviations")
    return []


# --------------------------------------------------------------------------------------------------
# the check
# --------------------------------------------------------------------------------------------------
QUICK_JOBS = [  # (name, target universes, source safety, three-stage histories)
    ("pr+del", ["U_QFocusPr", "U_QFocusDel"], True, False),
    ("new+safe", ["U_QFocusNew", "U_QFocusSafe"], True, False),
    ("kinds+siblings", ["U_QKinds", "U_QSiblings"], True, False),
    ("unsafe-source", ["U_QFocusSafe", "U_MutKinds"], False, False),
    ("three-stage", ["U_Q3"], True, True),
    ("path-files", ["U_QPaths"], True, False),
]
THOROUGH_JOBS = [
    ("pr", ["U_FocusPr"], True, False),
    ("del", ["U_FocusDel"], True, False),
    ("new", ["U_FocusNew"], True, False),
    ("safe", ["U_FocusSafe"], True, False),
    ("kinds", ["U_TKinds"], True, False),
    ("siblings+three-stage", ["U_Siblings", "U_Q3", "U_MutDel"], True, True),
    ("all-decorations", ["U_AllX", "U_AllZd"], True, False),
    ("pairs", ["U_Pairs2"], True, False),
    ("unsafe-source", ["U_QFocusSafe", "U_MutKinds", "U_QKinds", "U_MutSafe"], False, False),
    ("path-files", ["U_QPaths"], True, False),
]
MUTATIONS = [  # (deviation switch or design mutation, universe, source safety)
    ("ElideDelDefault", "U_MutDel", True), ("ElideNewDefault", "U_MutNew", True),
    ("ElideSafeDefault", "U_MutSafe", True), ("ElideSafeParent", "U_MutSafe", True), ("PlainTagNotPushed", "U_MutKindsP", True), ("ElideNewParent", "U_MutNewP", True),
    ("SafeTagTrue", "U_MutSafe", False), ("NullDropsFlags", "U_MutKinds", True), ("ClearNoValue", "U_MutKinds", True),
    ("PathNoRefWraps", "U_MutKinds", True), ("ReprQuoting", "U_MutKinds", True), ("ElideDelParent", "U_MutDel", True),
    ("mut:DropMdWithFlag", "U_MutKinds", True),
    # each remaining formula refuted on its own (TLC stops at the first violated invariant)
    ("NullDropsFlags/Inv_SameMd", "U_MutKinds", True), ("ReprQuoting/Inv_SameValue", "U_MutKinds", True),
    ("PathNoRefWraps/Inv_DumpStable", "U_MutKinds", True), ("mut:DropMdWithFlag/Inv_SameMd", "U_MutKinds", True),
    # source files of !path nodes (AyDump.tla): the name of the text being re-read wins over the mapping's `source_file:` key
    # (`{**data, **kwargs}` in yaml.py _make_node) / the key is never written
    ("mut:ReparseOverridesSourceFile/Inv_SameValue", "U_MutPaths", True), ("mut:ReparseOverridesSourceFile/Inv_DumpStable", "U_MutPaths", True),
    ("mut:DumpOmitsSourceFile/Inv_SameValue", "U_MutPaths", True),
]


def run(prop, tier, seed, replay, keep):
    os.environ["AY_REPO"] = REPO
    if replay:
        v = run_replay(replay)
        return {"violations": v, "known_lines": [], "drift": 0, "level": "model_checking", "coverage": {}, "assumptions": ASSUMPTIONS,
                "summary": {"replayed": 1}}
    t0 = time.time()
    quick = tier == "quick"
    rdir = os.path.join(VERIF, "replays", PROP)
    if os.path.isdir(rdir):
        for fn in os.listdir(rdir):
            if fn.endswith(".json"):
                os.remove(os.path.join(rdir, fn))
    jobs = QUICK_JOBS if quick else THOROUGH_JOBS
    if os.environ.get("C18_JOBS"):      # debugging aid: a subset of the model-checking jobs
        jobs = [j for j in jobs if j[0] in os.environ["C18_JOBS"].split(",")]
    tmo = 600 if quick else 3000
    nsample = 2 if quick else 6
    ntraces = 300 if quick else 2500
    cov = {"configs": [], "mutations": [], "states": 0, "transitions": 0, "traces_validated_against_impl": 0, "samples": [],
           "evaluations": 0, "distinct_nontrivial": 0, "exhaustive": True}
    violations, drift, known_hits = [], 0, {}
    main_wd = tlc.workdir("C18_main")
    froot = os.path.join(main_wd, "files")      # where documents holding !path nodes are materialised (never /tmp)
    os.makedirs(froot, exist_ok=True)
    pool = mp.get_context("fork").Pool(16)
    try:
        # ---------------- universes (each expression evaluated once, cached)
        cb_name, cs_name = ("U_CtxQ", "U_CtxSmallQ") if quick else ("U_CtxBig", "U_CtxSmall")
        names = sorted({n for _, us, _, _ in jobs for n in us} | {u for _, u, _ in MUTATIONS} | {cb_name, cs_name})
        with ThreadPoolExecutor(8) as ex:
            sets = dict(zip(names, ex.map(gen_set, names)))
        ctxbig, ctxsmall = sets[cb_name], sets[cs_name]
        t_uni = time.time() - t0

        import threading
        upaths, ulock = {}, threading.Lock()

        def upath_of(name, unames):
            # written ONCE per name (several mutation cfgs share a universe and run side by side: a second writer would
            # truncate the file another TLC is reading)
            with ulock:
                if name not in upaths:
                    upaths[name] = _upath_of(name, unames)
                return upaths[name]

        def _upath_of(name, unames):
            seen, targets = set(), []
            for un in unames:
                for d in sets[un]:
                    key = json.dumps(d, sort_keys=True)
                    if key not in seen:
                        seen.add(key)
                        targets.append(d)
            path = os.path.join(main_wd, "uni_%s.json" % re.sub(r"\W", "_", name))
            pack(targets, ctxbig, ctxsmall, path)
            return path, len(targets)

        # ---------------- direction B recording starts first (pure python, runs while TLC explores)
        rng = random.Random(seed)
        recs = []
        tid = 0
        for fx in fixture_sections(REPO):
            tid += 1
            recs.append((tid, "text", fx, True, seed, ctxbig, froot))
        nfix = tid
        while tid < nfix + ntraces:
            tid += 1
            recs.append((tid, "sd", {"sd": gen_doc(rng), "src": "random"}, rng.random() < 0.85, seed, ctxbig, froot))
        rec_async = pool.map_async(_record_one, recs, chunksize=8)

        # ---------------- TLC: model checking jobs + mutation cfgs, a few at a time
        def go_mc(job):
            name, unames, safe, st3 = job
            upath, n = upath_of(name, unames)
            wd = tlc.workdir("C18_" + re.sub(r"\W", "_", name))
            try:
                r = tlc.run("MC_Dump", cfg_mc(safes="{TRUE}" if safe else "{FALSE}", st3=st3), wd, workers=6 if quick else 8,
                            timeout=tmo, env={"UNIVERSE_FILE": upath}, heap="6g")
            finally:
                if not keep:
                    tlc.cleanup(wd)
            r.update(name=name, kind="mc", upath=upath, ntargets=n, safe=safe, st3=st3, unames=unames)
            return r

        def go_mut(m):
            sw, uname, safe = m
            upath, n = upath_of("mut_" + uname, [uname])
            wd = tlc.workdir("C18_mut")
            try:
                name, _, only = sw.partition("/")
                invs = [only] if only else INVS
                if name.startswith("mut:"):
                    cfg = cfg_mc(dev=(), safes="{TRUE}" if safe else "{FALSE}", st3=False, emit=False, mutation=name[4:], invariants=invs)
                else:
                    cfg = cfg_mc(dev=(name,), safes="{TRUE}" if safe else "{FALSE}", st3=False, emit=False, invariants=invs)
                r = tlc.run("MC_Dump", cfg, wd, workers=2, timeout=tmo, env={"UNIVERSE_FILE": upath}, heap="2g")
            finally:
                if not keep:
                    tlc.cleanup(wd)
            r.update(name=sw, kind="mut", uname=uname, ntargets=n)
            return r

        def go_witness(_):
            upath, n = upath_of("mut_U_MutKindsP", ["U_MutKindsP"])
            wd = tlc.workdir("C18_wit")
            try:
                consts = {"Dev": "{}", "AsIs": S_(ASIS), "SrcSafes": "{TRUE}", "Stages3": "FALSE"}
                cfg = tlc.cfg_text(init="Init", next_="Next", constants=consts, invariants=["NotWitness"])
                r = tlc.run("MC_Dump", cfg, wd, workers=2, timeout=tmo, env={"UNIVERSE_FILE": upath}, heap="2g")
            finally:
                if not keep:
                    tlc.cleanup(wd)
            r.update(name="witness", kind="wit")
            return r

        results, replays = {}, {}
        ex = ThreadPoolExecutor(max_workers=4 if quick else 3)
        try:
            futs = [ex.submit(go_mc, j) for j in jobs] + [ex.submit(go_mut, m) for m in MUTATIONS] + [ex.submit(go_witness, 0)]
            for fu in as_completed(futs):
                r = fu.result()
                results[(r["kind"], r["name"])] = r
                if r["kind"] == "mc":
                    if r["violated"]:
                        raise tlc.TLCError("the intended design violates %s on %s:\n%s" % (r["violated"], r["name"], r["out"][-3000:]))
                    rows = tlc.json_prints(r["out"], marker="fired")
                    r["out"] = r["out"][-2000:]
                    if len(rows) != r["ntargets"]:
                        raise tlc.TLCError("%s: %d rows printed for %d documents" % (r["name"], len(rows), r["ntargets"]))
                    rows.sort(key=lambda x: x["i"])
                    step = max(1, min(40, len(rows) // 64 or 1))
                    replays[r["name"]] = (rows, pool.map_async(_replay_chunk, [(r["upath"], rows[a:a + step], seed, nsample, froot)
                                                                               for a in range(0, len(rows), step)]))
        finally:
            ex.shutdown(wait=True, cancel_futures=True)     # a machinery failure does not wait for the jobs still queued
        t_tlc = time.time() - t0

        # ---------------- mutation cfgs must be refuted
        for sw, uname, safe in MUTATIONS:
            r = results[("mut", sw)]
            cov["mutations"].append({"switch": sw, "universe": uname, "documents": r["ntargets"], "refuted": bool(r["violated"]),
                                     "violated": r["violated"], "states": r["distinct"]})
            if not r["violated"]:
                raise tlc.TLCError("mutation cfg %s was not refuted on %s" % (sw, uname))
        if "NotWitness" not in results[("wit", "witness")]["violated"]:
            raise tlc.TLCError("the witness predicate of MC_Dump is unreachable")

        # ---------------- direction A verdicts
        samples_kn = {}
        for name, unames, safe, st3 in jobs:
            r = results[("mc", name)]
            rows, asyncres = replays[name]
            judged = [x for chunk in asyncres.get(timeout=tmo) for x in chunk]
            by_i = {x["i"]: x for x in rows}
            cnt = {"ok": 0, "known": 0, "viol": 0, "drift": 0, "unparsed": 0}
            nontriv = changed = ctx_run = ftrips = foutside = 0
            model_broken = sum(1 for x in rows if model_broken_of(x))
            uni_docs = None
            for jd in judged:
                cnt[jd["cls"]] += 1
                nontriv += 1 if jd.get("nontrivial") else 0
                changed += 1 if jd.get("changed") else 0
                ctx_run += jd.get("ctx_run", 0)
                ftrips += 1 if jd.get("file_trip") else 0
                foutside += jd.get("file_outside", 0)
                if jd["cls"] == "known":
                    for sw in (jd["fired"] if "detail" in jd else []):
                        slot = known_hits.setdefault(sw, [0, None])
                        slot[0] += 1
                        d = jd["detail"]
                        hard = (not all(jd["real"][k] for k in ("dump", "reparse", "sv", "md"))) or \
                            any(cb["differs_in"] != "flags of the merged tree" for cb in d["ctx_bad"])
                        score = (0 if len(jd["fired"]) == 1 else 1, 0 if hard else 1, len(d["yaml"]))
                        if slot[1] is None or score < tuple(slot[1]["score"]):
                            slot[1] = {"yaml": d["yaml"], "dumped": d["dumped"], "outcome": d["outcome"], "error": d["error"],
                                       "broken": sorted(k for k, v in jd["real"].items() if not v), "safe_source": jd["s"],
                                       "history": (d["ctx_yaml"] or [None])[0],
                                       "differs_in": (d["ctx_bad"] or [{}])[0].get("differs_in"), "score": list(score)}
                elif jd["cls"] == "viol":
                    if len(violations) < 25:
                        d = jd["detail"]
                        violations.append(write_replay("document", {
                            "yaml": d["yaml"], "safe": jd["s"], "universe": name, "dumped": d["dumped"], "second_dump": d["second_dump"],
                            "outcome": d["outcome"], "error": d["error"], "formulas_on_library": jd["real"],
                            "broken": sorted(k for k, v in jd["real"].items() if not v), "model_broken": jd["model_broken"],
                            "deviations_firing": jd["fired"], "model_vs_library_reparse": d["model_vs_library_reparse"],
                            "histories": d["ctx_yaml"] or [["<the document>"]], "expected_reparse": d["expected_reparse"],
                            "library_reparse": d["library_reparse"], "sd": d["sd"], "file_round_trip": d["file_round_trip"]}))
                elif jd["cls"] == "drift":
                    drift += 1
                    if drift <= 5:
                        print("DRIFT", name, json.dumps({k: jd.get(k) for k in ("i", "s", "real", "model_broken", "a_agree", "parse_agree")}),
                              json.dumps(jd.get("detail", {}))[:1200])
                elif jd["cls"] == "unparsed":
                    drift += 1
                    if drift <= 5:
                        print("DRIFT", name, "document does not parse:", jd["why"])
            cov["configs"].append({"universe": name, "sets": unames, "source_safe": safe, "three_stage_histories": st3,
                                   "documents": r["ntargets"], "states": r["distinct"], "transitions": r["generated"],
                                   "model_says_as_is_broken": model_broken, "library": cnt, "documents_changed_by_round_trip": changed,
                                   "merge_histories_run_in_library": ctx_run, "documents_with_path_nodes_read_from_a_named_file": ftrips,
                                   "file_histories_outside_domain_path_adopts_file_of_plain_list": foutside,
                                   "tlc_wall_s": round(r["wall"], 1), "exhaustive": True})
            cov["states"] += r["distinct"]
            cov["transitions"] += r["generated"]
            cov["traces_validated_against_impl"] += len(judged)
            cov["evaluations"] += len(judged)
            cov["distinct_nontrivial"] += nontriv
            if judged and len(cov["samples"]) < 6:
                mid = judged[len(judged) // 2]
                u = json.load(open(r["upath"]))
                cov["samples"].append({"universe": name, "yaml": S.render_doc(u["docs"][mid["i"] - 1]), "verdict": mid["cls"],
                                       "deviations_firing": mid["fired"]})

        # ---------------- direction B: TLC's verdicts on the recorded round trips
        rec = rec_async.get(timeout=tmo)
        skipped = [t for t in rec if "skip" in t]
        traces = [t for t in rec if "skip" not in t]
        twd = tlc.workdir("C18_trace")
        try:
            tf = os.path.join(twd, "traces.ndjson")
            with open(tf, "w") as f:
                for t in traces:
                    f.write(json.dumps({k: t[k] for k in ("tid", "s", "out", "p0", "p1", "stable", "ctx", "pf")}) + "\n")
            cpath = os.path.join(twd, "ctx.json")
            json.dump({"docs": ctxbig + ctxsmall, "range": [[1, len(ctxbig) + len(ctxsmall)]]}, open(cpath, "w"))
            rt_ = tlc.run("Trace_Dump", cfg_trace(), twd, workers=16, timeout=tmo, env={"TRACE_FILE": tf, "UNIVERSE_FILE": cpath}, heap="6g")
        finally:
            if not keep:
                tlc.cleanup(twd)
        if rt_["violated"]:
            raise tlc.TLCError("trace specification failed: %s\n%s" % (rt_["violated"], rt_["out"][-3000:]))
        verdicts = {v["trace"]: v for v in tlc.json_prints(rt_["out"], marker="trace")}
        if len(verdicts) != len(traces):
            raise tlc.TLCError("trace validation: %d verdicts for %d traces\n%s" % (len(verdicts), len(traces), rt_["out"][-3000:]))
        tcnt = {"ok": 0, "known": 0, "viol": 0, "drift": 0}
        fixt_ok = 0
        for t in traces:
            v = verdicts[t["tid"]]
            real = dict(t["real"])
            pv_lib = real.pop("pv", True)      # the library's own verdict on the file round trips (evaluation, histories)
            real["sv"] = bool(v["lsv"]) and t.get("xsame", True) and bool(v["lpv"]) and pv_lib
            real["st"] = real["st"] and bool(v["lsf"])
            real["md"] = bool(v["lmd"])
            ctx_ok = real.pop("ctx")
            real["ic"] = bool(v["lic"]) and ctx_ok
            if t["out"] != "ok":
                real.update(sv=False, md=False, ic=False, st=False)
            mb = set()
            if v["cmp"] == "equal":
                if t["out"] == "dump-error":
                    mb = {"dump", "reparse", "sv", "md", "st", "ic"}
                elif t["out"] == "reparse-error":
                    mb = {"reparse", "sv", "md", "st", "ic"}
                else:
                    mb = {k for k, ok in (("sv", v["msv"] and v["mpv"]), ("md", v["mmd"]), ("st", v["mst"] and v["msf"]), ("ic", v["mic"])) if not ok}
                    # a recorded history that tells the pair apart, re-done by TLC on the logged trees with the same result
                    if not v["cbad"] and any(not c["same"] for c in t["ctx"]):
                        mb.add("ic")
            cls = classify(real, mb, v["cmp"] == "equal" and v["pfcmp"] != "differs", True, v["fired"])
            if cls == "viol" and v["cmp"] == "differs" and _only_repr_quoting(t):
                cls = "known"
                v["fired"] = sorted(set(v["fired"]) | {"ReprQuoting"})
            if v["cbad"]:
                drift += 1
                if drift <= 5:
                    print("DRIFT trace", t["tid"], "recorded merge histories differ from the specification's merge:", v["cbad"], t["yaml"][:300])
            tcnt[cls] += 1
            if t["src"] != "random" and cls in ("ok", "known"):
                fixt_ok += 1
            if cls == "known":
                for sw in v["fired"]:
                    slot = known_hits.setdefault(sw, [0, None])
                    slot[0] += 1
                    if slot[1] is None:
                        slot[1] = {"yaml": t["yaml"], "dumped": t["dumped"], "outcome": t["out"], "error": t["err"],
                                   "broken": sorted(k for k, ok in real.items() if not ok), "safe_source": t["s"], "history": None,
                                   "differs_in": None, "score": [2, 2, len(t["yaml"])]}
            elif cls == "viol":
                if len(violations) < 25:
                    hist = [[S.render_doc(x) for x in c["pre"]] + ["<the document>"] + [S.render_doc(x) for x in c["post"]]
                            for c in t["ctx"] if not c["evsame"]][:3]
                    violations.append(write_replay("trace", {
                        "yaml": t["yaml"], "safe": t["s"], "source": t["src"], "dumped": t["dumped"], "second_dump": t["second"],
                        "outcome": t["out"], "error": t["err"], "formulas_on_library": real,
                        "broken": sorted(k for k, ok in real.items() if not ok), "model_broken": sorted(mb), "tlc_verdict": v,
                        "file_round_trip": t.get("file_round_trip"),
                        "histories": hist or [["<the document>"]]}))
            elif cls == "drift":
                drift += 1
                if drift <= 5:
                    print("DRIFT trace", t["tid"], json.dumps(v)[:600], t["yaml"][:300])
        cov["configs"].append({"universe": "recorded-round-trips", "fixture_documents": nfix, "random_documents": ntraces,
                               "skipped_outside_the_specification_or_unparsable": len(skipped), "traces": len(traces), "verdicts": tcnt,
                               "fixture_documents_validated": fixt_ok, "states": rt_["distinct"], "transitions": rt_["generated"],
                               "traces_with_path_nodes_read_from_a_named_file": sum(1 for t in traces if t["pf"]),
                               "source_file_layer_vs_logged": {k: sum(1 for v in verdicts.values() if v["pfcmp"] == k) for k in ("equal", "differs", "none")},
                               "tlc_wall_s": round(rt_["wall"], 1), "exhaustive": False})
        cov["states"] += rt_["distinct"]
        cov["transitions"] += rt_["generated"]
        cov["traces_validated_against_impl"] += len(traces)
        cov["evaluations"] += len(traces)
        cov["distinct_nontrivial"] += len({t["yaml"] for t in traces if t["dumped"] and "!" in t["dumped"]})
        for t in traces[nfix // 2: nfix // 2 + 1] + traces[-1:]:
            cov["samples"].append({"universe": "recorded-round-trips", "source": t["src"], "yaml": t["yaml"], "dumped": t["dumped"],
                                   "tlc_verdict": verdicts[t["tid"]]["cmp"]})
        skips = {}
        for t in skipped:
            skips[t["skip"]] = skips.get(t["skip"], 0) + 1
        cov["skipped_reasons"] = skips
    finally:
        pool.terminate()
        pool.join()
        if not keep:
            tlc.cleanup(main_wd)

    known_lines = []
    cov["known_findings_hit"] = []
    for sw in ASIS:
        if sw in known_hits:
            fid, site, what = FINDINGS[sw]
            n, wit = known_hits[sw]
            hist = ""
            if wit and wit.get("history"):
                hist = " in the history " + json.dumps([h if h == "<the document>" else h.strip() for h in wit["history"]]) + \
                       " (differs in: %s)" % wit.get("differs_in")
            known_lines.append("KNOWN-FINDING: property=%s %s %s [deviation switch %s at %s; explains %d round trips; witness: %s%s%s]"
                               % (PROP, fid, what, sw, site, n, json.dumps(wit["yaml"]) if wit else "-",
                                  " (source added with safe=False)" if wit and not wit["safe_source"] else "", hist))
            cov["known_findings_hit"].append({"id": fid, "switch": sw, "round_trips": n, "witness": wit})
    cov["deviation_switches_on"] = ASIS
    cov["rule"] = ("direction A: every document of the named universes (distinct by construction) is one case; non-trivial = the library's "
                   "dump wrote at least one tag or failed; direction B: distinct recorded documents whose dump wrote a tag")
    cov["wall"] = {"universes_s": round(t_uni, 1), "tlc_and_replay_pipeline_s": round(t_tlc, 1), "total_s": round(time.time() - t0, 1)}
    summary = {"documents": sum(c.get("documents", 0) for c in cov["configs"]), "traces": len(traces), "states": cov["states"],
               "tlc_s": round(t_tlc, 1)}
    return {"violations": violations, "known_lines": known_lines, "drift": drift, "level": "model_checking", "coverage": cov,
            "assumptions": ASSUMPTIONS, "summary": summary}


def _only_repr_quoting(t):
    """direction B only: the library's re-parse differs from the specification's in string VALUES that Python's repr() does not
    write the way YAML reads them back (strings are opaque to TLC; PyYAML is the oracle of this known deviation)"""
    import yaml as pyyaml
    if t["out"] != "ok":
        return False

    def walk(a, b):
        if a["k"] != b["k"] or len(a["ch"]) != len(b["ch"]):
            return False
        if a["v"] != b["v"]:
            if a["v"][0] != "s" or b["v"][0] != "s":
                return False
            try:
                if pyyaml.safe_load(repr(a["v"][1])) != b["v"][1]:
                    return False
            except Exception:
                return False
        return all(walk(c1, c2) for (_, c1), (_, c2) in zip(a["ch"], b["ch"]))
    return walk(t["p0"], t["p1"]) and data_of(t["p0"]) != data_of(t["p1"])
