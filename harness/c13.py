"""C13 - !call / !bind pass arguments as Python would; function nodes merge by table.

Two halves, both decided by TLC on an explicit specification and bound to the library in both directions.

(1) argument passing (spec/AyFunc.tla, MC_Func.tla, Trace_Func.tla).  AyFunc has three readings of one node: the
    code step by step (NodeArgs = FunctionNode.__init__, ResolveArgs = _resolve_args, Received / BindResult = the call /
    the partial), Python's own binding rule PyBind (= inspect.signature(f).bind) and the property statement read per
    argument key (Stated / StatedPartial).  TLC checks PassesAsPython, BindIsPartial, PartialCompletes for every
    signature of MC_Func.Sigs x every subset of 4 positions + 4 names x list / scalar / name-only forms x call / bind.
    A: every terminal state is replayed: a recording target with that signature is synthesised in a throw-away module,
       `!call:mod.f {..}` / `!bind:..` is built through Config.build (argument values static, cross-referenced, produced by
       nested calls, and supplied by a second merge stage), and what the target received - bound by Python's own binder,
       inspect.signature(target).bind(*a, **k) - / partial.func, .args, .keywords is compared with the specification.
    B: seeded random signatures / argument sets (more parameters, more positions) are recorded from the library and
       validated by TLC against Trace_Func (verdict per trace, the property's formula evaluated on the logged outcome).
(2) merge table (spec/Props_C13.tla over AyMerge, MC_C13.tla, Trace_C13.tla): the builder-family engine with one more
    invariant, the documented table as a declarative oracle over one merge step.
"""
import hashlib
import inspect
import json
import multiprocessing as mp
import os
import random
import shutil
import sys
import time
import types

HERE = os.path.dirname(os.path.abspath(__file__))
if HERE not in sys.path:
    sys.path.insert(0, HERE)
import tlc
import engine as E
import sdoc as S

PROP = "C13"
VERIF = os.path.dirname(HERE)
REPO = os.environ.get("AY_REPO", "/repo")

KNOWN = {  # deviation switch -> (finding id, call site, what fails)
    "IndexReachesKwOnly": ("F16", "awesomeyaml/nodes/function.py FunctionNode._resolve_args (index -> name table)",
                           "an integer argument key after a gap reaches a keyword-only parameter or the **kwargs name when the "
                           "target has no *args (the table stops only at VAR_POSITIONAL): `!call:f {1: 5}` with f(a=0, *, k=1) "
                           "calls f(k=5) instead of failing"),
}
FUNC_INVARIANTS = ["Inv_PassesAsPython", "Inv_BindIsPartial", "Inv_PartialCompletes", "Inv_Machine", "Inv_SigsWellFormed"]
FUNC_MUTATIONS = [("IndexReachesKwOnly", None), (None, "NoBreakAtVarargs"), (None, "GapsCloseUp"), (None, "KeywordWinsSilently")]
MERGE_MUTATIONS = [{"mutation": "LoserFnMerges", "next": "Next13"}, {"mutation": "DropNewKeys"}, {"mutation": "ListsMergeByDefault"},
                   {"mutation": "PruneAlways"}, {"mutation": "PriorityGE"}]
MERGE_EXH = {"quick": [("C13_Docs", 2, 2, "C13_Range"), ("C13_Docs3", 1, 3, "C13_Range3")],
             "thorough": [("C13_Docs", 1, 2, "C13_Range"), ("C13_Docs3", 1, 4, "C13_Range3")]}
N_RANDOM = {"quick": {"func": 1500, "merge": 1000}, "thorough": {"func": 30000, "merge": 25000}}

ASSUME = ["CPython 3.12.1 and PyYAML as installed in /venv; awesomeyaml imported from the tree named by AY_REPO (default /repo)",
          "Python's binder (inspect.signature(f).bind, the call f(*a, **k)) and functools.partial are the trusted reference for 'as Python would'",
          "the YAML renderer of harness/sdoc.py is trusted (merge half); argument-passing documents are written as block YAML by harness/c13.py",
          "TLC results are for the bounded universes named in coverage.configs (10 signatures x 2^8 key sets; 251 / 34 documents)"]


def known_switches():
    """deviation switches of C13 currently treated as `known` findings (known_findings.json is maintained by the lead;
    while it has no entry for a switch, the deviation reproduced on the pinned tree is assumed known)"""
    if "C13_KNOWN_SWITCHES" in os.environ:          # for experiments: "" = none
        return sorted(x for x in os.environ["C13_KNOWN_SWITCHES"].split(",") if x in KNOWN)
    try:
        fs = json.load(open(os.path.join(VERIF, "known_findings.json")))["findings"]
    except Exception:
        fs = []
    out = []
    for sw in KNOWN:
        mine = [f for f in fs if sw in str(f.get("deviation", "")).replace(",", " ").split()]
        if not mine or any(f.get("kind") == "known" for f in mine):
            out.append(sw)
    return sorted(out)


# ================================================================================================
# argument-passing half: signatures, targets, documents, observation

TMOD = "c13_targets"


def sig_text(sig):
    parts, star = [], any(p["k"] == "var" for p in sig)
    for p in sig:
        if p["k"] == "pos":
            parts.append(p["n"] + ("=DFLT" if p["d"] else ""))
        elif p["k"] == "var":
            parts.append("*" + p["n"])
        elif p["k"] == "kwo":
            if not star:
                parts.append("*")
                star = True
            parts.append(p["n"] + ("=DFLT" if p["d"] else ""))
        else:
            parts.append("**" + p["n"])
    return ", ".join(parts)


class _Dflt(object):
    def __repr__(self):
        return "dflt"


def install_targets(sigs):
    """a throw-away module with one recording target per signature: `inspect.signature(target)` is the signature under
    test (a template function wrapped with functools.wraps), the wrapper records the raw (*a, **k) it was called with"""
    mod = sys.modules.get(TMOD)
    if mod is None:
        mod = types.ModuleType(TMOD)
        mod.REC = []
        mod.DFLT = _Dflt()
        exec("import functools\n"
             "def _wrap(t):\n"
             "    @functools.wraps(t)\n"
             "    def rec(*a, **k):\n"
             "        REC.append((t.__name__, a, k))\n"
             "        return 'ret:' + t.__name__\n"
             "    rec._template = t\n"
             "    return rec\n"
             "def ident(x):\n"
             "    return x\n", mod.__dict__)
        sys.modules[TMOD] = mod
    for name, sig in sigs.items():
        if not hasattr(mod, name):
            exec("def %s(%s):\n    pass\n%s = _wrap(%s)\n" % (name, sig_text(sig), name, name), mod.__dict__)
    return mod


def key_text(k):
    return str(k["n"]) if k["t"] == "i" else k["s"]


def _val_text(v, variant, tops):
    if variant == "xref":
        tops["x_" + v] = v
        return "!xref x_" + v
    if variant == "nested":
        return "!call:%s.ident [%s]" % (TMOD, v)
    return v


def node_yaml(d, name):
    """the YAML stream (list of document texts) of one function node descriptor
    d = {kind, form, written: [{k, v}], variant, order}"""
    kind, form, written, variant = d["kind"], d["form"], d["written"], d.get("variant", "static")
    tag = "!%s:%s.%s" % (kind, TMOD, name)
    tops = {}
    if form == "name":
        docs = ["v: !%s %s.%s\n" % (kind, TMOD, name)]
    elif form == "scalar":
        docs = ["v: %s %s\n" % (tag, written[0]["v"])]
    elif form == "list":
        if not written:
            docs = ["v: %s []\n" % tag]
        else:
            docs = ["v: %s\n" % tag + "".join("  - %s\n" % _val_text(a["v"], variant, tops) for a in written)]
    else:
        items = list(written)
        if d.get("order") == "rev":
            items = items[::-1]
        if variant == "split" and len(items) >= 2:
            h = (len(items) + 1) // 2
            first, second = items[:h], items[h:]
            docs = ["v: %s\n" % tag + "".join("  %s: %s\n" % (key_text(a["k"]), a["v"]) for a in first),
                    "v:\n" + "".join("  %s: %s\n" % (key_text(a["k"]), a["v"]) for a in second)]
        elif not items:
            docs = ["v: %s {}\n" % tag]
        else:
            docs = ["v: %s\n" % tag + "".join("  %s: %s\n" % (key_text(a["k"]), _val_text(a["v"], variant, tops)) for a in items)]
    if tops:
        docs[0] = "".join("%s: %s\n" % (k, v) for k, v in sorted(tops.items())) + docs[0]
    return docs


def _tok(v, mod):
    return "dflt" if v is mod.DFLT else (v if isinstance(v, str) else "?" + repr(v))


def norm_out(o):
    return {"err": bool(o["err"]),
            "b": sorted(({"p": e["p"], "v": e["v"], "t": list(e["t"]), "d": sorted([list(x) for x in e["d"]])} for e in o.get("b", [])),
                        key=lambda e: e["p"]),
            "pa": list(o.get("pa", [])), "pk": sorted([list(x) for x in o.get("pk", [])])}


def observe_node(d, name, sig):
    """builds the node through Config.build and reports (resolve event, outcome) in the shape of the trace spec"""
    import functools
    from awesomeyaml.config import Config
    mod = install_targets({name: sig})
    target = getattr(mod, name)
    del mod.REC[:]
    err = {"err": True, "b": [], "pa": [], "pk": []}
    try:
        v = Config.build(*node_yaml(d, name), raw_yaml=True)["v"]
    except Exception as e:  # noqa  any failure to build / evaluate is "an error"
        calls = [c for c in mod.REC if c[0] == name]
        res = {"seen": bool(calls), "p": [_tok(x, mod) for x in calls[-1][1]] if calls else [],
               "k": sorted([n, _tok(x, mod)] for n, x in calls[-1][2].items()) if calls else []}
        lines = [x.strip() for x in str(e).splitlines() if x.strip(" ^\t")]
        return res, dict(err, cls=type(e).__name__, msg=(lines[1] if len(lines) > 1 else (lines[0] if lines else ""))[:200])
    if d["kind"] == "bind":
        if not isinstance(v, functools.partial) or v.func is not target:
            return {"seen": False, "p": [], "k": []}, dict(err, cls="NotAPartialOfTheTarget", msg=repr(v)[:160])
        pa = [_tok(x, mod) for x in v.args]
        pk = sorted([n, _tok(x, mod)] for n, x in v.keywords.items())
        return {"seen": True, "p": pa, "k": pk}, {"err": False, "b": [], "pa": pa, "pk": pk}
    calls = [c for c in mod.REC if c[0] == name]
    if len(calls) != 1 or v != "ret:" + name:
        return {"seen": bool(calls), "p": [], "k": []}, dict(err, cls="NotCalledExactlyOnce", msg="%d calls, value %r" % (len(calls), v))
    _, a, k = calls[0]
    res = {"seen": True, "p": [_tok(x, mod) for x in a], "k": sorted([n, _tok(x, mod)] for n, x in k.items())}
    try:
        ba = inspect.signature(target).bind(*a, **k)      # literally Python's binder
    except TypeError as e:
        return res, dict(err, cls="TypeError", msg=str(e)[:160])
    ba.apply_defaults()
    b = []
    kinds = {p["n"]: p["k"] for p in sig}
    for pname, val in ba.arguments.items():
        if kinds[pname] == "var":
            b.append({"p": pname, "v": "", "t": [_tok(x, mod) for x in val], "d": []})
        elif kinds[pname] == "vkw":
            b.append({"p": pname, "v": "", "t": [], "d": sorted([n, _tok(x, mod)] for n, x in val.items())})
        else:
            b.append({"p": pname, "v": _tok(val, mod), "t": [], "d": []})
    return res, {"err": False, "b": b, "pa": [], "pk": []}


def node_trace(tid, d, name, sig):
    res, out = observe_node(d, name, sig)
    o = {"err": out["err"], "b": out["b"], "pa": out["pa"], "pk": out["pk"]}
    return {"tid": tid, "sig": sig, "name": name, "desc": d, "info": {k: out[k] for k in ("cls", "msg") if k in out},
            "ev": [{"e": "Write", "kind": d["kind"], "form": d["form"], "written": d["written"]},
                   dict(res, e="Resolve"), {"e": "Invoke", "out": o}]}


def variants_of(beh, tier="thorough"):
    """how the argument values reach the node: written in place, cross-referenced (keys in reverse order), returned by
    nested calls, or the second half of the keys supplied by a later merge stage.  thorough: all of them for every
    behaviour; quick: in place + one of the others in rotation"""
    form, n = beh["form"], len(beh["args"])
    if form in ("name", "scalar") or n == 0:
        return [("static", "fwd")]
    vs = [("static", "fwd"), ("xref", "rev"), ("nested", "fwd")]
    if form == "map" and n >= 2:
        vs.append(("split", "fwd"))
    if tier == "quick":
        return [vs[0], vs[1 + beh["id"] % (len(vs) - 1)]]
    return vs


_SIGS = None
_TIER = "thorough"


def _func_init(sigs, tier="thorough"):
    global _SIGS, _TIER
    _SIGS, _TIER = sigs, tier
    if REPO not in sys.path:
        sys.path.insert(0, REPO)
    install_targets({"s%d" % (i + 1): s for i, s in enumerate(sigs)})


def written_of(beh):
    if beh["form"] == "map":
        return beh["args"]
    if beh["form"] == "name":
        return []
    return beh["args"]     # list / scalar: NodeArgs(form, written) has the same values at keys 0..n-1


def _func_replay_one(beh):
    """-> list of (variant, order, observed) that differ from the intended outcome"""
    sig = _SIGS[beh["sig"] - 1]
    name = "s%d" % beh["sig"]
    bad = []
    vs = variants_of(beh, _TIER)
    for variant, order in vs:
        d = {"kind": beh["kind"], "form": beh["form"], "written": written_of(beh), "variant": variant, "order": order}
        res, out = observe_node(d, name, sig)
        if norm_out(out) != norm_out(beh["intended"]):
            bad.append((d, norm_out(out), out.get("cls", ""), out.get("msg", "")))
    return beh["id"], len(vs), bad


def _func_record_one(args):
    tid, sig, d = args
    if REPO not in sys.path:
        sys.path.insert(0, REPO)
    return node_trace(tid, d, "r%d" % tid, sig)


# ------------------------------------------------------------------------------------------------
# TLC runs of the argument-passing half

def func_cfg(invariants, switch=None, mutation=None, spec="Spec", init=None, next_=None):
    lines = ["SPECIFICATION " + spec] if spec else ["INIT " + init, "NEXT " + next_]
    lines += ["CONSTANTS", "  IndexReachesKwOnly = %s" % ("TRUE" if switch == "IndexReachesKwOnly" else "FALSE"),
              "  FuncMutation = %s" % json.dumps(mutation or "none")]
    lines += ["INVARIANT " + i for i in invariants]
    lines.append("CHECK_DEADLOCK FALSE")
    return "\n".join(lines) + "\n"


def beh_key(b):
    return json.dumps([b["kind"], b["sig"], b["form"], [[a["k"], a["v"]] for a in b["args"]]], sort_keys=True)


def run_mc_func(wd, name, invariants, switch=None, mutation=None, emit=True):
    sub = os.path.join(wd, name)
    os.makedirs(sub, exist_ok=True)
    r = tlc.run("MC_Func", func_cfg(list(invariants) + (["Emit"] if emit else []), switch, mutation), sub, timeout=600)
    behs, sigs = [], None
    for v in tlc.json_prints(r["out"]):
        if "beh" in v:
            behs.append(v)
        elif "sigs" in v:
            sigs = v["sigs"]
    return r, behs, sigs


def validate_func(traces, wd, name, switch=None, chunk=1500):
    """TLC trace validation (Trace_Func) -> {tid: (cmp, prop_verdict, model_verdict, detail)}, stats"""
    from concurrent.futures import ThreadPoolExecutor
    chunks = [traces[i:i + chunk] for i in range(0, len(traces), chunk)] or [[]]

    def one(args):
        i, c = args
        sub = os.path.join(wd, "%s_%d" % (name, i))
        os.makedirs(sub, exist_ok=True)
        path = os.path.join(sub, "traces.ndjson")
        with open(path, "w") as f:
            for t in c:
                f.write(json.dumps({"tid": t["tid"], "sig": t["sig"], "ev": t["ev"]}) + "\n")
        r = tlc.run("Trace_Func", func_cfg(["Report"], switch, None, spec=None, init="TInit", next_="TNext"), sub,
                    env={"TRACE_FILE": path}, workers=4, timeout=900, heap="3g")
        if r["violated"]:
            raise E.MachineryError("Trace_Func reported a violation of its own: %s\n%s" % (r["violated"], r["out"][-2000:]))
        return {row[0]: tuple(row[1:]) for row in tlc.tuple_prints(r["out"], "TRACE")}, r
    rows, stats = {}, {"distinct": 0, "generated": 0}
    t0 = time.time()
    with ThreadPoolExecutor(min(4, len(chunks))) as ex:
        for rr, r in ex.map(one, list(enumerate(chunks))):
            rows.update(rr)
            stats["distinct"] += r["distinct"]
            stats["generated"] += r["generated"]
    stats["wall"] = time.time() - t0
    return rows, stats


# ------------------------------------------------------------------------------------------------
# seeded random signatures and argument sets (direction B)

def gen_node(rng):
    pos_names = ["a", "b", "c", "d", "e"]
    npos = rng.choice([0, 1, 2, 2, 3, 4, 5])
    ndef = rng.randint(0, npos)
    sig = [{"n": pos_names[i], "k": "pos", "d": i >= npos - ndef} for i in range(npos)]
    var = rng.random() < 0.45
    if var:
        sig.append({"n": "rest", "k": "var", "d": False})
    for nme in rng.sample(["k", "j", "m"], rng.choice([0, 0, 1, 1, 2, 3])):
        sig.append({"n": nme, "k": "kwo", "d": rng.random() < 0.6})
    if rng.random() < 0.4:
        sig.append({"n": "extra", "k": "vkw", "d": False})
    kind = rng.choice(["call", "call", "bind"])
    form = rng.choice(["map"] * 7 + ["list", "list", "scalar", "name"])
    if form == "list":
        n = rng.randint(0, 6)
        written = [{"k": S.ikey(i), "v": "i%d" % i} for i in range(n)]
    elif form == "scalar":
        written = [{"k": S.ikey(0), "v": "i0"}]
    elif form == "name":
        written = []
    else:
        hi = rng.randint(0, 6)
        ints = [i for i in range(hi) if rng.random() < 0.75] + ([rng.randint(0, 7)] if rng.random() < 0.3 else [])
        pool = [p["n"] for p in sig] + ["z", "y"]
        strs = [s for s in pool if rng.random() < 0.3]
        keys = [S.ikey(i) for i in sorted(set(ints))] + [S.skey(s) for s in dict.fromkeys(strs)]
        rng.shuffle(keys)
        written = [{"k": k, "v": ("i%d" % k["n"]) if k["t"] == "i" else "s" + k["s"]} for k in keys]
    variant = "static" if form in ("scalar", "name") else rng.choice(["static", "static", "xref", "nested", "split"])
    return sig, {"kind": kind, "form": form, "written": written, "variant": variant, "order": "fwd"}


# ================================================================================================
# merge-table half

def gen_universe13(docs_expr, range_expr="WholeRange", timeout=900):
    """as engine.gen_universe, through spec/GenUni_C13.tla (GenUni.tla does not extend Props_C13); the result lands in the
    same cache, where engine.exhaustive finds it"""
    cdir = os.path.join(tlc.WORK, "unicache")
    os.makedirs(cdir, exist_ok=True)
    path = os.path.join(cdir, f"{E.spec_hash()}_{docs_expr}_{range_expr}.json")
    if os.path.exists(path):
        return path, json.load(open(path))
    wd = tlc.workdir("genuni13")
    try:
        cfg = tlc.cfg_text(init="Init", next_="Next", constants={"UDocs": "<- " + docs_expr, "URange": "<- " + range_expr})
        r = tlc.run("GenUni_C13", cfg, wd, workers=1, timeout=timeout)
        uni = None
        for v in tlc.json_prints(r["out"]):
            if "universe" in v:
                uni = {"docs": v["universe"], "range": v["range"]}
        if uni is None:
            raise E.MachineryError("GenUni_C13 did not print the universe " + docs_expr + "\n" + r["out"][-2000:])
        import threading
        tmp = path + ".tmp%d_%d" % (os.getpid(), threading.get_ident())
        json.dump(uni, open(tmp, "w"))
        os.replace(tmp, path)
        return path, uni
    finally:
        tlc.cleanup(wd)


def _validate13_chunk(args):
    chunk, wd, switches, workers, timeout = args
    os.makedirs(wd, exist_ok=True)
    path = os.path.join(wd, "traces.ndjson")
    with open(path, "w") as f:
        for t in chunk:
            f.write(json.dumps(t) + "\n")
    cfg = tlc.cfg_text(init="TInit", next_="TNext", invariants=["Report13"], switches=switches,
                       constants={"SafeFlags": "{TRUE}", "MinStages": "1", "MaxStages": "99", "Prop": '"C13"'})
    r = tlc.run("Trace_C13", cfg, wd, env={"TRACE_FILE": path}, workers=workers, timeout=timeout, heap="3g")
    if r["violated"]:
        raise E.MachineryError("Trace_C13 reported a violation of its own: %s\n%s" % (r["violated"], r["out"][-2000:]))
    rows = {row[0]: tuple(row[1:]) for row in tlc.tuple_prints(r["out"], "TRACE")}
    return rows, {"distinct": r["distinct"], "generated": r["generated"]}


def validate13(traces, wd, name="traces", switches=(), chunk=250, timeout=1500):
    from concurrent.futures import ThreadPoolExecutor
    chunks = [traces[i:i + chunk] for i in range(0, len(traces), chunk)] or [[]]
    par = min(len(chunks), 5)
    jobs = [(c, os.path.join(wd, f"{name}_{i}"), switches, max(2, 16 // par), timeout) for i, c in enumerate(chunks)]
    t0 = time.time()
    with ThreadPoolExecutor(par) as ex:
        results = list(ex.map(_validate13_chunk, jobs))
    rows, stats = {}, {"distinct": 0, "generated": 0}
    for r, st in results:
        rows.update(r)
        stats["distinct"] += st["distinct"]
        stats["generated"] += st["generated"]
    stats["wall"] = time.time() - t0
    return rows, stats


def _fn(rng, target=None, nargs=None, tags=True, kind=None):
    keys = rng.sample(["a", "b", "c", 0, 1], nargs if nargs is not None else rng.choice([0, 1, 1, 2, 2, 3]))
    ch = []
    for k in keys:
        r = rng.random()
        if r < 0.1:
            val = S.mapping([(rng.choice(["a", "c"]), S.leaf(rng.choice([1, 2, 3])))])
        elif r < 0.17:
            val = S.sequence([S.leaf(rng.choice([1, 2, 3]))])
        elif r < 0.27:
            val = S.with_tag(S.leaf(rng.choice([1, 2, 3])), rng.choice(["force", "weak"]))
        else:
            val = S.leaf(rng.choice([1, 2, 3, "x"]))
        ch.append([S.key_of_py(k), val])
    sd = S.SD(kind or rng.choice(["call", "call", "bind"]), None, ch, fn=target or rng.choice(["m.f", "m.f", "m.g"]), form="tag")
    if tags:
        r = rng.random()
        if r < 0.15:
            sd.update(form="md", pr=1)
        elif r < 0.3:
            sd.update(form="md", pr=-1)
        if rng.random() < 0.25:
            sd.update(form="md", **{"del": "F"})
    return sd


def _plain_tagged(rng, sd, tags):
    if rng.random() < 0.4:
        return S.with_tag(sd, rng.choice(tags))
    return sd


def gen_merge_history(rng, max_stages):
    """an older config with function nodes (and mappings / scalars / None) under 1-3 keys, one level of nesting sometimes;
    later stages aim mappings, lists, names and function nodes (same / other target, same kind mostly) at those keys"""
    keys = rng.sample(["v", "w", "u"], rng.randint(1, 3))
    nest = rng.random() < 0.25

    def older():
        r = rng.random()
        if r < 0.7:
            return _fn(rng)
        if r < 0.8:
            return _plain_tagged(rng, S.mapping([(k, S.leaf(rng.choice([1, 2]))) for k in rng.sample(["a", "b", "c"], rng.randint(0, 2))]), ["force", "weak"])
        return S.leaf(rng.choice([1, None, "m.f", 0]))

    def newer(old):
        r = rng.random()
        okind = old["k"] if old["k"] in ("call", "bind") else None
        if r < 0.25:
            ks = rng.sample(["a", "b", "c", 0, 1], rng.randint(0, 3))
            return _plain_tagged(rng, S.mapping([(k, S.leaf(rng.choice([5, 6]))) for k in ks]), ["del", "merge", "force", "weak"])
        if r < 0.4:
            return _plain_tagged(rng, S.sequence([S.leaf(rng.choice([5, 6])) for _ in range(rng.randint(0, 3))]), ["merge", "force", "weak"])
        if r < 0.52:
            return _plain_tagged(rng, S.leaf(rng.choice(["m.g", "m.g", "m.h", "m.f"])), ["force", "weak"])
        if r < 0.92:
            return _fn(rng, kind=okind if rng.random() < 0.9 else None)
        return S.leaf(rng.choice([7, None]))

    def wrap(c):
        return S.mapping([("n", c)]) if nest else c
    first = {k: older() for k in keys}
    docs = [S.mapping([(k, wrap(c)) for k, c in first.items()])]
    cur = dict(first)
    for _ in range(rng.randint(1, max_stages - 1)):
        ks = [k for k in keys if rng.random() < 0.7] or [keys[0]]
        nd = {}
        for k in ks:
            nd[k] = newer(cur[k])
            if nd[k]["k"] in ("call", "bind"):
                cur[k] = nd[k]
        docs.append(S.mapping([(k, wrap(c)) for k, c in nd.items()]))
    return docs, [True] * len(docs)


def _has_fn(sd):
    return sd["k"] in ("call", "bind") or any(_has_fn(c) for _, c in sd["ch"])


def merge_nontrivial(docs):
    return len(docs) >= 2 and any(_has_fn(d) for d in docs)


# ================================================================================================

def write_replay(body):
    d = os.path.join(VERIF, "replays", PROP)
    os.makedirs(d, exist_ok=True)
    path = os.path.join(d, E.sha(body) + ".json")
    with open(path, "w") as f:
        json.dump(body, f, indent=1)
    return path


def run(prop, tier, seed, replay, keep):
    wd = tlc.workdir(PROP)
    try:
        if replay:
            return _replay(replay, wd)
        return _run(tier, seed, wd)
    finally:
        if not keep:
            tlc.cleanup(wd)


def _explained_func(traces, wd, name):
    """which of the traces does the as-is model (known deviation switches on) reproduce exactly?"""
    out = {}
    for sw in known_switches():
        rows, _ = validate_func(traces, wd, name + "_" + sw, switch=sw)
        for t in traces:
            if rows.get(t["tid"], ("x",))[0] == "ok":
                out.setdefault(t["tid"], sw)
    return out


def _replay(path, wd):
    body = json.load(open(path))
    cov = {"configs": [], "states": 0, "transitions": 0, "traces_validated_against_impl": 0, "samples": []}
    if body.get("half") == "func":
        if REPO not in sys.path:
            sys.path.insert(0, REPO)
        t = node_trace(1, body["desc"], body["name"], body["sig"])
        rows, _ = validate_func([t], wd, "replay")
        row = rows.get(1)
        print("target: def %s(%s)" % (body["name"], sig_text(body["sig"])))
        for y in node_yaml(body["desc"], body["name"]):
            print("---\n" + y, end="")
        print("library:", json.dumps(norm_out(t["ev"][2]["out"])), t["info"])
        print("replay: (model-vs-library, formula on library outcome, formula on model) =", row[:3] if row else "rejected by the specification")
        if row and row[3]:
            print("  detail:", row[3])
        ok = row is not None and row[1] != "violated"
        if not ok and row is not None:
            expl = _explained_func([t], wd, "replay_asis")
            if 1 in expl:
                print("  explained by the known deviation", expl[1], KNOWN[expl[1]][0])
                ok = True
        return {"violations": [] if ok else [path], "level": "model_checking", "coverage": cov, "assumptions": ASSUME}
    traces = E.record([(1, body["docs"], body["safes"])], nproc=1)
    rows, _ = validate13(traces, wd, "replay")
    row = rows.get(1)
    print("replay: (model-vs-library, table on library outcome, table on model outcome) =", row[:3] if row else "rejected by the specification")
    for y in body["yaml"]:
        print("---\n" + y, end="")
    import drive
    for j, o in enumerate(drive.stage_outcomes(body["docs"], body["safes"])):
        print(f"  library after stage {j+1}:", json.dumps(E.compact_node(o) if "err" not in o else {"e": o["err"]}))
    if row and row[3]:
        try:
            import builderfam
            for j, m in enumerate(json.loads(row[3])["model"]):
                print(f"  model   after stage {j+1}:", json.dumps(m if "err" in m else E.compact_node(builderfam._jfix(m))))
        except Exception as e:  # noqa
            print("  (model detail not decodable)", e)
    ok = row is not None and row[1] != "violated"
    return {"violations": [] if ok else [path], "level": "model_checking", "coverage": cov, "assumptions": ASSUME}


def _lap(msg, _t=[None]):
    now = time.time()
    if os.environ.get("C13_TIMING") and _t[0] is not None:
        sys.stderr.write("  [%.1fs] %s\n" % (now - _t[0], msg))
    _t[0] = now


def _run(tier, seed, wd):
    _lap("start")
    cov = {"configs": [], "states": 0, "transitions": 0, "traces_validated_against_impl": 0, "samples": [], "mutations": [],
           "exhaustive": True}
    violations, known_lines, drift = [], [], 0
    summary = {}
    known_hits = {}
    shutil.rmtree(os.path.join(VERIF, "replays", PROP), ignore_errors=True)
    ks = known_switches()
    nontrivial = set()

    # ---- every TLC-only job is started now and collected where it is needed (4 JVMs at a time)
    from concurrent.futures import ThreadPoolExecutor
    E.gen_universe = gen_universe13      # engine.exhaustive evaluates universes through GenUni.tla, which does not extend Props_C13
    tp = ThreadPoolExecutor(4)
    fut = {"func_intended": tp.submit(run_mc_func, wd, "func_intended", FUNC_INVARIANTS)}
    for docs_name, drange in sorted({(e[0], e[3]) for e in MERGE_EXH[tier]} | {("C13_Docs3", "C13_Range3")}):
        gen_universe13(docs_name, drange)
    for docs_name, smin, smax, drange in sorted(MERGE_EXH[tier], key=lambda e: e[0] != "C13_Docs"):
        fut["exh_" + docs_name] = tp.submit(E.exhaustive, PROP, docs_name, smin, smax, ["Inv_C13"], _sub(wd, "exh_%s_%d" % (docs_name, smax)),
                                            module="MC_C13", doc_range=drange)
    for sw in ks:
        fut["asis_" + sw] = tp.submit(run_mc_func, wd, "func_asis_" + sw, [], sw)
    for sw, mu in FUNC_MUTATIONS:
        fut["fmut_" + (sw or mu)] = tp.submit(run_mc_func, wd, "func_mut_" + (sw or mu),
                                              ["Inv_PassesAsPython", "Inv_BindIsPartial", "Inv_PartialCompletes"], sw, mu, False)
    fut["witness13"] = tp.submit(E.exhaustive, PROP, "C13_Docs3", 2, 2, ["NotWitness13"], _sub(wd, "witness13"), module="MC_C13",
                                 doc_range="C13_Range3", emit=False)
    merge_mutations = MERGE_MUTATIONS[:3] if tier == "quick" else MERGE_MUTATIONS      # quick: the three aimed at the table rows
    for mu in merge_mutations:
        fut["mmut_" + mu["mutation"]] = tp.submit(E.exhaustive, PROP, "C13_Docs3", 2, 2, ["Inv_C13"], _sub(wd, "mut_" + mu["mutation"]),
                                                  module="MC_C13", mutation=mu["mutation"], emit=False, doc_range="C13_Range3",
                                                  next_=mu.get("next", "Next"))
    tp.shutdown(wait=False)

    # ============ (1) argument passing ============================================================
    # ---- F1: TLC decides the three properties on the intended design and prints every node life
    r, behs, sigs = fut["func_intended"].result()
    if r["violated"] or not behs or sigs is None:
        raise E.MachineryError("MC_Func: the specification itself violates %s (or printed nothing)\n%s" % (r["violated"], r["out"][-3000:]))
    cov["configs"].append({"module": "MC_Func", "signatures": len(sigs), "behaviours": len(behs), "states": r["distinct"],
                           "transitions": r["generated"], "tlc_wall_s": round(r["wall"], 1),
                           "invariants": FUNC_INVARIANTS, "signature_texts": ["f(%s)" % sig_text(s) for s in sigs]})
    cov["states"] += r["distinct"]
    cov["transitions"] += r["generated"]
    for i, b in enumerate(behs):
        b["id"] = i
    _lap('F1 intended')
    asis = {}
    for sw in ks:
        r2, behs2, _ = fut["asis_" + sw].result()
        cov["states"] += r2["distinct"]
        cov["transitions"] += r2["generated"]
        asis[sw] = {beh_key(b): norm_out(b["want"]) for b in behs2}
    _lap('F1 asis')
    # ---- F2: every behaviour replayed (x value variants) through Config.build
    t0 = time.time()
    with mp.Pool(16, initializer=_func_init, initargs=(sigs, tier)) as pool:
        res = pool.map(_func_replay_one, behs, chunksize=64)
    builds = sum(n for _, n, _ in res)
    n_bad = 0
    bad_seen = set()
    for bid, _, bad in res:
        b = behs[bid]
        if any(a["k"]["t"] == "i" for a in b["args"]) and any(a["k"]["t"] == "s" for a in b["args"]) or b["intended"]["err"]:
            nontrivial.add("f:" + beh_key(b))
        for d, obs, cls, msg in bad:
            n_bad += 1
            sw = next((s for s in ks if asis[s].get(beh_key(b)) == obs), None)
            if sw:
                known_hits.setdefault(sw, []).append((b, d))
                continue
            k = beh_key(b)
            if k in bad_seen:
                continue
            bad_seen.add(k)
            violations.append(write_replay({"property": PROP, "half": "func", "name": "s%d" % b["sig"], "sig": sigs[b["sig"] - 1],
                                            "desc": d, "yaml": node_yaml(d, "s%d" % b["sig"]), "target": "def s%d(%s)" % (b["sig"], sig_text(sigs[b["sig"] - 1])),
                                            "intended": norm_out(b["intended"]), "observed": obs, "error": [cls, msg]}))
    cov["configs"][-1].update({"replayed_nodes": builds, "replay_wall_s": round(time.time() - t0, 1), "replay_disagreements": n_bad})
    cov["traces_validated_against_impl"] += builds
    summary["func_behaviours"] = len(behs)
    summary["func_builds"] = builds
    summary["func_disagreements"] = n_bad
    mid = behs[len(behs) * 2 // 5]
    for b in (mid, next(x for x in behs if x["kind"] == "bind" and x["sig"] == 4 and len(x["args"]) == 3 and not x["intended"]["err"])):
        d = {"kind": b["kind"], "form": b["form"], "written": written_of(b), "variant": "static"}
        cov["samples"].append({"target": "def s%d(%s)" % (b["sig"], sig_text(sigs[b["sig"] - 1])), "yaml": node_yaml(d, "s%d" % b["sig"]),
                               "expected": norm_out(b["intended"])})

    _lap('F2 replay')
    # ---- F3/F4: seeded random signatures recorded and validated by TLC
    rng = random.Random(seed * 7919 + 13)
    n_rand = N_RANDOM[tier]["func"]
    jobs = []
    for tid in range(1, n_rand + 1):
        sig, d = gen_node(rng)
        jobs.append((tid, sig, d))
    with mp.Pool(16) as pool:
        ftraces = pool.map(_func_record_one, jobs, chunksize=32)
    _lap('F3 record')
    rows, st = validate_func(ftraces, wd, "functraces")
    cov["states"] += st["distinct"]
    cov["transitions"] += st["generated"]
    rejected = [t["tid"] for t in ftraces if t["tid"] not in rows]
    if rejected:
        raise E.MachineryError(f"{len(rejected)} function-node traces were not consumed by Trace_Func, first tid {rejected[0]}")
    from collections import Counter
    fv = Counter()
    fbad = []
    for t in ftraces:
        cmp_, pv, mv = rows[t["tid"]][:3]
        if mv == "violated":
            raise E.MachineryError("AyFunc's three readings disagree on recorded node %d: %s" % (t["tid"], json.dumps(t["desc"])))
        fv[pv] += 1
        if pv == "violated":
            fbad.append(t)
        elif cmp_ != "ok":
            drift += 1
        if any(a["k"]["t"] == "i" for a in t["desc"]["written"]):
            nontrivial.add("r:" + E.sha([t["sig"], t["desc"]]))
    if fbad and ks:
        expl = _explained_func(fbad, wd, "functraces_asis")
        for t in fbad:
            if t["tid"] in expl:
                known_hits.setdefault(expl[t["tid"]], []).append((None, t["desc"]))
        fbad = [t for t in fbad if t["tid"] not in expl]
    for t in fbad[:10]:
        violations.append(write_replay({"property": PROP, "half": "func", "name": t["name"], "sig": t["sig"], "desc": t["desc"],
                                        "yaml": node_yaml(t["desc"], t["name"]), "target": "def %s(%s)" % (t["name"], sig_text(t["sig"])),
                                        "observed": norm_out(t["ev"][2]["out"]), "verdict": list(rows[t["tid"]][:3]),
                                        "detail": rows[t["tid"]][3]}))
    cov["traces_validated_against_impl"] += len(ftraces)
    cov["trace_validation_func"] = {"traces": len(ftraces), "states": st["distinct"], "tlc_wall_s": round(st["wall"], 1),
                                    "property_verdicts": dict(fv)}
    summary["func_trace_verdicts"] = dict(fv)
    t = ftraces[min(len(ftraces) - 1, 11)]
    cov["samples"].append({"recorded_node": {"target": "def %s(%s)" % (t["name"], sig_text(t["sig"])), "yaml": node_yaml(t["desc"], t["name"]),
                                             "observed": norm_out(t["ev"][2]["out"])}, "verdict": list(rows[t["tid"]][:3])})

    _lap('F4 validate')
    # ---- FM: mutation cfgs (vacuity guard)
    for sw, mu in FUNC_MUTATIONS:
        rm, _, _ = fut["fmut_" + (sw or mu)].result()
        cov["mutations"].append({"mutation": sw or mu, "module": "MC_Func", "refuted_by_tlc": bool(rm["violated"]),
                                 "violated": rm["violated"], "tlc_wall_s": round(rm["wall"], 1)})
        if not rm["violated"]:
            raise E.MachineryError(f"mutation {sw or mu} was NOT refuted by TLC on MC_Func: the invariants are vacuous")
    # the antecedents are reachable: among the states TLC printed, a gap bound by name behind a positional prefix and *args overflow
    def _gap(b):
        ints = sorted(a["k"]["n"] for a in b["args"] if a["k"]["t"] == "i")
        return b["kind"] == "call" and not b["want"]["err"] and ints and ints[0] == 0 and ints != list(range(len(ints)))
    if not any(_gap(b) for b in behs) or not any(not b["want"]["err"] and any(e["t"] for e in b["want"]["b"]) for b in behs):
        raise E.MachineryError("MC_Func: no printed state binds a gap by name / overflows into *args (the invariants would be vacuous)")

    _lap('FM mutations')
    # ============ (2) merge table ==================================================================
    mismatch, tid_info, next_tid, replayed = [], {}, 1000000, 0
    for docs_name, smin, smax, drange in MERGE_EXH[tier]:
        ex = fut["exh_" + docs_name].result()
        if ex["violated"]:
            cex = ex["cex"]
            shown = ("\n".join("---\n" + S.render_doc(d) for d in cex["docs"]) + "\nmodel: " + json.dumps(cex["x"])) if cex else ex["raw"]["out"][-3000:]
            raise E.MachineryError(f"the merge specification violates {ex['violated']} on {docs_name}: AyMerge does not satisfy the table\n" + shown)
        uni, mbehs = ex["universe"], ex["behaviours"]
        cov["configs"].append({"module": "MC_C13", "universe": docs_name, "documents": len(uni), "stages": [smin, smax], "states": ex["states"],
                               "transitions": ex["transitions"], "behaviours": len(mbehs), "tlc_wall_s": round(ex["wall"], 1)})
        cov["states"] += ex["states"]
        cov["transitions"] += ex["transitions"]
        t0 = time.time()
        mism = E.replay(uni, mbehs)
        replayed += len(mbehs)
        cov["configs"][-1].update({"replay_wall_s": round(time.time() - t0, 1), "replay_disagreements": len(mism)})
        if mbehs:
            b = mbehs[len(mbehs) // 3]
            cov["samples"].append({"yaml": [S.render_doc(uni[i - 1]) for i in b["h"]], "expected_after_each_stage": b["x"]})
        for b in mbehs:
            ds = [uni[i - 1] for i in b["h"]]
            if merge_nontrivial(ds):
                nontrivial.add("m:" + E.sha(ds))
        for m in mism:
            docs = [uni[i - 1] for i in m["h"]]
            tid_info[next_tid] = (docs, m["s"])
            mismatch.append((next_tid, docs, m["s"]))
            next_tid += 1
        # witness: some history is inside the domain and decided by the table
        if docs_name == "C13_Docs3":
            exw = fut["witness13"].result()
            if "NotWitness13" not in exw["violated"]:
                raise E.MachineryError("MC_C13: no history of %s is judged by the table (the invariant would be vacuous)" % docs_name)
    cov["traces_validated_against_impl"] += replayed
    summary["merge_behaviours_replayed"] = replayed
    summary["merge_replay_disagreements"] = len(mismatch)

    _lap('M1 exhaustive+replay')
    n_rand = N_RANDOM[tier]["merge"]
    rng = random.Random(seed * 104729 + 5)
    hs = []
    for tid in range(1, n_rand + 1):
        docs, safes = gen_merge_history(rng, 4)
        hs.append((tid, docs, safes))
        tid_info[tid] = (docs, safes)
    traces = E.record(hs + mismatch)
    _lap('M2 record')
    rows, st = validate13(traces, wd, "mergetraces")
    cov["states"] += st["distinct"]
    cov["transitions"] += st["generated"]
    rejected = [t["tid"] for t in traces if t["tid"] not in rows]
    if rejected:
        raise E.MachineryError(f"{len(rejected)} merge traces were not consumed by Trace_C13, first tid {rejected[0]}")
    mv_ = Counter()
    bad = []
    for t in traces:
        tid = t["tid"]
        cmp_, pv, mv = rows[tid][:3]
        docs, safes = tid_info[tid]
        if mv == "violated" and pv != "violated":
            p = E.write_replay(PROP, docs, safes, {"verdict": list(rows[tid][:3]), "note": "MODEL violates the table"})
            raise E.MachineryError(f"AyMerge violates the table on recorded history {tid} (replay={p}): " + json.dumps([S.render_doc(d) for d in docs]))
        mv_[pv] += 1
        if pv == "violated":
            bad.append(tid)
        elif cmp_ != "ok":
            drift += 1
        if pv == "holds" and merge_nontrivial(docs):
            nontrivial.add("m:" + E.sha(docs))
    bad.sort(key=lambda t: len(json.dumps(tid_info[t][0])))
    seen = set()
    for tid in bad:
        docs, safes = tid_info[tid]
        p = E.write_replay(PROP, docs, safes, {"half": "merge", "verdict": list(rows[tid][:3]), "model": rows[tid][3]})
        if p not in seen:
            seen.add(p)
            violations.append(p)
    cov["traces_validated_against_impl"] += len(traces)
    cov["trace_validation_merge"] = {"traces": len(traces), "random": n_rand, "from_replay_disagreements": len(mismatch),
                                     "states": st["distinct"], "tlc_wall_s": round(st["wall"], 1), "property_verdicts": dict(mv_)}
    summary["merge_trace_verdicts"] = dict(mv_)
    t = traces[min(len(traces) - 1, 7)]
    cov["samples"].append({"recorded_history_yaml": [S.render_doc(x) for x in tid_info[t["tid"]][0]], "verdict": list(rows[t["tid"]][:3])})

    _lap('M3 validate')
    for mu in merge_mutations:
        ex = fut["mmut_" + mu["mutation"]].result()
        cov["mutations"].append({"mutation": mu["mutation"], "module": "MC_C13", "universe": "C13_Docs3", "refuted_by_tlc": bool(ex["violated"]),
                                 "violated": ex["violated"], "tlc_wall_s": round(ex["wall"], 1)})
        if not ex["violated"]:
            raise E.MachineryError(f"mutation {mu['mutation']} was NOT refuted by TLC on MC_C13: Inv_C13 is vacuous on that universe")

    _lap('MM mutations')
    # ============ verdict ==========================================================================
    for sw, hits in known_hits.items():
        fid, site, what = KNOWN[sw]
        b, d = hits[0]
        ex_txt = ""
        if b is not None:
            ex_txt = " e.g. def s%d(%s) <- %s" % (b["sig"], sig_text(sigs[b["sig"] - 1]), node_yaml(d, "s%d" % b["sig"])[-1].strip().replace("\n", " / "))
        known_lines.append(f"KNOWN-FINDING: property={PROP} {fid} {what} [{site}] ({len(hits)} cases;{ex_txt})")
    violations = violations[:20]
    cov["evaluations"] = builds + len(ftraces) + replayed + len(traces)
    cov["distinct_nontrivial"] = len(nontrivial)
    cov["drift_traces"] = drift
    cov["known_findings_hit"] = known_lines
    cov["known_switches"] = ks
    cov["rule"] = ("argument passing - A: every terminal state of MC_Func (10 signatures x every subset of positions 0..3 and names a b k z, "
                   "list forms of 0-4 elements, scalar and name-only forms, !call and !bind) replayed through Config.build with a "
                   "recording target of that signature, argument values static / cross-referenced / returned by nested calls / supplied "
                   "by a second stage, compared with inspect.signature(target).bind(*a, **k) resp. partial.func/.args/.keywords; "
                   "B: seeded random signatures (0-5 positional, defaults, *args, 0-3 keyword-only, **kwargs) x random key sets over "
                   "positions 0..7 and names, validated by TLC (Trace_Func). merge table - A: every history TLC enumerates over the named "
                   "universes replayed through Builder stage by stage; B: seeded random 2-4 stage histories validated by TLC (Trace_C13) "
                   "with the table evaluated on the logged outcomes. non-trivial = a node mixing integer and string keys or expected to "
                   "fail (A, func), a node with integer keys (B, func), a history of >= 2 documents containing a function node (merge); "
                   "distinct by content")
    return {"violations": violations, "known_lines": known_lines, "drift": drift, "level": "model_checking", "coverage": cov,
            "assumptions": ASSUME, "summary": summary}


def _sub(wd, name):
    p = os.path.join(wd, name)
    os.makedirs(p, exist_ok=True)
    return p


META = {"engine": "c13", "design_ref": "DESIGN.md 5/C13",
        "technique": "TLC model checking of AyFunc (node life: Write / Resolve / Invoke) and of AyBuild + AyMerge against the table oracle; "
                     "behaviour replay and trace validation against the library in both directions",
        "text": "AyFunc states _resolve_args step by step, Python's binding rule (PyBind) and the statement read per argument key; TLC checks "
                "PassesAsPython, BindIsPartial and PartialCompletes for every signature x key set x form x call/bind and prints every node "
                "life, which is replayed through Config.build against recording targets whose received arguments are bound by "
                "inspect.signature().bind; random signatures recorded from the library are validated by Trace_Func. The documented merge "
                "table is a declarative oracle (Props_C13, on top of C04's Protect/Spec) checked as Inv_C13 on the builder state machine "
                "(MC_C13) for every 2(3)-stage history of the universes, replayed through Builder, and evaluated by Trace_C13 on recorded "
                "random histories. Mutation cfgs (IndexReachesKwOnly, NoBreakAtVarargs, GapsCloseUp, KeywordWinsSilently; LoserFnMerges, "
                "DropNewKeys, ListsMergeByDefault, PruneAlways, PriorityGE) must be refuted.",
        "note": "trusted: TLC, CPython's binder and functools.partial, the YAML renderer; bounded universes; positional-only parameters, "
                "same-name string onto a function node, `!merge name`, !call <-> !bind and list <- function node are outside the stated domain"}
ENGINE = {"name": "c13", "path": "harness/c13.py, spec/AyFunc.tla, spec/MC_Func.tla, spec/Trace_Func.tla, spec/Props_C13.tla, spec/MC_C13.tla, "
                                 "spec/Trace_C13.tla, spec/GenUni_C13.tla",
          "serves_properties": ["C13"],
          "kind_free_text": "two TLC roots: MC_Func (the life of one function node over AyFunc) and MC_C13 (MC_Build + the table invariant); "
                            "direction A replays every printed behaviour through Config.build / Builder, direction B validates recorded "
                            "nodes / histories with Trace_Func / Trace_C13; reuses harness/engine.py (exhaustive, replay, record)"}
