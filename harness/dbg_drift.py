"""Show model-vs-library disagreements (drift) among a property's random histories. Usage: dbg_drift.py C04 [n] [seed]"""
import sys, os, json
sys.path.insert(0, os.path.dirname(os.path.abspath(__file__)))
import registry, builderfam, engine as E, tlc, sdoc as S
from dbg_conform import diff
prop = sys.argv[1]; n = int(sys.argv[2]) if len(sys.argv) > 2 else 1500; seed = int(sys.argv[3]) if len(sys.argv) > 3 else 0
spec = registry.BUILDER[prop]
hs = builderfam.histories_from_gen(spec["gen"], n, seed, spec.get("max_stages", 4))
traces = E.record(hs)
wd = tlc.workdir("drift")
rows, _ = E.validate(prop, traces, wd)
bad = [t for t in traces if rows[t["tid"]][0] != "ok"]
print("drift:", len(bad), "of", len(traces))
import drive
for t in sorted(bad, key=lambda t: len(json.dumps(t)))[:int(os.environ.get("SHOW", "3"))]:
    tid = t["tid"]; docs = hs[tid - 1][1]
    print("----", tid, rows[tid][:3])
    for d in docs: print(S.render_doc(d).rstrip()); print("  ---")
    outs = drive.stage_outcomes(docs)
    det = rows[tid][3]
    model = json.loads(det)["model"] if det else []
    for j, o in enumerate(outs):
        if j < len(model):
            print(" stage", j + 1, diff(o, builderfam._jfix(model[j]) if "err" not in model[j] else model[j], "")[:6])
tlc.cleanup(wd)
