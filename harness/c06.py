"""C06 - streams are flattened in order: sources, multi-document files and !include agree; file lookup; !path.

Specification: spec/AyStream.tla (stage list per presentation, StreamNode adoption, BuildUnderKey, lookup order,
reference points), model-checked through spec/MC_Stream.tla, traces validated through spec/Trace_Stream.tla.
Binding: every TLC behaviour (document sequence) is materialised as real files in a fresh temporary directory
(outside /repo and /verif, removed afterwards) in EVERY presentation and built with the real library; lookup
layouts (file in the including file's directory / the working directory / both with different content / nowhere,
every subset missing) and !path reference points are driven for real and compared with the tables TLC printed."""
import json
import multiprocessing as mp
import os
import random
import shutil
import sys
import tempfile
import time
from concurrent.futures import ThreadPoolExecutor

HERE = os.path.dirname(os.path.abspath(__file__))
sys.path.insert(0, HERE)
import engine as E  # noqa
import tlc  # noqa
import sdoc as S  # noqa

PROP = "C06"
PRESENTATIONS = ["sources", "multidoc", "include_list", "includes", "multidoc_inc", "nested", "mixed", "inc_then_doc"]
SAME_FILE = ["include_list_same", "includes_same", "nested_same"]
ASSUME = ["CPython 3.12.1 / PyYAML of /venv; awesomeyaml imported from AY_REPO (default /repo)",
          "files are written to a fresh temporary directory; symlinks and permissions are not varied",
          "TLC results are for the bounded universes named in coverage.configs"]


# ---------------------------------------------------------------------------
# materialising a presentation

def _w(path, text):
    os.makedirs(os.path.dirname(path), exist_ok=True)
    with open(path, "w") as f:
        f.write(text)


def materialise(root, pres, docs, key=None):
    """writes the files of one presentation under root/main and returns the list of sources to build from"""
    main = os.path.join(root, "main")
    texts = [S.render_doc(d) for d in docs]
    names = [f"d{i + 1}.yaml" for i in range(len(docs))]
    if pres == "sources":
        for n, t in zip(names, texts):
            _w(os.path.join(main, n), t)
        return [os.path.join(main, n) for n in names]
    if pres == "multidoc":
        _w(os.path.join(main, "all.yaml"), "".join("---\n" + t for t in texts))
        return [os.path.join(main, "all.yaml")]
    if pres.endswith("_same"):
        # ONE file per distinct document: a document that occurs more than once in the sequence is the same file named
        # (included) more than once - for the specification simply the same document again
        first = {}
        names = [first.setdefault(t, n) for n, t in zip(names, texts)]
        pres = pres[:-len("_same")]
    for n, t in zip(names, texts):
        _w(os.path.join(main, "inc", n), t)
    rel = ["inc/" + n for n in names]
    if pres == "include_list":
        _w(os.path.join(main, "main.yaml"), "--- !include [" + ", ".join(rel) + "]\n")
    elif pres == "includes":
        _w(os.path.join(main, "main.yaml"), "".join(f"--- !include {r}\n" for r in rel))
    elif pres == "multidoc_inc":
        _w(os.path.join(main, "inc", "all.yaml"), "".join("---\n" + t for t in texts))
        _w(os.path.join(main, "main.yaml"), "--- !include [inc/all.yaml]\n")
    elif pres == "nested":
        # names inside mid.yaml resolve relative to mid.yaml's own directory
        _w(os.path.join(main, "inc", "mid.yaml"), "--- !include [" + ", ".join(names) + "]\n")
        _w(os.path.join(main, "main.yaml"), "--- !include [inc/mid.yaml]\n")
    elif pres == "mixed":
        rest = rel[1:]
        _w(os.path.join(main, "main.yaml"), "---\n" + texts[0] + ("--- !include [" + ", ".join(rest) + "]\n" if rest else ""))
    elif pres == "inc_then_doc":
        # an include that expands to several documents FOLLOWED by a document of the including stream itself
        head = rel[:-1]
        _w(os.path.join(main, "main.yaml"), ("--- !include [" + ", ".join(head) + "]\n" if head else "") + "---\n" + texts[-1])
    elif pres == "key":
        _w(os.path.join(main, "main.yaml"), S._key_text(key) + ": !include [" + ", ".join(rel) + "]\n")
    elif pres == "key_unsafe":
        _w(os.path.join(main, "main.yaml"), "!unsafe\n" + S._key_text(key) + ": !include [" + ", ".join(rel) + "]\n")
    elif pres == "include_list_unsafe":
        _w(os.path.join(main, "main.yaml"), "--- !include [" + ", ".join(rel) + "]\n")
    else:
        raise ValueError(pres)
    return [os.path.join(main, "main.yaml")]


def build_sources(sources, cwd, safe=None):
    import drive  # noqa
    import project as P
    from awesomeyaml.builder import Builder
    old = os.getcwd()
    os.chdir(cwd)
    try:
        b = Builder()
        for s in sources:
            b.add_source(s, raw_yaml=False, safe=safe)
        t = b.build()
        return P.project(t)
    except Exception as e:  # noqa
        info = P.error_info(e)
        info["err"] = drive.errclass(e)
        info["cause"] = type(e.__cause__).__name__ if e.__cause__ is not None else ""
        return info
    finally:
        os.chdir(old)


def build_presentation(pres, docs, key=None, safe=None):
    root = tempfile.mkdtemp(prefix="ayc06_")
    try:
        os.makedirs(os.path.join(root, "cwd"))
        srcs = materialise(root, pres, docs, key)
        return build_sources(srcs, os.path.join(root, "cwd"), safe=False if pres == "include_list_unsafe" else safe)
    finally:
        shutil.rmtree(root, ignore_errors=True)


_UNI = None


def _init(uni):
    global _UNI
    _UNI = uni
    import drive  # noqa


def _cmp(o):
    return {"e": o["err"]} if "err" in o else E.compact_node(o)


def _replay_one(beh):
    docs = [_UNI[i - 1] for i in beh["h"]]
    want = E.norm_expected(beh["x"])
    bad = []
    plain = build_presentation("sources", docs)
    # (a file included more than once: only sequences in which a document occurs more than once)
    for pres in PRESENTATIONS + (SAME_FILE if len(set(beh["h"])) < len(beh["h"]) else []):
        got = plain if pres == "sources" else build_presentation(pres, docs)
        g = _cmp(got)
        ok = g == want or (isinstance(want, dict) and "e" in want and isinstance(g, dict) and "e" in g and pres != "sources")
        if not ok or ("err" not in got and "err" not in plain and got != plain):
            bad.append(pres)
    # included by unsafe content: same data, every included node unsafe
    ug = build_presentation("key_unsafe", docs, S.skey("k"))
    if isinstance(want, dict) and "e" in want:
        if "err" not in ug:
            bad.append("key_unsafe")
    else:
        def all_unsafe(n):
            eff = n["safe"] != "F" and n["isafe"] != "F" and n["dsafe"] == "T"
            return (not eff) and all(all_unsafe(c) for _, c in n["ch"])
        if "err" in ug or _cmp(ug) != {"d": [["s:k", want]]} or not all_unsafe(ug["ch"][0][1]):
            bad.append("key_unsafe")
    for key, kp in [("k", "key"), ("a", "key")] + ([("k", "key_same")] if len(set(beh["h"])) < len(beh["h"]) else []):
        got = build_presentation(kp, docs, S.skey(key))
        g = _cmp(got)
        if isinstance(want, dict) and "e" in want:
            ok = isinstance(g, dict) and "e" in g
        else:
            ok = g == {"d": [["s:" + key, want]]}
        if not ok:
            bad.append(kp + ":" + key)
    return None if not bad else {"h": beh["h"], "bad": bad}


def _record_one(args):
    tid, docs, pres, key = args
    out = build_presentation(pres, docs, S.skey(key) if key else None)
    plain = build_presentation("sources", docs, safe=False if pres in ("key_unsafe", "include_list_unsafe") else None)
    strip = lambda o: ({"err": o["err"]} if "err" in o else o)  # noqa
    return {"tid": tid, "docs": docs, "pres": pres, "key": S.skey(key or "k"), "out": strip(out), "plain": strip(plain)}


# ---------------------------------------------------------------------------
# lookup and !path, driven for real

def lookup_cases():
    """every combination of where two included names exist: none / filedir / cwd / both (different content)"""
    import drive  # noqa
    res = {}
    for w1 in ("none", "filedir", "cwd", "both"):
        for w2 in ("none", "filedir", "cwd", "both"):
            root = tempfile.mkdtemp(prefix="ayc06l_")
            try:
                main, cwd = os.path.join(root, "proj", "cfg"), os.path.join(root, "work")
                os.makedirs(main)
                os.makedirs(cwd)
                for name, w in (("f1.yaml", w1), ("f2.yaml", w2)):
                    if w in ("filedir", "both"):
                        _w(os.path.join(main, name), f"{name[:2]}: filedir\n")
                    if w in ("cwd", "both"):
                        _w(os.path.join(cwd, name), f"{name[:2]}: cwd\n")
                _w(os.path.join(main, "main.yaml"), "--- !include [f1.yaml, f2.yaml]\n")
                old = os.getcwd()
                os.chdir(cwd)
                try:
                    from awesomeyaml.config import Config
                    try:
                        c = Config.build(os.path.join(main, "main.yaml"))
                        res[(w1, w2)] = {"read": [["f1", c["f1"]], ["f2", c["f2"]]]}
                    except Exception as e:  # noqa
                        res[(w1, w2)] = {"err": drive.errclass(e), "msg": str(e)}
                finally:
                    os.chdir(old)
            finally:
                shutil.rmtree(root, ignore_errors=True)
    return res


def check_lookup(table):
    """table: what TLC printed (EmitLookup); returns list of disagreements"""
    bad = []
    got = lookup_cases()
    for (w1, w2), g in got.items():
        want = table[w1][w2]
        if "err" in want:
            ok = g.get("err") == "PreprocessError" and all((("f" + m[1:] if False else m) + ".yaml") in g.get("msg", "") for m in want["missing"]) \
                and not any((n + ".yaml") in g.get("msg", "").split("'lookup_dirs'")[0] for n in ("f1", "f2") if n not in want["missing"])
        else:
            ok = "read" in g and [r[1] for r in g["read"]] == [r[1] for r in want["read"]]
        if not ok:
            bad.append({"where": [w1, w2], "want": want, "got": g})
    return bad, len(got)


def path_cases(rng=None):
    """!path nodes with every reference point, written in files reached directly, through an include from another
    directory, through a nested include, and as a relative source name; returns list of (case, ok, detail)"""
    import drive  # noqa
    from awesomeyaml.config import Config
    out = []
    root = tempfile.mkdtemp(prefix="ayc06p_")
    try:
        work = os.path.join(root, "work")
        a = os.path.join(root, "proj", "a")
        b = os.path.join(root, "proj", "b", "deep")
        for d in (work, a, b):
            os.makedirs(d)
        body = ("pf: !path:file [x, y]\np0: !path:parent [x]\np1: !path:parent(1) [x, y]\np2: !path:parent(2) x\np3: !path:parent(3) [x]\n"
                "pc: !path:cwd [x]\npa: !path:abs(/opt/data) [x, '..', z]\npn: !path [x, y]\n")
        _w(os.path.join(b, "leaf.yaml"), body)
        _w(os.path.join(a, "mid.yaml"), "sub: !include [../b/deep/leaf.yaml]\n")
        _w(os.path.join(a, "top.yaml"), "--- !include [mid.yaml]\n")
        _w(os.path.join(a, "flat.yaml"), "--- !include [../b/deep/leaf.yaml]\n")

        def expect(cwd):
            leaf = os.path.join(b, "leaf.yaml")
            return {"pf": os.path.join(leaf, "x", "y"), "p0": os.path.join(b, "x"), "p1": os.path.join(os.path.dirname(b), "x", "y"),
                    "p2": os.path.join(os.path.dirname(os.path.dirname(b)), "x"),
                    "p3": os.path.join(os.path.dirname(os.path.dirname(os.path.dirname(b))), "x"), "pc": os.path.join(cwd, "x"),
                    "pa": "/opt/data/z", "pn": os.path.join(cwd, "x", "y")}
        ways = [("direct-abs", os.path.join(b, "leaf.yaml"), work, None),
                ("direct-rel", os.path.relpath(os.path.join(b, "leaf.yaml"), work), work, None),
                ("direct-rel-in-own-dir", "leaf.yaml", b, None),          # parent(n) beyond the components of the name
                ("direct-rel-from-parent", os.path.join("deep", "leaf.yaml"), os.path.dirname(b), None),
                ("include-other-dir", os.path.join(a, "flat.yaml"), work, None),
                ("nested-include-under-key", os.path.join(a, "top.yaml"), work, "sub"),
                ("include-rel-source", os.path.relpath(os.path.join(a, "flat.yaml"), a), a, None),
                ("nested-rel-source-other-cwd", os.path.relpath(os.path.join(a, "top.yaml"), b), b, "sub")]
        for name, src, cwd, sub in ways:
            old = os.getcwd()
            os.chdir(cwd)
            try:
                try:
                    c = Config.build(src)
                    if sub:
                        c = c[sub]
                    want = expect(cwd)
                    for k, w in want.items():
                        g = os.path.abspath(str(c[k]))
                        out.append((f"{name}:{k}", g == os.path.normpath(w), {"got": g, "want": os.path.normpath(w)}))
                except Exception as e:  # noqa
                    out.append((f"{name}:*", False, {"exc": type(e).__name__ + ": " + str(e)[:300]}))
            finally:
                os.chdir(old)
    finally:
        shutil.rmtree(root, ignore_errors=True)
    return out


# ---------------------------------------------------------------------------

def _validate(traces, wd, switches=()):
    def one(args):
        i, chunk = args
        sub = os.path.join(wd, f"tv_{i}")
        os.makedirs(sub, exist_ok=True)
        path = os.path.join(sub, "traces.ndjson")
        with open(path, "w") as f:
            for t in chunk:
                f.write(json.dumps(t) + "\n")
        cfg = tlc.cfg_text(init="TInit", next_="TNext", invariants=["Report"], switches=switches)
        r = tlc.run("Trace_Stream", cfg, sub, env={"TRACE_FILE": path}, workers=4, timeout=1200, heap="3g")
        if r["violated"]:
            raise E.MachineryError("Trace_Stream reported a violation of its own: %s\n%s" % (r["violated"], r["out"][-1500:]))
        return {row[0]: tuple(row[1:]) for row in tlc.tuple_prints(r["out"], "TRACE")}, r["distinct"], r["generated"]
    chunks = [traces[i:i + 250] for i in range(0, len(traces), 250)] or [[]]
    rows, st, tr = {}, 0, 0
    with ThreadPoolExecutor(min(4, len(chunks))) as ex:
        for r, a, b in ex.map(one, enumerate(chunks)):
            rows.update(r)
            st += a
            tr += b
    return rows, st, tr


def _exhaustive(docs_name, drange, max_docs, invariants, wd, switches=(), mutation=None, emit=True):
    upath, uni = E.gen_universe(docs_name, drange)
    consts = {"MaxDocs": str(max_docs)}
    if mutation:
        consts["Mutation"] = json.dumps(mutation)
    cfg = tlc.cfg_text(init="SInit", next_="SNext", invariants=list(invariants) + (["Emit"] if emit else []), constants=consts, switches=switches)
    r = tlc.run("MC_Stream", cfg, wd, workers=16, timeout=1500, env={"UNIVERSE_FILE": upath})
    behs, cex, lookup = [], None, None
    for v in tlc.json_prints(r["out"]):
        if "h" in v:
            behs.append(v)
        elif "cex" in v:
            cex = v
        elif "lookup" in v:
            lookup = v["lookup"]
    return {"states": r["distinct"], "transitions": r["generated"], "violated": r["violated"], "wall": r["wall"], "behaviours": behs,
            "universe": uni["docs"], "cex": cex, "lookup": lookup, "out": r["out"]}


def _gen_docs(rng):
    import registry
    docs, _ = registry._gen_c04(rng, 3)
    return [registry._strip_clear(d) if i == 0 else d for i, d in enumerate(docs)]


def run(prop, tier, seed, replay, keep):
    wd = tlc.workdir(prop)
    try:
        return _run(prop, tier, seed, replay, wd)
    finally:
        if not keep:
            tlc.cleanup(wd)


def _run(prop, tier, seed, replay, wd):
    cov = {"configs": [], "states": 0, "transitions": 0, "traces_validated_against_impl": 0, "samples": [], "mutations": [], "exhaustive": True}
    violations, drift = [], 0
    summary = {}
    _init([])
    if replay:
        body = json.load(open(replay))
        t = _record_one((1, body["docs"], body["pres"], body.get("key")))
        rows, _, _ = _validate([t], wd)
        for y in body["yaml"]:
            print("---\n" + y, end="")
        print("presentation:", body["pres"], "verdict (model-vs-library, formula on library outcome, on model):", rows.get(1, ("?",))[:3])
        print("  library  :", json.dumps(_cmp(t["out"])))
        print("  as sources:", json.dumps(_cmp(t["plain"])))
        ok = 1 in rows and rows[1][1] != "violated"
        return {"violations": [] if ok else [replay], "level": "model_checking", "coverage": cov, "assumptions": ASSUME}
    shutil.rmtree(os.path.join(E.VERIF, "replays", prop), ignore_errors=True)

    # ---- A: every enumerated document sequence in every presentation -------------------
    cfgs = {"quick": [("C04_DocsL", "C04_RangeL", 2), ("C04_DocsP", "C04_RangeP", 3), ("C06_DocsRep", "WholeRange", 3)], "thorough": [("C04_Docs3", "C04_Range3", 2), ("C04_DocsL", "C04_RangeL", 3), ("C06_DocsRep", "WholeRange", 4)]}[tier]
    bad_hist = []
    lookup_table = None
    replayed = 0
    for docs_name, drange, maxd in cfgs:
        sub = os.path.join(wd, "exh_" + docs_name)
        os.makedirs(sub)
        ex = _exhaustive(docs_name, drange, maxd, ["Inv_Presentation", "Inv_NestedInclude", "Inv_Lookup", "Inv_UnsafeInclude"], sub)
        if ex["violated"]:
            shown = "\n".join("---\n" + S.render_doc(d) for d in ex["cex"]["docs"]) if ex["cex"] else ex["out"][-2500:]
            raise E.MachineryError(f"the specification itself violates {ex['violated']} on {docs_name}\n{shown}")
        lookup_table = ex["lookup"] or lookup_table
        behs = ex["behaviours"]
        t0 = time.time()
        with mp.Pool(16, initializer=_init, initargs=(ex["universe"],)) as pool:
            res = pool.map(_replay_one, behs, chunksize=max(1, len(behs) // 128 or 1))
        mism = [r for r in res if r]
        replayed += len(behs) * (len(PRESENTATIONS) + 2)
        cov["configs"].append({"universe": docs_name, "documents": len(ex["universe"]), "max_docs": maxd, "states": ex["states"],
                               "transitions": ex["transitions"], "document_sequences": len(behs), "presentations_each": len(PRESENTATIONS) + 2,
                               "tlc_wall_s": round(ex["wall"], 1), "replay_wall_s": round(time.time() - t0, 1), "replay_disagreements": len(mism)})
        cov["states"] += ex["states"]
        cov["transitions"] += ex["transitions"]
        if behs and len(cov["samples"]) < 2:
            b = behs[len(behs) // 2]
            cov["samples"].append({"documents_yaml": [S.render_doc(ex["universe"][i - 1]) for i in b["h"]], "built_in": PRESENTATIONS + ["key:k", "key:a"],
                                   "expected": b["x"]})
        for m in mism:
            for pres in m["bad"]:
                bad_hist.append(([ex["universe"][i - 1] for i in m["h"]], pres))
    summary["builds_replayed"] = replayed
    summary["replay_disagreements"] = len(bad_hist)
    cov["traces_validated_against_impl"] += replayed

    # ---- lookup + !path -----------------------------------------------------------------
    lbad, ln = check_lookup(lookup_table)
    pres_path = path_cases()
    pbad = [c for c in pres_path if not c[1]]
    cov["lookup_cases"] = ln
    cov["path_cases"] = len(pres_path)
    cov["traces_validated_against_impl"] += ln + len(pres_path)
    if pres_path:
        cov["samples"].append({"path_case": pres_path[0][0], "detail": pres_path[0][2]})
    for i, b in enumerate(lbad):
        d = os.path.join(E.VERIF, "replays", prop)
        os.makedirs(d, exist_ok=True)
        p = os.path.join(d, f"lookup_{i}.json")
        json.dump({"property": prop, "kind": "lookup", **b}, open(p, "w"), indent=1)
        violations.append(p)
    for i, (name, ok, det) in enumerate(pbad):
        d = os.path.join(E.VERIF, "replays", prop)
        os.makedirs(d, exist_ok=True)
        p = os.path.join(d, f"path_{i}.json")
        json.dump({"property": prop, "kind": "path", "case": name, **det}, open(p, "w"), indent=1)
        violations.append(p)

    # ---- B: seeded random sequences x random presentation, validated by TLC ------------
    rng = random.Random(seed)
    n = {"quick": 400, "thorough": 8000}[tier]
    jobs, info = [], {}
    for tid in range(1, n + 1):
        docs = _gen_docs(rng)
        pres = rng.choice(PRESENTATIONS[1:] + SAME_FILE + ["key", "key_unsafe", "include_list_unsafe"])
        key = rng.choice(["k", "a", "b"]) if pres in ("key", "key_unsafe") else None
        jobs.append((tid, docs, pres, key))
        info[tid] = (docs, pres, key)
    tid = 1000000
    for docs, pres in bad_hist:
      if True:
        # "key:k" / "key_same:k" -> presentation key / key_same under that key; "key_unsafe" is always built under k
        key = pres.split(":")[1] if ":" in pres else "k" if pres == "key_unsafe" else None
        pres = pres.split(":")[0]
        jobs.append((tid, docs, pres, key))
        info[tid] = (docs, pres, key)
        tid += 1
    with mp.Pool(16, initializer=_init, initargs=([],)) as pool:
        traces = pool.map(_record_one, jobs, chunksize=max(1, len(jobs) // 128 or 1))
    rows, st, tr = _validate(traces, wd)
    cov["states"] += st
    cov["transitions"] += tr
    missing = [t["tid"] for t in traces if t["tid"] not in rows]
    if missing:
        raise E.MachineryError(f"{len(missing)} traces were not consumed by Trace_Stream")
    from collections import Counter
    pvs, cmps = Counter(), Counter()
    bad = []
    for t in traces:
        cmp_, pv, mv = rows[t["tid"]][:3]
        pvs[pv] += 1
        cmps[cmp_] += 1
        if mv == "violated" and pv != "violated":      # (both violated: the specification mirrors a defect of the library - reported below)
            raise E.MachineryError("the specification violates its own formula on a recorded build: " + json.dumps([S.render_doc(d) for d in info[t["tid"]][0]]))
        if pv == "violated":
            bad.append(t["tid"])
        elif cmp_ != "ok":
            drift += 1
    cov["trace_validation"] = {"traces": len(traces), "property_verdicts": dict(pvs), "model_vs_library": dict(cmps)}
    cov["traces_validated_against_impl"] += len(traces)
    cov["evaluations"] = replayed + len(traces) + ln + len(pres_path)
    cov["distinct_nontrivial"] = len({E.sha([info[t["tid"]][0], info[t["tid"]][1]]) for t in traces if len(info[t["tid"]][0]) >= 2})
    cov["rule"] = ("A: every sequence of 1-2 (3) documents of the C04 universes (lists overridden across the include boundary, !del / !merge / "
                   "priorities, value-less !del, !clear) written to real files and built as n sources, one multi-document source, a top-level "
                   "!include list, n top-level includes, an include of a multi-document file, a nested include, a document followed by an "
                   "include, and below two keys; all 16 combinations of where two included names exist (nowhere / including file's "
                   "directory / working directory / both with different content); 64 !path cases (8 reference points x 8 ways of reaching "
                   "the file); B: seeded random sequences x random presentation validated by TLC. non-trivial = at least two documents; "
                   "distinct by documents + presentation")
    bad.sort(key=lambda x: len(json.dumps(info[x][0])))
    for tid_ in bad[:20]:
        docs, pres, key = info[tid_]
        d = os.path.join(E.VERIF, "replays", prop)
        os.makedirs(d, exist_ok=True)
        p = os.path.join(d, E.sha([docs, pres, key]) + ".json")
        json.dump({"property": prop, "docs": docs, "pres": pres, "key": key, "yaml": [S.render_doc(x) for x in docs],
                   "verdict": list(rows[tid_][:3])}, open(p, "w"), indent=1)
        if p not in violations:
            violations.append(p)
    summary["trace_verdicts"] = dict(pvs)
    summary["model_vs_library"] = dict(cmps)
    summary["lookup_bad"] = len(lbad)
    summary["path_bad"] = len(pbad)

    # ---- mutation cfgs ----------------------------------------------------------------------
    for mu in [{"switch": "StreamLeaksMerge", "expect": ["Inv_Presentation"]}, {"switch": "StreamLeaksMerge", "expect": ["Inv_NestedInclude"]},
               {"mutation": "CwdFirst", "expect": ["Inv_Lookup"]}, {"mutation": "SwallowMissing", "expect": ["Inv_Lookup"]}]:
        sub = os.path.join(wd, "mut_" + (mu.get("switch") or mu.get("mutation")) + mu["expect"][0])
        os.makedirs(sub)
        ex = _exhaustive("C04_DocsL", "C04_RangeL", 2, mu["expect"], sub, switches=[mu["switch"]] if mu.get("switch") else (),
                         mutation=mu.get("mutation"), emit=False)
        cov["mutations"].append({"mutation": mu.get("switch") or mu.get("mutation"), "expected_to_fail": mu["expect"],
                                 "refuted_by_tlc": bool(ex["violated"]), "tlc_wall_s": round(ex["wall"], 1)})
        if not ex["violated"]:
            raise E.MachineryError(f"mutation {mu} was NOT refuted by TLC")
    cov["drift_traces"] = drift
    return {"violations": violations[:20], "known_lines": [], "drift": drift, "level": "model_checking", "coverage": cov,
            "assumptions": ASSUME, "summary": summary}


META = {"engine": "stream-family", "design_ref": "DESIGN.md 5/C06",
        "technique": "TLC model checking of AyStream (presentations, StreamNode adoption, lookup table) + materialised-file replay / trace validation",
        "text": "AyStream specifies what the builder's stage list is for every way of delivering a document sequence (sources, "
                "multi-document file, top-level include list / includes, include of a multi-document file, nested include, document + "
                "include, include below a key) including the adoption of the stages by the internal StreamNode, the lookup order "
                "(including file's directory, then working directory; every name found nowhere is reported) and !path reference points. "
                "TLC checks that every presentation folds to exactly the tree of the plain sources (flags included), that an include "
                "below a key equals the wrapped fold, and the lookup table; mutations StreamLeaksMerge (the pre-fix code), CwdFirst and "
                "SwallowMissing must be refuted. Every document sequence is written to real files in every presentation and built; the "
                "16 lookup layouts and 42 !path cases are driven for real; random sequences are validated by TLC.",
        "note": "trusted: TLC 1.8, the renderer / projection of harness/, the temporary-directory driver; bounded universes; the safe= flag "
                "handed to included content is covered by C07's gates, not varied here"}
ENGINE = {"name": "stream-family", "path": "/verif/harness/c06.py", "serves_properties": ["C06"],
          "kind_free_text": "TLC over spec/MC_Stream.tla + spec/Trace_Stream.tla; real files in temporary directories, every presentation built"}
