"""Run one exhaustive cfg of MC_Eval and show a refuting config.
Usage: cexe.py DOCS INVARIANTS MIN MAX [switches] [range] [maxevals] [PROPERTY]"""
import json, os, sys
sys.path.insert(0, os.path.dirname(os.path.abspath(__file__)))
import tlc, sdoc as S, engine as E
a = sys.argv
sw = [x for x in a[5].split(",") if x] if len(a) > 5 else []
wd = tlc.workdir("cexe")
try:
    props = [a[8]] if len(a) > 8 and a[8] else []
    ex = E.exhaustive("x", a[1], int(a[3]), int(a[4]), [x for x in a[2].split(",") if x], wd, switches=sw, emit=False, module="MC_Eval",
                      init=None if props else "MInit", next_=None if props else "MNext", spec="MSpec" if props else None, properties=props,
                      extra_consts={"MaxEvals": a[7] if len(a) > 7 and a[7] else "1"},
                      doc_range=(a[6] if len(a) > 6 and a[6] else "WholeRange"), timeout=int(os.environ.get("TLC_TIMEOUT", "1100")))
    print(f"universe={len(ex['universe'])} wall={ex['wall']:.1f}s generated={ex['transitions']} distinct={ex['states']} violated={ex['violated']}")
    v = ex["cex"]
    if v:
        print("counterexample to", v["cex"], "status", v.get("status"), "calls", v.get("calls"))
        for d in v["docs"]:
            print("---\n" + S.render_doc(d), end="")
    elif ex["violated"]:
        print(ex["raw"]["out"][-3000:])
finally:
    tlc.cleanup(wd)
