"""Bookkeeping for the seeded breaking changes under /verif/seeded/<id>/ (patch.diff, demo.py, meta.json).
  seeded.py import            copy the sub-agents' outputs from /tmp/seed/out, confirm each in a scratch worktree
  seeded.py run [ids...]      run the listed checks (meta.checks) against each seeded change, record who catches it
A change is never applied to /repo: a scratch worktree outside /repo and /verif is used and removed afterwards."""
import glob, json, os, shutil, subprocess, sys
VERIF = os.path.dirname(os.path.dirname(os.path.abspath(__file__)))
SEEDED = os.path.join(VERIF, "seeded")
WT = os.environ.get("SEEDED_WT", "/tmp/wt/seeded")      # (one scratch worktree per concurrent run)
PYTEST = "/venv/bin/python -m pytest -ra -q -p no:cacheprovider --timeout=900 --continue-on-collection-errors"


def sh(cmd, cwd=None, env=None, timeout=3600):
    e = dict(os.environ); e.update(env or {})
    p = subprocess.run(cmd, shell=True, cwd=cwd, env=e, stdout=subprocess.PIPE, stderr=subprocess.STDOUT, text=True, timeout=timeout)
    return p.returncode, p.stdout


def worktree():
    sh(f"git -C /repo worktree remove --force {WT}")
    rc, out = sh(f"git -C /repo worktree add --detach {WT} HEAD")
    assert rc == 0, out


def drop_worktree():
    sh(f"git -C /repo worktree remove --force {WT}")


def tests_tail(tree):
    rc, out = sh(PYTEST + " 2>&1 | tail -1", cwd=tree)
    return out.strip().split(" in ")[0]


def confirm(d):
    meta = json.load(open(os.path.join(d, "meta.json")))
    patch = os.path.join(d, "patch.diff")
    sh(f"git -C {WT} checkout -- .")
    base_tests = tests_tail(WT)
    rc0, out0 = sh(f"/venv/bin/python {os.path.join(d, 'demo.py')}", env={"PYTHONPATH": WT}, cwd=d, timeout=600)
    rc, out = sh(f"git -C {WT} apply {patch}")
    res = {"applies_to_head": rc == 0, "head": sh("git -C /repo rev-parse --short HEAD")[1].strip()}
    if rc == 0:
        res["tests_with_patch"] = tests_tail(WT)
        res["tests_without_patch"] = base_tests
        rc1, out1 = sh(f"/venv/bin/python {os.path.join(d, 'demo.py')}", env={"PYTHONPATH": WT}, cwd=d, timeout=600)
        res["demo_without_patch_exit"] = rc0
        res["demo_with_patch_exit"] = rc1
        res["confirmed"] = (res["tests_with_patch"] == base_tests and rc0 == 0 and rc1 != 0)
    else:
        res["confirmed"] = False
        res["apply_error"] = out[-300:]
    sh(f"git -C {WT} checkout -- .")
    meta["confirmation"] = res
    json.dump(meta, open(os.path.join(d, "meta.json"), "w"), indent=1)
    return res


def do_import():
    os.makedirs(SEEDED, exist_ok=True)
    worktree()
    try:
        srcs = sorted(x for x in glob.glob("/tmp/seed/out/C*/m[0-9]") + glob.glob("/tmp/seed2/out/C*/m[0-9]") + glob.glob("/tmp/seed3/out/C*/m[0-9]") + glob.glob("/tmp/seed4/out/C*/m[0-9]") if os.path.isdir(x))
        for src in srcs:
            prop, m = src.split("/")[-2:]
            d = os.path.join(SEEDED, f"{prop}-{'r2' if '/seed2/' in src else 'r3' if '/seed3/' in src else 'r4' if '/seed4/' in src else ''}{m}")
            if os.path.exists(os.path.join(d, "meta.json")) and "confirmation" in json.load(open(os.path.join(d, "meta.json"))) and "--force" not in sys.argv:
                continue
            os.makedirs(d, exist_ok=True)
            for fn in ("demo.py", "meta.json"):
                shutil.copy(os.path.join(src, fn), os.path.join(d, fn))
            rebased = os.path.join(src, "patch_rebased.diff")
            shutil.copy(rebased if os.path.exists(rebased) else os.path.join(src, "patch.diff"), os.path.join(d, "patch.diff"))
            meta = json.load(open(os.path.join(d, "meta.json")))
            meta.setdefault("breaks", prop)
            meta.setdefault("checks", [prop])
            json.dump(meta, open(os.path.join(d, "meta.json"), "w"), indent=1)
            r = confirm(d)
            print(prop, m, "confirmed" if r["confirmed"] else "NOT CONFIRMED", {k: v for k, v in r.items() if k != "head"})
    finally:
        drop_worktree()


def do_run(ids):
    worktree()
    try:
        for d in sorted(glob.glob(os.path.join(SEEDED, "*"))):
            name = os.path.basename(d)
            if ids and name not in ids:
                continue
            meta = json.load(open(os.path.join(d, "meta.json")))
            if not meta.get("confirmation", {}).get("applies_to_head"):
                print(name, "skipped (patch does not apply)")
                continue
            sh(f"git -C {WT} checkout -- .")
            rc, out = sh(f"git -C {WT} apply {os.path.join(d, 'patch.diff')}")
            if rc != 0:
                print(name, "skipped (patch no longer applies to HEAD):", out.strip().splitlines()[-1][:200])
                meta["no_longer_applies"] = out.strip()[-300:]
                json.dump(meta, open(os.path.join(d, "meta.json"), "w"), indent=1)
                continue
            results = meta.get("detection", {})
            for chk in meta.get("checks", [meta["breaks"]]):
                rc, out = sh(f"./check {chk} --tier quick 2>&1 | tail -2", cwd=VERIF, env={"AY_REPO": WT}, timeout=3000)
                results[chk] = {"exit": rc, "violation": "VIOLATION" in out, "tail": out.strip().splitlines()[-1][:300] if out.strip() else ""}
                print(name, chk, "CAUGHT" if "VIOLATION" in out else "missed", results[chk]["tail"][:160])
            sh(f"git -C {WT} checkout -- .")
            meta["detection"] = results
            json.dump(meta, open(os.path.join(d, "meta.json"), "w"), indent=1)
    finally:
        drop_worktree()


if __name__ == "__main__":
    if sys.argv[1] == "import":
        do_import()
    else:
        do_run(sys.argv[2:])
