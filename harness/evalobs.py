"""Observing one evaluation of a merged tree in the real library: status, plain data with exact
types, object identities, the call log (with the path of the node that made each call) and the order
of evaluate_node calls; plus the Config life cycle of C11."""
import os
import sys

HERE = os.path.dirname(os.path.abspath(__file__))
sys.path.insert(0, HERE)
import drive  # noqa  (puts the library on sys.path)
import sdoc as S  # noqa
import project as P  # noqa
import vmod  # noqa


class StepBoundExceeded(BaseException):
    pass


def _keys_of_prefix(prefix):
    from awesomeyaml.nodes.node_path import NodePath
    if prefix is None:
        return None
    if isinstance(prefix, str):
        return [S.key_of_py(c) for c in NodePath.get_list_path(prefix)]
    return [S.key_of_py(c) for c in prefix]


def make_ctx(bound, symbols=None):
    from awesomeyaml.eval_context import EvalContext
    from awesomeyaml.nodes.node import ConfigNode
    from awesomeyaml.nodes.function import FunctionNode

    class Ctx(EvalContext):
        def __init__(self):
            super().__init__(symbols)
            self.vlog = []
            self.vcalls = []
            self.vsteps = 0

        def get_node(self, *path, **kwargs):
            # reference chains are followed with get_node only: count those steps too
            self.vsteps += 1
            if self.vsteps > bound:
                raise StepBoundExceeded()
            return super().get_node(*path, **kwargs)

        def evaluate_node(self, cfgobj, prefix=None):
            if not isinstance(cfgobj, ConfigNode):
                return super().evaluate_node(cfgobj, prefix)
            self.vsteps += 1
            if self.vsteps > bound:
                raise StepBoundExceeded()
            keys = _keys_of_prefix(prefix)
            if keys is not None:
                self.vlog.append(keys)
            if type(cfgobj).__name__ == "ImportNode":
                r = super().evaluate_node(cfgobj, prefix)
                if not any(c[0] == str(cfgobj) and c[3] == (keys or []) for c in vmod.CALLS):
                    vmod.CALLS.append((str(cfgobj), (), (), keys or []))     # an import that went through, once per node
                return r
            if isinstance(cfgobj, FunctionNode):
                # the recording targets attribute each call to the innermost function node being evaluated
                vmod.STACK.append(keys or [])
                try:
                    return super().evaluate_node(cfgobj, prefix)
                finally:
                    vmod.STACK.pop()
            return super().evaluate_node(cfgobj, prefix)

    return Ctx()


def strict_atom(v):
    if v is None:
        return ["n", ""]
    t = type(v)
    if t is bool:
        return ["b", "T" if v else "F"]
    if t is int:
        return ["i", str(v)]
    if t is float:
        return ["f", repr(v)]
    if t is str:
        return ["s", v]
    return None


def strict_key(k):
    t = type(k)
    if t is int:
        return S.ikey(k)
    if t is float:
        return S.fkey(repr(k))
    if t is str:
        return S.skey(k)
    return {"t": "o", "n": 0, "s": t.__name__}


def plain_result(v, path, ids, issues):
    """Plain(k, v, ch) of an evaluated value; records id() per path and structural issues
    (node leaks, non-Bunch mappings, attribute access)."""
    import functools
    from awesomeyaml.nodes.node import ConfigNode
    from awesomeyaml.utils import Bunch
    ids.append([path, id(v)])
    if len(path) > 12 or len(ids) > 20000:
        # a result that contains itself (seen with a half-evaluated placeholder handed out by !eval), or one that is
        # unreasonably large for the configs of this harness (depth <= 5): do not walk it any further
        if not any(i[0] == "cyclic-or-huge-result" for i in issues):
            issues.append(["cyclic-or-huge-result", path[:4]])
        return {"k": "other:cyclic", "v": list(S.NOVAL), "ch": []}
    if isinstance(v, ConfigNode):
        issues.append(["node-leak", path, type(v).__name__])
    if isinstance(v, dict):
        if not isinstance(v, Bunch):
            issues.append(["not-bunch", path, type(v).__name__])
        ch = []
        for k, c in v.items():
            kk = strict_key(k)
            if kk["t"] == "o":
                issues.append(["key-type", path, kk["s"]])
            if isinstance(v, Bunch) and type(k) is str and k.isidentifier() and not k.startswith("_"):
                try:
                    if getattr(v, k) is not v[k]:
                        issues.append(["attr-differs", path + [kk]])
                except AttributeError:
                    issues.append(["attr-missing", path + [kk]])
            ch.append([kk, plain_result(c, path + [kk], ids, issues)])
        return {"k": "dict", "v": list(S.NOVAL), "ch": ch}
    if type(v) is list:
        return {"k": "list", "v": list(S.NOVAL), "ch": [[S.ikey(i), plain_result(c, path + [S.ikey(i)], ids, issues)] for i, c in enumerate(v)]}
    a = strict_atom(v)
    if a is not None:
        return {"k": "scalar", "v": a, "ch": []}
    if isinstance(v, vmod.Obj) or (callable(v) and getattr(v, "__module__", None) == "vmod"):
        return {"k": "obj", "v": list(S.NOVAL), "ch": []}      # what a recording target returned / an imported recording target
    if isinstance(v, functools.partial):
        # what the partial holds is observable: identities of the bound arguments (not part of the plain data)
        for i, a in enumerate(v.args):
            plain_result(a, path + [S.ikey(i)], ids, issues)
        for k, a in (v.keywords or {}).items():
            plain_result(a, path + [strict_key(k)], ids, issues)
        return {"k": "partial", "v": list(S.NOVAL), "ch": []}
    issues.append(["unexpected-type", path, type(v).__name__])
    return {"k": "other:" + type(v).__name__, "v": list(S.NOVAL), "ch": []}


def _is_atom(plain):
    return plain["k"] == "scalar"


def _walk(plain, path=()):
    yield list(path), plain
    for k, c in plain["ch"]:
        yield from _walk(c, tuple(path) + (k,))


def status_of_exception(e):
    import awesomeyaml.errors as errors
    chain = []
    x = e
    while x is not None and len(chain) < 12:
        chain.append(x)
        x = x.__cause__ or x.__context__
    if any(isinstance(x, errors.UnsafeError) for x in chain):
        return "UnsafeError"
    if isinstance(e, errors.EvalError):
        return "EvalError"
    if isinstance(e, errors.Error):
        return type(e).__name__
    return "Crash:" + type(e).__name__


def observe(tree, lifecycle=False):
    """tree: a merged ConfigDict.  Returns the outcome record (see EvalTrace.tla)."""
    from awesomeyaml.config import Config
    npaths = sum(1 for _ in tree.ayns.nodes_with_paths(include_self=True))
    # the specification's bound on evaluation steps, plus head-room for CPython's recursion limit: a reference to
    # a node that is being evaluated recurses ~1000 frames deep before it surfaces as an EvalError
    bound = 2 * npaths * npaths + 2 + 4000
    del vmod.CALLS[:]
    del vmod.STACK[:]
    ctx = make_ctx(bound)
    out = {"status": "done", "data": {"k": "none", "v": list(S.NOVAL), "ch": []}, "ids": [], "classes": [], "calls": [], "ev": [],
           "issues": [], "lifecycle": "ok"}
    before = P.project(tree)
    try:
        cfg = Config(tree, eval_ctx=ctx)
    except StepBoundExceeded:
        out["status"] = "Hang"
        return out
    except RecursionError:
        out["status"] = "EvalError"
        return out
    except ValueError as e:
        import awesomeyaml.errors as errors
        out["status"] = status_of_exception(e) if isinstance(e, errors.Error) else (
            "RequiredError" if str(e).startswith("The following required nodes") else "Crash:ValueError")
        out["ev"] = ctx.vlog
        out["calls"] = [[c[3] or [], c[0], _args_plain(c)] for c in vmod.CALLS]
        return out
    except Exception as e:  # noqa
        out["status"] = status_of_exception(e)
        out["ev"] = ctx.vlog
        out["calls"] = [[c[3] or [], c[0], _args_plain(c)] for c in vmod.CALLS]
        return out
    ids, issues = [], []
    data = plain_result(cfg, [], ids, issues)
    out["data"] = data
    out["issues"] = issues
    # what the calls received / the partials hold: the values of argument nodes are observable there
    arg_ids = []
    for idx, (fname, args, kwargs, p) in enumerate(vmod.CALLS):
        p = p or []
        for i, a in enumerate(args):
            plain_result(a, list(p) + [S.ikey(i)], arg_ids, [])
        for k, a in kwargs:
            plain_result(a, list(p) + [strict_key(k)], arg_ids, [])
    # dense ids
    dense = {}
    out["ids"] = [[p, dense.setdefault(i, len(dense) + 1)] for p, i in ids]
    seen_paths = {tuple(map(_kt, p)) for p, _ in out["ids"]}
    out["arg_ids"] = [[p, dense.setdefault(i, len(dense) + 1)] for p, i in arg_ids if tuple(map(_kt, p)) not in seen_paths]
    atoms = {tuple(map(_kt, p)) for p, pl in _walk(data) if _is_atom(pl)}
    data_paths = {tuple(map(_kt, p)) for p, pl in _walk(data)}
    groups = {}
    for p, i in out["ids"]:
        if tuple(map(_kt, p)) in atoms or tuple(map(_kt, p)) not in data_paths:
            continue
        groups.setdefault(i, []).append(p)
    out["classes"] = sorted(groups.values(), key=lambda g: str(g))
    out["calls"] = [[c[3] or [], c[0], _args_plain(c)] for c in vmod.CALLS]
    out["ev"] = ctx.vlog
    out["ids"] = out["ids"] + out.pop("arg_ids")
    if P.project(tree) != before:
        out["issues"].append(["source-modified-by-evaluation"])
    if issues:
        out["lifecycle"] = "issues"
    if lifecycle:
        out["lifecycle"] = lifecycle_check(cfg, tree, data, out["ids"], atoms, ctx) if not issues else "issues"
    return out


def _kt(k):
    return (k["t"], k["n"], k["s"])


def _args_plain(c):
    """what a call received, as [[key, plain data], ...]"""
    out = []
    for i, a in enumerate(c[1]):
        out.append([S.ikey(i), plain_result(a, [], [], [])])
    for k, a in c[2]:
        out.append([strict_key(k), plain_result(a, [], [], [])])
    return out


def _value_at(v, path):
    for k in path:
        v = v[S.key_py(k)]
    return v


def lifecycle_check(cfg, tree, data, ids, atoms, ctx=None):
    """C11: the kept source is the merged tree; evaluating it again gives an equal, disjoint result;
    mutating a result never changes the source or later evaluations - with a fresh evaluation context and with
    the very context object that evaluated the first result (`eval_ctx=` is part of the public interface)."""
    from awesomeyaml.config import Config
    if not tree:
        return "ok"      # an empty config keeps no source at all (Config.__init__ skips evaluation): nothing to re-evaluate
    src = cfg.ayns.source
    if src is not tree:
        return "source-not-kept"
    p0 = P.project(src)
    del vmod.CALLS[:]
    cfg2 = Config(src)
    ids2, issues2 = [], []
    data2 = plain_result(cfg2, [], ids2, issues2)
    if issues2:
        return "issues-on-reevaluation"
    if data2 != data:
        return "reevaluation-differs"
    first = {i for p, i in _raw_ids(cfg) if not _atomic(i_obj=None, p=p, atoms=atoms)}
    second = {i for p, i in _raw_ids(cfg2) if not _atomic(i_obj=None, p=p, atoms=atoms)}
    if first & second:
        return "results-share-objects"
    # mutate the first result everywhere we can
    _mutate(cfg)
    if P.project(src) != p0:
        return "mutation-reached-source"
    ids3, issues3 = [], []
    cfg3 = Config(src)
    if plain_result(cfg3, [], ids3, issues3) != data:
        return "mutation-reached-later-evaluation"
    if ctx is not None:
        ctx.vsteps = 0
        del ctx.vlog[:]
        cfg4 = Config(src, eval_ctx=ctx)         # the context that produced the (now mutated) first result
        ids4 = []
        if plain_result(cfg4, [], ids4, []) != data:
            return "same-context-reevaluation-differs"
        if {i for p, i in _raw_ids(cfg4) if p not in atoms} & first:
            return "same-context-results-share-objects"
    ids2b = []
    if plain_result(cfg2, [], ids2b, []) != data:
        return "mutation-reached-other-result"
    return "ok"


def _raw_ids(v, path=()):
    yield tuple(map(_kt_of, path)), id(v)
    if isinstance(v, dict):
        for k, c in v.items():
            yield from _raw_ids(c, path + (strict_key(k),))
    elif type(v) is list:
        for i, c in enumerate(v):
            yield from _raw_ids(c, path + (S.ikey(i),))


def _kt_of(k):
    return (k["t"], k["n"], k["s"])


def _atomic(i_obj, p, atoms):
    return p in atoms


def _mutate(v):
    if isinstance(v, dict):
        for c in list(v.values()):
            _mutate(c)
        v["mutated"] = 99
    elif type(v) is list:
        for c in v:
            _mutate(c)
        v.append(99)
