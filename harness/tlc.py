"""Running TLC and reading what it says."""
import json
import os
import re
import shutil
import subprocess
import tempfile
import time

VERIF = os.path.dirname(os.path.dirname(os.path.abspath(__file__)))
SPEC = os.path.join(VERIF, "spec")
JAR = "/opt/veriftools/tla/tla2tools.jar"
WORK = os.path.join(VERIF, "work")

DEVIATIONS = ["DeepWrapRefills", "ShallowPriority", "AbsLookup", "FnTruthyWhenEmpty",
              "StreamLeaksMerge", "DefaultSafeOverwrite", "ClearDropsDelTagged", "NoCycleCheck"]


class TLCError(Exception):
    pass


def workdir(name):
    os.makedirs(WORK, exist_ok=True)
    d = tempfile.mkdtemp(prefix=name + "_", dir=WORK)
    return d


def cleanup(d):
    shutil.rmtree(d, ignore_errors=True)


def classpath():
    cm = "/opt/veriftools/tla/CommunityModules-deps.jar"
    cands = [JAR] + [os.path.join("/opt/veriftools/tla", f) for f in sorted(os.listdir("/opt/veriftools/tla")) if f.endswith(".jar") and "tla2tools" not in f]
    return ":".join(cands)


def cfg_text(spec=None, init=None, next_=None, constants=None, invariants=(), properties=(), constraint=None,
             view=None, deadlock=False, postcondition=None, switches=None, action_constraint=None):
    lines = []
    if spec:
        lines.append(f"SPECIFICATION {spec}")
    else:
        lines.append(f"INIT {init}")
        lines.append(f"NEXT {next_}")
    consts = {d: "FALSE" for d in DEVIATIONS}
    consts["Mutation"] = '"none"'
    if switches:
        for s in switches:
            consts[s] = "TRUE"
    if constants:
        consts.update(constants)
    lines.append("CONSTANTS")
    for c, v in consts.items():
        if isinstance(v, str) and v.startswith("<-"):
            lines.append(f"  {c} {v}")
        else:
            lines.append(f"  {c} = {v}")
    for i in invariants:
        lines.append(f"INVARIANT {i}")
    for p in properties:
        lines.append(f"PROPERTY {p}")
    if constraint:
        lines.append(f"CONSTRAINT {constraint}")
    if action_constraint:
        lines.append(f"ACTION_CONSTRAINT {action_constraint}")
    if view:
        lines.append(f"VIEW {view}")
    if postcondition:
        lines.append(f"POSTCONDITION {postcondition}")
    lines.append(f"CHECK_DEADLOCK {'TRUE' if deadlock else 'FALSE'}")
    return "\n".join(lines) + "\n"


_STATS = re.compile(r"(\d+) states generated, (\d+) distinct states found, (\d+) states left on queue")
_DEPTH = re.compile(r"The depth of the complete state graph search is (\d+)")


def run(module, cfg, wd, workers=16, timeout=1200, env=None, simulate=None, depth=None, coverage=False,
        seed=None, extra=(), heap="8g", dfs=False):
    """Runs TLC on spec/<module>.tla with the cfg text; returns a result dict.
    Raises TLCError on parse errors / crashes / timeouts (machinery failure)."""
    cfg_path = os.path.join(wd, module + ".cfg")
    with open(cfg_path, "w") as f:
        f.write(cfg)
    # TLC wants the root module next to the cfg; copy the spec directory
    for fn in os.listdir(SPEC):
        if fn.endswith(".tla"):
            shutil.copy(os.path.join(SPEC, fn), os.path.join(wd, fn))
    tmp = os.path.join(wd, "tmp")
    os.makedirs(tmp, exist_ok=True)
    jopts = [f"-Xmx{heap}", "-XX:+UseParallelGC", f"-Djava.io.tmpdir={tmp}"]
    if dfs:
        jopts.append("-Dtlc2.tool.queue.IStateQueue=StateDeque")
    cmd = ["java"] + jopts + ["-cp", classpath(), "tlc2.TLC", "-metadir", os.path.join(wd, "states"),
                              "-noGenerateSpecTE", "-workers", str(workers), "-config", cfg_path]
    if coverage:
        cmd += ["-coverage", "1"]
    if simulate:
        cmd += ["-simulate", simulate]
        if depth:
            cmd += ["-depth", str(depth)]
    if seed is not None:
        cmd += ["-seed", str(seed)]
    cmd += list(extra)
    cmd.append(os.path.join(wd, module + ".tla"))
    e = dict(os.environ)
    if env:
        e.update(env)
    t0 = time.time()
    try:
        p = subprocess.run(cmd, cwd=wd, env=e, stdout=subprocess.PIPE, stderr=subprocess.STDOUT, timeout=timeout, text=True, errors="replace")
    except subprocess.TimeoutExpired as ex:
        subprocess.run(["pkill", "-f", os.path.join(wd, module + ".tla")])
        raise TLCError(f"TLC timed out after {timeout}s on {module}")
    out = p.stdout
    with open(os.path.join(wd, module + ".out"), "w") as f:
        f.write(out)
    res = {"out": out, "rc": p.returncode, "wall": time.time() - t0, "generated": 0, "distinct": 0, "depth": 0,
           "violated": [], "prints": [], "cmd": " ".join(cmd)}
    for m in _STATS.finditer(out):
        res["generated"], res["distinct"] = int(m.group(1)), int(m.group(2))
    m = _DEPTH.search(out)
    if m:
        res["depth"] = int(m.group(1))
    for m in re.finditer(r"Invariant (\S+) is violated", out):
        res["violated"].append(m.group(1))
    for m in re.finditer(r"Action property (\S+) is violated", out):
        res["violated"].append(m.group(1))
    for m in re.finditer(r"Temporal property (\S+) was violated", out):
        res["violated"].append(m.group(1))
    if "Temporal properties were violated" in out:
        res["violated"].append("<temporal>")
    if re.search(r"Error: (Parsing or semantic analysis failed|TLC threw|The exception was|Evaluating|Attempted|In evaluation|TLC encountered)", out) or \
            "java.lang." in out and "Exception" in out:
        if not res["violated"]:
            raise TLCError(f"TLC failed on {module}:\n" + out[-4000:])
    if "Deadlock reached" in out:
        res["violated"].append("<deadlock>")
    if p.returncode not in (0, 12, 13) and not res["violated"]:
        if "Model checking completed" not in out and not simulate:
            raise TLCError(f"TLC exit {p.returncode} on {module}:\n" + out[-4000:])
    return res


def json_prints(out, marker=None):
    """JSON objects printed with PrintT(ToJson(..)) - one TLA+ string literal per line."""
    res = []
    for line in out.splitlines():
        line = line.strip()
        if len(line) > 2 and line[0] == '"' and line[-1] == '"':
            try:
                v = json.loads(json.loads(line))
            except Exception:
                continue
            if marker is None or (isinstance(v, dict) and marker in v):
                res.append(v)
    return res


def tuple_prints(out, head):
    """Lines of the form <<"HEAD", a, b, ...>> with int / string fields."""
    res = []
    pat = re.compile(r'^<<"' + re.escape(head) + r'", (.*)>>$')
    for line in out.splitlines():
        m = pat.match(line.strip())
        if m:
            try:
                res.append(json.loads("[" + m.group(1) + "]"))
            except Exception:
                res.append([m.group(1)])
    return res


def coverage_counts(out):
    """Per-action counts from -coverage output: {action: (distinct, total)}"""
    res = {}
    for m in re.finditer(r"<(\w+) line \d+, col \d+ to line \d+, col \d+ of module (\w+)>: (\d+):(\d+)", out):
        res[m.group(1)] = (int(m.group(3)), int(m.group(4)))
    return res


def sany(module):
    cmd = ["java", "-cp", classpath(), "tla2sany.SANY", os.path.join(SPEC, module + ".tla")]
    p = subprocess.run(cmd, cwd=SPEC, stdout=subprocess.PIPE, stderr=subprocess.STDOUT, text=True)
    ok = p.returncode == 0 and "Semantic errors" not in p.stdout and "*** Errors" not in p.stdout and "Fatal" not in p.stdout
    return ok, p.stdout
