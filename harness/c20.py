"""C20 - concurrent builds in different threads do not influence each other.

Specification: spec/AyThreads.tla (PlusCal, translated), spec/MC_AyThreads.tla (marker-grain grouping,
history, preemption bound), spec/Trace_AyThreads.tla (direction B), spec/Sched.tla (generic preemption-bounded
schedules over measured step counts).

Binding
  A (spec -> code): TLC prints every interleaving (of the marker-grain steps) as a sequence of thread ids with the
     abstract state after every step; the harness runs REAL threads under a cooperative scheduler (sys.settrace),
     a thread runs only when the schedule names it, and after every step the thread's own view of the three slots
     (ConfigNode._default_filename / _default_safe / errors._api_entered), the step kind and the node just created are
     compared with what TLC computed; at the end nodes and errors are compared with the sequential build.
     thorough: schedules with <= 2 preemptions at any traced line (enumerated by TLC from Sched.tla).
  B (code -> spec): marker event streams of real runs under seeded random line-level preemption are validated by TLC
     against Trace_AyThreads (the property is evaluated on the logged nodes / views / error reports too).
"""
import collections
import hashlib
import json
import multiprocessing
import os
import random
import shutil
import sys
import tempfile
import threading
import time

HERE = os.path.dirname(os.path.abspath(__file__))
if HERE not in sys.path:
    sys.path.insert(0, HERE)
VERIF = os.path.dirname(HERE)
REPO = os.environ.get("AY_REPO", "/repo")
if REPO not in sys.path:
    sys.path.insert(0, REPO)

PROP = "C20"

# ---------------------------------------------------------------------------------------------------------------
# the inputs: one "job" per thread = files + the program  Builder().add_source(main, safe=..) [; .build()]
#
# The job records of MC_AyThreads.tla describe exactly these inputs:
#   n      : number of ConfigNode.__init__ calls the parse of the main file makes (before it fails, if it fails)
#   fail   : the main file does not parse (unknown tag) -> ParsingError out of add_source
#   inc    : "none" | "ok" (main file holds `i: !include <inc file>`) | "missing" | "bad" (the included file fails)
#   incn   : node count of the included file
#   build  : whether build() is called after add_source
# The node counts are MEASURED on the sequential reference run and compared with the job record (shape conformance).

JOBS = {
    # name: (main text, inc text or None, spec record)
    "plain1":  ("{}\n", None, dict(n=1, fail=False, inc="none", incn=0)),
    "plain3":  ("x: 1\n", None, dict(n=3, fail=False, inc="none", incn=0)),
    "badtag":  ("x: !nosuch 1\n", None, dict(n=2, fail=True, inc="none", incn=0)),
    "badroot": ("!nosuch 1\n", None, dict(n=0, fail=True, inc="none", incn=0)),
    "include": ("i: !include {inc}\n", "{}\n", dict(n=3, fail=False, inc="ok", incn=1)),
    "missing": ("i: !include {inc}\n", None, dict(n=3, fail=False, inc="missing", incn=0)),
    "incbad":  ("i: !include {inc}\n", "p: !nosuch 1\n", dict(n=3, fail=False, inc="bad", incn=2)),
}

UNSET = "<unset>"


def job_record(job):
    """the record MC_AyThreads uses for this job: name, safe flag, build or not"""
    name, safe, build = job
    r = dict(JOBS[name][2])
    r.update(name=name, safe=bool(safe), build=bool(build))
    return r


class Files:
    """temporary files of one worker process (outside /repo and /verif, removed afterwards)"""

    def __init__(self, parent=None):
        self.dir = tempfile.mkdtemp(prefix="c20_", dir=parent)
        self.made = {}

    def paths(self, t, name):
        key = (t, name)
        if key not in self.made:
            main_text, inc_text, _ = JOBS[name]
            main = os.path.join(self.dir, f"t{t}_{name}_main.yaml")
            inc = os.path.join(self.dir, f"t{t}_{name}_inc.yaml")
            with open(main, "w") as f:
                f.write(main_text.replace("{inc}", os.path.basename(inc)))
            if inc_text is not None:
                with open(inc, "w") as f:
                    f.write(inc_text)
            self.made[key] = (main, inc)
        return self.made[key]

    def norm(self, s):
        """file names / messages without the per-process directory and thread prefix"""
        if s is None or s is UNSET:
            return s
        return str(s).replace(self.dir + os.sep, "").replace(self.dir, "<tmp>")

    def close(self):
        shutil.rmtree(self.dir, ignore_errors=True)


# ---------------------------------------------------------------------------------------------------------------
# the cooperative scheduler

_AY = None


def _lib():
    """imports the library (all node modules, so that no import happens under the scheduler) once per process"""
    global _AY
    if _AY is None:
        import awesomeyaml  # noqa
        import awesomeyaml.yaml  # noqa
        import awesomeyaml.nodes.stream  # noqa
        from awesomeyaml.builder import Builder
        from awesomeyaml.nodes.node import ConfigNode
        from awesomeyaml import errors
        aydir = os.path.join(os.path.realpath(os.path.dirname(awesomeyaml.__file__)), "")
        _AY = dict(Builder=Builder, ConfigNode=ConfigNode, errors=errors, dir=aydir)
    return _AY


# marker functions, recognised by file (relative to the package) and function name - never by line number
MARKERS = {
    ("nodes/node.py", "default_filename"): "df",
    ("nodes/node.py", "default_safe_flag"): "dsf",
    ("errors.py", "impl"): "impl",
    ("nodes/node.py", "__init__"): "init",
    ("builder.py", "add_source"): "add_source",
}
_VISIBLE_START = {("call", "dsf"): "SetSafe", ("call", "df"): "SetFile", ("call", "init"): "NewNode",
                  ("resume", "df"): "RestoreFile", ("resume", "dsf"): "RestoreSafe"}
_YIELD_OPS = None


def _is_yield(frame):
    global _YIELD_OPS
    if _YIELD_OPS is None:
        import dis
        _YIELD_OPS = {dis.opmap[n] for n in ("YIELD_VALUE",) if n in dis.opmap}
    li = frame.f_lasti
    return li >= 0 and frame.f_code.co_code[li] in _YIELD_OPS


class MachineryError(Exception):
    pass


class ThreadState:
    def __init__(self, t):
        self.t = t
        self.done = False
        self.started = False
        self.seg = None          # (event kind, marker, frame) of the last marker event
        self.susp = {}           # id(frame) -> frame of suspended marker generators
        self.lines = 0
        self.quota = 0
        self.unit = "vis"
        self.steps = []          # visible steps: dict(a=.., f=.., s=.., e=.., node=..)
        self.created = []        # nodes created, in order: (type, source_file, _default_safe)
        self.final = None
        self.exc = None
        self.result = None
        self.used = 0


class Run:
    """One controlled execution of len(programs) threads.
    blocks: list of [t, quota, unit] (unit "vis": marker-grain steps, "line": traced lines; quota 0 = until the thread
    ends).  After the last block the unfinished threads run to completion in id order.
    rng: instead of blocks, seeded random line-level preemption (the realised blocks are recorded in self.realised and
    are a deterministic replay of the run).
    The running thread itself passes the baton at its park points (a thread runs only while it holds it)."""

    def __init__(self, programs, blocks, line_filter=None, rng=None, quanta=None, timeout=30.0):
        self.lib = _lib()
        self.programs = programs          # {t: callable() -> result}
        self.blocks = compress(blocks)
        self.bi = 0
        self.th = {t: ThreadState(t) for t in programs}
        self.sem = {t: threading.Semaphore(0) for t in programs}
        self.ctrl = threading.Semaphore(0)
        self.global_steps = []            # (t, index in th[t].steps) in global order
        self.line_filter = line_filter    # None: marker grain only; else predicate(relative file name) -> lines are counted
        self.rng = rng
        self.quanta = quanta or (1, 2, 3, 5, 8, 13, 21, 34, 55, 89, 144, 233, 377)
        self.timeout = timeout
        self.realised = []
        self.diverged = False
        self.running = None
        self.failure = None

    # -- views of the running thread ---------------------------------------------------------------------------
    def views(self):
        CN, er = self.lib["ConfigNode"], self.lib["errors"]
        return (getattr(CN._default_filename, "value", UNSET), getattr(CN._default_safe, "value", UNSET),
                getattr(er._api_entered, "value", UNSET))

    # -- passing the baton -------------------------------------------------------------------------------------
    def _close_block(self):
        st = self.running
        if st is not None and self.rng is not None:
            self.realised.append([st.t, 0 if st.done else st.used, "line"])

    def _advance(self):
        """who runs next (None: everybody is done); called by the thread that holds the baton"""
        self._close_block()
        order = sorted(self.th)
        while True:
            live = [t for t in order if not self.th[t].done]
            if not live:
                self.running = None
                return None
            if self.rng is not None:
                t, quota, unit = self.rng.choice(live), self.rng.choice(self.quanta), "line"
            elif self.bi < len(self.blocks):
                t, quota, unit = self.blocks[self.bi][:3]
                self.bi += 1
                if self.th[t].done:
                    self.diverged = True      # the schedule names a thread that has already finished
                    continue
            else:
                t, quota, unit = live[0], 0, "vis"
            nxt = self.th[t]
            nxt.quota, nxt.unit, nxt.used = quota, unit, 0
            self.running = nxt
            return nxt

    def _wait(self, st):
        if not self.sem[st.t].acquire(timeout=self.timeout):
            raise MachineryError("thread %d starved" % st.t)

    def _park(self, st):
        nxt = self._advance()
        if nxt is st:
            return
        if nxt is None:       # cannot happen: st itself is not done
            raise MachineryError("no runnable thread")
        self.sem[nxt.t].release()
        self._wait(st)

    # -- tracing -----------------------------------------------------------------------------------------------
    def _tracer(self, st):
        aydir = self.lib["dir"]
        n = len(aydir)
        line_filter = self.line_filter
        run = self

        def on_line(frame, event, arg):
            if event == "line":
                run._line(st)
            return on_line

        def marker_ret(frame):
            m = MARKERS[(frame.f_code.co_filename[n:], frame.f_code.co_name)]
            if m in ("df", "dsf") and _is_yield(frame):
                st.susp[id(frame)] = frame
                run._marker(st, "yield", m, frame)
            else:
                run._marker(st, "ret", m, frame)

        def marker_local(frame, event, arg):
            if event == "return":
                marker_ret(frame)
            return marker_local

        def marker_local_lines(frame, event, arg):
            if event == "return":
                marker_ret(frame)
            elif event == "line":
                run._line(st)
            return marker_local_lines

        def on_call(frame, event, arg):
            code = frame.f_code
            fn = code.co_filename
            if not fn.startswith(aydir) or code.co_name == "<module>":
                return None
            rel = fn[n:]
            m = MARKERS.get((rel, code.co_name))
            if m is None:
                if line_filter is not None and line_filter(rel):
                    return on_line
                return None
            if st.susp.pop(id(frame), None) is frame:
                run._marker(st, "resume", m, frame)
            else:
                run._marker(st, "call", m, frame)
            if line_filter is not None and line_filter(rel):
                return marker_local_lines
            return marker_local

        return on_call

    def _line(self, st):
        st.lines += 1
        if st.unit == "line":
            st.used += 1
            if st.quota and st.used >= st.quota:
                self._park(st)

    def _marker(self, st, ev, m, frame):
        s = st.seg
        name = None
        kind = None
        if s is not None and s[0] == "call" and s[1] == "impl":
            name = "EnterLeave" if (ev == "ret" and m == "impl" and s[2] is frame) else "Enter"
            kind = s[3]
        elif s is not None and (s[0], s[1]) in _VISIBLE_START:
            name = _VISIBLE_START[(s[0], s[1])]
        elif ev == "ret" and m == "impl":
            name = "Leave"
        extra = None
        if ev == "call" and m == "impl":
            fn = frame.f_locals.get("fn")
            extra = getattr(fn, "__name__", "?")
        st.seg = (ev, m, frame, extra)
        if name is None:
            return
        f, sf, e = self.views()
        step = {"a": name, "f": f, "s": sf, "e": e, "k": kind}
        if name == "NewNode":
            node = s[2].f_locals.get("self")
            rec = (type(node).__name__, getattr(node, "_source_file", UNSET), getattr(node, "_default_safe", UNSET))
            st.created.append(rec)
            step["node"] = rec
        step["n"] = len(st.created)
        st.steps.append(step)
        self.global_steps.append((st.t, len(st.steps) - 1))
        if st.unit == "vis":
            st.used += 1
            if st.quota and st.used >= st.quota:
                self._park(st)

    # -- threads -----------------------------------------------------------------------------------------------
    def _worker(self, st):
        try:
            self._wait(st)
            sys.settrace(self._tracer(st))
            try:
                st.result = self.programs[st.t]()
            except MachineryError as e:
                self.failure = e
            except BaseException as e:  # noqa - the program's own outcome
                st.exc = e
            finally:
                sys.settrace(None)
            st.seg = None
            st.susp.clear()
            st.final = self.views()
        except BaseException as e:  # noqa
            self.failure = e
        finally:
            st.done = True
            nxt = None
            try:
                nxt = self._advance()
            finally:
                if nxt is None:
                    self.ctrl.release()
                else:
                    self.sem[nxt.t].release()

    def go(self):
        threads = []
        for t, st in self.th.items():
            th = threading.Thread(target=self._worker, args=(st,), daemon=True, name="c20-%d" % t)
            threads.append(th)
            th.start()
        nxt = self._advance()
        if nxt is not None:
            self.sem[nxt.t].release()
            if not self.ctrl.acquire(timeout=self.timeout * 2):
                raise MachineryError("the threads did not finish (deadlock under the scheduler?)")
        for th in threads:
            th.join(self.timeout)
            if th.is_alive():
                raise MachineryError("thread did not finish")
        if self.failure is not None:
            raise MachineryError("scheduler failure: %r" % (self.failure,))
        return self


def compress(blocks):
    """consecutive blocks of one thread with the same unit and finite quota are one block"""
    out = []
    for b in blocks:
        t, q, u = b[0], b[1], b[2]
        if out and out[-1][0] == t and out[-1][2] == u and q and out[-1][1]:
            out[-1][1] += q
        else:
            out.append([t, q, u])
    return out


# ---------------------------------------------------------------------------------------------------------------
# programs and observations

def make_program(files, t, job):
    name, safe, build = job
    main, inc = files.paths(t, name)
    Builder = _lib()["Builder"]

    def program():
        b = Builder()
        b.add_source(main, safe=bool(safe))
        if build:
            return ("root", b.build())
        return ("stages", list(b.stages))
    return program


def describe_exc(files, e):
    if e is None:
        return None
    def tn(x):
        return None if x is None else type(x).__name__
    return [tn(e), files.norm(str(e)), tn(e.__cause__), tn(e.__context__)]


def describe_result(files, res):
    if res is None:
        return None
    kind, val = res
    roots = [val] if kind == "root" else list(val)
    out = []
    for i, r in enumerate(roots):
        if r is None:
            out.append([i, "", "None", None, None, None])
            continue
        listed = list(r.ayns.nodes_with_paths())
        if not any(n is r for _, n in listed):
            listed.insert(0, ("<root>", r))
        for path, node in listed:
            out.append([i, str(path), type(node).__name__, files.norm(node.ayns.source_file), bool(node.ayns.safe),
                        getattr(node, "_default_safe", UNSET)])
    return out


def observe(files, run):
    """what the property talks about, per thread"""
    obs = {}
    for t, st in run.th.items():
        obs[t] = {
            "nodes": describe_result(files, st.result),
            "created": [[c[0], files.norm(c[1]), c[2]] for c in st.created],
            "exc": describe_exc(files, st.exc),
            "final": [files.norm(st.final[0]), st.final[1], st.final[2]] if st.final else None,
            "steps": [[s["a"], s.get("k"), files.norm(s["f"]), s["s"], s["e"], s["n"]] for s in st.steps],
            "lines": st.lines,
        }
    return obs


def run_alone(files, t, job, line_filter=None):
    """the sequential reference: the same program in a fresh thread, nothing else running"""
    r = Run({t: make_program(files, t, job)}, [], line_filter=line_filter).go()
    return observe(files, r)[t]


def run_concurrent(files, jobs, blocks, line_filter=None, rng=None):
    progs = {t + 1: make_program(files, t + 1, job) for t, job in enumerate(jobs)}
    r = Run(progs, blocks, line_filter=line_filter, rng=rng).go()
    return r, observe(files, r)


# ---------------------------------------------------------------------------------------------------------------
# abstraction of the real observations into the value domain of the specification

def file_id(name):
    """'t1_include_main.yaml' -> [1, 'main'];  None / unset -> [0, '-']"""
    if name is None or name is UNSET or name == UNSET:
        return [0, "-"]
    s = os.path.basename(str(name))
    try:
        t = int(s[1:s.index("_")])
    except ValueError:
        return [-1, s]
    if s.endswith("_main.yaml"):
        return [t, "main"]
    if s.endswith("_inc.yaml"):
        return [t, "inc"]
    return [-1, s]


def safe_view(v):
    return True if (v is UNSET or v == UNSET) else bool(v)


def api_view(v):
    return False if (v is UNSET or v == UNSET) else bool(v)


def wraps_of(exc):
    """how often api_entry re-created the error, as far as the exception chain shows (0, 1, 2)"""
    if exc is None:
        return 0
    return int(exc[3] == exc[0]) + int(exc[2] == exc[0])


ERROR_KINDS = ("ParsingError", "PreprocessError")


def abstract_steps(obs_t):
    return [[s[0], s[1] or "none", file_id(s[2]), safe_view(s[3]), api_view(s[4]), s[5]] for s in obs_t["steps"]]


def abstract_created(obs_t):
    return [[file_id(c[1]), safe_view(c[2])] for c in obs_t["created"]]


def property_view(obs_t):
    """the observables the property statement is about"""
    return {"nodes": obs_t["nodes"], "created": obs_t["created"], "exc": obs_t["exc"]}


def prop_diff(ref, got):
    """first difference between the sequential and the concurrent outcome of one thread (None: identical)"""
    for k in ("exc", "created", "nodes"):
        if ref[k] != got[k]:
            a, b = ref[k], got[k]
            if isinstance(a, list) and isinstance(b, list) and k != "exc":
                for i in range(max(len(a), len(b))):
                    x = a[i] if i < len(a) else None
                    y = b[i] if i < len(b) else None
                    if x != y:
                        return {"what": k, "index": i, "sequential": x, "concurrent": y}
            return {"what": k, "sequential": a, "concurrent": b}
    return None


# ---------------------------------------------------------------------------------------------------------------
# replay workers (one process each; real threads inside)

_W = {}

LINE_FILTERS = {
    "all": lambda rel: True,                       # every traced line of awesomeyaml/
    "nons": lambda rel: rel != "namespace.py",     # ... except the attribute-forwarding plumbing of namespace.py
}


def _winit(parent=None):
    _W["files"] = Files(parent)
    _W["refs"] = {}
    # warm-up: everything lazily initialised by the library happens before any measured run
    for name in JOBS:
        for _ in range(2):
            run_alone(_W["files"], 1, (name, True, True), line_filter=LINE_FILTERS["all"])


def _ref(t, job, lf):
    key = (t, tuple(job), lf)
    if key not in _W["refs"]:
        _W["refs"][key] = run_alone(_W["files"], t, tuple(job), line_filter=LINE_FILTERS[lf] if lf else None)
    return _W["refs"][key]


def _judge(jobs, obs, lf):
    """property oracle: every thread against its sequential build; also the detailed per-thread step streams"""
    diffs, drifts = [], []
    for i, job in enumerate(jobs):
        t = i + 1
        ref = _ref(t, job, lf)
        d = prop_diff(property_view(ref), property_view(obs[t]))
        if d is not None:
            d["thread"] = t
            diffs.append(d)
        elif ref["steps"] != obs[t]["steps"] or ref["final"] != obs[t]["final"]:
            k = next((k for k in range(min(len(ref["steps"]), len(obs[t]["steps"])))
                      if ref["steps"][k] != obs[t]["steps"][k]), min(len(ref["steps"]), len(obs[t]["steps"])))
            drifts.append({"thread": t, "what": "own step stream differs from the sequential run", "step": k,
                           "sequential": ref["steps"][k] if k < len(ref["steps"]) else ref["final"],
                           "concurrent": obs[t]["steps"][k] if k < len(obs[t]["steps"]) else obs[t]["final"]})
    return diffs, drifts


def _replay_marker(beh):
    """one TLC behaviour: jobs, hist (global order), made / exc / wraps at the end"""
    files = _W["files"]
    jobs = [tuple(j) for j in beh["jobs"]]
    blocks = [[h[0], 1, "vis"] for h in beh["hist"]]
    run, obs = run_concurrent(files, jobs, blocks)
    res = {"diffs": [], "drift": None, "steps": len(run.global_steps)}
    # A. step by step against the specification's state
    real = []
    for (t, i) in run.global_steps:
        s = obs[t]["steps"][i]
        real.append([t, s[0], s[1] or "none", file_id(s[2]), safe_view(s[3]), api_view(s[4]), s[5]])
    exp = [list(h) for h in beh["hist"]]
    for h in exp:
        h[3] = list(h[3])
    if real != exp:
        k = next((k for k in range(min(len(real), len(exp))) if real[k] != exp[k]), min(len(real), len(exp)))
        res["drift"] = {"what": "step differs from the specification", "step": k,
                        "spec": exp[k] if k < len(exp) else None, "code": real[k] if k < len(real) else None}
    else:
        for i, job in enumerate(jobs):
            t = i + 1
            made = [[list(m[0]), m[1]] for m in beh["made"][i]]
            e = obs[t]["exc"]
            end = [abstract_created(obs[t]), e[0] if e else "none", wraps_of(e),
                   [file_id(obs[t]["final"][0]), safe_view(obs[t]["final"][1]), api_view(obs[t]["final"][2])]]
            want = [made, beh["exc"][i], beh["wraps"][i], [[0, "-"], True, False]]
            if end != want:
                res["drift"] = {"what": "end state differs from the specification", "thread": t, "spec": want, "code": end}
                break
    # B. the property: against the sequential build
    diffs, drifts = _judge(jobs, obs, None)
    res["diffs"] = diffs
    if res["drift"] is None and drifts:
        res["drift"] = drifts[0]
    if run.diverged and res["drift"] is None:
        res["drift"] = {"what": "a thread finished before the schedule was used up"}
    return res


def _replay_blocks(jobs, blocks, lf):
    files = _W["files"]
    run, obs = run_concurrent(files, [tuple(j) for j in jobs], blocks, line_filter=LINE_FILTERS[lf] if lf else None)
    diffs, drifts = _judge([tuple(j) for j in jobs], obs, lf)
    return {"diffs": diffs, "drift": drifts[0] if drifts else None, "steps": len(run.global_steps)}, run, obs


def _chunk_marker(behs):
    out = []
    for b in behs:
        r = _replay_marker(b)
        out.append(r)
    return out


def _chunk_line(arg):
    jobs, lf, scheds = arg
    out = []
    for s in scheds:
        blocks = [[b[0], b[1], "line"] for b in s]
        r, _, _ = _replay_blocks(jobs, blocks, lf)
        out.append(r)
    return out


def _measure(arg):
    """sequential line counts of the jobs (after warm-up; measured twice to make sure they are stable)"""
    jobs, lf = arg
    files = _W["files"]
    res = []
    for i, job in enumerate(jobs):
        a = run_alone(files, i + 1, tuple(job), line_filter=LINE_FILTERS[lf])["lines"]
        b = _ref(i + 1, job, lf)["lines"]
        res.append([a, b])
    return res


def _seq_streams(jobs):
    """sequential marker streams (for the shape conformance with the 1-thread behaviours of the specification)"""
    files = _W["files"]
    out = []
    for job in jobs:
        o = _ref(1, job, None)
        e = o["exc"]
        out.append({"job": list(job), "steps": abstract_steps(o), "created": abstract_created(o),
                    "exc": e[0] if e else "none", "wraps": wraps_of(e), "raw_exc": e,
                    "final": [file_id(o["final"][0]), safe_view(o["final"][1]), api_view(o["final"][2])]})
    return out


def _record(arg):
    """direction B: one real run under seeded random line-level preemption -> trace record"""
    tid, jobs, seed = arg
    files = _W["files"]
    jobs = [tuple(j) for j in jobs]
    rng = random.Random(seed)
    run, obs = run_concurrent(files, jobs, [], line_filter=LINE_FILTERS["all"], rng=rng)
    ev = []
    for (t, i) in run.global_steps:
        s = obs[t]["steps"][i]
        st = run.th[t].steps[i]
        node = st.get("node")
        ev.append([t, s[0], s[1] or "none", file_id(s[2]), safe_view(s[3]), api_view(s[4]), s[5],
                   file_id(files.norm(node[1])) if node else [0, "-"], safe_view(node[2]) if node else True])
    fin = []
    for i in range(len(jobs)):
        o = obs[i + 1]
        e = o["exc"]
        fin.append([file_id(o["final"][0]), safe_view(o["final"][1]), api_view(o["final"][2]),
                    e[0] if e else "none", wraps_of(e), abstract_created(o)])
    diffs, drifts = _judge(jobs, obs, "all")
    switches = sum(1 for k in range(1, len(run.global_steps)) if run.global_steps[k][0] != run.global_steps[k - 1][0])
    return {"trace": {"tid": tid, "jobs": [job_record(j) for j in jobs], "ev": ev, "fin": fin},
            "jobs": [list(j) for j in jobs], "blocks": run.realised, "diffs": diffs,
            "drift": drifts[0] if drifts else None, "switches": switches}


# ---------------------------------------------------------------------------------------------------------------
# TLC runs

import tlc  # noqa: E402

BASE_CONSTS = {"NThreads": "2", "KindFile": '"threadlocal"', "KindSafe": '"threadlocal"', "KindApi": '"threadlocal"',
               "RestoreInFinally": "TRUE", "Lookups": "2", "defaultInitValue": "defaultInitValue"}
PROPERTY_INVS = ["TypeOK", "OwnFile", "OwnSafety", "Restored", "ErrorsLocal", "SeqEquivalent"]


def cfg(spec, consts, invariants=(), properties=()):
    lines = ["SPECIFICATION " + spec, "CONSTANTS"]
    for k, v in consts.items():
        lines.append("  %s %s" % (k, v) if str(v).startswith("<-") else "  %s = %s" % (k, v))
    lines += ["INVARIANT " + i for i in invariants]
    lines += ["PROPERTY " + p for p in properties]
    lines.append("CHECK_DEADLOCK FALSE")
    return "\n".join(lines) + "\n"


def mc_cfg(spec="LineSpec", nthreads=2, record=False, maxpre=99, invariants=PROPERTY_INVS, properties=(), **over):
    c = dict(BASE_CONSTS)
    c.update(NThreads=str(nthreads), JobAssignments="<- JA_Env", MaxPre=str(maxpre), Record="TRUE" if record else "FALSE")
    c.update(over)
    return cfg(spec, c, invariants, properties)


def write_jobs(path, assignments):
    with open(path, "w") as f:
        for a in assignments:
            f.write(json.dumps([job_record(tuple(j)) for j in a]) + "\n")


def tlc_job(wd, name, module, cfg_text, env=None, workers=4, timeout=800, extra=()):
    """one TLC run in a directory of its own (so that several can run at the same time)"""
    d = os.path.join(wd, name)
    os.makedirs(d, exist_ok=True)
    e = {k: (v if os.path.isabs(v) or not v.endswith("json") else os.path.join(d, v)) for k, v in (env or {}).items()}
    e.setdefault("JAVA_TOOL_OPTIONS", "-XX:ParallelGCThreads=2 -XX:CICompilerCount=2")
    return tlc.run(module, cfg_text, d, workers=workers, timeout=timeout, env=e, extra=extra, heap="3g")


def pairs(names_a, names_b, safes=((True, False), (False, True)), build=True):
    out = []
    for a in names_a:
        for b in names_b:
            for sa, sb in safes:
                out.append([(a, sa, build), (b, sb, build)])
    return out


def plan(tier):
    """what the run covers (every number that matters for the cost is here)"""
    names = list(JOBS)
    allsafe = ((True, False), (False, True), (True, True), (False, False))
    p = {}
    # V: the property on the specification, line grain, every interleaving
    if tier == "thorough":
        p["verify2"] = pairs(names, names, allsafe) + pairs(names, names, allsafe, build=False)
    else:
        p["verify2"] = pairs(names, names, ((True, False),)) + pairs(names[:3], names[:3], ((False, True),), build=False)
    if tier == "thorough":
        p["verify3"] = [[(a, True, True), (b, False, True), (c, True, True)]
                        for a in ("include", "incbad") for b in ("badtag", "missing", "include") for c in ("plain1",)]
    else:
        p["verify3"] = []
    p["live"] = [[("missing", True, True), ("badtag", False, True)]]
    if tier == "thorough":
        p["live"].append([("include", True, True), ("incbad", False, True)])
    # mutation cfgs: the narrowest universe that holds the witness
    p["mutation"] = [[("include", True, True), ("incbad", False, True)], [("plain1", True, True), ("badtag", False, True)]]
    # A1: all interleavings (marker grain) of add_source calls: different safe flags, one failing input
    if tier == "thorough":
        p["emit_all"] = [[("plain1", True, False), ("badtag", False, False)], [("badtag", True, False), ("plain1", False, False)],
                         [("plain1", True, False), ("plain1", False, False)], [("badroot", True, False), ("badroot", False, False)]]
    else:
        p["emit_all"] = [[("plain1", True, False), ("badroot", False, False)]]
    # A2: complete programs (include => nested contexts, failing includes), at most MaxPre preemptions
    if tier == "thorough":
        p["emit_pre"] = (pairs(names, names, ((True, False),)), 2)
        p["emit_pre3"] = ([[("include", True, True), ("badtag", False, True), ("missing", True, True)]], 2)
        p["emit_deep"] = ([[("plain1", True, True), ("badtag", False, True)], [("include", True, True), ("missing", False, True)]], 3)
    else:
        p["emit_pre"] = ([[("include", True, True), ("incbad", False, True)], [("missing", False, True), ("include", True, True)],
                          [("plain3", True, True), ("badtag", False, True)]], 2)
        p["emit_pre3"] = ([[("include", True, True), ("badtag", False, True), ("missing", True, True)]], 1)
        p["emit_deep"] = ([], 3)
    # L: line-grain schedules from Sched.tla: (jobs, line filter, max preemptions)
    if tier == "thorough":
        p["lines"] = [([("plain1", True, False), ("badtag", False, False)], "all", 2),
                      ([("plain1", False, True), ("plain1", True, False)], "nons", 2),
                      ([("include", True, True), ("incbad", False, True)], "all", 1),
                      ([("missing", False, True), ("include", True, True)], "all", 1),
                      ([("badtag", True, True), ("plain3", False, True)], "all", 1),
                      ([("incbad", True, True), ("missing", False, True)], "all", 1)]
    else:
        p["lines"] = [([("plain1", True, False), ("badtag", False, False)], "all", 1),
                      ([("plain3", True, True), ("badtag", False, True)], "all", 1)]
    # B: recorded runs
    p["traces"] = {2: 3000, 3: 3000, 4: 1500} if tier == "thorough" else {2: 600, 3: 600}
    return p


MUTATIONS = [  # (name, constant overrides, the invariant TLC must refute)
    ("shared_filename", {"KindFile": '"shared"'}, "OwnFile"),
    ("shared_safe", {"KindSafe": '"shared"'}, "OwnSafety"),
    ("shared_api_entered", {"KindApi": '"shared"'}, "ErrorsLocal"),
    ("restore_not_in_finally", {"RestoreInFinally": "FALSE"}, "Restored"),
]


# ---------------------------------------------------------------------------------------------------------------
# replay files

def sha(obj):
    return hashlib.sha1(json.dumps(obj, sort_keys=True, default=str).encode()).hexdigest()[:16]


def write_replay(kind, jobs, blocks, lf, info):
    d = os.path.join(VERIF, "replays", PROP)
    os.makedirs(d, exist_ok=True)
    body = {"property": PROP, "kind": kind, "jobs": [list(j) for j in jobs], "blocks": blocks, "line_filter": lf}
    path = os.path.join(d, sha(body) + ".json")
    body["info"] = info
    body["how"] = "threads 1..n run Builder().add_source(main, safe)[.build()] on the inputs of harness/c20.py JOBS; " \
                  "blocks = [thread, quota, unit]: the thread runs quota marker steps (vis) / traced lines (line), 0 = to its end"
    with open(path, "w") as f:
        json.dump(body, f, indent=1, default=str)
    return path


def do_replay(path):
    body = json.load(open(path))
    _winit()
    try:
        lf = body.get("line_filter")
        res, run, obs = _replay_blocks(body["jobs"], body["blocks"], lf)
        for t in sorted(obs):
            ref = _ref(t, tuple(body["jobs"][t - 1]), lf)
            print("thread %d job %s" % (t, body["jobs"][t - 1]))
            print("   sequential: exc=%s created=%s" % (ref["exc"] and [ref["exc"][0], ref["exc"][2], ref["exc"][3]], ref["created"]))
            print("   concurrent: exc=%s created=%s" % (obs[t]["exc"] and [obs[t]["exc"][0], obs[t]["exc"][2], obs[t]["exc"][3]], obs[t]["created"]))
        for d in res["diffs"]:
            print("   DIFFERENCE", json.dumps(d, default=str))
        if res["drift"]:
            print("   DRIFT", json.dumps(res["drift"], default=str))
    finally:
        _W["files"].close()
    viol = [path] if res["diffs"] else []
    return {"violations": viol, "known_lines": [], "drift": 1 if res["drift"] else 0, "level": "model_checking",
            "coverage": {}, "assumptions": ASSUME, "summary": {"replayed": 1, "differences": len(res["diffs"])}}


ASSUME = ["CPython 3.12 as installed in /venv (sys.settrace 'line' / 'call' / 'return' events, YIELD_VALUE opcode); awesomeyaml imported "
          "from AY_REPO's working tree",
          "under the cooperative scheduler exactly one thread runs at a time (as under the GIL); preemption inside C code "
          "(PyYAML's pure-python loader is used, no libyaml) is not modelled",
          "the sequential build of the same input in a fresh thread is the oracle; inputs are the six job kinds of harness/c20.py JOBS",
          "TLC results are for the bounded job universes and thread counts named in coverage.configs"]


# ---------------------------------------------------------------------------------------------------------------
# the check

def _chunks(xs, n):
    return [xs[i:i + n] for i in range(0, len(xs), n)]


def run(prop, tier, seed, replay, keep):
    if replay:
        return do_replay(replay)
    from concurrent.futures import ThreadPoolExecutor
    t_start = time.time()
    P = plan(tier)
    wd = tlc.workdir("c20")
    for f in os.listdir(os.path.join(VERIF, "replays", PROP)) if os.path.isdir(os.path.join(VERIF, "replays", PROP)) else []:
        if f.endswith(".json"):
            os.unlink(os.path.join(VERIF, "replays", PROP, f))      # replays of this run only
    scratch = tempfile.mkdtemp(prefix="c20_")            # the yaml files the threads build from (outside /repo and /verif)
    ctx = multiprocessing.get_context("fork")
    pool = ctx.Pool(16, initializer=_winit, initargs=(scratch,))   # forked before any thread exists in this process
    tp = ThreadPoolExecutor(max_workers=10)
    cov = {"configs": [], "mutations": [], "witnesses": {}}
    witness = collections.Counter()
    timeline = []
    violations, viol_count, drift_samples = [], 0, []
    drift = 0
    samples = []
    states = transitions = 0
    validated = 0
    evaluations = 0
    nontrivial = set()

    def note(res, kind, jobs, blocks, lf, extra=None):
        """book-keeping of one replayed schedule"""
        nonlocal viol_count, drift
        if res["diffs"]:
            viol_count += 1
            if len(violations) < 12:
                info = {"differences": res["diffs"], "tier": tier}
                if extra:
                    info.update(extra)
                violations.append(write_replay(kind, jobs, blocks, lf, info))
        if res["drift"]:
            drift += 1
            if len(drift_samples) < 5:
                drift_samples.append({"jobs": [list(j) for j in jobs], "blocks": compress(blocks)[:40], "drift": res["drift"]})

    try:
        # ---- 0. sequential references and measured line counts (needed by Sched) --------------------------------
        meas = pool.map(_measure, [(jobs, lf) for jobs, lf, _ in P["lines"]])
        for (jobs, lf, mp), m in zip(P["lines"], meas):
            if any(a != b for a, b in m):
                raise MachineryError("line counts of the sequential run are not stable: %r %r" % (jobs, m))
        singles = [(n, s, b) for n in JOBS for s in (True, False) for b in (True, False)]
        seq = pool.apply(_seq_streams, (singles,))

        # ---- 1. all TLC runs, concurrently --------------------------------------------------------------------
        fut = {}

        def submit(name, module, cfg_text, assignments=None, env=None, workers=4, extra=()):
            d = os.path.join(wd, name)
            os.makedirs(d, exist_ok=True)
            e = dict(env or {})
            if assignments is not None:
                write_jobs(os.path.join(d, "jobs.ndjson"), assignments)
                e["C20_JOBS"] = os.path.join(d, "jobs.ndjson")
            fut[name] = tp.submit(tlc_job, wd, name, module, cfg_text, e, workers, 840, extra)

        submit("verify2", "MC_AyThreads", mc_cfg("LineSpec"), P["verify2"], workers=8)
        if P["verify3"]:
            submit("verify3", "MC_AyThreads", mc_cfg("LineSpec", nthreads=3), P["verify3"], workers=8)
        submit("live", "MC_AyThreads", mc_cfg("LineSpec", invariants=(), properties=("Termination2",)), P["live"], workers=2)
        for mname, over, inv in MUTATIONS:
            submit("mut_" + mname, "MC_AyThreads", mc_cfg("LineSpec", invariants=(inv,), **over), P["mutation"], workers=2)
        submit("shape", "MC_AyThreads", mc_cfg("MarkerSpec", nthreads=1, record=True, invariants=PROPERTY_INVS + ["Emit"]),
               [[j] for j in singles], workers=2)
        submit("emit_all", "MC_AyThreads", mc_cfg("MarkerSpec", record=True, invariants=PROPERTY_INVS + ["Emit"]), P["emit_all"], workers=8)
        for key, nthreads in (("emit_pre", 2), ("emit_pre3", 3), ("emit_deep", 2)):
            assignments, mp = P[key]
            if assignments:
                submit(key, "MC_AyThreads", mc_cfg("MarkerSpec", nthreads=nthreads, record=True, maxpre=mp,
                                                  invariants=PROPERTY_INVS + ["Emit"]), assignments, workers=4)
        d = os.path.join(wd, "sched")
        os.makedirs(d, exist_ok=True)
        with open(os.path.join(d, "sched.json"), "w") as f:
            for (jobs, lf, mp), m in zip(P["lines"], meas):
                f.write(json.dumps({"n": [a for a, _ in m], "p": mp}) + "\n")
        submit("sched", "Sched", cfg("SSpec", {}, ("SEmit", "Bounded")), env={"C20_SCHED": os.path.join(d, "sched.json")}, workers=6)

        # ---- 2. direction B: record real runs while TLC is busy ------------------------------------------------
        rng = random.Random(1000003 * seed + 20)
        rec_args = []
        tid = 0
        for nthr, count in P["traces"].items():
            for _ in range(count):
                tid += 1
                jobs = [(rng.choice(list(JOBS)), rng.random() < 0.5, rng.random() < 0.85) for _ in range(nthr)]
                rec_args.append((tid, jobs, rng.randrange(1 << 30)))
        t0 = time.time()
        recs = pool.map(_record, rec_args, chunksize=8)
        rec_wall = time.time() - t0
        by_n = collections.defaultdict(list)
        for r in recs:
            by_n[len(r["jobs"])].append(r)
        for nthr, rs in by_n.items():
            for ci, chunk in enumerate(_chunks(rs, 400)):
                d = os.path.join(wd, "trace%d_%d" % (nthr, ci))
                os.makedirs(d, exist_ok=True)
                with open(os.path.join(d, "traces.ndjson"), "w") as f:
                    for k, r in enumerate(chunk):
                        r["trace"]["tid"] = k + 1
                        r["chunk"] = (nthr, ci, k + 1)
                        f.write(json.dumps(r["trace"]) + "\n")
                c = dict(BASE_CONSTS)
                c.update(NThreads=str(nthr), JobAssignments="<- AnyAssignment", Soft="FALSE")
                submit("trace%d_%d" % (nthr, ci), "Trace_AyThreads",
                       cfg("TSpec", c, ("TEmit", "OwnFile", "OwnSafety", "ErrorsLocal")),
                       env={"TRACE_FILE": os.path.join(d, "traces.ndjson")}, workers=4)

        def result(name):
            nonlocal states, transitions
            r = fut[name].result()
            timeline.append([name, round(time.time() - t_start, 1), round(r["wall"], 1)])
            states += r["distinct"]
            transitions += r["generated"]
            return r

        # ---- 3. verdicts of TLC on the specification ----------------------------------------------------------
        def phase_verify(name):
            r = result(name)
            if r["violated"]:
                raise MachineryError("the specification itself violates %s in %s (model error, not a finding about the code)"
                                     % (r["violated"], name))
            cov["configs"].append({"name": name, "spec": "LineSpec (every label a step)", "assignments": len(P[name]),
                                   "states": r["distinct"], "transitions": r["generated"], "depth": r["depth"],
                                   "checked": "Termination" if name == "live" else PROPERTY_INVS, "tlc_wall_s": round(r["wall"], 1)})
        def phase_mut(mname, over, inv):
            r = result("mut_" + mname)
            ok = inv in r["violated"]
            cov["mutations"].append({"mutation": mname, "constants": over, "expected_violation": inv, "refuted": ok,
                                     "states": r["distinct"]})
            if not ok:
                raise MachineryError("mutation cfg %s was not refuted by TLC (vacuity guard)" % mname)

        # ---- 4. shape conformance: one thread, specification vs the real marker stream -------------------------
        def phase_shape():
            nonlocal validated, drift
            r = result("shape")
            behs = tlc.json_prints(r["out"], "hist")
            spec_by_job = {tuple(b["jobs"][0]): b for b in behs}
            shape_bad = []
            for s in seq:
                b = spec_by_job.get(tuple(s["job"]))
                if b is None:
                    shape_bad.append({"job": s["job"], "what": "no behaviour printed by TLC"})
                    continue
                spec_steps = [[h[1], h[2], list(h[3]), h[4], h[5], h[6]] for h in b["hist"]]
                spec_made = [[list(m[0]), m[1]] for m in b["made"][0]]
                if spec_steps != s["steps"] or spec_made != s["created"] or b["exc"][0] != s["exc"] or b["wraps"][0] != s["wraps"]:
                    k = next((k for k in range(min(len(spec_steps), len(s["steps"]))) if spec_steps[k] != s["steps"][k]), None)
                    shape_bad.append({"job": s["job"], "first_difference_at_step": k,
                                      "spec": spec_steps[k] if k is not None else [spec_made, b["exc"][0], b["wraps"][0]],
                                      "code": s["steps"][k] if k is not None else [s["created"], s["exc"], s["wraps"]]})
            validated += len(seq) - len(shape_bad)
            cov["configs"].append({"name": "shape", "spec": "MarkerSpec, 1 thread", "jobs": len(seq), "agree": len(seq) - len(shape_bad),
                                   "states": r["distinct"], "transitions": r["generated"]})
            if shape_bad:
                # the sequential program of the library does not look like the specification's: code/model drift,
                # nothing the property decides
                drift += len(shape_bad)
                drift_samples.extend(shape_bad[:3])
            samples.append({"kind": "sequential marker stream = 1-thread behaviour of the specification",
                            "job": seq[6]["job"], "steps": seq[6]["steps"]})

        # ---- 5. direction A: replay every printed interleaving in real threads ---------------------------------
        def phase_emit(key):
            nonlocal evaluations, validated
            r = result(key)
            if r["violated"]:
                raise MachineryError("the specification violates %s in %s" % (r["violated"], key))
            behs = tlc.json_prints(r["out"], "hist")
            if not behs:
                raise MachineryError("TLC printed no behaviour for %s" % key)
            t0 = time.time()
            behs.sort(key=lambda b: json.dumps(b["jobs"]))
            outs = pool.map(_chunk_marker, _chunks(behs, 64))
            flat = [x for o in outs for x in o]
            nd, nv = drift, viol_count
            for b, res in zip(behs, flat):
                note(res, "schedule", [tuple(j) for j in b["jobs"]], [[h[0], 1, "vis"] for h in b["hist"]], None,
                     {"config": key, "spec_behaviour": b["hist"]})
                if b["pre"] >= 1:
                    nontrivial.add(sha([b["jobs"], [h[0] for h in b["hist"]]]))
            evaluations += len(behs)
            validated += sum(1 for x in flat if not x["diffs"] and not x["drift"])
            for b in behs:                     # reachability witnesses, from the behaviours of the specification
                if any(e in ERROR_KINDS for e in b["exc"]):
                    witness["a thread ends with an error re-created once by its outermost api call"] += 1
                view = {}
                hit = False
                for h in b["hist"]:
                    view[h[0]] = h[3]
                    if h[3][1] == "inc" and any(v[1] != "-" for u, v in view.items() if u != h[0]):
                        hit = True
                if hit:
                    witness["a thread parses an included file while another thread is inside its own contexts"] += 1
                if b["pre"] >= 1 and len({tuple(v) for v in ([h[3] for h in b["hist"]])}) >= 3:
                    witness["two threads with different files interleave"] += 1
            mp = 99 if key == "emit_all" else P[key][1]
            cov["configs"].append({"name": key, "spec": "MarkerSpec (history printed at terminal states)",
                                   "assignments": len(P[key] if key == "emit_all" else P[key][0]),
                                   "max_preemptions": "unbounded" if mp == 99 else mp,
                                   "states": r["distinct"], "transitions": r["generated"], "behaviours": len(behs),
                                   "steps_compared": sum(x["steps"] for x in flat),
                                   "replay_disagreements_with_spec": drift - nd, "property_differences": viol_count - nv,
                                   "tlc_wall_s": round(r["wall"], 1), "replay_wall_s": round(time.time() - t0, 1)})
            mid = behs[len(behs) // 2]
            samples.append({"kind": "interleaving printed by TLC and replayed (thread ids over marker-grain steps)", "config": key,
                            "jobs": mid["jobs"], "schedule": [h[0] for h in mid["hist"]], "preemptions": mid["pre"],
                            "first_steps": mid["hist"][:6]})

        # ---- 6. line-grain schedules (Sched.tla over the measured line counts) ---------------------------------
        def phase_sched():
            r = result("sched")
            allsched = collections.defaultdict(list)
            for x in tlc.json_prints(r["out"], "b"):
                allsched[x["c"]].append(x["b"])
            for i in range(len(P["lines"])):
                sched_one(i, allsched.get(i + 1, []), r)

        def sched_one(i, scheds, r):
            nonlocal evaluations, validated
            (jobs, lf, mp), m = P["lines"][i], meas[i]
            if not scheds:
                raise MachineryError("Sched printed no schedule")
            t0 = time.time()
            outs = pool.map(_chunk_line, [(jobs, lf, c) for c in _chunks(scheds, 256)])
            flat = [x for o in outs for x in o]
            nd, nv = drift, viol_count
            for s, res in zip(scheds, flat):
                note(res, "line-schedule", jobs, [[b[0], b[1], "line"] for b in s], lf, {"config": "sched%d" % i})
                if len(s) > len(jobs):
                    nontrivial.add(sha([jobs, s]))
            evaluations += len(scheds)
            validated += sum(1 for x in flat if not x["diffs"] and not x["drift"])
            cov["configs"].append({"name": "sched%d" % i, "spec": "Sched (generic, preemption-bounded)", "jobs": [list(j) for j in jobs],
                                   "traced_lines_per_thread": [a for a, _ in m],
                                   "preemption_points": "every traced line of awesomeyaml/" if lf == "all"
                                   else "every traced line of awesomeyaml/ except namespace.py",
                                   "max_preemptions": mp, "states": r["distinct"] if i == 0 else 0,
                                   "transitions": r["generated"] if i == 0 else 0, "states_note": "one TLC run for all sched*",
                                   "schedules": len(scheds), "own_stream_differences": drift - nd,
                                   "property_differences": viol_count - nv,
                                   "tlc_wall_s": round(r["wall"], 1), "replay_wall_s": round(time.time() - t0, 1)})
            samples.append({"kind": "line-grain schedule printed by TLC (Sched) and replayed: [thread, lines before it is preempted]",
                            "jobs": [list(j) for j in jobs], "blocks": scheds[len(scheds) // 2]})

        # replay in the order in which TLC finishes its enumerations
        import concurrent.futures as cf
        todo = {k: (lambda k=k: phase_emit(k)) for k in ("emit_all", "emit_pre", "emit_pre3", "emit_deep") if k in fut}
        todo["sched"] = phase_sched
        todo["shape"] = phase_shape
        for name in ["verify2"] + (["verify3"] if P["verify3"] else []) + ["live"]:
            todo[name] = (lambda name=name: phase_verify(name))
        for mname, over, inv in MUTATIONS:
            todo["mut_" + mname] = (lambda a=mname, b=over, c=inv: phase_mut(a, b, c))
        while todo:
            ready = [k for k in todo if fut[k].done()]
            if not ready:
                cf.wait([fut[k] for k in todo], return_when=cf.FIRST_COMPLETED)
                continue
            todo.pop(ready[0])()
        cov["configs"].sort(key=lambda c: c["name"])
        cov["witnesses"] = dict(witness)
        for w in ("a thread ends with an error re-created once by its outermost api call",
                  "a thread parses an included file while another thread is inside its own contexts"):
            if not witness[w]:
                raise MachineryError("no behaviour of the specification witnesses: " + w)

        # ---- 7. direction B: TLC judges the recorded runs ------------------------------------------------------
        acc = rej = pv_bad = 0
        rejected = []
        tr_states = 0
        for nthr, rs in by_n.items():
            for ci, chunk in enumerate(_chunks(rs, 400)):
                r = result("trace%d_%d" % (nthr, ci))
                tr_states += r["distinct"]
                verdicts = {}
                for v in tlc.tuple_prints(r["out"], "VERDICT"):
                    verdicts.setdefault(v[0], []).append((v[1], v[2]))
                for rec in chunk:
                    vs = verdicts.get(rec["chunk"][2], [])
                    rec["verdict"] = ("ok", "holds") if ("ok", "holds") in vs else (vs[0] if vs else None)
                if r["violated"]:
                    raise MachineryError("trace validation: the specification's own invariants failed: %s" % r["violated"])
        need_second = [rec for rec in recs if rec["verdict"] is None or rec["verdict"][0] != "ok"]
        if need_second:
            # second pass (total verdicts): how far can the specification follow, what differs first
            for nthr in sorted({len(x["jobs"]) for x in need_second}):
                sub = [x for x in need_second if len(x["jobs"]) == nthr][:50]
                d = os.path.join(wd, "soft%d" % nthr)
                os.makedirs(d, exist_ok=True)
                with open(os.path.join(d, "traces.ndjson"), "w") as f:
                    for k, x in enumerate(sub):
                        x["trace"]["tid"] = k + 1
                        f.write(json.dumps(x["trace"]) + "\n")
                c = dict(BASE_CONSTS)
                c.update(NThreads=str(nthr), JobAssignments="<- AnyAssignment", Soft="TRUE")
                r = tlc_job(wd, "soft%d" % nthr, "Trace_AyThreads", cfg("TSpec", c, ("TEmit", "TProgress")),
                            {"TRACE_FILE": os.path.join(d, "traces.ndjson")}, 8, 600)
                at = collections.defaultdict(int)
                for v in tlc.tuple_prints(r["out"], "AT"):
                    at[v[0]] = max(at[v[0]], v[1])
                sv = {}
                for v in tlc.tuple_prints(r["out"], "VERDICT"):
                    sv.setdefault(v[0], (v[1], v[2]))
                for k, x in enumerate(sub):
                    n_ev = len(x["trace"]["ev"])
                    reached = at.get(k + 1, 0)
                    x["classified"] = {"followed_events": reached - 1, "of": n_ev,
                                       "kind": (sv[k + 1][0] if k + 1 in sv else "shape"),
                                       "property_on_logged": sv[k + 1][1] if k + 1 in sv else "not evaluated (python oracle used)",
                                       "event": x["trace"]["ev"][reached - 1] if 0 < reached <= n_ev else None}
        for rec in recs:
            evaluations += 1
            v = rec["verdict"]
            tlc_pv = v[1] if v else (rec.get("classified", {}).get("property_on_logged", ""))
            prop_bad = bool(rec["diffs"]) or (isinstance(tlc_pv, str) and tlc_pv not in ("holds", "", "not evaluated (python oracle used)"))
            if rec["switches"] >= 2:
                nontrivial.add(sha([rec["jobs"], rec["blocks"]]))
            if v == ("ok", "holds") and not rec["diffs"]:
                acc += 1
                continue
            rej += 1
            if prop_bad:
                pv_bad += 1
                viol_count += 1
                if len(violations) < 12:
                    violations.append(write_replay("recorded-run", rec["jobs"], rec["blocks"], "all",
                                                   {"differences": rec["diffs"], "tlc_verdict": v, "classified": rec.get("classified"),
                                                    "tier": tier}))
            else:
                drift += 1
                if len(drift_samples) < 5:
                    drift_samples.append({"jobs": rec["jobs"], "tlc_verdict": v, "classified": rec.get("classified"), "drift": rec["drift"]})
            if len(rejected) < 5:
                rejected.append({"jobs": rec["jobs"], "verdict": v, "classified": rec.get("classified")})
        validated += acc
        states += 0
        cov["configs"].append({"name": "traces", "spec": "Trace_AyThreads (recorded real runs, random line-level preemption)",
                               "threads": {str(k): len(v) for k, v in by_n.items()}, "recorded": len(recs), "accepted": acc,
                               "rejected": rej, "property_violated_on_logged_state": pv_bad, "states": tr_states,
                               "mean_context_switches_between_marker_steps": round(sum(r["switches"] for r in recs) / max(1, len(recs)), 1),
                               "record_wall_s": round(rec_wall, 1), "rejected_samples": rejected})
        t3 = next((r for r in recs if len(r["jobs"]) >= 3), recs[0])
        samples.append({"kind": "recorded real run validated by TLC (events: thread, step, api kind, views, #nodes, node file, node safe)",
                        "jobs": t3["jobs"], "realised_blocks": t3["blocks"][:12], "events": t3["trace"]["ev"][:8]})
    finally:
        pool.terminate()
        pool.join()
        tp.shutdown(wait=False, cancel_futures=True)
        shutil.rmtree(scratch, ignore_errors=True)
        if not keep:
            tlc.cleanup(wd)

    cov.update({"states": int(states), "transitions": int(transitions), "traces_validated_against_impl": int(validated),
                "evaluations": int(evaluations), "distinct_nontrivial": len(nontrivial),
                "rule": "a case is one schedule of 2-4 real threads (TLC-printed interleaving over marker-grain steps, TLC-printed "
                        "line-grain schedule, or recorded run under seeded random preemption); non-trivial = at least one preemption "
                        "(a switch away from a thread that has started and not finished); distinct by (jobs, schedule)",
                "exhaustive": True,
                "exhaustive_scope": "TLC: all interleavings of the line-grain specification for the listed job universes; replay: all "
                                    "marker-grain interleavings of the emit_all pairs, all marker-grain schedules within the preemption "
                                    "bound of emit_pre*, all line-grain schedules within the bound of sched*; recorded runs are samples",
                "samples": samples, "timeline_s": timeline, "property_differences": viol_count, "drift_samples": drift_samples,
                "seeded_code_mutants": "see design_parts/C20.md (m1 shared file name, m2 shared api marker: both reported)"})
    summary = {"states": states, "replayed": evaluations, "validated": validated, "mutations_refuted": len(cov["mutations"]),
               "differences": viol_count}
    return {"violations": violations, "known_lines": [], "drift": drift, "level": "model_checking", "coverage": cov,
            "assumptions": ASSUME, "summary": summary}


META = {"engine": "thread-scheduler", "design_ref": "DESIGN.md 5/C20",
        "technique": "TLC model checking of a PlusCal specification of the thread-local parse defaults (all interleavings, line grain; "
                     "slot-kind mutations refuted) + replay of every TLC-printed interleaving in real threads under a sys.settrace "
                     "scheduler (step-by-step comparison of each thread's view of the slots) + TLC-enumerated preemption-bounded "
                     "line-grain schedules + TLC trace validation of recorded runs",
        "text": "AyThreads.tla models api_entry, the two default_* context managers, the node constructor and nested includes as labelled "
                "steps per thread over slots that are thread-local or (mutations) shared. TLC proves OwnFile, OwnSafety, Restored, "
                "ErrorsLocal and equality with the sequential result for every interleaving of 2 (thorough: 3) threads over files with "
                "different safe flags, includes and failing inputs. Every marker-grain interleaving TLC prints is run with real threads; "
                "configs, per-node source files / safety and the error report of each thread are compared with the sequential build.",
        "note": "inputs are the six job kinds of harness/c20.py; schedules are cooperative (one thread runs at a time); line-grain "
                "schedules are preemption-bounded (<= 2, CHESS style)"}
ENGINE = {"name": "thread-scheduler", "path": "harness/c20.py", "serves_properties": ["C20"],
          "kind_free_text": "cooperative scheduler on sys.settrace driving real threads along schedules enumerated by TLC "
                            "(spec/AyThreads.tla, MC_AyThreads.tla, Sched.tla) and recording marker event streams for TLC trace "
                            "validation (spec/Trace_AyThreads.tla)"}
