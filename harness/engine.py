"""Generic engine for properties decided on the builder state machine (AyBuild):

  A1  TLC explores every history of the bounded universe, checks the property's
      invariants on the specification and prints each behaviour (document indices +
      expected outcome after every stage).
  A2  every behaviour is replayed through the real library (text -> loader -> Builder
      -> flatten), the outcome after every stage compared with what TLC printed.
  B1  seeded random, larger histories are driven through the real library and recorded.
  B2  TLC validates the recorded traces (and every A2 disagreement) against the
      specification, evaluating the property's declarative formula on the LOGGED
      outcomes: verdict per trace.
  M   mutation cfgs: one deviation switch / design mutation on, TLC must refute.
"""
import hashlib
import json
import multiprocessing as mp
import os
import random
import sys
import time

HERE = os.path.dirname(os.path.abspath(__file__))
sys.path.insert(0, HERE)
import tlc  # noqa
import sdoc as S  # noqa

VERIF = os.path.dirname(HERE)


class MachineryError(Exception):
    pass


# ---------------------------------------------------------------------------
# compact outcomes (mirror of Compact / CompactOut in the spec)

def compact_plain(d):
    k = d["k"]
    if k == "list":
        return [compact_plain(c) for _, c in d["ch"]]
    if k == "dict":
        return {"d": [[kstr(key), compact_plain(c)] for key, c in d["ch"]]}
    if k in ("call", "bind"):
        return {"c": k, "f": d["v"][1], "d": [[kstr(key), compact_plain(c)] for key, c in d["ch"]]}
    if k == "scalar":
        return d["v"][0] + ":" + d["v"][1]
    return {"n": k}


def compact_node(n):
    """mirror of CompactN: compact data of a projected node, user metadata included where present"""
    k = n["k"]
    kids = [[kstr(key), compact_node(c)] for key, c in n["ch"]]
    if k in ("list", "append", "extend", "path", "stream"):
        body = [c for _, c in kids]
    elif k in ("call", "bind"):
        body = {"c": k, "f": n["fn"], "d": kids}
    elif k == "dict":
        body = {"d": kids}
    elif k == "scalar":
        body = n["v"][0] + ":" + n["v"][1]
    else:
        body = {"n": k}
    if n["md"]:
        return {"m": sorted([name, a[0] + ":" + a[1]] for name, a in n["md"]), "x": body}
    return body


def norm_expected(x):
    """TLC prints metadata sets in its own order: sort them"""
    if isinstance(x, dict):
        if "m" in x and "x" in x:
            return {"m": sorted(x["m"]), "x": norm_expected(x["x"])}
        return {k: norm_expected(v) for k, v in x.items()}
    if isinstance(x, list):
        return [norm_expected(v) for v in x]
    return x


def _erased(sd):
    """the same surface document without any tag / metadata"""
    d = S.SD(sd["k"], sd["v"], [[k, _erased(c)] for k, c in sd["ch"]])
    return d


def _plain_py(v):
    """Config / Bunch -> plain dict, recursively (for the comparison with yaml.load)"""
    if isinstance(v, dict):
        return {k: _plain_py(c) for k, c in v.items()}
    if isinstance(v, list):
        return [_plain_py(c) for c in v]
    return v


def kstr(key):
    return key["t"] + ":" + (str(key["n"]) if key["t"] == "i" else key["s"])


# ---------------------------------------------------------------------------
# A2 workers

_UNIVERSE = None
_CACHE = {}
_REL = None


def _init_worker(universe, rel=None, driver="builder"):
    global _UNIVERSE, _CACHE, _REL
    _UNIVERSE = universe
    _CACHE = {}
    _REL = rel
    import drive  # noqa  (imports awesomeyaml from /repo)
    drive.DRIVER = driver.split("+")[0]
    drive.CONSTRUCT = "+construct" in driver or "+evaluate" in driver
    drive.EVALUATE = "+evaluate" in driver


def _docs_outcome(docs, safes):
    """compact outcome after every stage of an explicit history (stops at the first error)"""
    import drive
    import project as P
    got = []
    for j in range(1, len(docs) + 1):
        try:
            t = drive.build_tree(docs[:j], list(safes[:j]))
            o = compact_node(P.project(t))
        except Exception as e:  # noqa
            o = {"e": drive.errclass(e)}
        got.append(o)
        if isinstance(o, dict) and "e" in o:
            break
    return got


def _prefix_outcome(idx, safes):
    """Compact outcome of building the prefix (memoised per worker)."""
    key = (tuple(idx), tuple(safes))
    if key in _CACHE:
        return _CACHE[key]
    import drive
    import project as P
    docs = [_UNIVERSE[i - 1] for i in idx]
    try:
        t = drive.build_tree(docs, list(safes))
        out = compact_node(P.project(t))
    except Exception as e:  # noqa
        out = {"e": drive.errclass(e)}
    if len(_CACHE) > 20000:
        _CACHE.clear()
    _CACHE[key] = out
    return out


def _replay_one(beh):
    idx, safes, want = beh["h"], beh["s"], beh["x"]
    got = []
    for j in range(1, len(idx) + 1):
        o = _prefix_outcome(idx[:j], safes[:j])
        got.append(o)
        if isinstance(o, dict) and "e" in o:
            break
    want = norm_expected(want)
    if got != want:
        return {"h": idx, "s": safes, "want": want, "got": got}
    import drive
    if drive.CONSTRUCT and beh.get("c", {}).get("status", "none") != "none":
        c = drive.construct_outcome([_UNIVERSE[i - 1] for i in idx], safes)
        wantc = beh["c"]
        if drive.EVALUATE and wantc["status"] == "ok":
            # the evaluated config vs. what TLC expects, and (single documents) vs. PyYAML on the tag-erased text
            import evalfam
            import yaml as pyyaml
            import project as P
            gotv = evalfam.compact_plain(c["data"]) if "data" in c else None
            bad = gotv != beh.get("v")
            if not bad and len(idx) == 1:
                ref = pyyaml.load(S.render_doc(_erased(_UNIVERSE[idx[0] - 1])), Loader=pyyaml.Loader)
                py = _plain_py(c["py"])
                bad = not (py == ref and P.type_shape(py) == P.type_shape(ref))
            if bad:
                return {"h": idx, "s": safes, "want": want, "got": got, "wantv": beh.get("v"), "gotv": gotv, "status": c["status"]}
        gotpaths = sorted([kstr(k) for k in p] for p in c["paths"])
        if c["status"] != wantc["status"] or gotpaths != sorted(wantc["paths"]) or (c["status"] == "RequiredError" and c["calls"] != 0):
            return {"h": idx, "s": safes, "want": want, "got": got, "wantc": wantc, "gotc": c}
    if _REL:
        import relations
        relfn, chk = relations.RELATIONS[_REL]
        docs = [_UNIVERSE[i - 1] for i in idx]
        for rel in relfn(docs, None):
            rgot = _docs_outcome(rel["docs"], [True] * len(rel["docs"]))
            if not chk(rel, want, rgot):
                return {"h": idx, "s": safes, "want": want, "got": got, "rel": rel["name"], "relgot": rgot}
    return None


def replay(universe, behaviours, nproc=16, rel=None, driver="builder"):
    behaviours = sorted(behaviours, key=lambda b: b["h"])
    with mp.Pool(nproc, initializer=_init_worker, initargs=(universe, rel, driver)) as pool:
        res = pool.map(_replay_one, behaviours, chunksize=max(1, len(behaviours) // (nproc * 8) or 1))
    return [r for r in res if r is not None]


# ---------------------------------------------------------------------------
# B1 workers

def _record_one(args):
    tid, docs, safes = args[:3]
    import drive
    t = drive.history_trace(tid, docs, safes)
    if _REL:
        import relations
        import random as _r
        relfn, _ = relations.RELATIONS[_REL]
        mode = args[3] if len(args) > 3 else "random"
        if isinstance(mode, list):
            rels = mode
        else:
            rels = relfn(docs, None if mode == "all" else _r.Random(tid))
        out = []
        for rel in rels:
            outs = drive.stage_outcomes(rel["docs"], [True] * len(rel["docs"]))
            r2 = {k: v for k, v in rel.items()}
            r2["outs"] = [o if "err" not in o else drive.err_event(o) for o in outs]
            r2.setdefault("keys", [])
            r2.setdefault("i", 0)
            r2.setdefault("flag", "")
            r2.setdefault("stage", 0)
            r2.setdefault("path", [])
            out.append(r2)
        t["rel"] = out
    return t


def record(histories, nproc=16, rel=None, driver="builder"):
    """histories: list of (tid, docs, safes[, "all"|"random"]) -> trace dicts"""
    with mp.Pool(nproc, initializer=_init_worker, initargs=([], rel, driver)) as pool:
        return pool.map(_record_one, histories, chunksize=max(1, len(histories) // (nproc * 8) or 1))


# ---------------------------------------------------------------------------

def spec_hash():
    h = hashlib.sha1()
    for fn in sorted(os.listdir(tlc.SPEC)):
        if fn.endswith(".tla"):
            h.update(open(os.path.join(tlc.SPEC, fn), "rb").read())
    return h.hexdigest()[:12]


def gen_universe(docs_expr, range_expr="WholeRange", timeout=900):
    """Evaluates a universe expression of the Props_* modules ONCE (TLC on spec/GenUni.tla) and caches the
    JSON under work/unicache (keyed by the hash of the specification).  Returns (path, universe dict)."""
    cdir = os.path.join(tlc.WORK, "unicache")
    os.makedirs(cdir, exist_ok=True)
    path = os.path.join(cdir, f"{spec_hash()}_{docs_expr}_{range_expr}.json")
    if os.path.exists(path):
        return path, json.load(open(path))
    wd = tlc.workdir("genuni")
    try:
        cfg = tlc.cfg_text(init="Init", next_="Next", constants={"UDocs": "<- " + docs_expr, "URange": "<- " + range_expr})
        r = tlc.run("GenUni", cfg, wd, workers=1, timeout=timeout)
        uni = None
        for v in tlc.json_prints(r["out"]):
            if "universe" in v:
                uni = {"docs": v["universe"], "range": v["range"]}
        if uni is None:
            raise MachineryError("GenUni did not print the universe " + docs_expr + "\n" + r["out"][-2000:])
        tmp = path + ".tmp%d" % os.getpid()
        json.dump(uni, open(tmp, "w"))
        os.replace(tmp, path)
        return path, uni
    finally:
        tlc.cleanup(wd)


def exhaustive(prop, docs_name, smin, smax, invariants, wd, switches=(), mutation=None, safes="{TRUE}",
               emit=True, timeout=1500, module="MC_Build", coverage=False, doc_range="WholeRange",
               init="Init", next_="Next", extra_consts=None, properties=(), spec=None):
    upath, uni = gen_universe(docs_name, doc_range)
    consts = {"SafeFlags": safes, "MinStages": str(smin), "MaxStages": str(smax)}
    if extra_consts:
        consts.update(extra_consts)
    if mutation:
        consts["Mutation"] = json.dumps(mutation)
    cfg = tlc.cfg_text(init=init, next_=next_, spec=spec, invariants=list(invariants) + (["Emit"] if emit else []),
                       constants=consts, switches=switches, properties=properties)
    r = tlc.run(module, cfg, wd, workers=16, timeout=timeout, coverage=coverage, env={"UNIVERSE_FILE": upath})
    out = {"states": r["distinct"], "transitions": r["generated"], "violated": r["violated"], "wall": r["wall"],
           "universe": uni["docs"], "behaviours": [], "raw": r, "cex": None}
    for v in tlc.json_prints(r["out"]):
        if "h" in v and emit and not r["violated"]:
            out["behaviours"].append(v)
        elif "cex" in v:
            out["cex"] = v
    return out


def _validate_chunk(args):
    prop, chunk, wd, switches, workers, timeout, name = args
    os.makedirs(wd, exist_ok=True)
    path = os.path.join(wd, name + ".ndjson")
    with open(path, "w") as f:
        for t in chunk:
            f.write(json.dumps(t) + "\n")
    cfg = tlc.cfg_text(init="TInit", next_="TNext", invariants=["Report"], switches=switches,
                       constants={"SafeFlags": "{TRUE}", "MinStages": "1", "MaxStages": "99",
                                  "Prop": json.dumps(prop)})
    r = tlc.run("AyBuildTrace", cfg, wd, env={"TRACE_FILE": path}, workers=workers, timeout=timeout, heap="3g")
    if r["violated"]:
        raise MachineryError("trace specification reported a violation of its own: %s\n%s" % (r["violated"], r["out"][-2000:]))
    rows = {}
    for row in tlc.tuple_prints(r["out"], "TRACE"):
        rows[row[0]] = tuple(row[1:])
    return rows, {"distinct": r["distinct"], "generated": r["generated"], "wall": r["wall"]}


def validate(prop, traces, wd, switches=(), workers=16, timeout=1500, name="traces", chunk=250):
    """TLC trace validation (AyBuildTrace), in parallel TLC processes over chunks of traces.
    Returns ({tid: (model_cmp, prop_verdict, model_verdict, detail)}, stats)."""
    from concurrent.futures import ThreadPoolExecutor
    chunks = [traces[i:i + chunk] for i in range(0, len(traces), chunk)] or [[]]
    par = min(len(chunks), 5)
    w = max(2, workers // par)
    jobs = [(prop, c, os.path.join(wd, f"{name}_{i}"), switches, w, timeout, name) for i, c in enumerate(chunks)]
    t0 = time.time()
    with ThreadPoolExecutor(par) as ex:
        results = list(ex.map(_validate_chunk, jobs))
    rows, stats = {}, {"distinct": 0, "generated": 0, "wall": time.time() - t0}
    for r, st in results:
        rows.update(r)
        stats["distinct"] += st["distinct"]
        stats["generated"] += st["generated"]
    return rows, stats


def sha(obj):
    return hashlib.sha1(json.dumps(obj, sort_keys=True).encode()).hexdigest()[:16]


def write_replay(prop, docs, safes, info):
    d = os.path.join(VERIF, "replays", prop)
    os.makedirs(d, exist_ok=True)
    body = {"property": prop, "docs": docs, "safes": safes, "yaml": [S.render_doc(x) for x in docs]}
    body.update(info)
    path = os.path.join(d, sha({"d": docs, "s": safes}) + ".json")
    with open(path, "w") as f:
        json.dump(body, f, indent=1)
    return path
