"""Projection of real awesomeyaml node trees / evaluated configs onto the JSON
mirror of the TLA+ records (AyTree.tla)."""
import sys

from sdoc import atom_of_py, key_of_py, skey, NOVAL


def _tri(v):
    return "N" if v is None else ("T" if v else "F")


def kind_of(node):
    from awesomeyaml.nodes.dict import ConfigDict
    from awesomeyaml.nodes.list import ConfigList
    from awesomeyaml.nodes.scalar import ConfigScalar
    name = type(node).__name__
    table = {"CallNode": "call", "BindNode": "bind", "AppendNode": "append", "ExtendNode": "extend",
             "PathNode": "path", "StreamNode": "stream", "RequiredNode": "required", "XRefNode": "xref",
             "ClearNode": "clear", "PrevNode": "prev", "IncludeNode": "include", "EvalNode": "eval",
             "FStrNode": "fstr", "ImportNode": "import", "ConfigDict": "dict", "ConfigList": "list",
             "ConfigTuple": "tuple", "RecurseNode": "rec"}
    if name in table:
        return table[name]
    if isinstance(node, ConfigScalar):
        return "scalar"
    if isinstance(node, ConfigDict):
        return "dict"
    if isinstance(node, ConfigList):
        return "list"
    return "other:" + name


def path_keys(s):
    from awesomeyaml.nodes.node_path import NodePath
    return [key_of_py(c) for c in NodePath.get_list_path(str(s))]


def project(node, views=False):
    """Full abstract record of a node tree (public observables + private implicit flags)."""
    from awesomeyaml.nodes.composed import ComposedNode
    k = kind_of(node)
    out = {"k": k, "v": list(NOVAL), "ch": [], "fn": "", "ref": [],
           "pr": 9 if node._priority is None else int(node._priority),
           "del": _tri(node._delete), "idel": _tri(node._implicit_delete),
           "anew": _tri(node._allow_new), "ianew": _tri(node._implicit_allow_new),
           "safe": _tri(node._safe), "isafe": _tri(node._implicit_safe),
           "dsafe": _tri(node._default_safe) if node._default_safe is not None else "N",
           "md": sorted([[str(n), atom_of_py(v)] for n, v in node._metadata.items()])}
    if isinstance(node, ComposedNode):
        out["ch"] = [[key_of_py(_native_key(name)), project(child)] for name, child in node._children.items()]
        if k in ("call", "bind"):
            f = node._func
            out["fn"] = str(f) if isinstance(f, str) else getattr(f, "__module__", "?") + "." + getattr(f, "__name__", "?")
            if isinstance(f, str) and not _importable(str(f)):
                out["ref"] = [skey("?")]        # marker NoImport (AyMerge.tla): the target name cannot be imported
        if k == "path":
            out["fn"] = str(node._ref_point) if getattr(node, "_ref_point", None) is not None else ""
    elif k == "scalar":
        out["v"] = atom_of_py(node.ayns.native_value)
    elif k in ("xref", "prev"):
        out["ref"] = path_keys(str(node))
    elif k in ("eval", "fstr", "import"):
        out["v"] = atom_of_py(str(node))
        if k == "eval" and str(node).isidentifier():
            out["ref"] = [skey(str(node))]      # convention (AyEval.tla): code that is one bare name refers to that top-level key
        if k == "fstr":
            import re
            m = re.fullmatch(r"f(['\"])\{([A-Za-z_]\w*)\}\1", str(node))
            if m:
                out["ref"] = [skey(m.group(2))]     # ... and an f-string whose body is one replacement field `{name}`
    return out


_IMPORTABLE = {}


def _importable(name):
    if name not in _IMPORTABLE:
        from awesomeyaml.utils import import_name
        try:
            import_name(name)
            _IMPORTABLE[name] = True
        except Exception:  # noqa
            _IMPORTABLE[name] = False
    return _IMPORTABLE[name]


def _native_key(name):
    try:
        return name.ayns.native_value
    except AttributeError:
        return name


def project_data(node):
    """Plain(k, v, ch) of a static node tree == DataOf in AyTree.tla."""
    from awesomeyaml.nodes.composed import ComposedNode
    k = kind_of(node)
    if isinstance(node, ComposedNode):
        dk = "list" if isinstance(node, list) else ("dict" if k not in ("call", "bind") else k)
        fn = list(NOVAL)
        if k in ("call", "bind"):
            f = node._func
            fn = ["s", str(f) if isinstance(f, str) else getattr(f, "__module__", "?") + "." + getattr(f, "__name__", "?")]
        return {"k": dk, "v": fn, "ch": [[key_of_py(_native_key(name)), project_data(child)] for name, child in node._children.items()]}
    if k == "scalar":
        return {"k": "scalar", "v": atom_of_py(node.ayns.native_value), "ch": []}
    return {"k": k, "v": list(NOVAL), "ch": []}


def plain_of_py(v):
    """Plain(k, v, ch) of evaluated Python data (dict/list/scalars), with exact types."""
    if isinstance(v, dict):
        return {"k": "dict", "v": list(NOVAL), "ch": [[key_of_py(k), plain_of_py(c)] for k, c in v.items()]}
    if isinstance(v, (list, tuple)):
        return {"k": "list", "v": list(NOVAL), "ch": [[key_of_py(i), plain_of_py(c)] for i, c in enumerate(v)]}
    return {"k": "scalar", "v": atom_of_py(v), "ch": []}


def type_shape(v):
    """Recursive exact-type skeleton, used where `==` alone would hide 1 == True == 1.0."""
    if isinstance(v, dict):
        return ("dict", type(v).__name__, tuple((type(k).__name__, repr(k), type_shape(c)) for k, c in v.items()))
    if isinstance(v, (list, tuple)):
        return (type(v).__name__, tuple(type_shape(c) for c in v))
    return (type(v).__name__, repr(v))


def error_info(e):
    """Outcome class + path + the paths/names the message mentions."""
    import awesomeyaml.errors as errors
    cls = type(e).__name__
    info = {"err": cls, "path": None, "msg": str(e)[:2000]}
    if isinstance(e, errors.Error):
        p = e.path
        try:
            info["path"] = [key_of_py(c) for c in (p or [])] if not isinstance(p, str) else path_keys(p)
        except Exception:
            info["path"] = str(p)
        info["error_msg"] = str(e.error_msg)[:2000] if e.error_msg else ""
    return info
