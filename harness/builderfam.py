"""Runner for the properties decided on the builder state machine (C02 C03 C04 C05 C08 C14 C15 C16 ...)."""
import json
import os
import random
import sys
import time

HERE = os.path.dirname(os.path.abspath(__file__))
sys.path.insert(0, HERE)
import engine as E  # noqa
import tlc  # noqa
import sdoc as S  # noqa

ASSUME = ["CPython 3.12.1 and PyYAML as installed in /venv; awesomeyaml imported from /repo's working tree",
          "the YAML renderer of harness/sdoc.py is trusted (cross-checked against PyYAML on C01)",
          "TLC results are for the bounded universes named in coverage.configs"]


def histories_from_gen(gen_fn, n, seed, max_stages):
    rng = random.Random(seed)
    hs = []
    for tid in range(1, n + 1):
        docs, safes = gen_fn(rng, max_stages)
        hs.append((tid, docs, safes))
    return hs


def _rels_of(trace):
    if not trace or "rel" not in trace:
        return None
    return [{k: v for k, v in r.items() if k != "outs"} for r in trace["rel"]]


def _jfix(n):
    """node JSON as printed by TLC (md is a list of pairs) -> projection shape"""
    n = dict(n)
    n["md"] = [list(e) for e in n.get("md", [])]
    n["ch"] = [[k, _jfix(c)] for k, c in n["ch"]]
    return n


def probe_build(sources):
    """Config.build of YAML sources with the library under test -> plain data, or {"error": class name}"""
    import drive  # (puts AY_REPO on sys.path)
    from awesomeyaml.config import Config

    def plain(x):
        if isinstance(x, dict):
            return {str(k): plain(v) for k, v in x.items()}
        if isinstance(x, (list, tuple)):
            return [plain(v) for v in x]
        return x
    try:
        return plain(Config.build(*sources))
    except Exception as e:
        return {"error": type(e).__name__}


def run(spec, prop, tier, seed, replay, keep):
    """spec: the property's entry of registry.BUILDER"""
    import main as M
    wd = tlc.workdir(prop)
    try:
        return _run(spec, prop, tier, seed, replay, wd)
    finally:
        if not keep:
            tlc.cleanup(wd)


def _run(spec, prop, tier, seed, replay, wd):
    import main as M
    cov = {"configs": [], "states": 0, "transitions": 0, "traces_validated_against_impl": 0, "samples": [],
           "mutations": [], "exhaustive": True}
    violations, known_lines, drift = [], [], 0
    summary = {}

    if replay:
        body = json.load(open(replay))
        if body.get("kind") == "probe":
            got = probe_build(body["sources"])
            still = got not in (body["as_is"], body["intended"])
            print("replay probe:", body["sources"], "->", json.dumps(got), "(still a different failure)" if still else "(listed / intended result)")
            return {"violations": [replay] if still else [], "level": "model_checking", "coverage": cov, "assumptions": ASSUME}
        traces = E.record([(1, body["docs"], body["safes"], body.get("rels") or "all")], nproc=1, rel=spec.get("rel"), driver=spec.get("driver", "builder"))
        rows, _ = E.validate(prop, traces, wd, workers=1)
        row = rows.get(1)
        print("replay: (model-vs-library, formula on library outcome, formula on model outcome) =", row[:3] if row else "rejected by the specification")
        for y in body["yaml"]:
            print("---\n" + y, end="")
        import drive
        drive.DRIVER = spec.get("driver", "builder").split("+")[0]
        outs = drive.stage_outcomes(body["docs"], body["safes"])
        for j, o in enumerate(outs):
            print(f"  library after stage {j+1}:", json.dumps(E.compact_node(o) if "err" not in o else {"e": o["err"]}))
        if row and row[3]:
            try:
                det = json.loads(row[3])
                for side in ("failing_on_library", "failing_on_model"):
                    for x in det.get(side, []):
                        r = traces[0]["rel"][x - 1]
                        print(f"  {side}: relation #{x} {r['name']} keys={r.get('keys')} path={r.get('path')} stage={r.get('stage')} i={r.get('i')} flag={r.get('flag')}")
                        for y in r["docs"]:
                            print("      ---\n      " + S.render_doc(y).replace("\n", "\n      ").rstrip())
                        print("      library outcomes:", json.dumps([E.compact_node(o) if "err" not in o else o for o in r["outs"]]))
                for j, m in enumerate(det["model"]):
                    mm = m if "err" in m else E.compact_node(_jfix(m))
                    print(f"  model   after stage {j+1}:", json.dumps(mm))
            except Exception as e:  # noqa
                print("  (model detail not decodable)", e)
        ok = row is not None and row[1] != "violated"
        return {"violations": [] if ok else [replay], "level": "model_checking", "coverage": cov, "assumptions": ASSUME}

    import shutil
    shutil.rmtree(os.path.join(E.VERIF, "replays", prop), ignore_errors=True)
    # ---- A1 + A2 -------------------------------------------------------
    mismatch_traces = []
    next_tid = 1000000
    tid_info = {}
    replayed = 0
    for entry in spec["exh"][tier]:
        docs_name, smin, smax = entry[:3]
        drange = entry[3] if len(entry) > 3 else "WholeRange"
        sub = os.path.join(wd, "exh_" + docs_name + f"_{smax}")
        os.makedirs(sub)
        ex = E.exhaustive(prop, docs_name, smin, smax, spec["invariants"], sub, safes=spec.get("safes", "{TRUE}"), doc_range=drange, timeout=7200 if tier == "thorough" else 1500)
        if ex["violated"]:
            cex = ex["cex"]
            shown = ("\n".join("---\n" + S.render_doc(d) for d in cex["docs"]) + "\nmodel: " + json.dumps(cex["x"])) if cex else ex["raw"]["out"][-3000:]
            raise E.MachineryError(f"the specification itself violates {ex['violated']} on {docs_name}: "
                                   "the intended design does not satisfy the property formula\n" + shown)
        uni, behs = ex["universe"], ex["behaviours"]
        cov["configs"].append({"universe": docs_name, "documents": len(uni), "stages": [smin, smax],
                               "states": ex["states"], "transitions": ex["transitions"], "behaviours": len(behs),
                               "tlc_wall_s": round(ex["wall"], 1)})
        cov["states"] += ex["states"]
        cov["transitions"] += ex["transitions"]
        t0 = time.time()
        mism = E.replay(uni, behs, rel=spec.get("rel"), driver=spec.get("driver", "builder"))
        replayed += len(behs)
        cov["configs"][-1]["replay_wall_s"] = round(time.time() - t0, 1)
        cov["configs"][-1]["replay_disagreements"] = len(mism)
        if behs and len(cov["samples"]) < 4:
            b = behs[len(behs) // 2]
            cov["samples"].append({"yaml": [S.render_doc(uni[i - 1]) for i in b["h"]], "expected_after_each_stage": b["x"]})
        for m in mism:
            docs = [uni[i - 1] for i in m["h"]]
            tid_info[next_tid] = (docs, m["s"], m)
            mismatch_traces.append((next_tid, docs, m["s"], "all"))
            next_tid += 1
    cov["traces_validated_against_impl"] += replayed
    summary["behaviours_replayed"] = replayed
    summary["replay_disagreements"] = len(mismatch_traces)

    # ---- B1 -------------------------------------------------------------
    n_rand = spec["random"][tier]
    hs = histories_from_gen(spec["gen"], n_rand, seed, spec.get("max_stages", 4))
    for tid, docs, safes in hs:
        tid_info[tid] = (docs, safes, None)
    traces = E.record(hs + mismatch_traces, rel=spec.get("rel"), driver=spec.get("driver", "builder"))
    # ---- B2 -------------------------------------------------------------
    as_is = [f["deviation"] for f in M.known_findings() if f["kind"] == "known" and prop in f["properties"] and "probe" not in f]
    rows, r = E.validate(prop, traces, wd)
    cov["states"] += r["distinct"]
    cov["transitions"] += r["generated"]
    cov["trace_validation"] = {"traces": len(traces), "random": n_rand, "from_replay_disagreements": len(mismatch_traces),
                               "states": r["distinct"], "tlc_wall_s": round(r["wall"], 1)}
    rejected = [t["tid"] for t in traces if t["tid"] not in rows]
    if rejected:
        raise E.MachineryError(f"{len(rejected)} traces were not consumed by the trace specification, first tid {rejected[0]}")
    bad = []
    traces_by_tid = {t["tid"]: t for t in traces}
    nontrivial = set()
    from collections import Counter
    pvs = Counter()
    for t in traces:
        tid = t["tid"]
        cmp_, pv, mv = rows[tid][0], rows[tid][1], rows[tid][2]
        docs, safes, _ = tid_info[tid]
        if spec["nontrivial"](docs):
            nontrivial.add(E.sha(docs))
        if mv == "violated" and pv != "violated":      # (both violated: the specification mirrors a defect of the library - reported below)
            path = E.write_replay(prop, docs, safes, {"verdict": list(rows[tid][:3]), "note": "MODEL violates the formula", "rels": _rels_of(t)})
            raise E.MachineryError(f"the specification violates the property formula on recorded history {tid} "
                                   f"(replay={path}): " + json.dumps([S.render_doc(d) for d in docs]))
        pvs[pv] += 1
        if pv == "violated":
            bad.append(tid)
        elif cmp_ != "ok":
            drift += 1
    cov["traces_validated_against_impl"] += len(traces)
    cov["distinct_nontrivial"] = len(nontrivial)
    cov["trace_validation"]["property_verdicts"] = dict(pvs)
    summary["trace_verdicts"] = dict(pvs)
    cov["evaluations"] = replayed + len(traces)
    cov["rule"] = spec["rule"]
    if traces and len(cov["samples"]) < 6:
        t = traces[min(len(traces) - 1, 7)]
        d = tid_info[t["tid"]]
        cov["samples"].append({"recorded_history_yaml": [S.render_doc(x) for x in d[0]], "verdict": list(rows[t["tid"]][:3])})

    # ---- known findings: is a failing trace reproduced by a listed deviation? -------
    if bad and as_is:
        sub = os.path.join(wd, "asis")
        os.makedirs(sub)
        bad_traces = [t for t in traces if t["tid"] in bad]
        for f in M.known_findings():
            if f["kind"] != "known" or prop not in f["properties"] or "probe" in f:
                continue
            rows2, _ = E.validate(prop, bad_traces, sub, switches=[f["deviation"]], name="asis_" + f["id"])
            explained = [tid for tid in bad if rows2.get(tid, ("x",))[0] == "ok"]
            if explained:
                known_lines.append(f"KNOWN-FINDING: property={prop} {f['id']} {f['witness']} ({len(explained)} cases)")
                bad = [tid for tid in bad if tid not in explained]
    # ---- known findings identified by a specific input (entry with a "probe"): the listed sources are built with the
    # library; the recorded defective result -> KNOWN-FINDING line, the intended result -> note that it no longer
    # reproduces, anything else -> a different failure at the same call site = violation
    for f in M.known_findings():
        if f["kind"] != "known" or prop not in f["properties"] or "probe" not in f:
            continue
        for pr in f["probe"]:
            got = probe_build(pr["sources"])
            if got == pr["as_is"]:
                known_lines.append(f"KNOWN-FINDING: property={prop} {f['id']} {pr['what']}: {pr['sources']} gives {json.dumps(got)} (intended {json.dumps(pr['intended'])})")
            elif got == pr["intended"]:
                print(f"note: finding {f['id']} no longer reproduces on {pr['sources']} (repaired?)")
            else:
                path = os.path.join(M.VERIF, "replays", prop, "probe_" + f["id"] + "_" + E.sha(pr["sources"])[:8] + ".json")
                os.makedirs(os.path.dirname(path), exist_ok=True)
                json.dump({"kind": "probe", "finding": f["id"], "sources": pr["sources"], "got": got, "as_is": pr["as_is"], "intended": pr["intended"]}, open(path, "w"), indent=1)
                violations.append(path)
    cov["probes"] = sum(len(f.get("probe", [])) for f in M.known_findings() if prop in f["properties"] and f["kind"] == "known")
    seen = set()
    bad.sort(key=lambda t: len(json.dumps(tid_info[t][0])))
    for tid in bad:
        docs, safes, m = tid_info[tid]
        path = E.write_replay(prop, docs, safes, {"verdict": list(rows[tid][:3]), "model": rows[tid][3], "rels": _rels_of(traces_by_tid.get(tid))})
        if path not in seen:
            seen.add(path)
            violations.append(path)
    violations = violations[:20]

    # ---- M: mutation cfgs (vacuity guard) ---------------------------------
    for mu in spec.get("mutations", []):
        sub = os.path.join(wd, "mut_" + (mu.get("switch") or mu.get("mutation")))
        os.makedirs(sub)
        ex = E.exhaustive(prop, mu["docs"], mu["stages"][0], mu["stages"][1], mu["expect"], sub,
                          switches=[mu["switch"]] if mu.get("switch") else (), mutation=mu.get("mutation"), emit=False,
                          safes=spec.get("safes", "{TRUE}"), doc_range=mu.get("range", "WholeRange"))
        refuted = bool(ex["violated"])
        cov["mutations"].append({"mutation": mu.get("switch") or mu.get("mutation"), "universe": mu["docs"],
                                 "refuted_by_tlc": refuted, "violated": ex["violated"], "tlc_wall_s": round(ex["wall"], 1)})
        if not refuted:
            raise E.MachineryError(f"mutation {mu} was NOT refuted by TLC: the invariant is vacuous on that universe")
    cov["exhaustive"] = True
    cov["drift_traces"] = drift
    cov["known_findings_hit"] = known_lines
    return {"violations": violations, "known_lines": known_lines, "drift": drift, "level": "model_checking",
            "coverage": cov, "assumptions": ASSUME, "summary": summary}
