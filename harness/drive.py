"""Driving the real library (from /repo's working tree) along merge histories."""
import os
import sys

REPO = os.environ.get("AY_REPO", "/repo")
if REPO not in sys.path:
    sys.path.insert(0, REPO)
HERE = os.path.dirname(os.path.abspath(__file__))
if HERE not in sys.path:
    sys.path.insert(0, HERE)

import sdoc as S
import project as P


def errclass(e):
    import awesomeyaml.errors as errors
    if isinstance(e, errors.Error):
        return type(e).__name__
    return "Crash:" + type(e).__name__


DRIVER = "builder"


def build_tree(docs, safes=None, texts=None):
    """Builder().add_source(text_i, safe=s_i)... .build() -> merged ConfigDict (or raises).
    With DRIVER == "cmdline", documents of the shape process_cmdline produces are given as inline
    `a.b[i].c=value` options to Config.build_from_cmdline (the real grammar is on the path)."""
    if DRIVER == "cmdline" and any(S.is_override_doc(d) for d in docs[1:]):
        from awesomeyaml.config import Config
        srcs = []
        for i, d in enumerate(docs):
            if i >= 1 and S.is_override_doc(d):
                srcs.append(S.override_option(d))
            else:
                srcs.append("---\n" + (texts[i] if texts is not None else S.render_doc(d)))
        return Config.build_from_cmdline(*srcs).ayns.source
    from awesomeyaml.builder import Builder
    b = Builder()
    for i, d in enumerate(docs):
        text = texts[i] if texts is not None else S.render_doc(d)
        kw = {}
        if safes is not None and safes[i] is not None:
            kw["safe"] = bool(safes[i])
        b.add_source(text, raw_yaml=True, **kw)
    return b.build()


def stage_outcomes(docs, safes=None, full=True):
    """Outcome after every stage, obtained by building every prefix through the real
    Builder (so that add_source, preprocess and flatten themselves are on the path).
    Each outcome is a node projection or {"err": class, "path": .., "msg": ..}; stops at the first error."""
    texts = [S.render_doc(d) for d in docs]
    outs = []
    for j in range(1, len(docs) + 1):
        try:
            t = build_tree(docs[:j], safes[:j] if safes else None, texts[:j])
            outs.append(P.project(t) if full else P.project_data(t))
        except Exception as e:  # noqa
            info = P.error_info(e)
            info["err"] = errclass(e)
            outs.append(info)
            break
    return outs


def err_event(o):
    """what is logged for a failed stage: the error class and, where the message names a node path
    ("Node 'a.b[0]' ... requires that the destination already exists"), that path"""
    import re
    ev = {"err": o["err"]}
    m = re.search(r"Node '([^']*)' \(source file", o.get("msg", "") or "")
    if m:
        try:
            ev["what"] = P.path_keys(m.group(1))
        except Exception:
            pass
    return ev


CONSTRUCT = False
EVALUATE = False     # also log the evaluated config (plain data with exact types) in the Construct event


def construct_outcome(docs, safes=None):
    """Config(<merged tree>): status "ok" | "RequiredError" (+ reported paths) | other error class,
    and how many recording targets were called"""
    import re
    import vmod
    from awesomeyaml.config import Config
    import awesomeyaml.errors as errors
    t = build_tree(docs, safes)
    del vmod.CALLS[:]
    del vmod.STACK[:]
    try:
        cfg = Config(t)
        out = {"status": "ok", "paths": [], "calls": len(vmod.CALLS)}
        if EVALUATE:
            import evalobs
            ids, issues = [], []
            out["data"] = evalobs.plain_result(cfg, [], ids, issues)
            if issues:
                out["status"] = "Crash:result-shape:" + str(issues[0][0])
            out["py"] = cfg
        return out
    except errors.Error as e:
        return {"status": type(e).__name__, "paths": [], "calls": len(vmod.CALLS)}
    except ValueError as e:
        msg = str(e)
        if msg.startswith("The following required nodes have not been set"):
            paths = [P.path_keys(m) for m in re.findall(r"^\s+'(.*)'\s*$", msg, flags=re.M)]
            return {"status": "RequiredError", "paths": paths, "calls": len(vmod.CALLS)}
        return {"status": "Crash:ValueError", "paths": [], "calls": len(vmod.CALLS)}
    except Exception as e:  # noqa
        return {"status": "Crash:" + type(e).__name__, "paths": [], "calls": len(vmod.CALLS)}


def history_trace(tid, docs, safes=None):
    safes = safes if safes is not None else [True] * len(docs)
    ev = [{"e": "AddSource", "sd": d, "safe": bool(s)} for d, s in zip(docs, safes)]
    outs = stage_outcomes(docs, safes)
    for j, o in enumerate(outs):
        o2 = o if "err" not in o else err_event(o)
        ev.append({"e": "FlattenFirst" if j == 0 else "MergeStage", "acc": o2})
    if outs and "err" not in outs[-1]:
        ev.append({"e": "Finish"})
        if CONSTRUCT:
            c = construct_outcome(docs, safes)
            c.pop("py", None)
            c["e"] = "Construct"
            ev.append(c)
    return {"tid": tid, "ev": ev}


def evaluate(docs, safes=None, eval_ctx=None):
    """Config built from the history, as plain Python data (or raises)."""
    from awesomeyaml.config import Config
    t = build_tree(docs, safes)
    return Config(t, eval_ctx=eval_ctx)
