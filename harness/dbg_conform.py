"""Debug loop: random histories through the real library, validated by TLC against AyBuildTrace."""
import sys, os, json, random, time
sys.path.insert(0, os.path.dirname(os.path.abspath(__file__)))
import sdoc as S, drive, tlc

def pk(k):
    return str(k["n"]) if k["t"]=="i" else k["s"]
def diff(a, b, p):
    """a = impl, b = model"""
    if ("err" in a) or ("err" in b):
        return [] if a.get("err") == b.get("err") else [(p, "err", a.get("err", "tree"), b.get("err", "tree"))]
    out = []
    for f in ("k","v","fn","ref","pr","del","idel","anew","ianew","safe","isafe","dsafe"):
        if a[f] != b[f]: out.append((p, f, a[f], b[f]))
    if sorted(map(json.dumps,a["md"])) != sorted(map(json.dumps,b["md"])): out.append((p,"md",a["md"],b["md"]))
    ka=[pk(c[0]) for c in a["ch"]]; kb=[pk(c[0]) for c in b["ch"]]
    if ka != kb: out.append((p,"keys",ka,kb)); return out
    for (k,ca),(_,cb) in zip(a["ch"],b["ch"]):
        out += diff(ca,cb,p+"/"+pk(k))
    return out

def main():
    seed = int(sys.argv[1]) if len(sys.argv) > 1 else 0
    n = int(sys.argv[2]) if len(sys.argv) > 2 else 200
    tags = sys.argv[3].split(",") if len(sys.argv) > 3 else ["none"]
    switches = sys.argv[4].split(",") if len(sys.argv) > 4 and sys.argv[4] else []
    rng = random.Random(seed)
    g = S.Gen(rng, keys=("a", "b"), atoms=(1, 2, 0, None), tags=tags, max_depth=3, max_width=2, p_tag=0.35, p_call=float(os.environ.get("PCALL","0")),
              leaf_extra=[S.SD("clear", None, form="tag"), S.with_tag(S.leaf(None), "del")] if os.environ.get("EXTRA") else ())
    wd = tlc.workdir("dbg")
    path = os.path.join(wd, "traces.ndjson")
    hist = {}
    with open(path, "w") as f:
        for tid in range(1, n + 1):
            docs = [g.doc() for _ in range(rng.randint(1, 3))]
            hist[tid] = docs
            f.write(json.dumps(drive.history_trace(tid, docs)) + "\n")
    cfg = tlc.cfg_text(init="TInit", next_="TNext", invariants=["Report"], switches=switches,
                       constants={"Prop": "\"C02\"", "SafeFlags": "{TRUE}", "MinStages": "1", "MaxStages": "9"})
    t0 = time.time()
    r = tlc.run("AyBuildTrace", cfg, wd, env={"TRACE_FILE": path}, workers=8)
    rows = tlc.tuple_prints(r["out"], "TRACE")
    seen = {}
    for row in rows:
        seen[row[0]] = row
    bad = [row for row in seen.values() if row[1] != "ok"]
    missing = [t for t in hist if t not in seen]
    print(f"traces={n} reported={len(seen)} bad={len(bad)} missing={len(missing)} tlc={time.time()-t0:.1f}s states={r['distinct']}")
    from collections import Counter
    print(Counter(row[1] for row in seen.values()))
    for row in sorted(bad, key=lambda r: len(json.dumps(hist[r[0]])))[:int(os.environ.get("SHOW", "3"))]:
        tid = row[0]
        print("---- tid", tid, row[1])
        for d in hist[tid]:
            print(S.render_doc(d).rstrip()); print("  ---")
        outs = drive.stage_outcomes(hist[tid])
        model = json.loads(row[4])["model"] if len(row) > 4 and row[4] else None
        for j, o in enumerate(outs):
            if model and j < len(model):
                ds = diff(o, model[j], "")
                print(" stage", j, "diffs:", ds[:8] if ds else "none")
            else:
                print(" stage", j, "impl", json.dumps(o)[:300])
    if missing:
        print("missing", missing[:5]); print(r["out"][-3000:])
    if not os.environ.get("KEEP"):
        tlc.cleanup(wd)

if __name__ == "__main__":
    main()
