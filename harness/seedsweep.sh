#!/bin/sh
# usage: seedsweep.sh "<seeds>" "<checks>"  - runs quick checks for several seeds, prints one line per run
for s in $1; do for c in $2; do
  out=$(./check $c --tier quick --seed $s 2>&1 | tail -3 | tr '\n' ' ' | cut -c1-600)
  echo "seed=$s $out"
done; done
