"""Importable targets for the function nodes the generators write as `!call:m.f` / `!bind:m.g` (the builder-family checks
never evaluate them; the projection marks a function node whose target cannot be imported, see AyMerge.tla NoImport)."""
import vmod


def f(*args, **kwargs):
    return vmod.rec(*args, **kwargs)


def g(*args, **kwargs):
    return vmod.rec(*args, **kwargs)


def h(*args, **kwargs):
    return vmod.rec(*args, **kwargs)
