"""Derived ("related") histories for the relational properties C05 and C15, and the
conservative Python pre-check used when behaviours are replayed (TLC has the last word:
every pre-check failure is turned into a recorded trace and validated by the trace spec)."""
import copy
import json

import sdoc as S

A, B, Z = S.skey("a"), S.skey("b"), S.skey("z")
PREFIXES = [[A], [B], [A, A], [A, B]]


def wrap_sd(keys, sd):
    for k in reversed(keys):
        sd = S.SD("dict", None, [[k, sd]])
    return sd


def wrap_compact(keys, x):
    if isinstance(x, dict) and "e" in x:
        return x
    for k in reversed(keys):
        x = {"d": [[k["t"] + ":" + (str(k["n"]) if k["t"] == "i" else k["s"]), x]]}
    return x


SIBLINGS = [S.leaf(7), S.with_tag(S.leaf(7), "force"), S.mapping([("a", S.leaf(7))]),
            S.with_tag(S.mapping([("a", S.leaf(7))]), "del"), S.sequence([S.leaf(7)])]


def _can_add_at(sd, q):
    if sd["k"] != "dict":
        return False
    if not q:
        return True
    return any(k == q[0] and c["k"] == "dict" for k, c in sd["ch"])


def _add_sibling_at(sd, q, sib):
    d = copy.deepcopy(sd)
    if not q:
        d["ch"] = d["ch"] + [[Z, copy.deepcopy(sib)]]
        return d
    for e in d["ch"]:
        if e[0] == q[0]:
            e[1]["ch"] = [[Z, copy.deepcopy(sib)]] + e[1]["ch"]
    return d


def c05_relations(docs, rng=None):
    rels = []
    prefixes = PREFIXES if rng is None else [[rng.choice([A, B, S.skey("c")]) for _ in range(rng.randint(1, 4))]]
    for ks in prefixes:
        rels.append({"name": "wrap", "keys": ks, "path": [], "docs": [wrap_sd(ks, d) for d in docs]})
    cands = []
    for j in range(len(docs) if not any(_uses_remove_idiom(d) for d in docs) else 0):
        qs = [[], [A]] if rng is None else [[]] + [[k] for k, c in docs[j]["ch"] if c["k"] == "dict" and k["t"] == "s"]
        for q in qs:
            if _can_add_at(docs[j], q):
                for sib in SIBLINGS:
                    cands.append((j, q, sib))
    if rng is not None:
        cands = rng.sample(cands, min(2, len(cands)))
    for j, q, sib in cands:
        ds = list(docs)
        ds[j] = _add_sibling_at(docs[j], q, sib)
        rels.append({"name": "sibling", "keys": [Z], "path": q, "stage": j + 1, "docs": ds})
    return rels


def _drop_key(x, kstr):
    if isinstance(x, dict) and "d" in x and "c" not in x:
        return {"d": [e for e in x["d"] if e[0] != kstr]}
    return x


def _mod_sibling(rel, base, q):
    if not q:
        return _unordered(_drop_key(rel, "s:z")) == _unordered(base)
    if not (isinstance(rel, dict) and "d" in rel and "c" not in rel):
        return _unordered(rel) == _unordered(base)
    qk = "s:" + q[0]["s"]
    ent = [e for e in rel["d"] if e[0] == qk]
    if not ent:
        return _unordered(rel) == _unordered(base)
    bent = [e for e in base["d"] if e[0] == qk] if isinstance(base, dict) and "d" in base and "c" not in base else []
    if bent and not (isinstance(bent[0][1], dict) and "d" in bent[0][1] and "c" not in bent[0][1]):
        return True
    c = _drop_key(ent[0][1], "s:z")
    base_has = isinstance(base, dict) and "d" in base and any(e[0] == qk for e in base["d"])
    if c == {"d": []} and not base_has and c != ent[0][1]:
        r2 = {"d": [e for e in rel["d"] if e[0] != qk]}
    else:
        r2 = {"d": [[k, (c if k == qk else v)] for k, v in rel["d"]]}
    return _unordered(r2) == _unordered(base)


def _uses_remove_idiom(sd):
    return (sd["del"] == "T" and sd["k"] == "scalar") or any(_uses_remove_idiom(c) for _, c in sd["ch"])


def c05_check(rel, base, got):
    """base: expected compact outcomes of the base history (per stage), got: observed outcomes of the related one.
    Conservative: anything unusual is False and goes to TLC."""
    if len(base) != len(got):
        return False
    for b, g in zip(base, got):
        if isinstance(b, dict) and "e" in b:
            if g != b:
                return False
        elif rel["name"] == "wrap":
            if g != wrap_compact(rel["keys"], b):
                return False
        else:
            if isinstance(g, dict) and "e" in g:
                return False
            if not _mod_sibling(g, b, rel["path"]):
                return False
    return True


# ---------------------------------------------------------------------------
# C15

def _reverse(sd):
    sd = dict(sd)
    ch = [[k, _reverse(c)] for k, c in sd["ch"]]
    sd["ch"] = list(reversed(ch)) if sd["k"] in ("dict", "call", "bind") else ch
    return sd


def _shuffle(sd, rng):
    sd = dict(sd)
    ch = [[k, _shuffle(c, rng)] for k, c in sd["ch"]]
    if sd["k"] in ("dict", "call", "bind"):
        rng.shuffle(ch)
    sd["ch"] = ch
    return sd


def _paths(sd, p=()):
    yield p
    for i, (_, c) in enumerate(sd["ch"]):
        yield from _paths(c, p + (i,))


def _mark_at(sd, p, flag):
    sd = dict(sd)
    if not p:
        fld, val = ("safe", "F") if flag == "unsafe" else ("anew", "T")
        if sd[fld] != "N":
            return None
        if sd["k"] not in ("dict", "list", "scalar"):
            return None
        sd[fld] = val
        sd["form"] = {"none": "tag", "tag": "md", "md": "md"}[sd["form"]]
        return sd
    ch = list(sd["ch"])
    c = _mark_at(ch[p[0]][1], p[1:], flag)
    if c is None:
        return None
    ch[p[0]] = [ch[p[0]][0], c]
    sd["ch"] = ch
    return sd


def c15_relations(docs, rng=None):
    rels = [{"name": "same", "docs": list(docs)}, {"name": "repeat", "docs": list(docs) + [docs[-1]]}]
    pos = range(len(docs) + 1) if rng is None else [rng.randrange(len(docs) + 1)]
    for i in pos:
        rels.append({"name": "empty", "i": i + 1, "docs": list(docs[:i]) + [S.mapping([])] + list(docs[i:])})
    if rng is None:
        rels.append({"name": "perm", "docs": [_reverse(d) for d in docs]})
    else:
        rels.append({"name": "perm", "docs": [_shuffle(d, rng) for d in docs]})
    cands = [(j, p, flag) for j, d in enumerate(docs) for p in _paths(d) for flag in ("unsafe", "new")]
    if rng is not None:
        cands = rng.sample(cands, min(3, len(cands)))
    for j, p, flag in cands:
        m = _mark_at(docs[j], p, flag)
        if m is None:
            continue
        ds = list(docs)
        ds[j] = m
        rels.append({"name": "mark", "flag": flag, "docs": ds})
    return rels


def _unordered(x):
    if isinstance(x, dict):
        if "m" in x and "x" in x:
            return {"m": x["m"], "x": _unordered(x["x"])}
        if "d" in x:
            y = dict(x)
            y["d"] = sorted(([k, _unordered(v)] for k, v in x["d"]), key=lambda e: json.dumps(e, sort_keys=True))
            return y
        return x
    if isinstance(x, list):
        return [_unordered(v) for v in x]
    return x


def c15_check(rel, base, got):
    if not base or not got:
        return False
    b, g = base[-1], got[-1]
    if isinstance(b, dict) and "e" in b:
        return g == b
    if rel["name"] in ("repeat", "perm"):
        return _unordered(g) == _unordered(b)
    if rel["name"] == "same":
        return got == base
    return g == b


RELATIONS = {"c05": (c05_relations, c05_check), "c15": (c15_relations, c15_check)}
