"""Runs every fixture of /repo/tests/yaml_files (not only the 12 the pinned pytest run reaches),
one sub-process each (some !eval fixtures kill the interpreter on CPython 3.12).
Usage: fixtures.py [repo] -> prints JSON {fixture: PASS|FAIL:..|CRASH|TIMEOUT}"""
import json, os, subprocess, sys, glob
from concurrent.futures import ThreadPoolExecutor

WORKER = r'''
import sys, os, unittest
repo, f = sys.argv[1], sys.argv[2]
sys.path.insert(0, repo)
os.chdir(repo)
import tests.yaml_files_test as T
t = T.YamlFileTest.make_test_case_type(test_file=f, class_arg="x")("test")
r = unittest.TestResult()
t.run(r)
if r.wasSuccessful():
    print("RESULT PASS")
else:
    msg = (r.failures + r.errors)[0][1].strip().splitlines()[-1][:200]
    print("RESULT FAIL:" + msg)
'''

def run_one(args):
    repo, f = args
    try:
        p = subprocess.run(["/venv/bin/python", "-c", WORKER, repo, f], stdout=subprocess.PIPE, stderr=subprocess.PIPE, text=True, timeout=60)
    except subprocess.TimeoutExpired:
        return f, "TIMEOUT"
    for line in p.stdout.splitlines():
        if line.startswith("RESULT "):
            return f, line[7:]
    return f, "CRASH rc=%d" % p.returncode

def run_all(repo="/repo"):
    files = sorted(glob.glob(os.path.join(repo, "tests/yaml_files/**/*_test.yaml"), recursive=True))
    with ThreadPoolExecutor(16) as ex:
        res = dict(ex.map(run_one, [(repo, f) for f in files]))
    return {os.path.relpath(k, os.path.join(repo, "tests/yaml_files")): v for k, v in res.items()}

if __name__ == "__main__":
    repo = sys.argv[1] if len(sys.argv) > 1 else "/repo"
    res = run_all(repo)
    json.dump(res, sys.stdout, indent=1)
    from collections import Counter
    print("\n", Counter(v.split(":")[0].split()[0] for v in res.values()), file=sys.stderr)
