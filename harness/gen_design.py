"""Assembles /verif/DESIGN.md from design_parts/00_main.md, the seeded-change table (seeded/*/meta.json) and the
per-property parts written by the sub-agents."""
import glob, json, os
V = os.path.dirname(os.path.dirname(os.path.abspath(__file__)))
out = open(os.path.join(V, "design_parts", "00_main.md")).read().rstrip() + "\n\n"
# section 4: the bounds table is read from the evidence files of the last quick run
rows = ["| check | quick wall (this machine, shared) | TLC states | cases run against the library | traces validated by TLC | distinct non-trivial |", "|---|---|---|---|---|---|"]
for f in sorted(glob.glob(os.path.join(V, "evidence", "C*.json"))):
    e = json.load(open(f)); c = e.get("coverage", {})
    rows.append("| %s (%s, seed %s) | %s s | %s | %s | %s | %s |" % (e["property_id"], e["tier"], e["seed"], round(e.get("wall_s", 0)), c.get("states", ""),
                c.get("evaluations", ""), c.get("traces_validated_against_impl", ""), c.get("distinct_nontrivial", "")))
out = out.replace("<!--BOUNDS-->", "\n".join(rows))
out += "## 10. Seeded changes: which check catches which\n\n"
out += ("One hundred and eight changes to the library (two rounds for every property, a third for C03 C04 C07 C09 C10 C14, a fourth — `-r4mN`, asked for changes that need something specific to manifest — for C06 C08 C11 C12 C13 C16 C17 C20) were written by fresh sub-agents that were given only the text of one property and a scratch\n"
        "worktree (nothing from /verif). Each is kept under `/verif/seeded/<id>/` (patch.diff, demo.py, meta.json) and was confirmed\n"
        "in a scratch worktree: the repository tests give the same result with the change, the demonstration passes without and fails\n"
        "with it. `harness/seeded.py run` applies each change in a scratch worktree (never in /repo) and runs the listed checks with\n"
        "`AY_REPO=<worktree>`. After the `fix:` commits some changes no longer apply / manifest (noted); patches whose context moved were\n"
        "rebased by hand and confirmed again (`rebased` in meta.json, the delivered patch is kept as patch_original.diff). Where a change is\n"
        "not caught by the check of the property it was written for, the check that does catch it is listed. Every change of rounds 2 and 3\n"
        "that was missed at first led to an extension of a universe, a formula or the harness (sections 5/C01, C04, C06, C08, C10, C11, C14, C15, C17).\n"
        "Round 4: 14 of 16 were caught as delivered; C06-r4m1 (a per-build cache of parsed include files: the same node objects handed out\n"
        "twice) needed a file that is *named more than once* in one build - the harness wrote one file per document occurrence - and led to the\n"
        "`*_same` presentations and the universe `C06_DocsRep` (any document at any stage, sequences d, e, d); C06-r4m2 was found by direction A\n"
        "but crashed the re-judging of failing `key_unsafe` histories (a harness defect: machinery error instead of a verdict; corrected).\n"
        "The C16 sub-agent also reported two anomalies of the *unchanged* tree in passing: they are F25 (fixed) and F26 (known finding), section 6.\n\n")
out += "| id | what it breaks / needs | confirmed on HEAD | detected by (quick tier) |\n|---|---|---|---|\n"
for d in sorted(glob.glob(os.path.join(V, "seeded", "*"))):
    m = json.load(open(os.path.join(d, "meta.json")))
    c = m.get("confirmation", {})
    conf = ("obsolete: " + m["obsolete"][:160]) if m.get("obsolete") else ("yes (rebased)" if m.get("rebased") and c.get("confirmed") else "yes") if c.get("confirmed") or m.get("obsolete") else ("patch no longer applies" if not c.get("applies_to_head") else
            ("fails the (now fully running) repo tests: " + str(c.get("tests_with_patch")) if c.get("tests_with_patch") != c.get("tests_without_patch")
             else "demo no longer fails (needed a since-fixed defect)"))
    det = m.get("detection", {})
    dets = ", ".join(f"{k}: {'VIOLATION' if v.get('violation') else 'not caught'}" for k, v in det.items()) or m.get("detection_note", "see text")
    if m.get("obsolete"):
        dets = "n/a (does not manifest on HEAD)"
    out += f"| {os.path.basename(d)} | {str(m.get('summary', ''))[:230].replace('|', '/').replace(chr(10), ' ')} | {conf} | {dets} |\n"
out += "\n"
out += "# Appendix C — per-property sections written by the sub-agents that built the checks\n\n"
for p in sorted(glob.glob(os.path.join(V, "design_parts", "C*.md"))):
    out += open(p).read().rstrip() + "\n\n"
open(os.path.join(V, "DESIGN.md"), "w").write(out)
print(len(out.splitlines()), "lines")
