"""C12 - programs, descriptors and the differential runner for the !eval / f-string name-resolution check.

A *template* is a control-flow skeleton whose free names are slots ($a, $b, $c).  A *program* is
(template, own, bn): `own` = slots the program defines itself (a prefix line `name = 'own:name'`),
`bn` = slots whose name is the name of a Python builtin (max / id / format).  The *descriptor* of a
program is what spec/AyEvalNS.tla knows about it; it is DERIVED from CPython (compile, dis, an
opcode-traced native run), never written by hand:
  events : the dynamic sequence of global-name operations of the program when every name is defined
           (def NAME / use NAME / raise EXC), with phase (exec = all but the last line, eval = last line)
           and scope (module / function / lambda / comprehension / genexpr / class)
  cos    : per code object the facts eval.py's bytecode rewriter depends on (name indices of the loads
           it rewrites, EXTENDED_ARG, jump anchors, exception table) - input of the deviation
           BytecodePatch312
The runner (`serve`) executes histories (sequences of builds) in a freshly forked process each:
the real library (Config.build) and the native reference (exec/eval with plain globals)."""
import ast
import builtins
import dis
import json
import os
import signal
import sys
import types

REPO = os.environ.get("AY_REPO", "/repo")

PLAIN = {"a": "va", "b": "vb", "c": "vc"}
BUILTIN_NAMED = {"a": "max", "b": "id", "c": "format"}
SLOTS = ("a", "b", "c")
WRAPPER = "__ayns_globals_wrapper"


# ------------------------------------------------------------------------------------------------
# templates
def _ext_lines(n):
    return ["n%03d = %d" % (i, i) for i in range(n)]


def T(tid, lines, feats, hist=False):
    return {"id": tid, "kind": "eval", "lines": lines, "feats": feats, "hist": hist}


def F(tid, body, form, feats, hist=False):
    return {"id": tid, "kind": "fstr", "body": body, "form": form, "feats": feats, "hist": hist}


TEMPLATES = [
    # --- expressions (single line: nothing is executed, the line is evaluated)
    T("expr", ["$a"], ["expression"], hist=True),
    T("expr_twice", ["[$a, $a]"], ["expression"]),
    T("expr_pair", ["[$a, $b]"], ["expression"]),
    T("ifexp", ["[$a] if $a else 'no'"], ["expression", "if/else"]),
    T("ifexp_pair", ["[$a] if $b else 'no'"], ["expression", "if/else"]),
    T("call_builtin", ["len([$a])"], ["expression"]),
    T("lambda", ["(lambda q: $a)(0)"], ["lambda"], hist=True),
    T("lambda_pair", ["(lambda q: [q, $a, $b])(0)"], ["lambda"]),
    T("lambda_default", ["(lambda q=$a: q)()"], ["lambda"]),
    T("closure_expr", ["(lambda p: (lambda q: [p, q, $a]))(1)(2)"], ["lambda", "closure"]),
    T("listcomp", ["[$a for _ in (0, 1)]"], ["comprehension"]),
    T("dictcomp", ["{k: $a for k in (0, 1)}"], ["comprehension"]),
    T("genexp", ["list($a for _ in (0, 1))"], ["comprehension", "genexpr"]),
    T("nested_comp", ["[[$a, y] for y in [$b for _ in (0,)]]"], ["comprehension"]),
    T("fstr_in_eval", ["f'<{$a}>'"], ["f-string"]),
    # --- statements before the last line
    T("semicolon", ["t = $a; t"], ["assignment"]),
    T("assign", ["t = $a", "t"], ["assignment"], hist=True),
    T("assign_pair", ["t = $a", "[t, $b]"], ["assignment"]),
    T("augassign", ["t = [$a]", "t += [$b]", "t"], ["assignment"]),
    T("def", ["def f():", "    return $a", "f()"], ["def"], hist=True),
    T("def_default", ["def f(p, q=$a):", "    return [p, q]", "f(1)"], ["def"]),
    T("def_pair", ["def f():", "    return [$a, $b]", "f()"], ["def"]),
    T("closure", ["def mk(p):", "    def g():", "        return [p, $a]", "    return g", "mk(1)()"], ["def", "closure"]),
    T("recursion", ["def f(n):", "    return [$a] if n == 0 else f(n - 1)", "f(2)"], ["def", "if/else"]),
    T("if_stmt", ["if $a:", "    t = 'yes'", "else:", "    t = 'no'", "t"], ["if/else"]),
    T("if_stmt_pair", ["if $a:", "    t = $b", "else:", "    t = 'no'", "t"], ["if/else"]),
    T("for", ["acc = []", "for i in ($a, $b):", "    acc.append(i)", "acc"], ["for"]),
    T("for_fn", ["def f():", "    v = $a", "    acc = []", "    for i in (0, 1):", "        acc.append(v)", "    return acc", "f()"],
      ["for", "def"]),
    T("while", ["n = 0", "acc = []", "while n < 2:", "    acc.append($a)", "    n += 1", "acc"], ["while"]),
    T("while_fn", ["def f():", "    v = $a", "    n = 0", "    while n < 2:", "        n += 1", "    return [v, n]", "f()"],
      ["while", "def"]),
    T("try_except", ["try:", "    raise KeyError($a)", "except KeyError as e:", "    t = e.args[0]", "t"], ["try/except"]),
    T("try_fn", ["def f():", "    v = $a", "    try:", "        return {}[0]", "    except:", "        return ['caught', v]", "f()"],
      ["try/except", "def"]),
    T("try_finally", ["try:", "    t = $a", "finally:", "    u = 1", "[t, u]"], ["try/finally"]),
    T("with", ["import contextlib", "with contextlib.nullcontext($a) as v:", "    t = v", "t"], ["with", "import"]),
    T("with_fn", ["def f(cm):", "    v = $a", "    with cm:", "        return [v]", "import contextlib", "f(contextlib.nullcontext())"],
      ["with", "def", "import"]),
    T("import", ["import math", "[math.floor(1.5), $a]"], ["import"]),
    T("import_from", ["from os.path import basename as bn", "[bn('/x/y'), $a]"], ["import"]),
    T("class_body", ["class K:", "    v = $a", "K.v"], ["class"]),
    # --- the explicit handle on the evaluated config (eval.py:99-102)
    T("ayns_cfg", ["t = 1", "[t, ayns.cfg.$a]"], ["ayns"], hist=True),
    T("ayns_cfg_expr", ["ayns.cfg.$a"], ["ayns", "expression"]),
    # --- user-code exceptions
    T("raise_exec", ["raise ValueError($a)", "0"], ["raise"]),
    T("raise_eval", ["[$a][1]"], ["raise", "expression"], hist=True),
    T("raise_fn", ["def f():", "    return {}[$a]", "f()"], ["raise", "def"]),
    # --- more than 255 names in one code object: EXTENDED_ARG
    T("extended_last", _ext_lines(300) + ["[$a, n299]"], ["extended_arg"]),
    T("extended_first", ["t = $a"] + _ext_lines(300) + ["[t, n299]"], ["extended_arg"]),
    # --- f-string nodes (fstr.py; yaml.py:362-372 normalisation, :505 implicit resolver)
    F("fstr", "<{$a}>", "sq", ["f-string"], hist=True),
    F("fstr_dq", "<{$a}>", "dq", ["f-string"]),
    F("fstr_pair", "{$a}-{$b}", "sq", ["f-string"]),
    F("fstr_twice", "{$a}+{$a}", "dq", ["f-string"]),
    F("fstr_conv", "{$a!r:>24}|", "sq", ["f-string"]),
    F("fstr_explicit", "{$a} and {$a}", "explicit", ["f-string"]),
    F("fstr_explicit_quote", "it's {$a}", "explicit", ["f-string"]),
    F("fstr_lambda", "{(lambda q:$a)(0)}", "sq", ["f-string", "lambda"]),
    F("fstr_comp", "{[$a for _ in (0,)]}", "sq", ["f-string", "comprehension"]),
]
TEMPLATE = {t["id"]: t for t in TEMPLATES}


def template_slots(t):
    text = "\n".join(t["lines"]) if t["kind"] == "eval" else t["body"]
    return [s for s in SLOTS if "$" + s in text]


def slot_name(s, bn):
    return BUILTIN_NAMED[s] if s in bn else PLAIN[s]


def subst(text, bn):
    for s in SLOTS:
        text = text.replace("$" + s, slot_name(s, bn))
    return text


def program_text(t, own, bn):
    """the string held by the !eval / !fstr node"""
    pre = ["%s = 'own:%s'" % (slot_name(s, bn), slot_name(s, bn)) for s in sorted(own)]
    if t["kind"] == "eval":
        return "\n".join(pre + [subst(l, bn) for l in t["lines"]])
    assert not own
    body = subst(t["body"], bn)
    return body  # the f-string BODY; the node text is built by the yaml layer (render_node)


def node_text(t, own, bn):
    """what eval.py sees as str(node) - for f-string nodes after the yaml layer's normalisation"""
    if t["kind"] == "eval":
        return program_text(t, own, bn)
    body = program_text(t, own, bn)
    if t["form"] == "sq":
        return "f'" + body + "'"
    if t["form"] == "dq":
        return 'f"' + body + '"'
    return "f'" + body.replace("'", "\\'") + "'"      # yaml.py:369-370


def render_node(t, own, bn):
    """YAML text of the value of key `r`"""
    if t["kind"] == "eval":
        return "!eval " + json.dumps(program_text(t, own, bn))
    body = program_text(t, own, bn)
    if t["form"] == "sq":
        return "f'" + body + "'"          # plain scalar, implicit resolver
    if t["form"] == "dq":
        return 'f"' + body + '"'
    return "!fstr " + json.dumps(body)


def split_code(text):
    """eval.py:109-113"""
    lines = text.strip().split("\n")
    lines = [ll for line in lines for ll in line.split(";")]
    return "\n".join(lines[:-1]), lines[-1].strip(), len(lines)


def programs(t):
    """all (own, bn) variants of a template"""
    sl = template_slots(t)
    res = []
    for o in range(1 << len(sl)):
        own = frozenset(s for i, s in enumerate(sl) if o >> i & 1)
        if own and t["kind"] == "fstr":
            continue
        for b in range(1 << len(sl)):
            bn = frozenset(s for i, s in enumerate(sl) if b >> i & 1)
            res.append((own, bn))
    return res


def prog_id(tid, own, bn):
    return "%s/o%s/b%s" % (tid, "".join(sorted(own)) or "-", "".join(sorted(bn)) or "-")


# ------------------------------------------------------------------------------------------------
# descriptor: scopes from the AST, events from an opcode-traced native run, rewriter facts from dis
_SCOPE_NODES = {ast.FunctionDef: "function", ast.Lambda: "lambda", ast.ListComp: "comprehension", ast.SetComp: "comprehension",
                ast.DictComp: "comprehension", ast.GeneratorExp: "genexpr", ast.ClassDef: "class"}


def _scope_map(src, mode):
    """(lineno, col) of every Name node -> (innermost scope kind, nesting depth)"""
    tree = ast.parse(src, mode=mode)
    res = {}

    def walk(node, chain):
        k = _SCOPE_NODES.get(type(node))
        sub = chain + [k] if k else chain
        if isinstance(node, ast.Name):
            res[(node.lineno, node.col_offset)] = (chain[-1] if chain else "module", len(chain))
        for f, v in ast.iter_fields(node):
            # decorators / defaults / the first iterable of a comprehension belong to the enclosing scope
            outer = (k in ("function", "lambda") and f in ("decorator_list", "returns")) or \
                    (k in ("function", "lambda") and f == "args")
            vs = v if isinstance(v, list) else [v]
            for x in vs:
                if isinstance(x, ast.AST):
                    walk(x, chain if outer else sub)
    walk(tree, [])
    return res


_LOADS = ("LOAD_NAME", "LOAD_GLOBAL")
_STORES = ("STORE_NAME", "STORE_GLOBAL")


_PRIMED = []


def _prime_opcode_tracing():
    """CPython 3.12 only delivers 'opcode' events to tracers installed AFTER some frame has set
    f_trace_opcodes: set it once on a throw-away frame"""
    if _PRIMED:
        return

    def primer(frame, event, arg):
        frame.f_trace_opcodes = True
        return None
    sys.settrace(primer)
    try:
        exec(compile("0", "<prime>", "exec"), {})
    finally:
        sys.settrace(None)
    _PRIMED.append(1)


def _trace_events(code, scopes, mode, gbls, phase, events):
    """runs `code` natively in `gbls` logging every global-name load / store in execution order;
    scopes: {co_filename: {(line, col): (scope kind, depth)}}"""
    insts = {}

    def info(co):
        if co not in insts:
            insts[co] = {i.offset: i for i in dis.get_instructions(co)}
        return insts[co]

    def tracer(frame, event, arg):
        if frame.f_code.co_filename not in scopes:
            return None
        frame.f_trace_opcodes = True
        if event == "opcode":
            ins = info(frame.f_code).get(frame.f_lasti)
            if ins is not None:
                classbody = frame.f_code.co_name != "<module>" and not frame.f_code.co_flags & 0x1   # not CO_OPTIMIZED
                if ins.opname in _LOADS:
                    if classbody and ins.opname == "LOAD_NAME" and ins.argval in frame.f_locals:
                        return tracer            # found in the class namespace: not a global lookup
                    pos = ins.positions
                    sc = scopes[frame.f_code.co_filename].get((pos.lineno, pos.col_offset))
                    if sc is None:               # implicit loads (__name__ in a class body)
                        sc = ("class" if classbody else "module", 0)
                    events.append({"op": "use", "name": ins.argval, "phase": phase, "scope": sc[0], "depth": sc[1]})
                elif ins.opname == "STORE_GLOBAL" or (ins.opname == "STORE_NAME" and not classbody):
                    events.append({"op": "def", "name": ins.argval, "phase": phase, "scope": "module", "depth": 0})
        return tracer
    old = sys.gettrace()
    _prime_opcode_tracing()
    sys.settrace(tracer)
    try:
        if mode == "exec":
            exec(code, gbls)
            return None
        return eval(code, gbls)
    finally:
        sys.settrace(old)


def _co_facts(co, where, out):
    """facts about one code object as eval.py:189-235 scans it (2 bytes at a time, operand = 1 byte)"""
    code = co.co_code
    n = len(code) // 2
    names = co.co_names
    loads = []            # (instruction index, name index seen by the rewriter, opname)
    ext = False
    jumps = []
    for i in range(n):
        op = code[2 * i]
        opn = dis.opname[op]
        arg = code[2 * i + 1]
        if opn == "EXTENDED_ARG":
            ext = True
        if opn in _LOADS:
            idx = arg >> 1 if opn == "LOAD_GLOBAL" else arg
            if idx < len(names) and names[idx] not in (WRAPPER, "ayns"):
                loads.append((i, idx, opn))
        elif op in dis.hasjrel:
            jumps.append((i, arg, "BACKWARD" in opn, dis._inline_cache_entries[op]))
    loadpos = {i for i, _, _ in loads}
    # new length of every old instruction (eval.py:208-222): LOAD x -> LOAD wrapper [caches] LOAD_ATTR + 9 caches
    # (the caches of a rewritten LOAD_GLOBAL are consumed with it and have no entry in the location map)
    skipped = set()
    for i, _, opn in loads:
        for k in range(dis._inline_cache_entries[dis.opmap[opn]]):
            skipped.add(i + 1 + k)
    newpos, p = {}, 0
    for i in range(n):
        if i in skipped:
            continue
        newpos[i] = p
        if i in loadpos:
            opn = dis.opname[code[2 * i]]
            p += 1 + dis._inline_cache_entries[dis.opmap[opn]] + 1 + dis._inline_cache_entries[dis.opmap["LOAD_ATTR"]]
        else:
            p += 1
    badjump = False
    for j, arg, back, caches in jumps:
        anchor = j - arg if back else j + arg                 # eval.py:256-259 (relative to the jump itself)
        target = j + 1 + caches - arg if back else j + 1 + caches + arg   # CPython >= 3.11
        if anchor not in newpos or target not in newpos:
            badjump = True
            continue
        newrel = abs(newpos[anchor] - newpos[j])
        newtarget = newpos[j] + 1 + caches + (-newrel if back else newrel)
        if newtarget != newpos[target] or newrel > 255:
            badjump = True
    exc = False
    if loads and co.co_exceptiontable:
        first = min(loadpos)
        for e in dis._parse_exception_table(co):
            if max(e.start, e.end, e.target) // 2 > first:
                exc = True
    out.append({"where": where, "kind": co.co_name, "ldIdx": sorted({idx for _, idx, _ in loads}),
                "glob": any(opn == "LOAD_GLOBAL" for _, _, opn in loads),
                "ext": ext, "nnames": len(names), "jmp": badjump and bool(loads), "exc": exc})
    for c in co.co_consts:
        if isinstance(c, types.CodeType):
            _co_facts(c, where, out)


def describe_text(pid, text, kind, names, supplied, feats=(), tmpl=""):
    """descriptor of the program `text` (what eval.py sees as str(node)).
    names: {concrete name: name used in the specification} for the slots (free names);
    supplied: concrete slot names the program does not define itself"""
    ex, ev, nlines = split_code(text)
    gbls = {n: "X:" + n for n in supplied}
    events, raised = [], None
    phase = ["exec"]

    class _Cfg:          # stands for ayns.cfg while tracing: logs which entries the program reads
        def __getattr__(self, n):
            events.append({"op": "ayns", "name": n, "phase": phase[0], "scope": "module", "depth": 0})
            return "X:" + n
    gbls["ayns"] = types.SimpleNamespace(cfg=_Cfg())
    cex = compile(ex, "<c12-exec>", "exec")
    cev = compile(ev, "<c12-eval>", "eval")
    scopes = {"<c12-exec>": _scope_map(ex, "exec") if ex.strip() else {}, "<c12-eval>": _scope_map(ev, "eval")}
    try:
        _trace_events(cex, scopes, "exec", gbls, "exec", events)
        phase[0] = "eval"
        _trace_events(cev, scopes, "eval", gbls, "eval", events)
    except Exception as e:  # the program raises in user code although every name is defined
        raised = type(e).__name__
        events.append({"op": "raise", "name": raised, "phase": phase[0], "scope": "module", "depth": 0})
    # merge runs of definitions of program-internal names (n000 .. n299) into one event
    out = []
    internal = set()
    slotnames = set(names.values())
    for e in events:
        if e["op"] != "raise" and (e["name"].startswith("__") or (e["name"] == "ayns" and e["op"] == "use")):
            continue      # __name__ / __module__ of a class body, the name ayns itself (eval.py:203): not names of the program
        isslot = e["name"] in names and e["op"] != "raise"
        nm = names[e["name"]] if isslot else e["name"]
        e = dict(e, name=nm)
        if e["op"] == "def" and not isslot:
            internal.add(nm)
            if out and out[-1]["op"] == "defs" and out[-1]["phase"] == e["phase"]:
                out[-1]["names"].append(nm)
                continue
            e = {"op": "defs", "name": nm, "names": [nm], "phase": e["phase"], "scope": "module", "depth": 0}
        else:
            e["names"] = [nm]
        out.append(e)
    used = {e["name"] for e in out if e["op"] == "use"} - slotnames
    fixed_builtins = sorted(n for n in used if n not in internal and hasattr(builtins, n))
    unknown = sorted(n for n in used if n not in internal and not hasattr(builtins, n))
    assert not unknown, (pid, unknown)
    cos = []
    _co_facts(cex, "exec", cos)
    _co_facts(cev, "eval", cos)
    return {"id": pid, "tmpl": tmpl, "kind": kind, "own": sorted(names[n] for n in names if n not in supplied),
            "bn": sorted(names[n] for n in names if hasattr(builtins, n)),
            "slots": sorted(slotnames), "events": out, "builtins": fixed_builtins,
            "multiline": nlines > 1, "persistent": kind == "eval", "cos": cos, "feats": list(feats)}


def describe(t, own, bn, concrete=False):
    """descriptor of the program (template, own, bn); slot names are kept abstract ($a..) unless concrete
    (direction B mixes programs in one process: there the specification sees the real names)"""
    sl = template_slots(t)
    names = {slot_name(s, bn): (slot_name(s, bn) if concrete else "$" + s) for s in sl}
    supplied = [slot_name(s, bn) for s in sl if s not in own]
    return describe_text(prog_id(t["id"], own, bn), node_text(t, own, bn), t["kind"], names, supplied, t["feats"], t["id"])


def concrete_name(d, n):
    """the Python identifier of the specification-level name n of program descriptor d"""
    if not n.startswith("$"):
        return n
    return BUILTIN_NAMED[n[1:]] if n in d["bn"] else PLAIN[n[1:]]


# ------------------------------------------------------------------------------------------------
# direction B: programs from a random grammar (larger than the template set)
def _gen_expr(rng, slots, depth, safe):
    """an expression over the slots; safe = at most one global name per code object (what the pinned
    rewriter can handle on CPython 3.12), so that histories stay observable"""
    if depth <= 0 or rng.random() < 0.25:
        return "$" + rng.choice(slots)
    forms = ["(lambda q: %s)(0)", "(lambda q=%s: q)()", "[%s]", "f'<{%s}>'", "(lambda p: (lambda q: [p, %s]))(1)(2)", "(%s, 1)"]
    if not safe:
        forms += ["[%s, %s]", "[%s for _ in (0, 1)]", "(%s if %s else 0)", "list(%s for _ in (0,))", "{'k': %s}", "[len([%s]), %s]"]
    f = rng.choice(forms)
    n = f.count("%s")
    sub = tuple(_gen_expr(rng, slots, depth - 1, safe) for _ in range(n))
    if safe and f in ("[%s]", "(%s, 1)", "f'<{%s}>'") and not sub[0].startswith(("$", "(lambda")):
        pass
    return f % sub


def gen_template(rng, n):
    """a random template (same shape as TEMPLATES entries)"""
    safe = rng.random() < 0.7
    slots = rng.sample(list(SLOTS), 1 if safe else rng.randint(1, 3))
    if rng.random() < 0.2:
        e = _gen_expr(rng, slots, 2, safe).replace("'<{", "<{").replace("}>'", "}>")
        if "'" not in e and '"' not in e and ": " not in e and "#" not in e:
            return F("g%d" % n, "[" + "{" + e + "}" + "]", rng.choice(["sq", "dq", "explicit"]), ["f-string", "generated"])
    lines = []
    last = []
    if safe:
        # one global name per code object: the slot is read inside its own function / lambda or alone on a line
        e = _gen_expr(rng, slots, rng.randint(0, 3), True)
        inner = e if e.startswith("$") else None
        shape = rng.choice(["expr", "assign", "def", "def_loop", "semi"])
        if not (inner or "lambda" in e.split("$")[0]):
            shape = "def" if shape in ("expr", "assign", "semi") else shape   # keep the slot in a code object of its own
        if shape == "expr":
            lines = [e]
        elif shape == "assign":
            lines = ["t = " + e, "t"]
        elif shape == "semi":
            lines = ["t = " + e + "; t"]
        elif shape == "def":
            lines = ["def f():", "    return " + e, "f()"]
        else:
            lines = ["def f():", "    v = " + e, "    acc = []", "    for i in (0, 1):", "        acc.append(v)", "    return acc", "f()"]
        return T("g%d" % n, lines, ["generated", "safe-shaped"])
    k = 0
    for _ in range(rng.randint(0, 3)):
        e = _gen_expr(rng, slots, 2, False)
        st = rng.choice(["assign", "def", "if", "for", "try", "with", "import"])
        k += 1
        if st == "assign":
            lines += ["t%d = %s" % (k, e)]
            last.append("t%d" % k)
        elif st == "def":
            lines += ["def f%d(p=0):" % k, "    return [p, %s]" % e]
            last.append("f%d()" % k)
        elif st == "if":
            lines += ["if %s:" % e, "    t%d = %s" % (k, _gen_expr(rng, slots, 1, False)), "else:", "    t%d = 0" % k]
            last.append("t%d" % k)
        elif st == "for":
            lines += ["t%d = []" % k, "for i%d in (%s, 0):" % (k, e), "    t%d.append(i%d)" % (k, k)]
            last.append("t%d" % k)
        elif st == "try":
            lines += ["try:", "    t%d = [%s][1]" % (k, e), "except IndexError:", "    t%d = %s" % (k, _gen_expr(rng, slots, 1, False)), "finally:", "    u%d = 1" % k]
            last.append("[t%d, u%d]" % (k, k))
        elif st == "with":
            lines += ["import contextlib", "with contextlib.nullcontext(%s) as w%d:" % (e, k), "    t%d = w%d" % (k, k)]
            last.append("t%d" % k)
        else:
            lines += ["import math"]
            last.append("math.floor(1.5)")
    last.append(_gen_expr(rng, slots, 2, False))
    lines.append("[" + ", ".join(last) + "]")
    return T("g%d" % n, lines, ["generated"])


def prog_table(tids=None, only=None):
    """descriptors of every (own, bn) variant of the given templates"""
    res = []
    for t in TEMPLATES:
        if tids is not None and t["id"] not in tids:
            continue
        for own, bn in programs(t):
            d = describe(t, own, bn)
            if only is None or only(d):
                res.append(d)
    return res


# ------------------------------------------------------------------------------------------------
# values
def canon(v):
    if isinstance(v, (str, int, float, bool)) or v is None:
        return v
    if isinstance(v, (list, tuple)):
        return [canon(x) for x in v]
    if isinstance(v, dict):
        return {"dict": [[canon(k), canon(x)] for k, x in v.items()]}
    n = getattr(v, "__name__", None)
    if n and getattr(builtins, n, None) is v:
        return {"builtin": n}
    return {"repr": type(v).__name__}


def canon_exc(e):
    if isinstance(e, NameError) and not isinstance(e, UnboundLocalError):
        # CPython: NameError("name 'x' is not defined", name='x'); eval.py:46: NameError('x')
        n = getattr(e, "name", None) or (e.args[0] if e.args and str(e.args[0]).isidentifier() else None)
        if n:
            return {"type": "NameError", "args": [n]}
    return {"type": type(e).__name__, "args": canon(list(e.args))}


def value_of(src, ver, name):
    return "%s%d:%s" % (src, ver, name) if src in ("sym", "cfg") else "own:" + name


# ------------------------------------------------------------------------------------------------
# running one history (in a forked child)
def yaml_of(build, node):
    """the config document of one build: the entries (plain strings) and the node under key r.
    layout: 0 = entries before r, 1 = entries after r (evaluated on demand), 2 = entries are themselves computed,
    3 = as 0, preceded by a SIBLING !eval node whose code defines every entry / symbol name in its own globals (a node's
    definitions are its own: the names r uses still resolve as the specification says)"""
    lay = build.get("layout", 0)
    ents = []
    for name, ver in sorted(build["cfg"].items()):
        val = value_of("cfg", ver, name)
        if lay == 2:
            ents.append("%s: !eval %s" % (name, json.dumps(repr(val[:3]) + " + " + repr(val[3:]))))
        else:
            ents.append("%s: %s" % (name, json.dumps(val)))
    r = "r: " + node
    if lay == 3:
        names = sorted(set(build["cfg"]) | set(build.get("syms", {})))
        code = "globals().update({" + ", ".join("%r: 'LEAK'" % n for n in names) + "}) or 0"
        ents = ["q0: !eval " + json.dumps(code)] + ents
    lines = [r] + ents if lay == 1 else ents + [r]
    return "\n".join(lines) + "\n"


def run_impl(builds, out):
    """child: Config.build for every build of the history, one JSON line per build"""
    sys.path.insert(0, REPO)
    import warnings
    warnings.simplefilter("ignore")
    from awesomeyaml.config import Config
    from awesomeyaml.eval_context import EvalContext
    from awesomeyaml.errors import EvalError
    import awesomeyaml.errors as errors
    for b in builds:
        text = yaml_of(b, b["node"])
        syms = {n: value_of("sym", v, n) for n, v in b["syms"].items()}
        kw = {"filename": "<c12>"} if b["file"] else {}
        res = {}
        try:
            if b.get("ctx", "arg") == "none" and not syms:
                cfg = Config.build(text, **kw)
            else:
                cfg = Config.build(text, eval_ctx=EvalContext(syms), **kw)
            res = {"kind": "value", "value": canon(cfg["r"])}
        except EvalError as e:
            c = e.__cause__
            res = {"kind": "EvalError", "cause": canon_exc(c) if c is not None else None, "path": str(getattr(e, "path", ""))}
        except errors.Error as e:
            res = {"kind": type(e).__name__, "msg": str(e)[:200]}
        except BaseException as e:  # noqa
            res = {"kind": "Raised", "cause": canon_exc(e)}
        mods = sorted(m for m in sys.modules if m.startswith("awesomeyaml.eval_node_namespace."))
        res["modules"] = len(mods)
        res["defsyms"] = sorted(EvalContext.get_default_eval_symbols())
        out.write(json.dumps(res) + "\n")
        out.flush()


class _AynsCfg:
    """what ayns.cfg is for the native run: the evaluated entries of the config, KeyError for others (eval_context.py:41-44)"""
    def __init__(self, d):
        self.__dict__["_d"] = d

    def __getattr__(self, n):
        if n in self._d:
            return self._d[n]
        raise KeyError(n)


def run_native(builds, out):
    """child: the reference - exec / eval of the same text with plain globals holding the resolved names"""
    for b in builds:
        g = dict(b["globals"])
        g["ayns"] = types.SimpleNamespace(cfg=_AynsCfg(g.pop("ayns.cfg", {})))
        ex, ev, _ = split_code(b["text"])
        try:
            exec(compile(ex, "<c12>", "exec"), g)
            res = {"kind": "value", "value": canon(eval(compile(ev, "<c12>", "eval"), g))}
        except BaseException as e:  # noqa
            res = {"kind": "EvalError", "cause": canon_exc(e)}
        out.write(json.dumps(res) + "\n")
        out.flush()


class _Tagged:
    def __init__(self, out, tag):
        self.out, self.tag = out, tag

    def write(self, line):
        self.out.write(self.tag + " " + line)

    def flush(self):
        self.out.flush()


def run_job(job, out):
    """child: the native reference runs first (they cannot disturb the library), then the library"""
    for key in job.get("natives", []):          # names of per-build globals variants: "globals", "globals_asis"
        run_native([dict(b, globals=b.get(key) or {}) for b in job["builds"]], _Tagged(out, key))
    if job.get("impl", True):
        run_impl(job["builds"], _Tagged(out, "impl"))


def _forked(job, timeout=30):
    """runs the job in a forked child; -> {tag: [outcome per build]}; a build the child died in is Crash / Hang"""
    r, w = os.pipe()
    pid = os.fork()
    if pid == 0:
        try:
            os.close(r)
            signal.alarm(timeout)
            sys.setrecursionlimit(400)
            with os.fdopen(w, "w") as out:
                run_job(job, out)
            os._exit(0)
        except BaseException:  # noqa
            os._exit(3)
    os.close(w)
    with os.fdopen(r) as f:
        data = f.read()
    _, status = os.waitpid(pid, 0)
    res = {key: [] for key in job.get("natives", [])}
    if job.get("impl", True):
        res["impl"] = []
    for line in data.splitlines():
        tag, _, body = line.partition(" ")
        try:
            res[tag].append(json.loads(body))
        except Exception:
            break
    for tag in res:
        if len(res[tag]) < len(job["builds"]):
            if os.WIFSIGNALED(status):
                sig = os.WTERMSIG(status)
                res[tag].append({"kind": "Hang" if sig == signal.SIGALRM else "Crash", "signal": sig})
            else:
                res[tag].append({"kind": "Crash", "exit": os.WEXITSTATUS(status)})
            break
    return res


def serve():
    """server loop: one JSON job per line on stdin -> one JSON answer per line on stdout"""
    sys.path.insert(0, REPO)
    # import everything once (no build is performed): every history runs in a fresh fork of this pristine process
    import gc
    import importlib
    import pkgutil
    import awesomeyaml
    import awesomeyaml.config  # noqa
    for m in pkgutil.walk_packages(awesomeyaml.__path__, "awesomeyaml."):
        try:
            importlib.import_module(m.name)
        except Exception:  # noqa
            pass
    import warnings  # noqa
    gc.collect()
    gc.freeze()
    for line in sys.stdin:
        job = json.loads(line)
        ans = _forked(job)
        ans["id"] = job["id"]
        sys.stdout.write(json.dumps(ans) + "\n")
        sys.stdout.flush()


if __name__ == "__main__":
    if sys.argv[1:] == ["--serve"]:
        serve()
    elif sys.argv[1:2] == ["--describe"]:
        t = TEMPLATE[sys.argv[2]]
        for own, bn in programs(t)[:1]:
            print(json.dumps(describe(t, own, bn), indent=1))
