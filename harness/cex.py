"""Run one exhaustive cfg of MC_Build and show a refuting history as YAML.
Usage: cex.py DOCS INVARIANTS MIN MAX [switches] [range] [mutation]"""
import json, os, sys
sys.path.insert(0, os.path.dirname(os.path.abspath(__file__)))
import tlc, sdoc as S, engine as E
a = sys.argv
sw = [x for x in a[5].split(",") if x] if len(a) > 5 else []
wd = tlc.workdir("cex")
try:
    ex = E.exhaustive("x", a[1], int(a[3]), int(a[4]), a[2].split(","), wd, switches=sw, emit=False,
                      mutation=a[7] if len(a) > 7 else None, doc_range=(a[6] if len(a) > 6 and a[6] else "WholeRange"),
                      timeout=int(os.environ.get("TLC_TIMEOUT", "1100")))
    print(f"universe={len(ex['universe'])} wall={ex['wall']:.1f}s generated={ex['transitions']} distinct={ex['states']} violated={ex['violated']}")
    v = ex["cex"]
    if v:
        print("counterexample to", v["cex"])
        for d in v["docs"]:
            print("---\n" + S.render_doc(d), end="")
        for j, x in enumerate(v["x"]):
            print(f"  model after stage {j+1}: {json.dumps(x)}")
finally:
    tlc.cleanup(wd)
